#!/usr/bin/env python3
"""confirm a seeded change in its scratch worktree, run the given checks against it (applied to /repo and
undone straight afterwards), and file it under /verif/seeded/<prop>-<n>/.
usage: tools/seed_pipeline.py <prop> <n> <crate> <needs-to-manifest text> <check ids...>"""
import json
import os
import shutil
import subprocess
import sys

V = os.path.dirname(os.path.dirname(os.path.abspath(__file__)))


def sh(cmd, cwd=None, timeout=None):
    p = subprocess.run(cmd, shell=True, cwd=cwd, stdout=subprocess.PIPE, stderr=subprocess.STDOUT, timeout=timeout)
    return p.returncode, p.stdout.decode("utf-8", "replace")


def main():
    prop, n, crate, needs = sys.argv[1], sys.argv[2], sys.argv[3], sys.argv[4]
    checks = sys.argv[5:]
    rnd = int(os.environ.get("SEED_ROUND", "1"))
    src = "/tmp/seed/out%s/%s/%s" % ("" if rnd == 1 else str(rnd), prop, n)
    wt = "/tmp/seed/%s%s" % (prop, ["", "b", "c", "d", "e", "f", "g", "h"][rnd - 1])
    fid = str(int(n) + 2 * (rnd - 1))
    rc, out = sh("python3 %s/tools/confirm_seed.py %s %s %s" % (V, wt, src, crate))
    try:
        conf = json.loads(out.strip().splitlines()[-1])
    except Exception:
        conf = {"error": out[-500:]}
    print("confirm:", {k: v for k, v in conf.items() if k != "demo_failure_excerpt"}, flush=True)
    rc, out = sh("python3 %s/tools/run_seed.py %s/patch.diff %s" % (V, src, " ".join(checks)), timeout=3600)
    print(out[-1500:], flush=True)
    results = {}
    for line in out.splitlines():
        if line.startswith("{"):
            try:
                results = json.loads(line)
            except Exception:
                pass
    caught = [p for p, r in results.items() if r.get("rc")]
    how = {p: [l.strip()[:300] for l in r.get("lines", [])[:3]] for p, r in results.items() if r.get("rc")}
    d = os.path.join(V, "seeded", "%s-%s" % (prop, fid))
    os.makedirs(d, exist_ok=True)
    for f in ("patch.diff", "demo.rs", "notes.txt"):
        if os.path.exists(os.path.join(src, f)):
            shutil.copy(os.path.join(src, f), os.path.join(d, f))
    meta = {"property": prop,
            "breaks": open("/tmp/seed/%s.property.txt" % prop).read().split("\n")[0],
            "needs_to_manifest": needs,
            "produced_by": "fresh sub-agent given only the property text and a scratch worktree of /repo (no access to /verif)",
            "confirmed_in_scratch_worktree": {k: v for k, v in conf.items() if k != "demo_failure_excerpt"},
            "demo_failure_excerpt": str(conf.get("demo_failure_excerpt", ""))[:300],
            "confirm_cmd": "tools/confirm_seed.py <worktree> seeded/%s-%s %s" % (prop, fid, crate),
            "ran": "tools/run_seed.py seeded/%s-%s/patch.diff %s   (git -C /repo apply; ./check <id> --tier quick; git -C /repo checkout -- .)" % (prop, fid, " ".join(checks)),
            "round": rnd,
            "checks_run": checks, "caught_by": caught, "how": how}
    json.dump(meta, open(os.path.join(d, "meta.json"), "w"), indent=1, ensure_ascii=False)
    print("FILED %s-%s caught_by=%s" % (prop, fid, caught))


if __name__ == "__main__":
    main()
