#!/usr/bin/env python3
"""prints the lake targets / cargo bins needed by the claimed properties (tools/claims/*.json)"""
import importlib
import os
import sys

V = os.path.dirname(os.path.dirname(os.path.abspath(__file__)))
sys.path.insert(0, os.path.join(V, "tools"))
ids = sorted(f[:-5] for f in os.listdir(os.path.join(V, "tools", "claims")) if f.endswith(".json"))
lake, bins = [], []
for i in ids:
    P = importlib.import_module("fv.props.%s" % i.lower()).P
    lake.append("FluentProofs.Props.%s" % i)
    lake.extend(getattr(P, "EXTRA_MODULES", []))
    for a in [P.AREA] + list(getattr(P, "EXTRA_AREAS", [])):
        if "fvm_" + a not in lake:
            lake.append("fvm_" + a)
        if "fvh_" + a not in bins:
            bins.append("fvh_" + a)
if sys.argv[1] == "lake":
    print(" ".join(lake))
else:
    print(" ".join("--bin " + b for b in bins))
