#!/usr/bin/env python3
"""Confirm a seeded change in a scratch worktree (never in /repo):
   with the patch: existing suite passes AND the demonstration fails; without it: the demonstration passes.
usage: tools/confirm_seed.py <worktree> <outdir/N> <crate> [<demo test name>]"""
import os
import shutil
import subprocess
import sys


def sh(cmd, cwd):
    env = dict(os.environ, CARGO_NET_OFFLINE="true", CARGO_TARGET_DIR=os.path.join(cwd, "target"))
    p = subprocess.run(cmd, shell=True, cwd=cwd, stdout=subprocess.PIPE, stderr=subprocess.STDOUT, env=env, timeout=3600)
    return p.returncode, p.stdout.decode("utf-8", "replace")


def main():
    wt, out, crate = sys.argv[1], sys.argv[2], sys.argv[3]
    name = sys.argv[4] if len(sys.argv) > 4 else "seed_demo"
    out = os.path.abspath(out)
    # the demonstration's head comment names the crate (and cargo features) it was written for: that wins over the argument
    import re
    head = "".join(open(os.path.join(out, "demo.rs"), errors="replace").readlines()[:12])
    feat = ""
    m = re.search(r"cargo test[^\n]*?-p\s+([A-Za-z0-9_-]+)", head)
    if m and os.path.isdir(os.path.join(wt, m.group(1))):
        crate = m.group(1)
    m = re.search(r"--features[ =]([A-Za-z0-9_,-]+)", head)
    if m:
        feat = " --features " + m.group(1)
    demo_dst = os.path.join(wt, crate, "tests", name + ".rs")
    sh("git checkout -- . && git clean -fdq -e target", wt)
    res = {}
    os.makedirs(os.path.dirname(demo_dst), exist_ok=True)
    shutil.copy(os.path.join(out, "demo.rs"), demo_dst)
    rc, o = sh("cargo test --offline -p %s%s --test %s" % (crate, feat, name), wt)
    res["demo_without_patch_passes"] = (rc == 0)
    os.remove(demo_dst)
    rc, o = sh("git apply --whitespace=nowarn %s" % os.path.join(out, "patch.diff"), wt)
    res["patch_applies"] = (rc == 0)
    rc, o = sh("cargo test --workspace --no-fail-fast --offline", wt)
    res["suite_with_patch_passes"] = (rc == 0)
    shutil.copy(os.path.join(out, "demo.rs"), demo_dst)
    rc, o = sh("timeout 300 cargo test --offline -p %s%s --test %s" % (crate, feat, name), wt)
    res["demo_with_patch_fails"] = (rc != 0)
    res["demo_failure_excerpt"] = "\n".join(l for l in o.splitlines() if "panicked" in l or "FAILED" in l or "assert" in l)[:600]
    os.remove(demo_dst)
    sh("git checkout -- . && git clean -fdq -e target", wt)
    import json
    res["crate"] = crate + feat
    print(json.dumps(res))
    return 0 if all(v for k, v in res.items() if k not in ("demo_failure_excerpt", "crate")) else 1


if __name__ == "__main__":
    sys.exit(main())
