#!/usr/bin/env python3
"""File a round of seeded changes, several at a time: (A) confirm each change in the scratch worktree it was written in
(tools/confirm_seed.py: demo passes without the patch, suite passes and demo fails with it) and copy it to
seeded/<prop>-<id>/ with its meta.json, then (B) run the listed checks against every new change with
tools/par_seeds.py (private worktrees and copies; /repo is not touched) and record which checks report it.

usage: tools/par_pipeline.py <round> <spec.json>      spec = [{"prop": "C01", "n": 1, "needs": "...", "checks": ["C01", "C03"]}, ...]
(outputs of round r are expected in /tmp/seed/out<r>/<prop>/<n>/, worktrees in /tmp/seed/<prop><suffix>)"""
import json
import os
import shutil
import subprocess
import sys
from concurrent.futures import ThreadPoolExecutor

V = os.path.dirname(os.path.dirname(os.path.abspath(__file__)))
SUFFIX = ["", "b", "c", "d", "e", "f", "g", "h", "i", "j", "k", "l", "m", "n", "o"]


def sh(cmd, timeout=None):
    p = subprocess.run(cmd, shell=True, stdout=subprocess.PIPE, stderr=subprocess.STDOUT, timeout=timeout)
    return p.returncode, p.stdout.decode("utf-8", "replace")


def file_one(rnd, it):
    prop, n = it["prop"], int(it["n"])
    src = "/tmp/seed/out%s/%s/%d" % ("" if rnd == 1 else str(rnd), prop, n)
    wt = "/tmp/seed/%s%s" % (prop, SUFFIX[rnd - 1])
    fid = "%s-%d" % (prop, n + 2 * (rnd - 1))
    rc, out = sh("python3 %s/tools/confirm_seed.py %s %s %s" % (V, wt, src, it.get("crate", "fluent-bundle")), timeout=7200)
    try:
        conf = json.loads(out.strip().splitlines()[-1])
    except Exception:
        conf = {"error": out[-400:]}
    d = os.path.join(V, "seeded", fid)
    os.makedirs(d, exist_ok=True)
    for f in ("patch.diff", "demo.rs", "notes.txt"):
        if os.path.exists(os.path.join(src, f)):
            shutil.copy(os.path.join(src, f), os.path.join(d, f))
    meta = {"property": prop,
            "breaks": open("/tmp/seed/%s.property.txt" % prop).read().split("\n")[0],
            "needs_to_manifest": it["needs"],
            "produced_by": "fresh sub-agent given only the property text and a scratch worktree of /repo (no access to /verif)",
            "confirmed_in_scratch_worktree": {k: v for k, v in conf.items() if k != "demo_failure_excerpt"},
            "demo_failure_excerpt": str(conf.get("demo_failure_excerpt", ""))[:300],
            "confirm_cmd": "tools/confirm_seed.py <worktree> /verif/seeded/%s <crate named in the demo's head comment>" % fid,
            "ran": "tools/par_seeds.py --checks-from-meta --update %s   (patch applied in a private worktree of /repo; ./check <id> --tier quick in a private copy of /verif)" % fid,
            "round": rnd, "checks_run": it["checks"], "caught_by": [], "how": {}}
    old = os.path.join(d, "meta.json")
    if os.path.exists(old):
        # re-confirmation of a change that is already filed: keep what the checks found
        o = json.load(open(old))
        for k in ("caught_by", "how", "caught_at_first", "check_strengthened", "checks_run"):
            if k in o:
                meta[k] = o[k]
    json.dump(meta, open(os.path.join(d, "meta.json"), "w"), indent=1, ensure_ascii=False)
    ok = all(v for k, v in conf.items() if k not in ("demo_failure_excerpt", "crate"))
    print("%s confirm=%s %s" % (fid, "ok" if ok else "FAILED", {k: v for k, v in conf.items() if k not in ("demo_failure_excerpt",)}), flush=True)
    return fid


def main():
    rnd = int(sys.argv[1])
    spec = json.load(open(sys.argv[2]))
    # the two changes of one property share that property's scratch worktree: one thread per PROPERTY
    groups = {}
    for it in spec:
        groups.setdefault(it["prop"], []).append(it)
    with ThreadPoolExecutor(max_workers=6) as ex:
        ids = [i for g in ex.map(lambda its: [file_one(rnd, it) for it in its], groups.values()) for i in g]
    if "--confirm-only" in sys.argv:
        return
    os.execvp("python3", ["python3", os.path.join(V, "tools", "par_seeds.py"), "-j", "5", "--checks-from-meta", "--update"] + ids)


if __name__ == "__main__":
    main()
