#!/usr/bin/env python3
"""translator-lite: constants and tables the models need, re-extracted from /repo source on every run
into lean/FluentModel/Generated.lean (only rewritten when the content changes)."""
import os
import re
import sys

REPO = "/repo"
OUT = os.path.join(os.path.dirname(os.path.dirname(os.path.abspath(__file__))), "lean", "FluentModel", "Generated.lean")


def read(p):
    return open(os.path.join(REPO, p), encoding="utf-8").read()


def main():
    items = []
    # placeable limit
    src = read("fluent-bundle/src/resolver/pattern.rs")
    m = re.search(r"const\s+MAX_PLACEABLES\s*:\s*u8\s*=\s*(\d+)\s*;", src)
    if not m:
        print("extract_consts: MAX_PLACEABLES not found")
        return 1
    items.append("def maxPlaceables : Nat := %s" % m.group(1))
    # ECMA-402 clamp for minimumFractionDigits
    src = read("fluent-bundle/src/types/number.rs")
    m = re.search(r"const\s+MAX_FRACTION_DIGITS\s*:\s*usize\s*=\s*(\d+)\s*;", src)
    if not m:
        print("extract_consts: MAX_FRACTION_DIGITS not found")
        return 1
    items.append("def maxFractionDigits : Nat := %s" % m.group(1))
    # C13: replacement character of the escape decoder
    src = read("fluent-syntax/src/unicode.rs")
    m = re.search(r"const\s+UNKNOWN_CHAR\s*:\s*char\s*=\s*'(.)'\s*;", src)
    if not m:
        print("extract_consts: UNKNOWN_CHAR not found")
        return 1
    items.append("def unknownCharCode : Nat := 0x%X" % ord(m.group(1)))
    # C20: pseudolocalisation tables (code points, in source order) and the two regex sources
    src = read("fluent-pseudo/src/lib.rs")
    for rust, lean in (("TRANSFORM_SMALL_MAP", "pseudoSmallMap"), ("TRANSFORM_CAPS_MAP", "pseudoCapsMap"),
                       ("FLIPPED_SMALL_MAP", "pseudoFlippedSmallMap"), ("FLIPPED_CAPS_MAP", "pseudoFlippedCapsMap")):
        m = re.search(r"static\s+%s\s*:\s*&\[char\]\s*=\s*&\[(.*?)\]\s*;" % rust, src, re.S)
        if not m:
            print("extract_consts: %s not found" % rust)
            return 1
        chars = re.findall(r"'(\\u\{[0-9a-fA-F]+\}|\\.|[^'\\])'", m.group(1))
        cps = []
        for c in chars:
            if c.startswith("\\u{"):
                cps.append(int(c[3:-1], 16))
            elif c.startswith("\\"):
                cps.append(ord({"n": "\n", "t": "\t", "r": "\r", "0": "\0"}.get(c[1], c[1])))
            else:
                cps.append(ord(c))
        items.append("def %s : List Nat := [%s]" % (lean, ", ".join("0x%X" % c for c in cps)))
    for var, lean in (("RE_EXCLUDED", "pseudoExcludedRegex"), ("RE_AZ", "pseudoAzRegex")):
        m = re.search(r"%s\s*\.get_or_insert_with\(\|\|\s*Regex::new\(r\"([^\"]*)\"\)" % var, src)
        if not m:
            print("extract_consts: regex of %s not found" % var)
            return 1
        items.append("def %s : List Nat := [%s]" % (lean, ", ".join(str(ord(c)) for c in m.group(1))))
    # --- constants the hand-written models contain as literals; `FluentProofs/ConstTie.lean` proves the
    # literals equal to these extracted values, so a changed source constant breaks a proof obligation
    def need(m, what):
        if not m:
            print("extract_consts: %s not found" % what)
            raise SystemExit(1)
        return m

    def byte_list(txt):
        """b'x' literals in a Rust expression -> byte values"""
        out = []
        for c in re.findall(r"b'(\\.|[^'\\])'", txt):
            out.append(ord({"\\n": "\n", "\\r": "\r", "\\t": "\t", "\\\\": "\\", "\\'": "'"}.get(c, c[-1])))
        return out

    src = read("fluent-bundle/src/resolver/pattern.rs")
    marks = re.findall(r"write_char\('\\u\{([0-9a-fA-F]+)\}'\)", src)
    if len(marks) != 2:
        print("extract_consts: FSI/PDI write_char sites not found")
        return 1
    items.append("def fsiCodePoint : Nat := 0x%s" % marks[0].upper())
    items.append("def pdiCodePoint : Nat := 0x%s" % marks[1].upper())
    src = read("fluent-bundle/src/types/mod.rs")
    kws = re.findall(r'"([a-z]+)"\s*=>\s*PluralCategory::([A-Z]+)', src)
    if len(kws) != 6:
        print("extract_consts: plural keywords not found")
        return 1
    items.append("def pluralKeywords : List (String × String) := [%s]" % ", ".join('("%s", "%s")' % (k, c.lower()) for k, c in kws))
    src = read("fluent-syntax/src/parser/slice.rs")
    m = need(re.search(r"fn matches_fluent_ws\(c: char\) -> bool \{\s*([^}]*)\}", src), "matches_fluent_ws")
    ws = [ord({"\\n": "\n", "\\r": "\r"}.get(c, c)) for c in re.findall(r"c == '(\\.|.)'", m.group(1))]
    items.append("def fluentWs : List Nat := [%s]" % ", ".join(map(str, ws)))
    src = read("fluent-syntax/src/parser/helper.rs")
    m = need(re.search(r"fn is_byte_pattern_continuation\(b: u8\) -> bool \{\s*!matches!\(b,([^)]*)\)", src), "is_byte_pattern_continuation")
    items.append("def patternBreakBytes : List Nat := [%s]" % ", ".join(map(str, byte_list(m.group(1)))))
    m = need(re.search(r"new_line && \(b\.is_ascii_alphabetic\(\) \|\| \[([^\]]*)\]\.contains\(b\)\)", src), "entry start bytes")
    items.append("def entryStartBytes : List Nat := [%s]" % ", ".join(map(str, byte_list(m.group(1)))))
    src = read("fluent-bundle/src/types/number.rs")
    opts = re.findall(r'\("([A-Za-z]+)", FluentValue::(String|Number)\(n\)\)', src)
    if len(opts) != 10:
        print("extract_consts: NUMBER option names not found (%d)" % len(opts))
        return 1
    items.append("def numberOptions : List (String × String) := [%s]" % ", ".join('("%s", "%s")' % (k, t) for k, t in opts))
    src = read("fluent-resmgr/src/resource_manager.rs")
    ph = re.findall(r'\.replace\("(\{[a-z_]+\})",', src)
    if len(ph) != 2:
        print("extract_consts: path placeholders not found")
        return 1
    items.append("def pathPlaceholders : List String := [%s]" % ", ".join('"%s"' % x for x in ph))
    body ="/-! GENERATED by tools/extract_consts.py from /repo source - do not edit. -/\nnamespace FluentModel.Generated\n\n" + \
        "\n\n".join(items) + "\n\nend FluentModel.Generated\n"
    old = open(OUT, encoding="utf-8").read() if os.path.exists(OUT) else None
    if old != body:
        with open(OUT, "w", encoding="utf-8") as fh:
            fh.write(body)
    return 0


if __name__ == "__main__":
    sys.exit(main())
