#!/usr/bin/env python3
"""Regenerate the table of DESIGN.md section 11.5 from seeded/*/meta.json.

The table sits between the marker lines `<!-- seed-matrix:begin -->` and `<!-- seed-matrix:end -->`."""
import glob
import json
import os
import re

ROOT = os.path.dirname(os.path.dirname(os.path.abspath(__file__)))


def key(d):
    m = re.match(r"C(\d+)-(\d+)", os.path.basename(d))
    return (int(m.group(1)), int(m.group(2)))


def cell(s, n=400):
    s = " ".join(str(s).split()).replace("|", "\\|")
    return s if len(s) <= n else s[:n - 1] + "…"


def main():
    rows = []
    stats = {"n": 0, "own": 0, "other_only": 0, "none": 0, "strengthened": 0}
    for d in sorted(glob.glob(os.path.join(ROOT, "seeded", "C*-*")), key=key):
        m = json.load(open(os.path.join(d, "meta.json")))
        name = os.path.basename(d)
        caught = m.get("caught_by", [])
        stats["n"] += 1
        if m["property"] in caught:
            stats["own"] += 1
        elif caught:
            stats["other_only"] += 1
        else:
            stats["none"] += 1
        if m.get("check_strengthened"):
            stats["strengthened"] += 1
        rows.append("| %s | %d | %s | %s | %s |" % (name, m.get("round", 1), cell(m.get("needs_to_manifest", ""), 260),
                                                    ", ".join(caught) or "**none**", cell(m.get("check_strengthened", ""))))
    head = ("%d changes filed; caught by the check of their own property: %d; caught only by a check of another property: %d; "
            "caught by none: %d; checks strengthened because of a change: %d.\n\n"
            "| change | round | needs, to manifest | caught by | strengthened / note |\n|---|---|---|---|---|\n"
            % (stats["n"], stats["own"], stats["other_only"], stats["none"], stats["strengthened"]))
    table = head + "\n".join(rows) + "\n"
    p = os.path.join(ROOT, "DESIGN.md")
    s = open(p).read()
    b, e = "<!-- seed-matrix:begin -->\n", "<!-- seed-matrix:end -->"
    i, j = s.index(b) + len(b), s.index(e)
    s = s[:i] + table + s[j:]
    open(p, "w").write(s)
    print(stats)


if __name__ == "__main__":
    main()
