#!/usr/bin/env python3
"""re-run the checks against an already filed seeded change (after strengthening a check) and update its meta.json
usage: tools/refile_seed.py <Cxx-n> <check ids...>"""
import json
import os
import subprocess
import sys

V = os.path.dirname(os.path.dirname(os.path.abspath(__file__)))


def main():
    sid, checks = sys.argv[1], sys.argv[2:]
    d = os.path.join(V, "seeded", sid)
    p = subprocess.run("python3 %s/tools/run_seed.py %s/patch.diff %s" % (V, d, " ".join(checks)), shell=True,
                       stdout=subprocess.PIPE, stderr=subprocess.STDOUT)
    out = p.stdout.decode("utf-8", "replace")
    results = {}
    for line in out.splitlines():
        if line.startswith("{"):
            try:
                results = json.loads(line)
            except Exception:
                pass
    meta = json.load(open(os.path.join(d, "meta.json")))
    first = meta.get("caught_by", [])
    caught = [c for c, r in results.items() if r.get("rc")]
    if not meta.get("caught_at_first") and "caught_at_first" not in meta:
        meta["caught_at_first"] = first
    meta["caught_by"] = sorted(set(first) | set(caught))
    meta["checks_run"] = sorted(set(meta.get("checks_run", [])) | set(checks))
    how = meta.get("how", {})
    for c, r in results.items():
        if r.get("rc"):
            how[c] = [l.strip()[:300] for l in r.get("lines", [])[:3]]
    meta["how"] = how
    json.dump(meta, open(os.path.join(d, "meta.json"), "w"), indent=1, ensure_ascii=False)
    print("%s caught_by=%s (first: %s)" % (sid, meta["caught_by"], meta["caught_at_first"]))


if __name__ == "__main__":
    main()
