#!/usr/bin/env python3
"""Apply a seeded change to /repo, run checks against it, undo it straight afterwards.

usage: tools/run_seed.py <patch.diff> [Cxx ...]     (default: all claimed properties)
prints one line per check: property, exit code, VIOLATION / KNOWN-FINDING lines, wall time.
The working tree of /repo must be clean before; it is restored with `git checkout -- .` in a finally block.
"""
import json
import os
import subprocess
import sys
import time

V = os.path.dirname(os.path.dirname(os.path.abspath(__file__)))


def sh(cmd, cwd=None):
    p = subprocess.run(cmd, shell=True, cwd=cwd, stdout=subprocess.PIPE, stderr=subprocess.STDOUT)
    return p.returncode, p.stdout.decode("utf-8", "replace")


def main():
    os.environ["FV_EVIDENCE_DIR"] = "/tmp/fv_seed_evidence"  # keep /verif/evidence for runs on the unchanged tree
    patch = os.path.abspath(sys.argv[1])
    props = sys.argv[2:] or sorted(f[:-5] for f in os.listdir(os.path.join(V, "tools", "claims")) if f.endswith(".json"))
    rc, out = sh("git -C /repo status --porcelain")
    if out.strip():
        print("refusing: /repo working tree is not clean:\n" + out)
        return 2
    rc, out = sh("git -C /repo apply --whitespace=nowarn %s" % patch)
    if rc != 0:
        print("patch does not apply: " + out)
        return 2
    results = {}
    try:
        for p in props:
            t0 = time.time()
            rc, out = sh("./check %s --tier quick" % p, cwd=V)
            lines = [l for l in out.splitlines() if l.startswith("VIOLATION") or l.startswith("KNOWN-FINDING") or l.startswith("  ")]
            results[p] = {"rc": rc, "lines": lines[:6], "wall": round(time.time() - t0, 1)}
            print("%s rc=%d %.0fs %s" % (p, rc, time.time() - t0, " | ".join(l.strip()[:160] for l in lines[:3])), flush=True)
    finally:
        sh("git -C /repo checkout -- .")
        sh("rm -f %s/replays/*.json" % V)
    caught = [p for p, r in results.items() if r["rc"] != 0]
    print("CAUGHT-BY: " + (" ".join(caught) if caught else "NONE"))
    print(json.dumps(results))
    return 0


if __name__ == "__main__":
    sys.exit(main())
