#!/usr/bin/env python3
"""Regression over the seeded changes: apply each seeded/<id>/patch.diff to /repo, run the quick check of the
change's OWN property, undo the patch, and report every change that is no longer caught (exit 1 if any).
usage: tools/rerun_seeds.py [--props C06,C07,...] [--skip C01,...]   (never run it concurrently with other checks:
the patch is applied to /repo's working tree for the duration of one check)"""
import glob
import json
import os
import re
import subprocess
import sys
import time

V = os.path.dirname(os.path.dirname(os.path.abspath(__file__)))


def sh(cmd, cwd=None, timeout=None):
    p = subprocess.run(cmd, shell=True, cwd=cwd, stdout=subprocess.PIPE, stderr=subprocess.STDOUT, timeout=timeout)
    return p.returncode, p.stdout.decode("utf-8", "replace")


def key(d):
    m = re.match(r"C(\d+)-(\d+)", os.path.basename(d))
    return (int(m.group(1)), int(m.group(2)))


def main():
    os.environ["FV_EVIDENCE_DIR"] = "/tmp/fv_seed_evidence"  # keep /verif/evidence for runs on the unchanged tree
    only = skip = None
    for a in sys.argv[1:]:
        if a.startswith("--props="):
            only = set(a.split("=")[1].split(","))
        if a.startswith("--skip="):
            skip = set(a.split("=")[1].split(","))
    rc, out = sh("git -C /repo status --short")
    if out.strip():
        print("refusing: /repo is not clean:\n" + out)
        sys.exit(2)
    missed = []
    for d in sorted(glob.glob(os.path.join(V, "seeded", "C*-*")), key=key):
        meta = json.load(open(os.path.join(d, "meta.json")))
        pid = meta["property"]
        name = os.path.basename(d)
        if (only and pid not in only) or (skip and pid in skip):
            continue
        if pid not in meta.get("caught_by", []):
            print("%s: recorded as not caught by %s (skipped)" % (name, pid), flush=True)
            continue
        t0 = time.time()
        rc, out = sh("git -C /repo apply %s/patch.diff" % d)
        if rc != 0:
            print("%s: PATCH DOES NOT APPLY: %s" % (name, out[-200:]), flush=True)
            missed.append(name)
            continue
        try:
            rc, out = sh("./check %s --tier quick" % pid, cwd=V, timeout=3600)
        finally:
            sh("git -C /repo checkout -- .")
        caught = rc != 0 and "VIOLATION property=%s" % pid in out
        print("%s: %s (%.0fs)" % (name, "caught" if caught else "NOT CAUGHT", time.time() - t0), flush=True)
        if not caught:
            missed.append(name)
    rc, out = sh("git -C /repo status --short")
    print("repo clean:", not out.strip())
    print("MISSED:", missed)
    sys.exit(1 if missed else 0)


if __name__ == "__main__":
    main()
