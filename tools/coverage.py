#!/usr/bin/env python3
"""Diagnostic (not a registered check): which lines of /repo do the QUICK case streams of all properties reach?

Builds the harness with `-C instrument-coverage` (nightly toolchain, its llvm-tools), feeds every property's
corpus + quick-tier cases to the area binaries, merges the profiles and prints, per source file of /repo, the
line coverage and the uncovered line ranges.  Everything lives under /tmp/fvcov and is removed at the end
(keep it with --keep).  usage: tools/coverage.py [--tier quick|thorough] [--keep] [Cxx ...]"""
import importlib
import os
import random
import shutil
import subprocess
import sys

V = os.path.dirname(os.path.dirname(os.path.abspath(__file__)))
sys.path.insert(0, os.path.join(V, "tools"))
W = "/tmp/fvcov"
TC = os.path.expanduser("~/.rustup/toolchains/nightly-x86_64-unknown-linux-gnu")
BIN = os.path.join(TC, "lib/rustlib/x86_64-unknown-linux-gnu/bin")


def sh(cmd, **kw):
    return subprocess.run(cmd, shell=True, stdout=subprocess.PIPE, stderr=subprocess.STDOUT, **kw).stdout.decode("utf-8", "replace")


def main():
    args = [a for a in sys.argv[1:] if not a.startswith("--")]
    keep = "--keep" in sys.argv
    tier = "thorough" if "--tier=thorough" in sys.argv else "quick"
    ids = args or ["C%02d" % i for i in range(1, 21)]
    shutil.rmtree(W, ignore_errors=True)
    os.makedirs(W + "/prof")
    os.makedirs(W + "/cases")
    env = dict(os.environ, RUSTFLAGS="-C instrument-coverage", CARGO_TARGET_DIR=W + "/target", CARGO_NET_OFFLINE="true",
               LLVM_PROFILE_FILE=W + "/build-%p-%m.profraw")   # build scripts / proc macros must not drop profiles into /repo
    out = subprocess.run("cargo +nightly build --offline --bins", shell=True, cwd=V + "/harness", env=env,
                         stdout=subprocess.PIPE, stderr=subprocess.STDOUT).stdout.decode()
    if "Finished" not in out:
        print(out[-3000:])
        sys.exit(1)
    areas = {}
    sys.setrecursionlimit(100000)
    for pid in ids:
        P = importlib.import_module("fv.props." + pid.lower()).P
        rng = random.Random(20260930)
        path = "%s/cases/%s.txt" % (W, pid)
        n = 0
        with open(path, "w") as f:
            for c in list(P.corpus()) + list(P.generate(rng, tier)):
                f.write(c + "\n")
                n += 1
        areas.setdefault(P.AREA, []).append(path)
        print(pid, P.AREA, n, "cases", flush=True)
    for area, files in areas.items():
        for fpath in files:
            e = dict(os.environ, LLVM_PROFILE_FILE="%s/prof/%s-%%p.profraw" % (W, os.path.basename(fpath)))
            with open(fpath) as fi:
                subprocess.run(["%s/target/debug/fvh_%s" % (W, area)], stdin=fi, stdout=subprocess.DEVNULL,
                               stderr=subprocess.DEVNULL, env=e, timeout=3600)
    print(sh("%s/llvm-profdata merge -sparse %s/prof/*.profraw -o %s/all.profdata" % (BIN, W, W)))
    objs = " ".join("-object %s/target/debug/fvh_%s" % (W, a) for a in areas)
    rep = sh("%s/llvm-cov export -format=lcov -instr-profile=%s/all.profdata %s -ignore-filename-regex='(\\.cargo|/rustc/|/verif/)'"
             % (BIN, W, objs))
    # lcov: SF:<file> / DA:<line>,<count>
    cur, data = None, {}
    for line in rep.splitlines():
        if line.startswith("SF:"):
            cur = line[3:]
            data.setdefault(cur, {})
        elif line.startswith("DA:") and cur:
            ln, cnt = line[3:].split(",")[:2]
            data[cur][int(ln)] = max(data[cur].get(int(ln), 0), int(cnt))
    tot_l = tot_c = 0
    for f in sorted(data):
        if not f.startswith("/repo/"):
            continue
        lines = data[f]
        if not lines:
            continue
        cov = sum(1 for c in lines.values() if c > 0)
        tot_l += len(lines)
        tot_c += cov
        miss = sorted(l for l, c in lines.items() if c == 0)
        rngs, start, prev = [], None, None
        for l in miss:
            if start is None:
                start = prev = l
            elif l == prev + 1:
                prev = l
            else:
                rngs.append((start, prev))
                start = prev = l
        if start is not None:
            rngs.append((start, prev))
        print("%-60s %4d/%4d %5.1f%%  uncovered: %s" % (f[6:], cov, len(lines), 100.0 * cov / len(lines),
                                                       " ".join("%d-%d" % r if r[0] != r[1] else str(r[0]) for r in rngs)))
    print("TOTAL %d/%d lines = %.1f%%" % (tot_c, tot_l, 100.0 * tot_c / max(tot_l, 1)))
    if not keep:
        shutil.rmtree(W, ignore_errors=True)


if __name__ == "__main__":
    main()
