#!/usr/bin/env python3
"""Write the prompts for a further round of seeded changes: the base prompt (tools/seed_prompt.txt, which shows a
sub-agent nothing but the property text and its scratch worktree) plus an avoid-list built from the changes already
filed under seeded/ for that property.  usage: tools/make_seed_prompts.py <round> [<prop> ...]  ->  /tmp/seed/PROMPT<round>_<prop>.txt,
/tmp/seed/<prop>.property.txt"""
import glob
import json
import os
import sys

V = os.path.dirname(os.path.dirname(os.path.abspath(__file__)))


def main():
    rnd = int(sys.argv[1])
    props = {}
    for l in open(os.path.join(V, "properties.jsonl")):
        d = json.loads(l)
        props[d["id"]] = d
    ids = sys.argv[2:] or sorted(props)
    base = open(os.path.join(V, "tools", "seed_prompt.txt")).read()
    os.makedirs("/tmp/seed", exist_ok=True)
    for pid in ids:
        d = props[pid]
        with open("/tmp/seed/%s.property.txt" % pid, "w") as f:
            f.write("Property %s: %s\n\nStatement: %s\n\nQuantified over: %s\n\nCode it is anchored in: %s\n" % (
                pid, d["title"], d["statement"], d["quantifier"]["text"], ", ".join(d["anchors"]["files"])))
        avoid = []
        for m in sorted(glob.glob(os.path.join(V, "seeded", pid + "-*", "meta.json"))):
            notes = os.path.join(os.path.dirname(m), "notes.txt")
            first = ""
            if os.path.exists(notes):
                for line in open(notes, errors="replace"):
                    if line.strip() and not set(line.strip()) <= set("=-"):
                        first = line.strip()
                        break
            avoid.append("- %s (manifests with: %s)" % (first[:200], json.load(open(m))["needs_to_manifest"]))
        extra = ("\n\nIMPORTANT — round %d. Other people already produced the following changes for this property; do NOT repeat them or "
                 "close variants. Produce TWO NEW changes with different mechanisms, in different functions or files where possible, and "
                 "different trigger conditions (prefer the parts of the property text and of the anchored code that the list below does not "
                 "touch; prefer bugs that need two cooperating sites, a particular history/interleaving, or a rare but legal input shape; "
                 "API entry points, option combinations and configuration states nobody below has used are especially welcome):\n%s\n"
                 % (rnd, "\n".join(avoid)))
        open("/tmp/seed/PROMPT%d_%s.txt" % (rnd, pid), "w").write(base + extra)
    print("wrote", len(ids), "prompts")


if __name__ == "__main__":
    main()
