"""tiny S-expression reader for the observation format of the `parse`/`ser` areas"""


def tokenize(s):
    out = []
    i = 0
    n = len(s)
    while i < n:
        c = s[i]
        if c in "()[]":
            out.append(c)
            i += 1
        elif c == " ":
            i += 1
        else:
            j = i
            while j < n and s[j] not in "()[] ":
                j += 1
            out.append(s[i:j])
            i = j
    return out


def parse_tokens(toks, i=0):
    """returns (node, next_index); '(' ... ')' and '[' ... ']' become lists (the latter tagged '[]')"""
    t = toks[i]
    if t == "(" or t == "[":
        close = ")" if t == "(" else "]"
        lst = [] if t == "(" else ["[]"]
        i += 1
        while toks[i] != close:
            node, i = parse_tokens(toks, i)
            lst.append(node)
        return lst, i + 1
    return t, i + 1


def parse_all(s):
    toks = tokenize(s)
    out = []
    i = 0
    while i < len(toks):
        node, i = parse_tokens(toks, i)
        out.append(node)
    return out


def parse_obs(obs):
    """'F <res> [errs] R <res> [errs] [BORROWED!=OWNED]' -> dict or None when not in that shape"""
    try:
        nodes = parse_all(obs)
    except Exception:
        return None
    if len(nodes) < 6 or nodes[0] != "F" or nodes[3] != "R":
        return None
    return {"full": nodes[1], "full_errs": nodes[2][1:], "rt": nodes[4], "rt_errs": nodes[5][1:],
            "flags": nodes[6:]}


def unhex(t):
    return b"" if t == "-" else bytes.fromhex(t)
