"""GR: generator of resolver programs (bundles + requests) for the `fmt` area (C06-C09, C15).

A case = configuration, resources (FTL text), registered functions, requests.
Programs are built from a small id alphabet so that references collide: cycles, self-reference,
fan-out chains (3^k bombs) with the limit tripping at every syntactic position, selects on
variables / literals / functions / term attributes, term calls inside term calls followed by a
variable, missing message/term/attribute/function/variable at value and at selector/argument
position, value-less messages.
"""
from .core import hx

MSGS = ["m0", "m1", "m2", "m3", "m4", "m5"]
TERMS = ["t0", "t1", "t2", "t3"]
ATTRS = ["a", "b"]
VARS = ["x", "y", "n", "s"]
FUNCS = ["NUMBER", "ARGS", "IDENT", "FAIL", "NONE", "CUSTOM"]
TEXTS = ["hello", "x", " and ", "é", "Total: ", ".", "a b", "zZ", "-", "1", "😀"]
STRS = ["", "lit", "a b", "\\u0041", "\\\\", "é", "one", "other", "1", "inf", "NaN", "infinity", "nan", "Infinity", "1e3"]
NUMS = ["0", "1", "2", "1.0", "1.50", "-1", "3", "11", "21", "100", "0.5", "007"]
KEYS = ["one", "other", "few", "two", "zero", "many", "1", "2", "1.0", "lit", "a", "x", "0", "3", "inf", "NaN", "infinity", "nan",
        "Infinity", "e1", "INF"]


class GR:
    def __init__(self, rng, depth=3):
        self.r = rng
        self.depth = depth
        # occasionally ONE dimension of the program is large (9..40 positional / named arguments, variants, pattern
        # elements, request arguments): more than a small inline vector, fixed buffer or bit mask holds; used once
        self.bigdim = rng.choice(["pos", "named", "variants", "els", "args"]) if rng.random() < 0.06 else None

    def cnt(self, dim, small):
        if self.bigdim == dim:
            self.bigdim = None
            return self.r.choice([9, 10, 16, 17, 24, 33, 40])
        return small

    def named_args(self):
        r = self.r
        nn = self.cnt("named", r.choice([0, 0, 1, 1, 2]))
        names = r.sample(["x", "y", "n", "type", "minimumFractionDigits", "opt", "currency", "style", "currencyDisplay"]
                         + (["o%d" % i for i in range(40)] if nn > 6 else []), nn)
        out = []
        for nm in names:
            if nm == "type":
                out.append('type: "%s"' % r.choice(["ordinal", "cardinal", "zzz"]))
            elif nm == "minimumFractionDigits":
                out.append("minimumFractionDigits: %s" % r.choice(["0", "1", "2", "3", "19", "25", "101"]))
            elif nm == "currency":
                # any text is accepted as a currency code (also short, long, non-ASCII)
                out.append('currency: "%s"' % r.choice(["EUR", "usd", "руб", "EU€", "A€", "zł", "", "元人民币", "x"]))
            elif nm == "style":
                out.append('style: "%s"' % r.choice(["currency", "percent", "decimal", "Währung"]))
            elif nm == "currencyDisplay":
                out.append('currencyDisplay: "%s"' % r.choice(["code", "name", "symbol", "ñ"]))
            elif r.random() < 0.5:
                out.append('%s: "%s"' % (nm, r.choice(STRS)))
            else:
                out.append("%s: %s" % (nm, r.choice(NUMS)))
        return out

    def inline(self, d, arg_pos=False, selector=False):
        r = self.r
        k = r.random()
        if d <= 0:
            k *= 0.55
        if k < 0.10:
            return '"%s"' % r.choice(STRS)
        if k < 0.20:
            return r.choice(NUMS)
        if k < 0.38:
            return "$" + r.choice(VARS + ["zz"])
        if k < 0.48:
            if selector:
                return "-%s.%s" % (r.choice(TERMS + ["t9"]), r.choice(ATTRS + ["q"]))
            m = r.choice(MSGS + ["m9"])
            return m if r.random() < 0.7 else m + "." + r.choice(ATTRS + ["q"])
        if k < 0.62:
            t = "-" + r.choice(TERMS + ["t9"])
            if (arg_pos or selector) and r.random() < 0.4:
                t += "." + r.choice(ATTRS + ["q"])
            if r.random() < 0.6:
                # a term call may also carry POSITIONAL arguments: they are resolved (in the scope the call is written
                # in - inside another term that is that term's parameters) and then ignored
                pos = [self.inline(d - 1, arg_pos=True) for _ in range(r.choice([0, 0, 0, 1, 2]))] if d > 0 else []
                t += "(" + ", ".join(pos + self.named_args()) + ")"
            return t
        if k < 0.85:
            f = r.choice(FUNCS + ["MISSING"])
            pos = [self.inline(d - 1, arg_pos=True) for _ in range(self.cnt("pos", r.choice([0, 1, 1, 2])))]
            if f == "NUMBER" and r.random() < 0.8:
                pos = [r.choice(["$n", "$x", r.choice(NUMS), "$zz"])]
            return f + "(" + ", ".join(pos + self.named_args()) + ")"
        if selector:
            return "$" + r.choice(VARS)
        return "{ " + self.expression(d - 1) + " }"

    def expression(self, d):
        r = self.r
        if d > 0 and r.random() < 0.3:
            sel = self.inline(d - 1, selector=True)
            if sel.startswith("{") or (not sel.startswith("-") and sel[0].islower() and "(" not in sel):
                sel = "$" + r.choice(VARS)
            if sel.startswith("-") and "." not in sel.split("(")[0]:
                sel = "$n"
            n = self.cnt("variants", r.randint(1, 4))
            keys = r.sample(KEYS + (["k%d" % i for i in range(20)] + [str(i) for i in range(4, 24)] if n > 8 else []), n)
            dflt = r.randrange(n)
            out = sel + " ->"
            for i, k in enumerate(keys):
                out += "\n   %s[%s] %s" % ("*" if i == dflt else " ", k, self.pattern(d - 1, inline_only=True))
            return out + "\n  "
        return self.inline(d)

    def pattern(self, d, inline_only=False):
        r = self.r
        n = self.cnt("els", r.choice([1, 1, 2, 2, 3, 4]))
        out = ""
        for i in range(n):
            if r.random() < 0.45:
                out += r.choice(TEXTS)
            else:
                out += "{ " + self.expression(d) + " }"
        if not out.strip() or out[0] in "[*. ":
            out = "v" + out
        return out

    def attr_names(self, n):
        """attribute names of one entry; now and then a name is REPEATED (the parser accepts that; a reference and
        get_attribute both mean the first definition)"""
        r = self.r
        names = r.sample(ATTRS, n)
        if names and r.random() < 0.2:
            names.insert(r.randrange(len(names) + 1), r.choice(names))
            if r.random() < 0.3:
                names.append(names[0])
        return names

    def resource(self):
        r = self.r
        out = ""
        ids = r.sample(MSGS, r.randint(1, len(MSGS)))
        for m in ids:
            k = r.random()
            if k < 0.1:
                out += "%s =\n    .a = %s\n" % (m, self.pattern(self.depth - 1))
            else:
                out += "%s = %s\n" % (m, self.pattern(self.depth))
                for a in self.attr_names(r.choice([0, 0, 1, 2])):
                    out += "    .%s = %s\n" % (a, self.pattern(self.depth - 1))
        for t in r.sample(TERMS, r.randint(0, len(TERMS))):
            out += "-%s = %s\n" % (t, self.pattern(self.depth))
            for a in self.attr_names(r.choice([0, 1, 1, 2])):
                if r.random() < 0.5:
                    out += "    .%s = %s\n" % (a, r.choice(["one", "other", "lit", "a", "1", "x{\"\"}", "{ $x }", "{ $x }{\"\"}"]))
                else:
                    out += "    .%s = %s\n" % (a, self.pattern(self.depth - 1))
        return out

    def args(self):
        r = self.r
        if r.random() < 0.15:
            return "~"
        ks = r.sample(VARS, r.randint(0, len(VARS)))
        if self.bigdim == "args":
            # many request arguments around the referenced ones (names sorting before, between and after x y n s)
            ks = ks + r.sample(["a%d" % i for i in range(15)] + ["o%d" % i for i in range(15)] + ["z%d" % i for i in range(15)],
                               self.cnt("args", 0))
            r.shuffle(ks)
        if not ks:
            return "."
        out = []
        for k in ks:
            v = r.choice(["s" + hx(r.choice(["val", "one", "other", "lit", "é", "1", "", "a b", "inf", "NaN", "infinity", "nan", "Infinity"])), "i1", "i2", "i5", "i21", "i0", "i-3",
                          "n1.5/-", "n1/1", "n1/0", "n2/2", "t" + hx("1.0"), "t" + hx("1.50"), "t" + hx("abc"), "f0.5",
                          "c" + hx("cv"), "z", "u7", "o" + hx("owned"),
                          # custom values stringified through the bundle's formatter memoizer (equal-length tags collide
                          # under the argument type's deliberately weak hash; `bad*` fails to construct)
                          "m" + hx("ok1"), "m" + hx("ok2"), "m" + hx("bad1"),
                          # memoized through a formatter kind whose ARGUMENT TYPE is that of the bundle's plural rules
                          "m" + hx("rc1"), "m" + hx("ro1")])
            out.append("%s=%s" % (hx(k), v))
        return "&".join(out)

    def config(self, fl=None):
        r = self.r
        # fw=1: after the requests, every request is also written to writers that fail after 0..12 bytes (must not panic)
        return "iso=%d;tr=%s;fm=%s;fl=%s%s;loc=%s" % (r.randrange(2), r.choice(["none", "none", "upper", "pseudo", "bracket"]),
                                                    r.choice(["none", "none", "numbr", "strwrap"]),
                                                    fl or r.choice(["st", "st", "conc"]), ";fw=1" if r.random() < 0.3 else "",
                                                    r.choice(["en", "en", "en-US", "pl", "ru", "ar", "fr", "cs", "lt", "ja", "xx", "pt", "pt-PT",
                                                              # locale CHAINS: only the first locale selects the plural rules
                                                              "xx+pl", "xx+ar", "en+pl", "pl+en", "pt-PT+ru", "ja+lt", "-"]))

    def requests(self, args=None):
        r = self.r
        reqs = []
        for m in MSGS:
            a = args if args is not None else self.args()
            reqs.append("%s:~:%s" % (hx(m), a))
            if r.random() < 0.4:
                reqs.append("%s:%s:%s" % (hx(m), hx(r.choice(ATTRS)), a))
        return ",".join(reqs)

    def fns(self):
        r = self.r
        k = r.random()
        if k < 0.7:
            return ",".join(FUNCS)
        if k < 0.85:
            return "NUMBER"
        return "-"

    def case(self):
        r = self.r
        nres = r.choice([1, 1, 1, 2, 3])
        ress = []
        for i in range(nres):
            res = self.resource()
            if i > 0 and r.random() < 0.3:
                # a later resource defines an id with the OTHER kind (messages and terms share one namespace in a bundle):
                # `m2` becomes the term `-m2`, or the term `-t1` becomes the message `t1`; references elsewhere keep the old kind
                import re as _re
                if r.random() < 0.5:
                    m = r.choice(MSGS)
                    res = _re.sub(r"(?m)^%s =" % m, "-%s =" % m, res)
                else:
                    t = r.choice(TERMS)
                    res = _re.sub(r"(?m)^-%s =" % t, "%s =" % t, res)
            ress.append("%s:%s" % ("a" if (i == 0 or r.random() < 0.6) else "o", hx(res)))
        return "fmt %s %s %s %s" % (self.config(), ",".join(ress), self.fns(), self.requests())


def chain_cases(rng):
    """LINEAR reference chains of 98..103 links (messages, terms, mixed; entered directly, through a select variant, as a
    call argument): the deepest legal nesting of patterns - one more link than there may be placeables"""
    for n in (98, 99, 100, 101, 102, 103, 130):
        msgs = "c0 = end\n" + "".join("c%d = { c%d }\n" % (i, i - 1) for i in range(1, n + 1))
        terms = "-d0 = end\n" + "".join("-d%d = { -d%d }\n" % (i, i - 1) for i in range(1, n + 1))
        mixed = "e0 = end\n" + "".join(("e%d = a{ -e%d }\n" % (i, i - 1)) if i % 2 else ("-e%d = { e%d }b\n" % (i, i - 1)) for i in range(1, n + 1))
        tops = ("top1 = { c%d }\ntop2 = x { $n ->\n [one] { c%d }\n *[other] { -d%d }\n } y\ntop3 = { IDENT(c%d) }{ -d%d }\ntop4 = { e%d }\n"
                % (n, n - 1, n - 1, n - 1, n, n if n % 2 else n - 1))
        for iso in (0, 1):
            cfg = "iso=%d;tr=none;fm=none;fl=%s;loc=en" % (iso, rng.choice(["st", "conc"]))
            reqs = ",".join("%s:~:%s=i1" % (hx(m), hx("n")) for m in ("top1", "top2", "top3", "top4", "c%d" % n, "c%d" % (n - 2)))
            yield "fmt %s a:%s %s %s" % (cfg, hx(msgs + terms + mixed + tops), ",".join(FUNCS), reqs)


def errlist_cases(rng):
    """the caller's error list (ONE list for the whole history, `ev=shared`) already holds hundreds of errors when a
    cyclic or exploding message is formatted: the cycle / the limit must still be reported"""
    many = "e50 = " + "{ $zz }" * 50 + "\ne99 = " + "{ MISSING() }{ m9 }{ -t9 }" * 33 + "\n"
    prog = (many + "cyc = a { cyc } b\nping = { pong }\npong = { ping }\nm0 = L\n"
            + "".join("m%d = {m%d}{m%d}{m%d}\n" % (i, i - 1, i - 1, i - 1) for i in range(1, 6))
            + "bomb = { m5 }\nselb = { \"a\" ->\n *[a] x{ m5 }y\n }\nok = fine { $x }\n")
    for iso in (0, 1):
        for fl in ("st", "conc"):
            for pre in ([], ["e50"] * 2, ["e50"] * 3, ["e99"] * 2 + ["e50"], ["e99"] * 5):
                for tail in (["cyc", "bomb"], ["bomb", "cyc"], ["ping", "selb", "ok"], ["selb", "cyc", "e50", "bomb"]):
                    cfg = "iso=%d;tr=none;fm=none;fl=%s;loc=en;ev=shared" % (iso, fl)
                    reqs = ",".join("%s:~:~" % hx(m) for m in pre + tail)
                    yield "fmt %s a:%s %s %s" % (cfg, hx(prog), ",".join(FUNCS), reqs)


def bomb_cases(rng):
    """3^k fan-out chains with the limit tripping at every syntactic position"""
    chain = ""
    for i in range(1, 6):
        chain += "m%d = {m%d}{m%d}{m%d}\n" % (i, i - 1, i - 1, i - 1)
    tchain = ""
    for i in range(1, 4):
        tchain += "-t%d = {-t%d}{-t%d}{-t%d}{-t%d}\n" % (i, i - 1, i - 1, i - 1, i - 1)
    leaf_variants = ["m0 = L\n", "m0 = { $x }\n", "m0 = { \"s\" }\n", "m0 = { 1 }\n"]
    tops = [
        "top = { m5 }\n", "top = a { m5 } b\n", "top = { { m5 } }\n", "top = { 1 ->\n *[other] { m5 }\n }\n",
        "top = { \"a\" ->\n *[a] x{ m5 }y\n }\n", "top = { $x ->\n [one] 1\n *[other] { m5 } tail\n }\n",
        "top = { ARGS(m5) }\n", "top = { ARGS({ m5 }) }\n", "top = { IDENT(m5) }\n", "top = { NUMBER(m5) }\n",
        "top = { -t3 }\n", "top = { -tb.a }\n" if False else "top = { -tb }\n", "top = { m5.a }\n",
        "top = { m5 }{ m5 }\n", "top = { m4 }{ m4 }{ m4 }{ m4 } end\n", "top = { -tb(x: 1) } { $x }\n",
        "top = { ARGS(m5, m5) }\n", "top = { m5 ->\n *[a] b\n }\n" if False else "top = { IDENT(m5) ->\n *[a] b { m5 }\n }\n",
        "top = { MISSING(m5) }\n", "top = { -t9(x: 1) }{ m5 }\n",
        # the limit trips INSIDE an isolated placeable of a multi-element pattern (FSI already written)
        "top = a { $x ->\n *[other] { m5 }\n } b\n", "top = a { { m5 } } b\n", "top = a { ARGS(m5) } b\n", "top = a{ IDENT(m5) }b\n",
        "top = Start { $x ->\n *[other] { row }|{ row }|{ row }\n } End\n", "top = { $x }{ NUMBER(m5) }{ $x }\n",
        "top = x { 1 ->\n *[other] y { \"s\" ->\n *[s] z { m5 } z\n } y\n } x\n",
    ]
    # the limit trips under a select whose selector is a LONG string literal (multi-byte characters at every offset
    # around 16 / 32 / 64 bytes): whatever echoes the selector in an error or a fallback must not cut inside a character
    for n in (14, 15, 16, 30, 31, 32, 33, 62, 63, 64, 65):
        for pad in ("", "-", "--"):
            lit = pad + "\u00e9" * ((n - len(pad)) // 2 + 3)
            tops.append("top = { \"%s\" ->\n *[a] x{ m5 }y\n }\n" % lit)
            tops.append("top = a { ARGS(\"%s\", m5) }{ \"%s\" }\n" % (lit + "\U0001F600", lit))
    extra = "-tb = { m5 }\n    .a = { m5 }\nm5x = x\nrow = " + "{ $x }" * 50 + "\n"
    for leaf in leaf_variants:
        for top in tops:
            for iso in (0, 1):
                res = leaf + chain + "-t0 = T\n" + tchain + extra + top
                res = res.replace("m5 = {m4}{m4}{m4}\n", "m5 = {m4}{m4}{m4}\n    .a = { m4 }{ m4 }{ m4 }{ m4 }\n")
                cfg = "iso=%d;tr=none;fm=none;fl=%s;loc=en" % (iso, rng.choice(["st", "conc"]))
                args = rng.choice(["~", "%s=s%s" % (hx("x"), hx("X")), "%s=i1" % hx("x")])
                yield "fmt %s a:%s %s %s:~:%s" % (cfg, hx(res), ",".join(FUNCS), hx("top"), args)


def arg_bomb_cases(rng):
    """fan-out through CALL ARGUMENTS: every level doubles inside the argument list of a function or of a term
    call, so the limit can only trip if placeables resolved while evaluating arguments are counted"""
    for depth in (7, 8, 9):
        for kind in ("fn", "term", "mixed", "named-sel"):
            res = "a0 = L{ $x }\n-t = T\n"
            for i in range(1, depth + 1):
                if kind == "fn" or (kind == "mixed" and i % 2):
                    res += "a%d = { ARGS(a%d, a%d) }\n" % (i, i - 1, i - 1)
                elif kind == "named-sel":
                    res += "a%d = { IDENT(a%d) ->\n *[o] { IDENT(a%d) }\n }\n" % (i, i - 1, i - 1)
                else:
                    res += "a%d = { -t(a%d, a%d) }{ IDENT(a%d) }\n" % (i, i - 1, i - 1, i - 1)
            for iso in (0, 1):
                cfg = "iso=%d;tr=none;fm=none;fl=%s;loc=en" % (iso, rng.choice(["st", "conc"]))
                yield "fmt %s a:%s %s %s:~:%s=s%s" % (cfg, hx(res), ",".join(FUNCS), hx("a%d" % depth), hx("x"), hx("X"))


PLURAL_LOCALES = ["en", "en-US", "pl", "ru", "ar", "fr", "cs", "lt", "ja", "xx", "pt", "pt-PT", "pt-BR", "de", "uk", "sl", "cy", "ro", "sv"]


def handwritten():
    """scenarios from the findings register and the property text"""
    progs = [
        ("-inner = I\n-outer = { -inner(y: \"b\") } then { $x }\nm0 = { -outer(x: \"LOCAL\") }\n", "%s=s%s" % (hx("x"), hx("CALLER"))),
        ("m0 = { MISSING() ->\n *[a] A\n }\nm1 = { NUMBER(MISSING()) }\nm2 = { ARGS(MISSING(), $zz) }\n", "."),
        ("m0 = hello { $x } world\n", "%s=s%s" % (hx("x"), hx("X"))),
        ("-t0 = T\n    .a = { $v }{\"\"}\nm0 = { -t0.a(v: \"foo\") ->\n [foo] A\n *[other] B\n }\n", "."),
        ("m0 = { m0 }\nm1 = { m2 }\nm2 = { m1 } x\nm3 = { m3.a }\n    .a = { m3 }\n", "."),
        ("m0 =\n    .a = x\nm1 = { m0 } { m0.a } { m0.b } { m9 } { -t9 } { -t9.a } { $zz } { ZZ() }\n", "."),
        ("-t0 = { $x } { $y }\nm0 = { -t0 } { -t0(x: 1) } { $x }\n", "%s=s%s&%s=i2" % (hx("x"), hx("X"), hx("y"))),
        ("m0 = { $n ->\n [1] exact\n [one] cat\n *[other] o\n }\nm1 = { $n ->\n [one] cat\n [1] exact\n *[other] o\n }\nm2 = { NUMBER($n, type: \"ordinal\") ->\n [one] st\n [two] nd\n [few] rd\n *[other] th\n }\n", "%s=i1" % hx("n")),
        ("m0 = { $n ->\n [1] exact\n [one] cat\n *[other] o\n }\nm1 = { NUMBER($n, minimumFractionDigits: 1) ->\n [one] cat\n *[other] o\n }\nm2 = { 1.0 ->\n [1] exact\n [one] cat\n *[other] o\n }\n", "%s=t%s" % (hx("n"), hx("1.0"))),
        ("m0 = { $n ->\n [one] a\n *[other] b\n } { NUMBER($n, minimumFractionDigits: 1) ->\n [one] a\n *[other] b\n } { $n ->\n [one] a\n *[other] b\n }\n-t0 = { $n } { $n ->\n [one] a\n *[other] b\n }\nm1 = { -t0(n: 1.0) } { -t0(n: 1) } { -t0(n: 1.50) }\n", "%s=i1" % hx("n")),
        ("m0 = { $x }\nm1 = { $n }\nm2 = { $zz }\nm3 = { \"lit\" }\nm4 = { 1.50 }\nm5 = { IDENT($x) }\n-t0 = { $x }\nm6 = { -t0(x: \"tx\") }\n", "%s=s%s&%s=n1.5/-" % (hx("x"), hx("abc"), hx("n"))),
        ("m0 = { FAIL() } { NONE() } { CUSTOM(\"q\") } { IDENT($x) } { IDENT() } { ARGS(1, \"s\", $x, x: 1) }\n", "%s=c%s" % (hx("x"), hx("cv"))),
        ("m0 = { \"\\u0041\\\\\" } { \"\\uD800\" } {\"é\"}\n", "."),
        ("m0 = { $x ->\n [a] A\n [b] B\n }\n", "."),
        # LONG output (more than 1 KiB, 2 KiB, 4 KiB) with 60-99 placeables: whatever buffering the string entry point
        # does, the placeable count of a call is counted once
        ("m0 = " + "some text here { $x } " * 90 + "\nm1 = " + "word { m3 } " * 70 + "\nm2 = " + "a much longer piece of text between placeables { $x }{ $y } " * 49
         + "\nm3 = sixteen-byte-msg\nm4 = " + "x" * 2000 + "{ $x }" * 99 + "\nm5 = " + "{ $x } and { $y } " * 50 + "{ $x }\n",
         "%s=s%s&%s=i7" % (hx("x"), hx("value"), hx("y"))),
        # MULTI-LINE values (one text element per line): a transform is applied per text element, by both entry points
        ("m0 =\n    first line\n    second line\n    third\nm1 =\n    a\n    b { $x } c\n    d\nm2 = one\n    .a =\n        x\n        y\n"
         "-t0 =\n    t1\n    t2\nm3 = { -t0 }|{ m0 }\nm4 = { $x ->\n   *[o]\n      v1\n      v2\n }\n", "%s=s%s" % (hx("x"), hx("X"))),
        # a term call written INSIDE a term whose positional / named arguments read variables: they see the enclosing
        # term's parameters (not the caller's arguments), and a parameter that was not given is not an error there
        ("-t0 = in { $who }\n-t1 = { -t0($who) } { -t0(who: $who) } { -t0(IDENT($who), who: \"w\") }\n"
         "m0 = { -t1 }\nm1 = { -t1(who: \"Anna\") }\nm2 = { -t1(x: 1) } { $who }\nm3 = { -t0($who, $zz) }\n", "%s=s%s" % (hx("who"), hx("CALLER"))),
        # cycles that come back to the ROOT pattern of the request, leaving it through every kind of first placeable
        # (select variant, call argument, nested placeable, term, attribute), as first / later element of the root
        ("m0 = x { $n ->\n [one] { m0 }\n *[other] y\n }\nm1 = pre { IDENT(m1) } post\nm2 = a { { m2 } } b\n"
         "m3 = x { $n ->\n [one] { -t0 }\n *[other] y\n }\n-t0 = { m3 } t\nm4 = { $n } then { m4 }\nm5 = { ARGS(m5.a, 1) } e\n    .a = { m5 } at\n",
         "%s=i1" % hx("n")),
        ("m0 = { $n ->\n [one] { m0 }\n *[other] y\n } tail\nm1 = { IDENT(m1) }{ \"\" }\nm2 = { { { m2 } } } b\nm3 = { -t0(x: 1) } c\n-t0 = { m3 }{ $x }\n"
         "m4 = { m5 } d\nm5 = e { $n ->\n *[other] { m4 }\n }\n", "%s=i1" % hx("n")),
        ("m0 = { $s ->\n [inf] I\n [NaN] N\n [infinity] Y\n *[other] O\n }\nm1 = { \"inf\" ->\n [inf] I\n *[o] O\n }\nm2 = { \"NaN\" ->\n [nan] l\n [NaN] N\n *[o] O\n }\nm3 = { $n ->\n [inf] I\n [one] 1\n *[o] O\n }\n", "%s=s%s&%s=i1" % (hx("s"), hx("infinity"), hx("n"))),
    ]
    # patterns with MANY ELEMENTS (a block pattern has one text element per line): element counts around 256, 512 and
    # 1024 with a single placeable - whatever width the element count is kept in, isolation and the single-element
    # shortcuts depend on "more than one element", not on the count modulo something
    for counts in ([252, 253, 254, 255, 256, 257], [509, 510, 511, 512, 1022, 1023]):
        progs.append(("".join("m%d =\n%s    value: { $x }\n" % (i, "    line\n" * n) for i, n in enumerate(counts)),
                      "%s=s%s" % (hx("x"), hx("abc"))))
    for (res, args) in progs:
        for iso in (0, 1):
            for fm in ("none", "numbr", "strwrap"):
                for tr in ("none", "upper", "bracket"):
                    cfg = "iso=%d;tr=%s;fm=%s;fl=st;loc=en" % (iso, tr, fm)
                    reqs = ",".join("%s:~:%s" % (hx(m), args) for m in MSGS)
                    yield "fmt %s a:%s %s %s" % (cfg, hx(res), ",".join(FUNCS), reqs)
    # plural matrix: every bundle locale of the generators x cardinal/ordinal/fraction-digit selects x small numbers,
    # both bundle flavours (the lazily constructed PluralRules of either kind must exist for every locale)
    pm = ("m0 = { $n ->\n [zero] z\n [one] o\n [two] t\n [few] f\n [many] m\n *[other] x\n }\n"
          "m1 = { NUMBER($n, type: \"ordinal\") ->\n [zero] z\n [one] o\n [two] t\n [few] f\n [many] m\n *[other] x\n }\n"
          "m2 = { NUMBER($n, minimumFractionDigits: 1) ->\n [one] o\n [few] f\n [many] m\n *[other] x\n }\n"
          "m3 = { $o ->\n [one] o\n [two] t\n [few] f\n *[other] x\n }\n")
    for loc in PLURAL_LOCALES + ["xx+pl", "xx+ar+ru", "en+pl", "pl+en", "ja+lt+cs", "-", "und"]:
        for fl in ("st", "conc"):
            for nn in ("i0", "i1", "i2", "i3", "i5", "i11", "i21", "t" + hx("1.5"), "t" + hx("1.0")):
                cfg = "iso=0;tr=none;fm=none;fl=%s;loc=%s" % (fl, loc)
                reqs = ",".join("%s:~:%s=%s&%s=%s" % (hx(m), hx("n"), nn, hx("o"), nn) for m in ("m0", "m1", "m2", "m3"))
                yield "fmt %s a:%s %s %s" % (cfg, hx(pm), "NUMBER", reqs)
