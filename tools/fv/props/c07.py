"""C07 - resolved text and reported errors follow Fluent semantics"""
from .c06 import C06
from . import resfam
from .. import resgen


class C07(C06):
    ID = "C07"
    EXTRA_MODULES = []
    LEMMA_FILES = ["FluentProofs/ResolverRefineDirty.lean", "FluentProofs/ResolverRefineVal.lean", "FluentProofs/ResolverRefineLimit.lean", "FluentProofs/ResolverRefineFrame.lean", "FluentProofs/ResolverRefineTop.lean", "FluentProofs/ResolverSpec.lean", "FluentProofs/ConstTieResolver.lean"]
    RULE = ("as C06 (GR random bundles, bomb family, hand-written scenarios for every clause of the property: term-argument "
            "scoping incl. nested calls followed by a variable, missing message/term/attribute/function/variable at value and "
            "at selector/argument position, value-less messages, cycles, selects on strings/numbers/plural categories with "
            "exact keys before and after category keys, functions receiving resolved positional and named arguments) x "
            "isolation/transform/formatter/flavour. Non-trivial as C06; distinct = distinct case line.")
    EXPLANATION = ("ResolverSpec (reference big-step semantics written from the property text: term arguments and resolution "
                   "stack as parameters, the limit as an outcome) is evaluated by the model driver next to the transcribed "
                   "resolver model; the predicate requires the implementation's text and error list (both APIs) to equal the "
                   "specification's on every request where the specification does not hit the placeable limit, and exactly one "
                   "TooManyPlaceables report where it does. Theorems: see evidence.")

    def predicate2(self, case, impl_obs, model_obs):
        for sub_case, so, mo in zip(case.split(" | "), impl_obs.split(" | "), model_obs.split(" | ")):
            if "unsupported" in mo:
                continue
            impl = resfam.parse_obs(so)
            spec = resfam.spec_verdicts(mo)
            reqs = resfam.case_parts(sub_case)["reqs"]
            for rq, r, sv in zip(reqs, impl, spec):
                if "raw" in r or sv is None:
                    continue
                if sv[0] == "limit":
                    for errs in (r["TE"], r["WE"]):
                        if errs.count("TooMany") != 1:
                            return "request %s: the placeable limit is exceeded but reported %d times" % (rq.split(":")[0], errs.count("TooMany"))
                    continue
                text, errs = sv
                for k, ek in (("T", "TE"), ("W", "WE")):
                    if r[k] != text:
                        return "request %s: formatted text %r differs from the Fluent semantics %r" % (rq.split(":")[0], r[k][:80], text[:80])
                    if r[ek] != errs:
                        return "request %s: reported errors %s differ from the Fluent semantics %s" % (rq.split(":")[0], r[ek], errs)
        return None


P = C07()
