"""C20 - pseudolocalization changes only ASCII letters and never touches markup."""
import itertools
import re
from .base import Base, bump
from ..core import hx, unhx

REPO_SRC = "/repo/fluent-pseudo/src/lib.rs"


def load_tables():
    """the four 26-entry tables, read from the source independently of tools/extract_consts.py"""
    src = open(REPO_SRC, encoding="utf-8").read()
    out = {}
    for name in ("TRANSFORM_SMALL_MAP", "TRANSFORM_CAPS_MAP", "FLIPPED_SMALL_MAP", "FLIPPED_CAPS_MAP"):
        m = re.search(r"static\s+%s\s*:\s*&\[char\]\s*=\s*&\[(.*?)\];" % name, src, re.S)
        out[name] = re.findall(r"'(.)'", m.group(1)) if m else []
    return out


TABLES = load_tables()
# the pattern is the property's notion of "tag or character entity" (same text as the source's regex)
EXCLUDED = re.compile(r"&[#\w]+;|<\s*.+?\s*>")

# Characters on which python's and the regex crate's \w, \s and . agree (and whose class the Lean model knows).
# é ß Ж 中 ٣ ḓ ɐ, and the characters that case-fold to ASCII letters (ſ K-Kelvin) or have special casing (İ ı Å-Angstrom)
WORDY = ["\u00e9", "\u00df", "\u0416", "\u4e2d", "\u0663", "\u1e13", "\u0250", "\u017f", "\u212a", "\u0130", "\u0131", "\u212b"]
SPACEY = [" ", "\u00a0", "\u0085", "\u3000", "\u2003", "\u2028"]
OTHER = ["\u20ac", "\U0001F600", "\u2192", "\u00ab", "\u2200", "\u202a"]               # € 😀 → « ∀ LRE
TOKENS = (["<", ">", "&", ";", "#", "/", "=", "\"", " ", "  ", "\n", "\t", "\r", "\x0b", "\x0c", "a", "e", "o", "u", "b", "z", "A", "E", "Z", "Q",
           "1", "_", "-", ".", "x", "Hello", "World", "<b>", "</b>", "<br/>", "<a href=\"x\">", "< i >", "&amp;", "&#x202a;",
           "&lt;", "& amp;", "&amp", "<>", "< >", "<\n>", "[", "]"] + WORDY + SPACEY + OTHER)
EXH = ["<", ">", "&", ";", "e", " ", "é", "\n"]
FLAGS = ["".join(p) for p in itertools.product("01", repeat=3)]
SENTENCES = ["Hello World", "Hello <a>World</a> in <b>my</b> House.", "The quick brown fox jumps over the lazy dog",
             "THE QUICK BROWN FOX", "aeou AEOU", "Save &amp; close", "<p>Trés <em>bien</em> €5</p>", "a", "Z", "é", "😀",
             "<b>", "&x;", "x<b>", "<b>x", "<b><i>", "<b>&amp;<i>", "<a<b>>", "<<b>>", "&&amp;;", "&#&#x1;", "a <b", "a &amp",
             "<b>é</b>é", "éé<b>éé</b>", "😀<b>😀a", "< b >a< / b >", "<\n b>a", "<b\n>a", "a<b>\n</b>", "< b >a",
             "&é;a", "&٣;a", "1 < 2 and 3 > 2 aaa", "a > b < c", ">a<", "&;a", "<>a", "<>a>", "< >a", "< >a>", ""]


def img(c, flipped, elongate):
    small = TABLES["FLIPPED_SMALL_MAP" if flipped else "TRANSFORM_SMALL_MAP"]
    caps = TABLES["FLIPPED_CAPS_MAP" if flipped else "TRANSFORM_CAPS_MAP"]
    if "a" <= c <= "z":
        n = small[ord(c) - 97]
        return n + n if elongate and c in "aeou" else n
    if "A" <= c <= "Z":
        return caps[ord(c) - 65]
    return c


def ref_plain(s, flipped, elongate):
    return "".join(img(c, flipped, elongate) for c in s)


def ref_dom(s, flipped, elongate, markers):
    if len(s) == 1:
        return s, []
    out = []
    pos = 0
    tags = []
    for m in EXCLUDED.finditer(s):
        out.append(ref_plain(s[pos:m.start()], flipped, elongate))
        out.append(m.group(0))
        tags.append(m.group(0))
        pos = m.end()
    out.append(ref_plain(s[pos:], flipped, elongate))
    r = "".join(out)
    return ("[" + r + "]" if markers else r), tags


def split_case(case):
    _, kind, flags, h = case.split(" ")
    return kind, flags[0] == "1", flags[1] == "1", flags[2] == "1", unhx(h).decode("utf-8")


def parts(obs):
    d = {}
    for p in obs.split(";"):
        k, _, v = p.partition(":")
        d[k] = v
    return d


class C20(Base):
    ID = "C20"
    AREA = "pseudo"
    LEMMA_FILES = ["FluentProofs/Pseudo.lean"]
    RULE = ("hand-written sentences and markup edge cases (tags/entities at start, end, adjacent, nested-looking, "
            "unterminated, whitespace and newline inside tags, multi-byte characters around and inside them) x all 8 flag "
            "combinations for transform_dom and x 4 for transform; token soup of <= 10 tokens over 66 tokens (markup "
            "characters, letters incl. a e o u, ready-made tags/entities, 2/3/4-byte characters of the classes word / "
            "space / other); long strings (9-70 items, mostly tags/entities; soup of up to 120 tokens); thorough adds all strings of <= 6 tokens over {<, >, &, ;, e, space, e-acute, newline} "
            "(300 k) with rotating flags. Non-trivial = the input has an ASCII letter and (for dom) at least one "
            "tag/entity match; distinct = distinct case line.")
    EXPLANATION = ("Theorems (parametric in any four 26-entry tables): transform never panics and is the per-character "
                   "image; transform_dom on every ordered non-overlapping boundary-aligned match list never panics (no "
                   "usize underflow in sub_len/diff, every slice and replace_range on a char boundary) and yields "
                   "t(seg0) tag0 t(seg1) ... t(segn) with the caller's flags, brackets iff with_markers, one-character "
                   "strings unchanged; the executable matcher's matches always form such a list. Tie: fluent_pseudo "
                   "called in-process (and through FluentBundle::set_transform) on the same cases as the Lean model; "
                   "an independent python reference built on python's re judges the implementation.")
    ASSUMPTIONS = ["Regex::replace_all applies the closure to every match of [a-zA-Z] and copies the rest",
                   "Regex::captures_iter yields leftmost-first non-overlapping matches in order",
                   "String::replace_range / str slicing panic exactly off char boundaries or out of range"]

    def soup(self, rng, maxlen):
        n = rng.randint(1, maxlen)
        return "".join(rng.choice(TOKENS) for _ in range(n))

    def markup(self, rng, long=False):
        """text with well-formed tags/entities in chosen places; long: 9..70 items, most of them tags/entities (more
        markup items than any small fixed-size buffer holds)"""
        words = ["Hello", "World", "aeou", "é", "x", "Zz", "a b", "€", "😀", "٣", " "]
        tags = ["<b>", "</b>", "<a href=\"u\">", "<br/>", "< i >", "&amp;", "&#x202a;", "&nbsp;", "<é>", "<b >", "<x y>"]
        n = rng.choice([9, 10, 12, 16, 17, 20, 33, 40, 65, 70]) if long else rng.randint(1, 6)
        out = []
        for _ in range(n):
            r = rng.random()
            if r < (0.3 if long else 0.45):
                out.append(rng.choice(words))
            elif r < 0.9:
                out.append(rng.choice(tags))
            else:
                out.append(rng.choice(["<", ">", "&", ";", "<b", "&amp"]))
        return "".join(out)

    def generate(self, rng, tier):
        quick = tier == "quick"
        for s in SENTENCES:
            for f in FLAGS:
                yield "pseudo dom %s %s" % (f, hx(s))
            for f in ("000", "010", "100", "110"):
                yield "pseudo plain %s %s" % (f, hx(s))
        for c in "abcdefghijklmnopqrstuvwxyzABCDEFGHIJKLMNOPQRSTUVWXYZ@[`{":
            for f in ("000", "010", "100", "110"):
                yield "pseudo plain %s %s" % (f, hx("x" + c + "y"))
                yield "pseudo dom %s %s" % (f, hx("<" + c + ">" + c + c))
        for _ in range(4000 if quick else 150000):
            yield "pseudo dom %s %s" % (rng.choice(FLAGS), hx(self.soup(rng, 10)))
        for _ in range(1500 if quick else 50000):
            yield "pseudo dom %s %s" % (rng.choice(FLAGS), hx(self.markup(rng)))
        for _ in range(300 if quick else 10000):
            yield "pseudo dom %s %s" % (rng.choice(FLAGS), hx(self.markup(rng, long=True)))
        for _ in range(100 if quick else 3000):
            yield "pseudo dom %s %s" % (rng.choice(FLAGS), hx(self.soup(rng, 120)))
        for _ in range(800 if quick else 20000):
            yield "pseudo plain %s0 %s" % (rng.choice(["00", "01", "10", "11"]), hx(self.soup(rng, 10)))
        if not quick:
            k = 0
            for n in range(0, 7):
                for seq in itertools.product(EXH, repeat=n):
                    yield "pseudo dom %s %s" % (FLAGS[k % 8], hx("".join(seq)))
                    k += 1

    def mutate(self, case, rng, n):
        kind, f, e, m, s = split_case(case)
        out = []
        for _ in range(n):
            cs = list(s)
            k = rng.randrange(3)
            if k == 0 and cs:
                del cs[rng.randrange(len(cs))]
            elif k == 1:
                cs.insert(rng.randrange(len(cs) + 1), rng.choice(TOKENS))
            elif cs:
                cs[rng.randrange(len(cs))] = rng.choice(TOKENS)
            out.append("pseudo %s %s %s" % (kind, rng.choice(FLAGS), hx("".join(cs))))
        return out

    def shrink(self, case, fails):
        from .. import core
        _, kind, flags, h = case.split(" ")
        cs = list(unhx(h).decode("utf-8"))
        if len(cs) < 2:
            return case
        small = core.ddmin(cs, lambda cands: fails(["pseudo %s %s %s" % (kind, flags, hx("".join(c))) for c in cands]))
        return "pseudo %s %s %s" % (kind, flags, hx("".join(small)))

    def project(self, case, obs):
        return obs.split(";")[0]

    def predicate(self, case, impl_obs):
        bad = super().predicate(case, impl_obs)
        if bad:
            return bad
        if impl_obs == "bad-input":
            return "harness rejected the case"
        kind, f, e, m, s = split_case(case)
        f0 = f
        d = parts(impl_obs)
        if "ok" not in d:
            return "unexpected observation " + impl_obs[:80]
        out = unhx(d["ok"]).decode("utf-8")
        if kind == "plain":
            exp = ref_plain(s, f, e)
        else:
            exp, _ = ref_dom(s, f, e, m)
        if out != exp:
            return "output %s != reference %s" % (d["ok"], hx(exp))
        if d.get("x", "same").startswith("RACE:FIRST-CALL-PANICS"):
            return ("transform_dom panicked when the FIRST calls of the process were made by 8 threads at the same instant "
                    "(%s of them): something initialised lazily on first use is not ready for every caller" % d["x"].rpartition("-")[2])
        if d.get("x", "same") != "same":
            return ("transform_dom is not a function of its arguments: called while another thread transforms the same text "
                    "in another style it returned " + d["x"][:90])
        mv, nv = d.get("m", "na"), d.get("n", "na")
        sv, rv, lv, qv = d.get("s", "na"), d.get("r", "na"), d.get("l", "na"), d.get("q", "na")
        for f in (mv, nv, sv, rv, lv, qv):
            if f.startswith("CONFIG-HISTORY"):
                return ("the same transform installed through another configuration history (set_formatter(None) after "
                        "set_transform / formatter installed and removed / transform replaced) answers differently: " + f[:90])
            if f.startswith("WRITE-DIFFERS"):
                return "write_pattern and format_pattern disagree under set_transform: " + f[:80]
        if mv != "na" and mv != d["ok"]:
            return "through set_transform (single text element) %s != direct %s" % (mv, d["ok"])
        if nv != "na" and unhx(nv) != out.encode("utf-8") + b"|" + out.encode("utf-8"):
            return "through set_transform (two text elements) %s != direct|direct" % nv
        if sv != "na" and (sv.startswith("err") or unhx(sv) != out.encode("utf-8") * 3):
            return ("through set_transform, text before / inside the default variant of / after a select on a missing "
                    "argument: %s != direct x 3" % sv)
        if qv != "na" and (qv.startswith("err") or unhx(qv) != s.encode("utf-8")):
            return "through set_transform, a pattern that is one string-literal placeable was changed: %s (a literal is not text)" % qv
        if lv != "na":
            # a text-only two-line pattern is two text elements, `<input>\n` and `<input>`, each transformed on its own
            if kind == "plain":
                e1, e2 = ref_plain(s + "\n", f0, e), ref_plain(s, f0, e)
            else:
                e1, e2 = ref_dom(s + "\n", f0, e, m)[0], ref_dom(s, f0, e, m)[0]
            if lv.startswith("err") or unhx(lv).decode("utf-8") != e1 + e2:
                return "through set_transform, two-line text pattern: %s != transform(line 1 + LF) + transform(line 2)" % lv
        if rv != "na" and (rv.startswith("err") or unhx(rv) != out.encode("utf-8") * 3):
            return "through set_transform, text through a term reference / direct / message reference: %s != direct x 3" % rv
        uv = d.get("u", "na")
        if uv.startswith(("CONFIG-HISTORY", "WRITE-DIFFERS")):
            return "through set_transform, pattern with unresolvable references: " + uv[:90]
        o8 = out.encode("utf-8")
        if uv != "na" and (uv.startswith("err") or unhx(uv) != o8 + b"{nope}" + o8 + b"{-nope}{m.nope}{NOPE()}"):
            return ("through set_transform, text around references that do not resolve: %s - the `{name}` placeholders are not "
                    "text of the pattern and are written as they are" % uv[:120])
        return None

    def nontrivial(self, case, impl_obs):
        kind, f, e, m, s = split_case(case)
        has_letter = any(("a" <= c <= "z") or ("A" <= c <= "Z") for c in s)
        if kind == "plain":
            return has_letter
        return has_letter and len(s) != 1 and EXCLUDED.search(s) is not None

    def classify(self, case, impl_obs, dist):
        kind, f, e, m, s = split_case(case)
        bump(dist, "cases")
        bump(dist, "kind:" + kind)
        bump(dist, "flags:%d%d%d" % (f, e, m) if kind == "dom" else "flags:%d%d-" % (f, e))
        n = len(s)
        bump(dist, "chars:" + ("0" if n == 0 else "1" if n == 1 else "<=8" if n <= 8 else "<=32" if n <= 32 else ">32"))
        if any(ord(c) > 127 for c in s):
            bump(dist, "has-multibyte")
        if any(c in "aeou" for c in s):
            bump(dist, "has-aeou")
        if any("A" <= c <= "Z" for c in s):
            bump(dist, "has-upper")
        if kind == "dom" and n != 1:
            ms = list(EXCLUDED.finditer(s))
            k = len(ms)
            bump(dist, "matches:" + ("0" if k == 0 else "1" if k == 1 else "2-3" if k <= 3 else ">3"))
            for i, mm in enumerate(ms):
                g = mm.group(0)
                bump(dist, "match:" + ("entity" if g[0] == "&" else "tag"))
                if mm.start() == 0:
                    bump(dist, "match-at-start")
                if mm.end() == n:
                    bump(dist, "match-at-end")
                if i + 1 < k and ms[i + 1].start() == mm.end():
                    bump(dist, "matches-adjacent")
                if any(ord(c) > 127 for c in g):
                    bump(dist, "match-has-multibyte")
                if "\n" in g or g[1:2].isspace():
                    bump(dist, "tag-with-inner-whitespace")
                if mm.start() > 0 and ord(s[mm.start() - 1]) > 127:
                    bump(dist, "multibyte-before-match")
            if k and any(("a" <= c <= "z") for c in s[:ms[0].start()]):
                bump(dist, "letters-before-first-match")
            if ("<" in s or "&" in s) and k == 0:
                bump(dist, "unterminated-markup-only")
        d = parts(impl_obs)
        bump(dist, "bundle:" + ("formatted" if d.get("m", "na") != "na" else "na"))


P = C20()
P.RULE = P.RULE + " Every dom case is also run 40 times on two threads at once (the case's style and the opposite one). Through a bundle: one and two text elements, a select on a missing argument, term/message references, a two-line pattern, a lone string literal, text around four references that do not resolve; the bundle is built with four configuration histories of the same transform (formatter installed and removed before/after, transform replaced) which must answer alike."
