"""C11 - FluentArgs is a map."""
import itertools
from .base import Base, bump
from ..core import hx

# the second line: keys that diverge INSIDE a UTF-8 character (same lead byte, or same lead bytes of a 3-/4-byte character)
KEYS = ["", "a", "ab", "b", "B", "é", "a\0", "ａ", "z", "aa", "é́", "\U0001F600", "ab-c", "a b",
        "è", "größe", "grüße", "д", "ж", "日本", "日曜", "\U0001F601", "aé", "aè",
        # keys that differ only by a leading sigil / separator (a caller may well pass "$x"; it is a different key than "x")
        "$", "$a", "$$a", "a$b", "-a", "a-", " a", "A",
        # keys that an index over a DIGEST of the name conflates: equal first eight bytes; equal 31-multiplier hashes
        # (java-style: "Aa"/"BB"), equal length and equal byte sum
        "emailCountNew", "emailCountOld", "emailCou", "emailCount", "Aa", "BB", "AaAa", "AaBB", "BBAa", "BBBB", "n1", "mP", "ad", "bc"]
SIMPLE_VALS = ["s" + hx("x"), "s-", "o" + hx("y"), "o" + hx("é"), "c" + hx("cust"), "z", "i5", "i-7", "i0",
               "u255", "s" + hx("1.0"), "i123456789012"]
NUM_VALS = ["t" + hx("1.50"), "t" + hx("-0"), "t" + hx("007"), "t" + hx("abc"), "t" + hx("1 "), "t" + hx("0.000"),
            "n1.5/3", "n10/-", "n-2.25/0", "f1.5", "f100", "t" + hx("x1"), "t" + hx("12345.678900")]


def canon_simple(tok):
    k, r = tok[0], tok[1:]
    if k == "s":
        return "Sb" + r
    if k == "o":
        return "So" + r
    if k == "c":
        return "C" + r
    if k == "z":
        return "Z"
    if k in "iu":
        return "N%s/-/c" % r
    return None


class C11(Base):
    ID = "C11"
    AREA = "args"
    LEMMA_FILES = ["FluentProofs/Args.lean", "FluentProofs/BytesOrder.lean"]
    RULE = ("random set/get/iter/into/from_iter/fluent_args! histories over a 14-key alphabet (empty, non-ASCII, "
            "prefix-related, NUL) with borrowed and owned keys and 25 value tokens; a many-keys family (9-130 distinct keys in random, ascending or descending order, overwrites, every key and four absent ones looked up); thorough adds the exhaustive family "
            "of <=5 sets over 4 keys followed by all gets and iter. The key pool includes keys that differ only by a leading sigil (`$a`/`a`), keys with equal first eight bytes and keys with equal 31-multiplier hashes (`Aa`/`BB`). Non-trivial = the history overwrites a key or "
            "inserts out of order (a set whose key is below an earlier key) and observes at least one get/iter; "
            "distinct = distinct case line.")
    EXPLANATION = ("Theorems: for every op list, the vector stays strictly sorted, get = last write, iter keys = set "
                   "of keys set (Nodup), canonical form. Tie: the same histories run on fluent_bundle::FluentArgs "
                   "(in-process) and on the Lean model; observations diffed. Independent python map oracle evaluates "
                   "the property predicate on the implementation.")
    ASSUMPTIONS = ["std binary_search_by_key contract on a strictly sorted slice", "Vec::insert"]

    def gen_history(self, rng, maxlen):
        n = rng.randint(1, maxlen)
        nk = rng.choice([2, 3, 4, 6, 10, len(KEYS)])
        keys = rng.sample(KEYS, nk)
        ops = []
        for _ in range(n):
            r = rng.random()
            k = hx(rng.choice(keys))
            kk = rng.choice("bo")
            if r < 0.5:
                v = rng.choice(SIMPLE_VALS) if rng.random() < 0.7 else rng.choice(NUM_VALS)
                ops.append("set:%s:%s:%s" % (k, kk, v))
            elif r < 0.8:
                ops.append("get:%s:%s" % (hx(rng.choice(KEYS)) if rng.random() < 0.2 else k, kk))
            elif r < 0.9:
                ops.append("iter")
            elif r < 0.93:
                ops.append("into")
            else:
                m = rng.randint(0, 5)
                ps = ",".join("%s=%s" % (hx(rng.choice(keys)), rng.choice(SIMPLE_VALS + NUM_VALS)) for _ in range(m))
                ops.append("%s:%s" % (rng.choice(["fromiter", "macro"]), ps))
        # always end by observing everything
        ops.append("iter")
        for k in keys:
            ops.append("get:%s:b" % hx(k))
        return "args " + ";".join(ops)

    def gen_many(self, rng):
        """MANY distinct keys (9..1025: several growth steps of the vector, binary search over more than a handful of
        entries), set in random / ascending / descending order, some overwritten, then all looked up"""
        n = rng.choice([9, 10, 16, 17, 31, 32, 33, 64, 65, 130, 255, 256, 257, 300, 513, 1025])
        if rng.random() < 0.15:
            # LONG keys (63, 64, 65, 127, 128, 300 bytes; ASCII and multi-byte): a per-length summary must not lose them
            keys = [c * (ln // len(c.encode("utf-8"))) + "%d" % i for i, (c, ln) in enumerate(
                [("a", 63), ("a", 64), ("b", 65), ("c", 127), ("d", 128), ("e", 300), ("\u65e5", 66), ("\u00e9", 64), ("z", 62)])]
            n = len(keys)
        else:
            keys = None
        keys = keys or ["k%03d" % i for i in range(n)] if rng.random() < 0.6 else keys or \
               [rng.choice(["", "a", "é", "日", "z"]) + "%d" % i for i in range(n)]
        order = list(keys)
        o = rng.random()
        if o < 0.5:
            rng.shuffle(order)
        elif o < 0.75:
            order.reverse()
        ops = ["set:%s:%s:i%d" % (hx(k), rng.choice("bo"), i) for i, k in enumerate(order)]
        for k in rng.sample(keys, 5):
            ops.append("set:%s:b:s%s" % (hx(k), hx("again")))
        ops.append("iter")
        probe = keys + ["k", "k999", "zz", ""]
        rng.shuffle(probe)
        for k in probe:
            ops.append("get:%s:%s" % (hx(k), rng.choice("bo")))
        return "args " + ";".join(ops)

    def generate(self, rng, tier):
        n = 3000 if tier == "quick" else 150000
        for _ in range(n):
            yield self.gen_history(rng, 24 if rng.random() < 0.9 else 80)
        for _ in range(100 if tier == "quick" else 5000):
            yield self.gen_many(rng)
        if tier == "thorough":
            ks = ["a", "ab", "", "é"]
            tail = ";".join(["iter"] + ["get:%s:b" % hx(k) for k in ks])
            for n in range(1, 6):
                for seq in itertools.product(range(4), repeat=n):
                    ops = ["set:%s:b:i%d" % (hx(ks[k]), i) for i, k in enumerate(seq)]
                    yield "args " + ";".join(ops) + ";" + tail

    # independent oracle: a python dict ---------------------------------------------------------
    def predicate(self, case, impl_obs):
        bad = super().predicate(case, impl_obs)
        if bad:
            return bad
        ops = case.partition(" ")[2].split(";")
        obs = impl_obs.split(";") if impl_obs else []
        if len(ops) != len(obs):
            return "observation count %d != op count %d" % (len(obs), len(ops))
        m = {}
        for op, o in zip(ops, obs):
            p = op.split(":")
            if o == "bad-op":
                return "harness rejected op " + op + (" (fluent_args!: an expression was evaluated twice / not at all, or a caller-side item was shadowed by the expansion)" if p[0] == "macro" else "")
            if o == "ITER-PROTOCOL-DISAGREE":
                return "iter() consumed with skip / step_by / nth / count / last walks another sequence than the plain loop"
            if p[0] == "set":
                m[p[1]] = p[3]
            elif p[0] in ("fromiter", "macro"):
                m = {}
                if p[1]:
                    for kv in p[1].split(","):
                        k, v = kv.split("=")
                        m[k] = v
            elif p[0] == "get":
                if p[1] in m:
                    exp = canon_simple(m[p[1]])
                    if not o.startswith("some="):
                        return "get %s: key was set but lookup found nothing" % p[1]
                    if exp is not None and o != "some=" + exp:
                        return "get %s: expected %s got %s" % (p[1], exp, o)
                elif o != "none":
                    return "get %s: key never set but got %s" % (p[1], o)
            elif p[0] in ("iter", "into"):
                items = [x for x in o[1:-1].split(",") if x]
                ks = [x.split("=")[0] for x in items]
                if sorted(ks) != sorted(m.keys()):
                    return "iteration keys %s != keys set %s" % (ks, sorted(m.keys()))
                for x in items:
                    k, v = x.split("=")
                    exp = canon_simple(m[k])
                    if exp is not None and v != exp:
                        return "iteration value for %s: expected %s got %s" % (k, exp, v)
                if p[0] == "into":
                    m = {}
        return None

    def nontrivial(self, case, impl_obs):
        ops = case.partition(" ")[2].split(";")
        seen = []
        overwrite = ooo = False
        for op in ops:
            p = op.split(":")
            if p[0] == "set":
                kb = bytes.fromhex(p[1]) if p[1] != "-" else b""
                if kb in seen:
                    overwrite = True
                if any(kb < s for s in seen):
                    ooo = True
                seen.append(kb)
        return overwrite or ooo

    def classify(self, case, impl_obs, dist):
        ops = case.partition(" ")[2].split(";")
        bump(dist, "histories")
        bump(dist, "len<=8" if len(ops) <= 8 else "len<=32" if len(ops) <= 32 else "len>32")
        for op in ops:
            bump(dist, "op:" + op.split(":")[0])
        for o in impl_obs.split(";"):
            if o == "none":
                bump(dist, "obs:get-none")
            elif o.startswith("some="):
                bump(dist, "obs:get-some:" + o[5:6])


P = C11()
