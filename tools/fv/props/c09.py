"""C09 - bidi isolation is additive, balanced and confined to interpolated values"""
import re
from .c06 import C06
from .base import bump
from . import resfam
from .. import resgen
from ..core import hx, unhx

FSI, PDI = resfam.FSI, resfam.PDI


def balanced(b):
    depth = 0
    i = 0
    while i < len(b):
        if b.startswith(FSI, i):
            depth += 1
            i += 3
        elif b.startswith(PDI, i):
            depth -= 1
            if depth < 0:
                return False
            i += 3
        else:
            i += 1
    return depth == 0


def strip(b):
    return b.replace(FSI, b"").replace(PDI, b"")


class C09(C06):
    ID = "C09"
    EXTRA_MODULES = []
    LEMMA_FILES = ["FluentProofs/ResolverIso.lean", "FluentProofs/ResolverIso2.lean", "FluentProofs/ResolverIso3.lean", "FluentProofs/ResolverIso4.lean", "FluentProofs/ResolverIso5.lean", "FluentProofs/ConstTieResolver.lean"]
    RULE = ("every GR / bomb / hand-written bundle formatted twice on one line: isolation off and isolation on (same "
            "resources, functions, requests; texts and arguments never contain FSI/PDI). Non-trivial = the isolating output "
            "contains at least one mark; distinct = distinct case line.")
    EXPLANATION = ("Theorems about the resolver model: marks are emitted only as FSI…PDI pairs around a placeable of a "
                   "multi-element pattern (never for single-element patterns, message/term references or string literals), "
                   "the output is balanced on every path including error fallbacks and the placeable-limit path, and removing "
                   "the marks gives the isolation-off text when no selector is resolved through a multi-element pattern "
                   "(known finding F15 otherwise). Predicate on the implementation: strip(on) == off, equal error lists, "
                   "balanced and properly nested marks, single-element patterns get none.")

    def pair(self, case):
        assert " | " not in case
        off = re.sub(r"iso=\d", "iso=0", case, count=1)
        on = re.sub(r"iso=\d", "iso=1", case, count=1)
        return off + " | " + on[4:]

    def generate(self, rng, tier):
        for c in resgen.handwritten():
            if "iso=0" in c:
                yield self.pair(c)
        for c in resgen.bomb_cases(rng):
            if "iso=0" in c:
                yield self.pair(c)
        n = 2500 if tier == "quick" else 150000
        for _ in range(n):
            yield self.pair(resgen.GR(rng, depth=rng.choice([1, 2, 3])).case())

    def predicate(self, case, impl_obs):
        bad = super().predicate(case, impl_obs)
        if bad:
            return bad
        subs = impl_obs.split(" | ")
        if len(subs) != 2:
            return None
        off, on = resfam.parse_obs(subs[0]), resfam.parse_obs(subs[1])
        reqs = resfam.case_parts(case.split(" | ")[0])["reqs"]
        for rq, a, b in zip(reqs, off, on):
            if "raw" in a or "raw" in b:
                if a != b:
                    return "request outcome differs between isolation settings"
                continue
            for k in ("T", "W"):
                if FSI in a[k] or PDI in a[k]:
                    return "isolation off but the output contains marks"
                if not balanced(b[k]):
                    return "request %s: FSI/PDI marks are not balanced / properly nested" % rq.split(":")[0]
                if strip(b[k]) != a[k]:
                    return "request %s: removing the marks does not give the isolation-off text" % rq.split(":")[0]
            if a["TE"] != b["TE"] or a["WE"] != b["WE"]:
                return "request %s: error lists differ between isolation settings" % rq.split(":")[0]
        return None

    def predicate2(self, case, impl_obs, model_obs):
        """placement of the marks: the reference semantics (ResolverSpec, evaluated next to the model) writes a
        pair exactly around each placeable of a multi-element pattern whose expression is not a message/term
        reference or a string literal, and none for single-element patterns; the implementation's text with
        isolation on must be that text, mark for mark"""
        from .c07 import C07
        why = C07.predicate2(self, case, impl_obs, model_obs)
        if why and "differs from the Fluent semantics" in why:
            return why.replace("differs from the Fluent semantics", "places FSI/PDI differently from the isolation rule (reference semantics)")
        return why

    def matches_known(self, k, case, impl_obs, why):
        """F15: a select whose selector value flows through a multi-element pattern (term attribute / reference passed
        through a function) compares the isolated string.  F15 is a property of the code AS IT IS, and the model is a
        transcription of that code: a failure is explained by F15 only when (1) it is a failure of the additivity
        clause, (2) the source has such a select, and (3) the MODEL shows exactly the same observation - a change of
        the code that breaks the clause in another way makes implementation and model differ and is reported.
        A model-vs-implementation disagreement is never explained by F15."""
        if k.get("id") != "F15":
            return False
        if "removing the marks" not in str(why) and "error lists differ" not in str(why):
            return False
        m = getattr(self, "current_model_obs", None)
        if m is None or self.project(case, impl_obs) != self.project(case, m):
            return False
        src = resfam.sources(case).decode("utf-8", "replace")
        return re.search(r"\{\s*(-[a-z0-9]+\.[a-z]+(\([^)]*\))?|[A-Z]+\([^)]*(-?[a-z][a-z0-9]*)[^)]*\))\s*->", src) is not None

    def nontrivial(self, case, impl_obs):
        return "e281a8" in impl_obs

    def classify(self, case, impl_obs, dist):
        super().classify(case, impl_obs, dist)
        bump(dist, "marks", impl_obs.count("e281a8"))

    def shrink(self, case, fails):
        if " | " not in case:
            return super().shrink(case, fails)
        off = case.split(" | ")[0]
        small = super().shrink(off, lambda cands: fails([self.pair(c) for c in cands]))
        return self.pair(small)

    def mutate(self, case, rng, n):
        return [self.pair(resgen.GR(rng, depth=2).case()) for _ in range(n)]


P = C09()
