"""C10 - bundle registry behaves as a keyed map over any history of additions.

Case line: `reg <op>;<op>;...` (format: lean/FluentModel/Drv/RegDrv.lean).  Resources travel as structured
descriptions which the harness renders to FTL and parses with the real FluentResource::try_new.
"""
import itertools
from .base import Base, bump
from ..core import hx, unhx

UPPER = ["A", "B", "C-D", "E_1", "Z9", "NUMBER"]       # valid as message id, term id and function callee
LOWER = ["a", "b", "msg-x", "key_1", "aA"]             # valid as message/term id only
ATTRS = ["a", "b", "title", "aria-label", "A"]
WORDS = ["v", "Hello World ", "é€ ", "x = ", "a.b-", "T"]


def is_upper(idh):
    s = unhx(idh).decode()
    return s[:1].isupper() and all(c.isupper() or c.isdigit() or c in "-_" for c in s)


class Gen:
    """one history; texts carry a running counter so that every definition is distinguishable"""

    def __init__(self, rng, ids):
        self.rng = rng
        self.ids = ids
        self.n = 0

    def text(self):
        self.n += 1
        return hx("%s%d" % (self.rng.choice(WORDS), self.n))

    def attrs(self):
        rng = self.rng
        k = rng.choice([0, 0, 1, 2, 3])
        names = [rng.choice(ATTRS[:3] if rng.random() < 0.7 else ATTRS) for _ in range(k)]
        return "+".join("%s=%s" % (hx(n), self.text()) for n in names)

    def desc(self, force_id=None):
        rng = self.rng
        r = rng.random()
        i = hx(force_id if force_id is not None else rng.choice(self.ids))
        if r < 0.50:
            a = self.attrs()
            if rng.random() < 0.25 and a:
                return "m/%s/~/%s" % (i, a)
            return "m/%s/%s/%s" % (i, self.text(), a)
        if r < 0.72:
            return "t/%s/%s/%s" % (i, self.text(), self.attrs())
        if r < 0.86:
            return "j"
        if r < 0.94:
            return "c"
        return "e/%s" % i

    def resource(self):
        rng = self.rng
        k = rng.choice([0, 1, 1, 2, 2, 3, 3, 4, 5, 6])
        ds = [self.desc() for _ in range(k)]
        if ds and rng.random() < 0.25:
            # same id twice inside one resource
            d = rng.choice(ds)
            if "/" in d:
                ds.insert(rng.randrange(len(ds) + 1), self.desc(unhx(d.split("/")[1]).decode()))
        return ",".join(ds)

    def lookups(self, ids=None):
        out = []
        for i in (ids or self.ids):
            h = hx(i)
            out += ["has:" + h, "msg:" + h, "term:" + h, "ref:" + h]
            # the dash-prefixed spelling is never a key of the registry (terms are stored under their bare name)
            out += ["has:" + hx("-" + i), "msg:" + hx("-" + i)]
            if is_upper(h):
                out.append("call:" + h)
            for a in ATTRS[:3] + ["zz"]:
                out.append("attr:%s:%s" % (h, hx(a)))
        # keys no resource can define: the EMPTY key and keys whose first character is multi-byte (a lookup is a map
        # lookup for ANY string: absent, not a panic)
        for odd in ("", "\u00e9", "\u65e5x", "\u2212x", "\U0001F600", "\u00e9" + (ids or self.ids)[0]):
            out += ["has:" + hx(odd), "msg:" + hx(odd), "attr:%s:%s" % (hx(odd), hx("a"))]
        return out


def parse_attrs(s):
    if not s:
        return []
    return [tuple(nv.split("=")) for nv in s.split("+")]


def defs_of(res):
    """(kind, id, value|None, attrs) of the messages and terms a description lists, in order"""
    out = []
    if not res:
        return out
    for d in res.split(","):
        p = d.split("/")
        if p[0] == "m" and not (p[2] == "~" and not p[3]):
            out.append(("M", p[1], None if p[2] == "~" else p[2], parse_attrs(p[3])))
        elif p[0] == "t":
            out.append(("T", p[1], p[2], parse_attrs(p[3])))
    return out


class C10(Base):
    ID = "C10"
    AREA = "reg"
    LEMMA_FILES = ["FluentProofs/Registry.lean"]
    RULE = ("random histories of <=8 add_resource / add_resource_overriding / add_function calls over a 6-id alphabet "
            "(ids valid as message, term and function name, so all three kinds collide), resources of 0-7 entries: "
            "messages with/without value and 0-3 attributes (duplicate attribute names), terms, Junk lines, comments, "
            "field-less messages, the same id twice inside one resource; lookups (has_message, get_message value + "
            "attributes, get_attribute, term / function / message references through format_pattern) for every id "
            "after the history and sometimes in between; three fixed boundary histories (a resource of 65 540 entries next to a small one, in both orders, and 300 one-entry resources) with lookups around 256 and 65 536. thorough adds the exhaustive family of <=4 ops drawn from 16 "
            "op shapes over 2 ids. Non-trivial = at least one id is defined twice in the history (Overriding error "
            "or replacement) and at least one lookup; distinct = distinct case line.")
    EXPLANATION = ("Theorems (all histories, induction over the op list): index invariant, refinement of the registry to "
                   "the keyed map id -> definition (first wins / last wins / function only if vacant), exact Overriding "
                   "list, get_message = value + attributes of the winning message definition, lookups never cross "
                   "kinds. Tie: same histories on the real FluentBundle and on the Lean model, observations diffed; "
                   "an independent python dict oracle evaluates the property text on the implementation.")
    ASSUMPTIONS = ["FxHashMap is a finite map (get/insert/entry laws)", "Vec::push / Vec::get",
                   "the runtime parser yields the described entries for the rendered FTL text (checked per case "
                   "through the body-shape observation)"]

    def history(self, rng, maxops=8):
        # (`addh` / `addovh`: the resource is a shared handle, Rc<FluentResource>; the same description = the same handle)
        ids = rng.sample(UPPER, 4) + rng.sample(LOWER, 2)
        if rng.random() < 0.3:
            ids = ids[:rng.choice([2, 3])] + ids[4:5]
        g = Gen(rng, ids)
        n = rng.randint(1, maxops)
        ops = []
        shared = []          # descriptions handed over as shared handles (Rc): may be handed over AGAIN
        for _ in range(n):
            r = rng.random()
            if shared and rng.random() < 0.12:
                # the very same resource handle a second time, through either entry point
                ops.append(rng.choice(["addh:", "addh:", "addovh:"]) + rng.choice(shared))
            elif r < 0.45:
                if rng.random() < 0.3:
                    shared.append(g.resource())
                    ops.append("addh:" + shared[-1])
                else:
                    ops.append("add:" + g.resource())
            elif r < 0.75:
                if rng.random() < 0.3:
                    shared.append(g.resource())
                    ops.append("addovh:" + shared[-1])
                else:
                    ops.append("addov:" + g.resource())
            else:
                ops.append("fn:" + hx(rng.choice(ids)))
            if rng.random() < 0.15:
                ops += rng.sample(g.lookups(), 3)
        ops += g.lookups()
        return "reg " + ";".join(ops)

    @staticmethod
    def boundary_cases():
        """sizes at which a narrowed index type would wrap: > 65536 entries in one resource, > 256 resources in one
        bundle (judged by the python oracle; the Lean driver declines lines of this size)"""
        def look(ids):
            out = []
            for i in ids:
                h = hx(i)
                out += ["has:" + h, "msg:" + h, "ref:" + h]
            return out
        big = ",".join("m/%s/%s/" % (hx("k%d" % i), hx("v%d" % i)) for i in range(65540))
        small = ",".join("m/%s/%s/" % (hx("s%d" % i), hx("w%d" % i)) for i in range(50))
        ids = ["k0", "k1", "k255", "k256", "k65535", "k65536", "k65537", "k65539", "s0", "s1", "s39", "s49"]
        yield "reg add:%s;add:%s;%s" % (big, small, ";".join(look(ids)))
        yield "reg addov:%s;addov:%s;%s" % (small, big, ";".join(look(ids)))
        # MANY duplicates in one resource (more Overriding errors than any small cap), fresh ids before, between and
        # behind them; then the same through add_resource_overriding, and a redefinition of the fresh ids
        for n in (9, 17, 33, 34, 65, 130):
            first = ",".join("m/%s/%s/" % (hx("d%d" % i), hx("v%d" % i)) for i in range(n))
            second = ",".join(["m/%s/%s/" % (hx("f0"), hx("new0"))]
                              + ["%s/%s/%s/" % ("t" if i % 5 == 0 else "m", hx("d%d" % i), hx("w%d" % i)) for i in range(n)]
                              + ["m/%s/%s/" % (hx("f1"), hx("new1"))])
            ids = ["d0", "d1", "d%d" % (n - 1), "f0", "f1"]
            yield "reg add:%s;add:%s;%s;add:m/%s/%s/;%s" % (first, second, ";".join(look(ids)), hx("f1"), hx("again"), ";".join(look(["f1"])))
            yield "reg add:%s;addov:%s;%s" % (first, second, ";".join(look(ids)))
        many = ";".join("%s:m/%s/%s/" % ("add" if i % 2 else "addov", hx("r%d" % i), hx("x%d" % i)) for i in range(300))
        yield "reg %s;%s" % (many, ";".join(look(["r0", "r1", "r254", "r255", "r256", "r257", "r299"])))

    def generate(self, rng, tier):
        for c in self.boundary_cases():
            yield c
        n = 4000 if tier == "quick" else 120000
        for _ in range(n):
            yield self.history(rng)
        if tier == "thorough":
            A, B = hx("A"), hx("b")
            shapes = []
            res = ["m/%s/%s/" % (A, hx("x")), "t/%s/%s/" % (A, hx("y")), "m/%s/%s/" % (B, hx("z")),
                   "m/%s/~/%s=%s" % (A, hx("a"), hx("w")),
                   "m/%s/%s/,m/%s/%s/%s=%s" % (A, hx("p"), A, hx("q"), hx("a"), hx("r")),
                   "t/%s/%s/,m/%s/%s/" % (A, hx("s"), B, hx("t")),
                   "j,m/%s/%s/%s=%s+%s=%s" % (A, hx("u"), hx("a"), hx("1"), hx("a"), hx("2"))]
            for r in res:
                shapes += ["add:" + r, "addov:" + r]
            shapes += ["fn:" + A, "fn:" + B]
            tail = []
            for i in (A, B):
                tail += ["has:" + i, "msg:" + i, "term:" + i, "ref:" + i, "attr:%s:%s" % (i, hx("a"))]
            tail += ["call:" + A]
            tail = ";".join(tail)
            for k in range(1, 5):
                for seq in itertools.product(shapes, repeat=k):
                    yield "reg " + ";".join(seq) + ";" + tail

    # independent oracle: a python dict id -> definition ------------------------------------------
    def predicate(self, case, impl_obs):
        bad = super().predicate(case, impl_obs)
        if bad:
            return bad
        ops = case.partition(" ")[2].split(";")
        obs = impl_obs.split(";") if impl_obs else []
        if len(ops) != len(obs):
            return "observation count %d != op count %d" % (len(obs), len(ops))
        m = {}   # id -> ("M", value, attrs) | ("T", value, attrs) | ("F", tag)
        for idx, (op, o) in enumerate(zip(ops, obs)):
            p = op.split(":")
            if p[0] in ("addh", "addovh"):
                p[0] = p[0][:-1]                 # a shared handle is an ordinary add as far as the registry goes
            if o.startswith("bad-") or o.startswith("unexpected") or o == "attr-with-wrong-name":
                return "harness: %s on %s" % (o[:80], op[:80])
            if p[0] in ("add", "addov"):
                defs = defs_of(p[1])
                shape, _, errs = o.partition("|")
                if [c for c in shape if c in "MT"] != [d[0] for d in defs]:
                    return "rendered resource parsed to %s, description lists %s" % (shape, "".join(d[0] for d in defs))
                exp = []
                for (k, i, v, a) in defs:
                    if p[0] == "add" and i in m:
                        exp.append("%s=%s" % (k, i))        # later duplicate: reported, first definition stays
                    else:
                        m[i] = (k, v, a)
                exp = ",".join(exp) if exp else "ok"
                if errs != exp:
                    return "%s: expected errors [%s], got [%s]" % (p[0], exp, errs)
            elif p[0] == "fn":
                if p[1] in m:
                    if o != "F=" + p[1]:
                        return "add_function on a taken id %s returned %s" % (p[1], o)
                else:
                    if o != "ok":
                        return "add_function on a free id %s returned %s" % (p[1], o)
                    m[p[1]] = ("F", idx)
            else:
                d = m.get(p[1])
                ismsg = d is not None and d[0] == "M"
                if p[0] == "has":
                    if o != ("1" if ismsg else "0"):
                        return "has_message(%s) = %s but the map holds %s" % (p[1], o, d and d[0])
                elif p[0] == "msg":
                    exp = "none"
                    if ismsg:
                        exp = "some:%s:%s" % (d[1] if d[1] is not None else "~", "+".join("%s=%s" % a for a in d[2]))
                    if o != exp:
                        return "get_message(%s): expected %s got %s" % (p[1], exp, o)
                elif p[0] == "attr":
                    exp = "nomsg"
                    if ismsg:
                        hit = [v for (n, v) in d[2] if n == p[2]]
                        exp = "some=" + hit[0] if hit else "none"
                    if o != exp:
                        return "get_attribute(%s.%s): expected %s got %s" % (p[1], p[2], exp, o)
                elif p[0] == "ref":
                    exp = "none"
                    if ismsg:
                        exp = "some=" + d[1] if d[1] is not None else "noval"
                    if o != exp:
                        return "message reference %s: expected %s got %s" % (p[1], exp, o)
                elif p[0] == "term":
                    exp = "some=" + d[1] if d is not None and d[0] == "T" else "none"
                    if o != exp:
                        return "term reference %s: expected %s got %s" % (p[1], exp, o)
                elif p[0] == "call":
                    exp = "some=%d" % d[1] if d is not None and d[0] == "F" else "none"
                    if o != exp:
                        return "function reference %s: expected %s got %s" % (p[1], exp, o)
                else:
                    return "unknown op " + op
        return None

    def _events(self, case):
        """(dups, lookups, collisions) of a history"""
        ops = case.partition(" ")[2].split(";")
        kinds = {}
        dups = 0
        cross = 0
        looks = 0
        for op in ops:
            p = op.split(":")
            if p[0] in ("addh", "addovh"):
                p[0] = p[0][:-1]
            if p[0] in ("add", "addov"):
                for (k, i, _, _) in defs_of(p[1]):
                    if i in kinds:
                        dups += 1
                        if kinds[i] != k:
                            cross += 1
                        if p[0] == "addov":
                            kinds[i] = k
                    else:
                        kinds[i] = k
            elif p[0] == "fn":
                if p[1] in kinds:
                    dups += 1
                    if kinds[p[1]] != "F":
                        cross += 1
                else:
                    kinds[p[1]] = "F"
            else:
                looks += 1
        return dups, looks, cross

    def nontrivial(self, case, impl_obs):
        dups, looks, _ = self._events(case)
        return dups > 0 and looks > 0

    def classify(self, case, impl_obs, dist):
        ops = case.partition(" ")[2].split(";")
        obs = impl_obs.split(";") if impl_obs else []
        bump(dist, "histories")
        adds = sum(1 for o in ops if o.split(":")[0] in ("add", "addov", "addh", "addovh", "fn"))
        bump(dist, "adds:%d" % min(adds, 8))
        dups, _, cross = self._events(case)
        bump(dist, "dups:0" if dups == 0 else "dups:1-3" if dups <= 3 else "dups:>3")
        if cross:
            bump(dist, "histories-with-cross-kind-collision")
        for op, o in zip(ops, obs):
            k = op.split(":")[0]
            bump(dist, "op:" + k)
            if k in ("addh", "addovh"):
                k = k[:-1]
            if k in ("add", "addov"):
                shape, _, errs = o.partition("|")
                if "J" in shape:
                    bump(dist, "res:with-junk")
                if shape == "-":
                    bump(dist, "res:empty")
                if errs != "ok":
                    for e in errs.split(","):
                        bump(dist, "err:Overriding-" + e[:1])
                elif k == "add":
                    bump(dist, "add:Ok")
            elif k == "fn":
                bump(dist, "fn:" + ("Ok" if o == "ok" else "Err"))
            elif k == "msg":
                if o == "none":
                    bump(dist, "msg:none")
                else:
                    _, v, a = o.split(":")
                    bump(dist, "msg:some:%s:%s" % ("novalue" if v == "~" else "value",
                                                   "attrs%d" % min(3, len([x for x in a.split("+") if x]))))
            else:
                bump(dist, "%s:%s" % (k, o.split("=")[0]))


P = C10()
