"""shared generator mix for the parser-family properties (area `parse`)"""
from .. import ftlgen
from ..core import hx


def case(src):
    return "parse " + hx(src)


def gen_mix(rng, tier, weights=None, sizes=None):
    """yields case lines; the mix is G1 corpus (whole files + entry chunks), G2 unparser, G3 mutations and prefixes,
    G4 soup, G5 neighbourhood, G6 depth (moderate: deep nesting is the subject of a known finding, see C01)"""
    quick = tier == "quick"
    files = list(ftlgen.g1_corpus(max_len=20000 if quick else None))
    for src in files:
        yield case(src)
    chunks = []
    for src in files:
        chunks.extend(ftlgen.split_entries(src))
    chunks = [c for c in chunks if len(c) < 600]
    seen = set()
    for c in chunks:
        if c not in seen:
            seen.add(c)
            yield case(c)
    chunks = sorted(seen)
    n2 = 1500 if quick else 60000
    g2srcs = []
    for _ in range(n2):
        for src, _exp in ftlgen.g2_case(rng, depth=rng.choice([1, 2, 3]), nlayouts=2):
            g2srcs.append(src)
            yield case(src)
    # G3 mutations of corpus chunks and unparser output
    n3 = 4000 if quick else 300000
    pool = chunks + g2srcs[:2000]
    for _ in range(n3):
        base = rng.choice(pool)
        yield case(ftlgen.g3_mutate(rng, base, rng.choice([1, 1, 2, 3])))
    # every prefix of a sample of chunks
    for base in rng.sample(chunks, min(len(chunks), 20 if quick else 400)):
        for p in ftlgen.g3_prefixes(base):
            yield case(p)
    # EVERY prefix of a fixed set of small sources that together use every construct (deterministic: does not depend on
    # which chunks the sample above happened to pick): input truncated after every token of a select, a variant key,
    # a `*`, a call, a named argument, an escape, an attribute, a term, a comment - LF and CRLF
    core = ["k = { $x ->\n    [one] One\n   *[other] { $n } é\n } t\n",
            "-t = T\n    .a = A { -t.a(x: 1, y: \"s\\u00e9\") ->\n       *[a] { FN(-t, m.a, 1.5, k: \"v\") }\n    }\n",
            "# c\n## g\n### r\nm =\n    line\n\n    { \"{\" }{ { m } }\n    .at = { 1 ->\n [0] z\n *[1.0] o\n }\n",
            "a = { NUMBER($n, minimumFractionDigits: 2) } { -b(c: -1) } { d.e } \\ \"q\"\n"]
    for src in core:
        for body in (src, src.replace("\n", "\r\n")):
            for p in ftlgen.g3_prefixes(body):
                yield case(p)
    # identifier CHARACTERS: every identifier kind with each boundary character of the classes a-z A-Z 0-9 _ - (and their
    # neighbours @ [ ` { / :) as second and as last character
    for ch in "AZaz09_-MmQ5@[`{/:":
        for ident in ("x" + ch + "y", "x" + ch):
            up = ("F" + ch + "N") if (ch.isupper() or ch.isdigit() or ch in "_-") else None
            yield case("%s = v\n-%s = t\nm = { %s } { -%s } { $%s } { m.%s } { $n ->\n   *[%s] k\n } { FN(%s: 1) }\n    .%s = a\n"
                       % (ident, ident, ident, ident, ident, ident, ident, ident, ident))
            if up:
                yield case("m = { %s() } { %s($x, k: 1) }\n" % (up, up))
    # pattern lines indented by 255 ... 65540 columns (an indent kept in a narrow integer wraps)
    for n in (254, 255, 256, 257, 65535, 65536, 65537, 65540) if quick else (254, 255, 256, 257, 65535, 65536, 65537, 65540, 131072, 200000):
        pad = " " * n
        yield case("k =\n%sa\n%s  b\n%s{ $x } c\n" % (pad, pad, pad))
        yield case("k = { $n ->\n%s[a] one\n%s    two\n%s*[b] x\n}\n    .at =\n%sv\n" % (pad, pad, pad, pad))
    # first character of the INPUT: byte order mark, digits, punctuation, lone CR, non-ASCII ... in front of a
    # message, a term, a comment, and as the whole input (offset 0 has no previous line)
    firsts = ["\ufeff", "1", "=", ".", "\t", "\r", "\r\n", "é", "}", "{", " ", "\n", "#", "-", "*", "[", "\"", "\\", "😀"]
    for f in firsts:
        for body in ("key = Value\nother = Other\n", "-term = T\nm = { -term }\n", "# comment\nkey = Value\n",
                     "### res\n\nkey =\n    multi\n    line\n", ""):
            yield case(f + body)
            yield case(f + f + body)
    for src in ftlgen.g7_wide(400000 if quick else 1200000):
        yield case(src)
    n4 = 4000 if quick else 400000
    for _ in range(n4):
        yield case(ftlgen.g4_soup(rng, 14 if rng.random() < 0.9 else 40))
    for src in ftlgen.g5_neighbourhood():
        yield case(src)
    for n in ([5, 30] if quick else [5, 30, 100, 300]):
        for src in ftlgen.g6_depth(n):
            yield case(src)
    if not quick:
        toks = ["#", " ", "\n", "a", "=", "{", "}", "\"", ".", "[", "*", "-", "é", "\r\n", "$", "(", ")", "\\u00", "1", ":"]
        for L in (1, 2, 3):
            for src in ftlgen.g4_exhaustive(toks, L):
                yield case(src)
                yield case("a = " + src)
