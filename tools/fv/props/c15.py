"""C15 - a concurrent bundle formats the same from many threads as from one"""
import re
from .c06 import C06
from .base import bump
from . import resfam
from .. import resgen
from ..core import hx


class C15(C06):
    ID = "C15"
    EXTRA_MODULES = []
    LEMMA_FILES = ["FluentProofs/BundleLocale.lean", "FluentProofs/Memo.lean", "FluentProofs/MemoConc.lean", "FluentProofs/MemoConcPure.lean", "FluentProofs/ConstTieResolver.lean"]
    RULE = ("N in {2,4,8} real threads share ONE bundle created with new_concurrent by reference; released together by a "
            "barrier onto a cold formatter cache, each thread issues every request of the program (rotated order) — programs "
            "are GR bundles biased to plural selects (cardinal and ordinal, so the first lazily constructed PluralRules of both "
            "kinds race; bundles with a locale CHAIN whose head has no plural rules of its own), custom values (as_string_threadsafe) and functions; on the same line the same program runs "
            "sequentially (th=1). Half of the lines use a POOL of long-lived worker threads and one process-wide bundle slot: a "
            "second bundle of another locale replaces the first in place (same address) and is used by the same threads. "
            "A duo family starts two COLD bundles of different locales at the same instant on two threads, 1500 times with fresh bundles (state shared between bundles must not leak). Schedule SAMPLING: real interleavings are not enumerated. Non-trivial = the program "
            "contains a plural-category select on a number; distinct = distinct case line.")
    EXPLANATION = ("Theorems (see evidence): every request's result in the model is a function of (bundle, request) alone — "
                   "the only shared mutable state a request touches is the memoizer, whose concurrent model (C14) shows for ALL "
                   "schedules that every lookup completes and returns what construct returns (lookup_eq_construct, "
                   "deadlock freedom); hence any interleaving returns the sequential results. Predicate on the "
                   "implementation: all threads agree with each other and with the sequential run, no panic, no deadlock "
                   "(timeout).")
    ASSUMPTIONS = ["real thread schedules and the memory model are sampled, not enumerated", "std::sync::Mutex provides mutual exclusion",
                   "everything else a request touches is immutable shared data (&self); Rust's Sync typing is trusted"]

    def program(self, rng):
        plural = ("p0 = { $n ->\n [one] one {$n}\n [few] few\n *[other] other {$n}\n }\n"
                  "p1 = { NUMBER($n, type: \"ordinal\") ->\n [one] st\n [two] nd\n [few] rd\n *[other] th\n }\n"
                  "p2 = { NUMBER($n, minimumFractionDigits: 1) ->\n [one] one\n *[other] other\n }\n"
                  "p3 = { $c } { CUSTOM(\"q\") } { ARGS($n, $c) }\n"
                  "p4 = { $c } and { $d }\n")
        g = resgen.GR(rng, depth=rng.choice([1, 2]))
        res = plural + g.resource()
        th = rng.choice([2, 4, 8])
        # pool=1: long-lived worker threads and ONE bundle slot for the whole process - the second bundle of the
        # line (another locale) replaces the first one in place, at the same address
        pooled = rng.random() < 0.5
        # locale CHAINS: the formatter cache is bound to the first locale only ("xx" has no plural rules of its own: en);
        # a request that consulted the rest of the chain - on any path, e.g. only while the cache is busy - shows as
        # a result that depends on the interleaving
        chains = ["xx+pl", "xx+ar", "xx+ru+lt", "en+pl", "ja+ar"]
        locs = (rng.sample(["en", "pl", "ru", "ar", "cs", "fr", "lt"] + chains, 2) if pooled
                else [rng.choice(["en", "en-US"] + chains)])
        opts = "iso=%d;tr=%s;fm=%s;fl=conc" % (rng.randrange(2), rng.choice(["none", "upper", "pseudo", "pseudo", "bracket"]),
                                               rng.choice(["none", "numbr"]))
        reqs = []
        for m in ["p0", "p1", "p2", "p3", "p4", "p4"] + resgen.MSGS:
            n = rng.choice(["i1", "i2", "i3", "i11", "i21", "n1/1", "t" + hx("1.0"), "i0", "i5"])
            # custom values: plain, and ones stringified through the shared formatter memoizer by a Memoizable
            # that fails to construct for some tags (requested repeatedly, from all threads)
            cval = rng.choice(["c" + hx("cv"), "m" + hx("ok1"), "m" + hx("bad1"), "m" + hx("bad2"), "m" + hx("ok2"), "m" + hx("rc1"), "m" + hx("ro1")])
            dval = rng.choice(["m" + hx("bad1"), "m" + hx("ok1"), "c" + hx("d")])
            reqs.append("%s:~:%s=%s&%s=%s&%s=%s" % (hx(m), hx("n"), n, hx("c"), cval, hx("d"), dval))
        if rng.random() < 0.3:
            # MANY distinct argument sets of one formatter kind (70-90 tags, all first used concurrently): bounded or
            # evicting caches, rehashing and growth of the per-kind table happen while other threads look up
            for t in range(rng.randint(70, 90)):
                reqs.append("%s:~:%s=i1&%s=%s&%s=%s" % (hx("p4"), hx("n"), hx("c"), "m" + hx("ok%d" % t), hx("d"), "m" + hx("ok%d" % (t // 2))))
        rng.shuffle(reqs)
        warm = 0
        if rng.random() < 0.3:
            # a formatter kind that is ALREADY cached (warm-up by the main thread) gets a new argument set with a slow
            # constructor on one thread while another thread makes the bundle's first-ever plural request, and a slow
            # format callback is in flight while others add argument sets (threads start at request 0, 3, 6, 9, ...)
            def custom(tag, dtag="ok1"):
                return "%s:~:%s=i1&%s=%s&%s=%s" % (hx("p4"), hx("n"), hx("c"), "m" + hx(tag), hx("d"), "m" + hx(dtag))
            def plural(msg, n):
                return "%s:~:%s=%s&%s=%s&%s=%s" % (hx(msg), hx("n"), n, hx("c"), "c" + hx("cv"), hx("d"), "c" + hx("d"))
            # threads start at requests 0, 3, 6, 9: slow constructor | first plural | slow constructor | first ordinal
            head = [custom("slowA%d" % rng.randrange(1000)), custom("lazyA"), custom("ok7"),
                    plural("p0", "i2"), custom("ok8"), custom("ok9"),
                    custom("slowB%d" % rng.randrange(1000), "lazyB"), custom("ok10"), custom("ok11"),
                    plural("p1", "i3"), custom("ok12"), custom("ok13")]
            reqs = [r for r in reqs if not r.startswith((hx("p0") + ":", hx("p1") + ":", hx("p2") + ":"))] if rng.random() < 0.5 else reqs
            reqs = head + reqs + [custom("ok0")]          # the last request is the warm-up: the custom kind exists
            warm = 1
        if warm == 0 and not pooled and rng.random() < 0.5:
            # COLD cache, and the first request of EVERY thread (threads start at requests 0, 3, 6, ...) is a custom value of
            # one formatter kind with per-instance state (`cnt…`: numbers its uses): the kind's first-ever use happens on all
            # threads at once, with different argument sets; afterwards every thread uses every tag
            def cnt(tag, dtag):
                return "%s:~:%s=i1&%s=%s&%s=%s" % (hx("p4"), hx("n"), hx("c"), "m" + hx(tag), hx("d"), "m" + hx(dtag))
            tags = ["cnt%d" % i for i in range(th)]
            head = []
            for i in range(th):
                head += [cnt(tags[i], tags[(i + 1) % th]), cnt(tags[(i + 2) % th], tags[i]), cnt(tags[i], "ok1")]
            reqs = head + reqs
        body = "a:%s %s %s" % (hx(res), ",".join(resgen.FUNCS), ",".join(reqs))
        parts = []
        for loc in locs:
            cfgbase = "%s;loc=%s" % (opts, loc)
            parts.append("%s;th=%d%s%s %s" % (cfgbase, th, ";pool=1" if pooled else "", ";warm=%d" % warm if warm else "", body))
            parts.append("%s;th=1 %s" % (cfgbase, body))
        return "fmt " + " | ".join(parts)

    def duo(self, rng, rounds):
        """two COLD concurrent bundles of different locales making their first plural requests at the same instant on two
        threads, `rounds` times with fresh bundles: state shared between bundles (a process-wide cache of negotiated
        locales, of rule tables, of compiled patterns) must not leak from one into the other"""
        prog = ("p0 = { $n ->\n [one] one\n [few] few\n [many] many\n *[other] other\n }\n"
                "p1 = { NUMBER($n, type: \"ordinal\") ->\n [one] st\n [two] nd\n [few] rd\n *[other] th\n }\n"
                "p2 = { $n } { $c }\n")
        l1, l2 = rng.sample(["en", "pl", "ru", "ar", "cs", "fr", "lt", "xx+pl", "ja"], 2)
        sibling = rng.random() < 0.3
        if sibling:
            # the SAME language in two regions whose plural rules differ (pt: 0 is `one`; pt-PT: 0 is `other`), both bundles
            # alive at the same time: formatters are per bundle (per locale), not per language
            l1, l2 = rng.choice([("pt", "pt-PT"), ("pt-PT", "pt"), ("pt-PT", "pt-BR")])
        reqs = []
        # mostly ONE rule kind per line: the last formatter constructed in a round is then of the kind the next round's
        # first request needs (a process-wide "last used" cache is hit by one bundle while the other replaces it)
        kinds = [rng.choice(["p0", "p1"])] * 2 + ["p2"] if rng.random() < 0.7 else rng.sample(["p0", "p1", "p0", "p1", "p2"], 4)
        for m in kinds:
            reqs.append("%s:~:%s=%s&%s=%s" % (hx(m), hx("n"), rng.choice(["i0", "i1", "t" + hx("1.0")] if sibling else ["i2", "i3", "i5", "i22", "i1"]), hx("c"), "m" + hx("ok1")))
        opts = "iso=0;tr=%s;fm=none;fl=conc" % rng.choice(["none", "pseudo"])
        body = "a:%s %s %s" % (hx(prog), ",".join(resgen.FUNCS), ",".join(reqs))
        return "fmt %s;loc=%s;loc2=%s;duo=%d %s" % (opts, l1, l2, rounds, body)

    def generate(self, rng, tier):
        n = 400 if tier == "quick" else 30000
        for _ in range(n):
            yield self.program(rng)
        for _ in range(12 if tier == "quick" else 300):
            yield self.duo(rng, 1500)

    def predicate(self, case, impl_obs):
        if "DUO-DISAGREE" in impl_obs:
            return "a bundle formats differently next to a concurrently starting bundle of another locale: " + impl_obs[impl_obs.index("DUO-DISAGREE"):][:260]
        if "THREADS-DISAGREE" in impl_obs:
            return "threads disagree on a request's result: " + impl_obs[impl_obs.index("THREADS-DISAGREE"):][:160]
        bad = super().predicate(case, impl_obs)
        if bad:
            return bad
        subs = impl_obs.split(" | ")
        if len(subs) % 2 == 0 and "duo=" not in case:
            for i in range(0, len(subs), 2):
                if subs[i] != subs[i + 1]:
                    return "concurrent results differ from the sequential run (bundle %d of the line)" % (i // 2 + 1)
        return None

    def nontrivial(self, case, impl_obs):
        return True

    def classify(self, case, impl_obs, dist):
        m = re.search(r"th=(\d+)", case)
        bump(dist, "threads=" + (m.group(1) if m else "1"))
        bump(dist, "pooled-threads-two-locales" if "pool=1" in case else "scoped-threads")
        bump(dist, "requests", impl_obs.split(" | ")[0].count(";") + 1)

    def shrink(self, case, fails):
        return case

    def mutate(self, case, rng, n):
        return [self.program(rng) for _ in range(n)]


P = C15()
P.RULE = P.RULE + ' In half of the cold, unpooled cases the first request of every thread is a custom value of a COUNTING formatter kind (`cnt` tags: per-instance state; the numbers handed out per tag must be consecutive). In 30 % of the duo cases the two bundles share a language (pt / pt-PT / pt-BR, numbers 0, 1, 1.0) and the second bundle, created while the first is alive, is compared with a single-thread bundle of its own locale.'
