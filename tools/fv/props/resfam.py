"""shared helpers for the resolver-family properties (area `fmt`)"""
import re
from ..core import hx, unhx

FSI = "⁨".encode()
PDI = "⁩".encode()


def parse_obs(obs):
    """observation of one bundle case -> list of per-request dicts (or {'raw': s})"""
    out = []
    for o in obs.split(";"):
        m = re.fullmatch(r"T (\S+) \[([^\]]*)\] W (\S+) \[([^\]]*)\]", o)
        if m:
            out.append({"T": unhx(m.group(1)), "TE": m.group(2).split(" ") if m.group(2) else [],
                        "W": unhx(m.group(3)), "WE": m.group(4).split(" ") if m.group(4) else []})
        else:
            out.append({"raw": o})
    return out


def case_parts(case):
    """'fmt cfg ress fns reqs' (one bundle case) -> dict"""
    p = case.split(" ")
    if p[0] == "fmt":
        p = p[1:]
    cfg, ress, fns, reqs = p
    return {"cfg": dict(kv.split("=") for kv in cfg.split(";")), "ress": [] if ress == "-" else ress.split(","),
            "fns": [] if fns == "-" else fns.split(","), "reqs": reqs.split(",")}


def sources(case):
    out = b""
    for sub in case.split(" | "):
        cp = case_parts(sub)
        for r in cp["ress"]:
            out += unhx(r.split(":")[1]) + b"\n"
    return out


def bad_runtime(obs):
    return (obs.startswith("PANIC") or obs.startswith("ABORT") or obs.startswith("TIMEOUT") or "PANIC" in obs
            or "STRINGIFY-DISAGREE" in obs or "VALUE-EQ-NOT-REFLEXIVE" in obs or "ARGS-COLLECT-DISAGREE" in obs
            or "ARGS-INSERT-DISAGREE" in obs)


SPEC_RE = re.compile(r" S (\S+) \[([^\]]*)\]")


def strip_spec(obs):
    """remove the specification's verdict (printed only by the model side) before diffing"""
    return SPEC_RE.sub("", obs)


def spec_verdicts(model_obs):
    """per request: None (no verdict) | ('limit', errs) | (bytes, errs)"""
    out = []
    for o in model_obs.split(";"):
        m = SPEC_RE.search(o)
        if not m:
            out.append(None)
        else:
            errs = m.group(2).split(" ") if m.group(2) else []
            out.append(("limit", errs) if m.group(1) == "limit" else (unhx(m.group(1)), errs))
    return out
