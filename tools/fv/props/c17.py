"""C17 - fallback bundles are generated lazily, once, in order - under any interleaving.

case   = "cache <mode>:<k>:<needs>/<endNeed>;op;op;..."      mode a = async (AsyncCache), s = sync (Cache)
ops    = start:<c>:<depth>:<api v|s|m|n>  (n = format_messages with an attribute-only message as the shallow key) | poll:<c> | fire
obs    = hdr | s | busy | idle | P#<polls>.<pulls>!<wakes> | R<j>/<got>#..!.. | RN/<got>#..!.. | f#..!..
(see lean/FluentModel/Drv/CacheDrv.lean and harness/src/bin/fvh_cache.rs)
"""
import itertools
import re
from .base import Base, bump
from .. import core

OBS_RE = re.compile(r"^(P|f|R(\d+)/([\d.]+|-)|RN/([\d.]+|-))#(\d+)\.(\d+)!([\d.]+|-)$")


def undots(t):
    return [] if t == "-" else [int(x) for x in t.split(".")]


def group_of(c, joined):
    """consumers 2i and 2i+1 of a `joined` case are two requests of ONE task: they share the waker of consumer 2i"""
    return c - (c % 2) if joined else c


def parse_case(case):
    payload = case.partition(" ")[2]
    pieces = payload.split(";")
    mode, k, src = pieces[0].split(":")[:3]
    mode = mode.lower()      # `A` / `S`: as `a` / `s`, the source yields two bundles per locale (same observations)
    needs, end = src.split("/")
    needs = [] if needs == "-" else [int(x) for x in needs.split(",")]
    if mode == "s":
        needs, end = [0] * len(needs), 0
    return mode, int(k), needs, int(end), pieces[1:]


def is_joined(case):
    return case.partition(" ")[2].split(";")[0].endswith(":j")


def header(mode, k, needs, end, joined=False):
    return "%s:%d:%s/%d%s" % (mode, k, ",".join(map(str, needs)) if needs else "-", end, ":j" if joined else "")


class C17(Base):
    ID = "C17"
    AREA = "cache"
    LEMMA_FILES = ["FluentProofs/Cache.lean", "FluentProofs/CacheLive.lean", "FluentProofs/CacheOps.lean"]
    RULE = ("(plus a many-consumers / many-bundles family: 9-20 futures or 9-40 bundles) async: 1-4 concurrent Bundles::format_value/format_values/format_messages futures polled by hand with "
            "logging wakers over a scripted generator stream (0-6 bundles, each needing 0-3 external events before it "
            "is ready, end of stream likewise; the stream keeps only the last waker) under random schedules of "
            "start/poll/fire incl. spurious polls, polls of idle tasks, restarts at other depths, fair-executor "
            "schedules (only woken tasks are polled; source fires when nothing is runnable); sync: sequences of "
            "format_*_sync requests of different depths over the generator's iterator. thorough adds ALL schedules of "
            "length 10 (depths 3,3) and 9 (depths 2,4 / 4,1) over {poll 0, poll 1, fire} for 2 consumers x 3 bundles x all 16 "
            "ready/pending patterns (quick: length 7, 4 patterns). "
            "Non-trivial = async case in which a request was Pending and a wake-up happened, or a sync case with two "
            "requests of different depth; distinct = distinct case line.")
    EXPLANATION = ("Theorems (all label sequences, induction): cached items ++ unread script = source order (prefix, "
                   "each pulled once), every stream's deliveries = prefix of the cache of length curr, the source is "
                   "polled only at curr = len and pulls <= deepest request, no-lost-wake-up invariant, progress, "
                   "bounded drain (measure), sync = async without Pending, task-level ops = fine-grained label runs. "
                   "Tie: same case lines on the real fluent_fallback::Bundles (AsyncCache/Cache inside) and on the "
                   "Lean model; observations (poll results, bundles seen, source poll/pull counters, every "
                   "Waker::wake call in order) are diffed. The python predicate checks the property directly on the "
                   "implementation: prefix order, answer depth, exact lazy poll accounting, wake bookkeeping "
                   "(no waiting request without a runnable task or a source holding a waiting task's waker).")
    ASSUMPTIONS = ["wrapped stream is fused and keeps only the last waker (scripted in the harness)",
                   "no cancellation: a Pending request is never dropped",
                   "UnsafeCell<ChunkyVec> reference stability (memory safety) is trusted",
                   "single-threaded executor (AsyncCache is !Sync): a future runs until it returns Pending"]

    # ------------------------------------------------------------------------------------------
    # generators

    def gen_async(self, rng, maxlen, big=False):
        k = rng.choice([1, 2, 2, 3, 3, 4])
        n = rng.choice([0, 1, 2, 3, 3, 4, 5, 6])
        if big:
            # MANY consumers parked at once / MANY bundles (more than a small waker list or one chunk of the cache holds)
            if rng.random() < 0.6:
                k = rng.choice([9, 10, 12, 17, 20])
            else:
                n = rng.choice([9, 16, 17, 33, 40])
        p = rng.choice([0.0, 0.3, 0.6, 0.9])
        needs = [rng.choice([1, 1, 1, 2, 3]) if rng.random() < p else 0 for _ in range(n)]
        end = rng.choice([1, 2]) if rng.random() < p else 0
        ops = []
        for c in range(k):
            if rng.random() < 0.85:
                ops.append("start:%d:%d:%s" % (c, rng.randint(1, n + 2), rng.choice("vvvsmnezw")))
        rng.shuffle(ops)
        ln = rng.randint(3, maxlen)
        wf = rng.choice([0.15, 0.3, 0.5])
        for _ in range(ln):
            r = rng.random()
            if r < wf:
                ops.append("fire")
            elif r < wf + 0.12:
                ops.append("start:%d:%d:%s" % (rng.randrange(k), rng.randint(1, n + 2), rng.choice("vvvsmnezw")))
            else:
                ops.append("poll:%d" % rng.randrange(k))
        if rng.random() < 0.25:
            for _ in range(rng.choice([1, 1, 2])):
                ops.insert(rng.randrange(len(ops) + 1), "pf")       # prefetch at any point of the history
        if rng.random() < 0.2:
            ops.insert(rng.randrange(len(ops) + 1), "sx")           # a (refused) sync request in between
        # (no `cancel:<c>` ops are generated: the property's quantifier says "no cancellation"; the op stays available for
        # replays and experiments, and cancellation is exercised under C16 - `xv:`/`xvv:`/`xmm:` - where it is in scope)
        return "cache " + ";".join([header("a", k, needs, end)] + ops)

    def gen_fair(self, rng, maxlen, big=False, joined=False):
        """fair single-threaded executor: only tasks whose waker fired (or that were just spawned) are polled; when
        the run queue is empty the source fires.  Uses its own tiny simulation of the EXPECTED wake-ups only to
        decide whom to poll (no spurious polls, so pending_wakes stays duplicate-free and deep states are reached);
        a lost wake-up in the implementation is caught by the predicate's flag bookkeeping on the wake log."""
        k = rng.choice([2, 2, 3, 4])
        n = rng.choice([1, 2, 3, 4, 5])
        if joined:
            # requests 2i and 2i+1 are joined in ONE task (join!/FuturesUnordered inside a task): one waker for both,
            # and the executor polls every unfinished request of a task whose waker fired
            k = rng.choice([3, 4, 4, 5, 6])
            n = rng.choice([2, 3, 4, 5])
        if big:
            if rng.random() < 0.6:
                k = rng.choice([9, 10, 12, 17, 20])
            else:
                n = rng.choice([9, 16, 17, 33, 40])
        needs = [rng.choice([0, 1, 1, 2]) for _ in range(n)]
        if joined:
            needs = [rng.choice([1, 1, 2]) for _ in range(n)]        # the source is pending at every position
        end = rng.choice([0, 1, 2])
        ops = []
        depth = {}

        def mates(c):
            return [c2 for c2 in range(k) if group_of(c2, joined) == group_of(c, joined)]
        for c in range(k):
            depth[c] = rng.randint(1, n + 1)
            ops.append("start:%d:%d:%s" % (c, depth[c], rng.choice("vvsmnezw")))
        # expected-behaviour simulation (reference executor)
        need = list(needs) + [end]
        cached = 0
        ended = False
        curr = {c: 0 for c in range(k)}
        runq = list(range(k))
        rng.shuffle(runq)
        pend = []
        srcw = None
        done = set()
        steps = 0
        while len(done) < k and steps < maxlen:
            steps += 1
            if runq:
                c = runq.pop(rng.randrange(len(runq))) if rng.random() < 0.5 else runq.pop(0)
                ops.append("poll:%d" % c)
                if c in done:
                    continue
                while True:
                    if curr[c] < cached:
                        curr[c] += 1
                    elif ended:
                        done.add(c)
                        break
                    elif need[cached] > 0:
                        pend.append(c)
                        srcw = c
                        break
                    else:
                        if cached == n:
                            ended = True
                        else:
                            cached += 1
                            curr[c] += 1
                        for w in pend:
                            for w2 in mates(w):
                                if w2 not in runq and w2 not in done:
                                    runq.append(w2)
                        pend = []
                        if ended:
                            done.add(c)
                            break
                    if curr[c] >= depth[c]:
                        done.add(c)
                        break
                if c in done and c in runq:
                    pass
            else:
                ops.append("fire")
                idx = cached
                if not ended and need[idx] > 0:
                    need[idx] -= 1
                    if srcw is not None:
                        for w2 in mates(srcw):
                            if w2 not in runq and w2 not in done:
                                runq.append(w2)
                        srcw = None
        if rng.random() < 0.2:
            ops.insert(rng.randrange(len(ops) + 1), "sx")           # a (refused) sync request while others are parked
        return "cache " + ";".join([header("a", k, needs, end, joined)] + ops)

    def gen_sync(self, rng, maxreq):
        k = rng.choice([1, 1, 2, 3])
        n = rng.choice([0, 1, 2, 3, 4, 5, 6])
        ops = []
        for _ in range(rng.randint(1, maxreq)):
            c = rng.randrange(k)
            r = rng.random()
            if r < 0.8:
                ops.append("start:%d:%d:%s" % (c, rng.randint(1, n + 2), rng.choice("vvsmnezw")))
                if rng.random() < 0.85:
                    ops.append("poll:%d" % c)
            elif r < 0.95:
                ops.append("poll:%d" % c)
            else:
                ops.append("fire")
        if rng.random() < 0.3:
            for _ in range(rng.choice([1, 1, 2])):
                ops.insert(rng.randrange(len(ops) + 1), "pf")
        return "cache " + ";".join([header("s", k, [0] * n, 0)] + ops)

    def generate(self, rng, tier):
        # in one case out of seven the source yields TWO bundles per locale (bundles 2i and 2i+1 carry the same locale,
        # mode letter in upper case): a consumer must not take "same locale as the previous bundle" for "same bundle"
        import random
        r2 = random.Random(rng.random())
        for case in self.generate_base(rng, tier):
            if r2.random() < 0.14:
                head, _, rest = case.partition(" ")
                case = head + " " + rest[:1].upper() + rest[1:]
            yield case

    def generate_base(self, rng, tier):
        quick = tier == "quick"
        for _ in range(12000 if quick else 200000):
            yield self.gen_async(rng, 30 if rng.random() < 0.9 else 90)
        for _ in range(4000 if quick else 60000):
            yield self.gen_fair(rng, 60)
        for _ in range(3000 if quick else 40000):
            yield self.gen_sync(rng, 10)
        for _ in range(300 if quick else 10000):
            yield self.gen_fair(rng, 400, big=True)
        for _ in range(1500 if quick else 40000):
            yield self.gen_fair(rng, 120, joined=True)
        for _ in range(300 if quick else 10000):
            yield self.gen_async(rng, 150, big=True)
        # exhaustive family: 2 consumers, 3 bundles, all schedules of a fixed length (observations of every prefix
        # are part of the observation of the full schedule)
        alphabet = ["poll:0", "poll:1", "fire"]
        if quick:
            fams = [(7, [(0, 1, 0, 1), (1, 1, 1, 0), (1, 0, 1, 1), (0, 0, 1, 0)], [(3, 3)])]
        else:
            allpat = list(itertools.product([0, 1], repeat=4))
            fams = [(10, allpat, [(3, 3)]), (9, allpat, [(2, 4), (4, 1)]), (8, [(2, 0, 1, 1), (1, 2, 0, 2)], [(3, 3)])]
        for ln, patterns, depths in fams:
            for pat in patterns:
                for (d0, d1) in depths:
                    head = "cache %s;start:0:%d:v;start:1:%d:v;" % (header("a", 2, list(pat[:3]), pat[3]), d0, d1)
                    for seq in itertools.product(alphabet, repeat=ln):
                        yield head + ";".join(seq)
        if not quick:
            # long schedules, many items
            for _ in range(2000):
                yield self.gen_async(rng, 400)

    # ------------------------------------------------------------------------------------------
    # the property, evaluated on the implementation's observation only

    def predicate(self, case, impl_obs):
        bad = super().predicate(case, impl_obs)
        if bad:
            return bad
        try:
            mode, k, needs, end, ops = parse_case(case)
        except Exception:
            return None if impl_obs == "bad-case" else "unparsable case accepted by the harness"
        obs = impl_obs.split(";") if impl_obs else []
        if len(obs) != len(ops) + 1 or obs[0] != "hdr":
            return "observation count %d != op count %d (+hdr)" % (len(obs), len(ops))
        n = len(needs)
        joined = is_joined(case)

        def members(w):
            return [c for c in range(k) if group_of(c, joined) == w]
        script_need = list(needs) + [end]
        polls = pulls = 0
        cur_need = script_need[0]
        ended = False
        depth = [None] * k          # depth of the request in flight
        polled = [False] * k        # request in flight has been polled
        waiting = [False] * k       # request in flight returned Pending last time
        woken = [False] * k         # waker fired since the task was last polled
        maxdepth = 0                # deepest request polled so far
        cancelled = False           # a pending request has been dropped
        for op, o in zip(ops, obs[1:]):
            p = op.split(":")
            if o == "bad-op":
                return "harness rejected op " + op
            if "~" in o:
                return "op %s: %s" % (op, o[o.index("~"):])
            if p[0] == "start":
                c, d = int(p[1]), max(int(p[2]), 1)
                if depth[c] is None:
                    if o != "s":
                        return "start on idle consumer answered %s" % o
                    depth[c], polled[c], waiting[c] = d, False, False
                elif o != "busy":
                    return "start on busy consumer answered %s" % o
                continue
            if p[0] == "cancel":
                c = int(p[1])
                if depth[c] is None:
                    if o != "idle":
                        return "cancel of a consumer without request answered %s" % o
                    continue
                mm = re.match(r"^x#(\d+)\.(\d+)!(.*)$", o)
                if not mm:
                    return "cancel answered %s" % o
                if int(mm.group(1)) != polls or int(mm.group(2)) != pulls or mm.group(3) != "-":
                    return "dropping a request touched the source or woke somebody: %s" % o
                depth[c], waiting[c], woken[c] = None, False, False
                cancelled = True       # from here on the wake-up bookkeeping is not judged (see DESIGN 11.4c); order,
                continue               # laziness and 'a polled request makes progress' still are
            if p[0] == "sx":
                mm = re.match(r"^sx:refused#(\d+)\.(\d+)!(.*)$", o)
                if not mm:
                    return "a sync request on an asynchronous set answered %s (must be refused)" % o
                if int(mm.group(1)) != polls or int(mm.group(2)) != pulls or mm.group(3) != "-":
                    return ("a refused sync request touched the source or the wakers (polls %d->%s, bundles %d->%s, wakes %s)"
                            % (polls, mm.group(1), pulls, mm.group(2), mm.group(3)))
                continue
            if p[0] == "pf":
                # prefetch forwards to the source's (empty) hook: no bundle generated, source not asked, nobody woken
                mm = re.match(r"^pf#(\d+)\.(\d+)!(.*)$", o)
                if not mm:
                    return "prefetch answered %s" % o
                if int(mm.group(1)) != polls or int(mm.group(2)) != pulls:
                    return ("lazy: prefetch asked the source / generated a bundle (polls %d->%s, bundles %d->%s)"
                            % (polls, mm.group(1), pulls, mm.group(2)))
                if mm.group(3) != "-":
                    return "prefetch woke %s" % mm.group(3)
                continue
            m = OBS_RE.match(o)
            if p[0] == "poll" and depth[int(p[1])] is None:
                if o != "idle":
                    return "poll of a consumer without request answered %s" % o
                continue
            if not m:
                return "unparsable observation %s for %s" % (o, op)
            npolls, npulls, wakes = int(m.group(5)), int(m.group(6)), undots(m.group(7))
            dpolls, dpulls = npolls - polls, npulls - pulls
            if dpolls < 0 or dpulls < 0 or npulls > n:
                return "source counters went wrong at %s: %s" % (op, o)
            if p[0] == "fire":
                if not m.group(1) == "f":
                    return "fire answered %s" % o
                if dpolls or dpulls:
                    return "lazy: the source was polled without any request being polled (fire)"
                someone_runnable = any(waiting[c] and woken[c] for c in range(k))
                if mode == "a" and cur_need > 0 and any(waiting) and not someone_runnable and not cancelled:
                    # every waiting task is parked: the source must hold the waker of one of them
                    if len(wakes) != 1 or not any(waiting[c] for c in members(wakes[0])):
                        return ("lost wake-up: requests %s are parked, nobody is runnable, the source fired and woke %s"
                                % ([c for c in range(k) if waiting[c]], wakes))
                if mode == "a" and cur_need > 0:
                    cur_need -= 1
                elif wakes:
                    return "a fire event on a ready source woke %s" % wakes
                for w in wakes:
                    for c2 in members(w):
                        woken[c2] = True
            else:
                c = int(p[1])
                d = depth[c]
                woken[c] = False
                polled[c] = True
                maxdepth = max(maxdepth, d)
                kind = m.group(1)[0]
                if kind == "f":
                    return "poll answered %s" % o
                if kind == "P":
                    if mode == "s":
                        return "sync request returned Pending"
                    waiting[c] = True
                    # the source was asked for every newly cached item, and at most once more (the ask that is pending).
                    # Not asking at all is within the property ("only when a request needs it" is an upper bound) as long
                    # as somebody wakes this request - which the lost-wake-up checks below decide
                    if not (dpulls <= dpolls <= dpulls + 1):
                        return "lazy: Pending poll asked the source %d times for %d new items" % (dpolls, dpulls)
                else:
                    got = undots(m.group(3) if m.group(2) is not None else m.group(4))
                    if got != list(range(len(got))):
                        return "order: request of consumer %d saw bundles %s (not a prefix of the source order)" % (c, got)
                    if m.group(2) is not None:
                        j = int(m.group(2))
                        if j != d - 1 or len(got) != d:
                            return "request of depth %d was answered by bundle %d after seeing %s" % (d, j, got)
                        exp = dpulls
                    else:
                        if len(got) != n or d <= n:
                            return "request of depth %d ran out of bundles after %s (source has %d)" % (d, got, n)
                        exp = dpulls + 1      # one more ask, answered by the end of the stream
                        ended = True
                    if len(got) > npulls:
                        return "request saw %d bundles but the source yielded only %d" % (len(got), npulls)
                    if dpolls != exp:
                        return "lazy: completed poll asked the source %d times for %d new items" % (dpolls, dpulls)
                    depth[c], waiting[c] = None, False
                if dpulls and npulls > maxdepth:
                    return "lazy: %d bundles generated but the deepest request polled so far needs %d" % (npulls, maxdepth)
                if dpulls:
                    # the items yielded in this poll must all have been ready
                    if cur_need != 0 or any(script_need[i] != 0 for i in range(pulls + 1, npulls)):
                        return "source yielded an item that was not ready (harness script broken)"
                    cur_need = script_need[npulls]
                for w in wakes:
                    for c2 in members(w):
                        woken[c2] = True
                if kind != "P" and m.group(2) is None and mode == "a" and cur_need != 0:
                    return "stream ended while the script still needs events"
            polls, pulls = npolls, npulls
            if mode == "a" and any(waiting) and not cancelled:
                runnable = any(waiting[c] and woken[c] for c in range(k))
                if not runnable and cur_need == 0:
                    return ("lost wake-up: requests %s are waiting, none of them has been woken, and the source is "
                            "ready (after %s)" % ([c for c in range(k) if waiting[c]], op))
        return None

    # ------------------------------------------------------------------------------------------

    def nontrivial(self, case, impl_obs):
        mode = case.partition(" ")[2][:1].lower()
        obs = impl_obs.split(";") if impl_obs else []
        if mode == "a":
            return any(o.startswith("P") for o in obs) and any(not o.endswith("!-") and "!" in o for o in obs)
        depths = {o.split("/")[1].split("#")[0] for o in obs if o.startswith("R")}
        return len(depths) >= 2

    def classify(self, case, impl_obs, dist):
        try:
            mode, k, needs, end, ops = parse_case(case)
        except Exception:
            bump(dist, "unparsable")
            return
        bump(dist, "cases:" + ("async" if mode == "a" else "sync"))
        bump(dist, "consumers:%d" % k)
        bump(dist, "items:%d" % len(needs))
        bump(dist, "ops<=10" if len(ops) <= 10 else "ops<=40" if len(ops) <= 40 else "ops>40")
        if mode == "a":
            bump(dist, "src:always-ready" if not any(needs) and not end else "src:some-pending")
        obs = impl_obs.split(";")[1:]
        waiting = set()
        woken = set()
        for op, o in zip(ops, obs):
            p = op.split(":")
            bump(dist, "op:" + p[0])
            if p[0] == "start":
                bump(dist, "start:" + o)
                bump(dist, "api:" + p[3])
                continue
            if o == "idle":
                bump(dist, "obs:idle")
                continue
            wk = undots(o.split("!")[1]) if "!" in o else []
            if p[0] == "poll":
                c = int(p[1])
                if c in waiting and c not in woken:
                    bump(dist, "poll:spurious(parked task)")
                elif c in waiting:
                    bump(dist, "poll:after-wake")
                woken.discard(c)
                if o.startswith("P"):
                    waiting.add(c)
                    bump(dist, "obs:Pending")
                else:
                    waiting.discard(c)
                    bump(dist, "obs:Ready-None" if o.startswith("RN") else "obs:Ready-bundle")
                if wk:
                    bump(dist, "wake-all:%s" % ("1" if len(wk) == 1 else "2" if len(wk) == 2 else "3+"))
                    if c in wk:
                        bump(dist, "wake-all:includes-self")
                    if len(set(wk)) < len(wk):
                        bump(dist, "wake-all:duplicate-waker")
            else:
                bump(dist, "fire:woke" if wk else "fire:no-waker")
            woken.update(wk)
        if waiting:
            bump(dist, "end:some-request-still-pending")

    # ------------------------------------------------------------------------------------------
    # header-preserving shrink / mutate

    def shrink(self, case, fails):
        area, _, payload = case.partition(" ")
        pieces = payload.split(";")
        head, ops = pieces[0], pieces[1:]
        if len(ops) < 2:
            return case

        def f(cands):
            return fails([area + " " + ";".join([head] + c) for c in cands])
        small = core.ddmin(ops, f)
        return area + " " + ";".join([head] + small)

    def mutate(self, case, rng, n):
        area, _, payload = case.partition(" ")
        pieces = payload.split(";")
        head, ops = pieces[0], pieces[1:]
        out = []
        for _ in range(n):
            o = list(ops)
            r = rng.randrange(4)
            if r == 0 and len(o) > 1:
                del o[rng.randrange(len(o))]
            elif r == 1 and o:
                o.insert(rng.randrange(len(o) + 1), rng.choice(o))
            elif r == 2:
                o.insert(rng.randrange(len(o) + 1), "fire")
            elif o:
                i, j = rng.randrange(len(o)), rng.randrange(len(o))
                o[i], o[j] = o[j], o[i]
            out.append(area + " " + ";".join([head] + o))
        return out


P = C17()
P.RULE = P.RULE + ' In one case out of seven the source yields two bundles per locale (upper-case mode letter; same observations). Batch requests include a key that formats to the empty string (api z) and a key that is value-less in every earlier bundle and has a value from its own depth on (api w).'
