"""C05 - runtime parser = full parser minus comments"""
import re
from .base import Base, bump
from . import parsefam
from .. import sexp, ftlgen
from ..core import hx, unhx

WF_COMMENT = re.compile(rb"^#{1,3}( [^\n]*)?$")


def comments_well_formed(src):
    lines = src.split(b"\n")
    for i, line in enumerate(lines):
        # CRLF line end; a lone CR (not followed by LF) is ordinary comment content, not a line end
        if line.endswith(b"\r") and i + 1 < len(lines):
            line = line[:-1]
        if line.startswith(b"#") and not WF_COMMENT.match(line):
            return False
    return True


def strip_comment(e):
    if e[0] in ("msg", "term"):
        return e[:4] + ["~"]
    return e


COMMENT_LINES = ["# c", "#", "## g", "##", "### r", "###", "#x", "####", "# ", "#  two", "#\tt", "##x", "# é😀", "# a = b",
                 "#}", "#{"]
ENTRY_SNIPS = ["a = 1", "b = { $x }", "-t = v", "m =\n    l1\n    l2", "k = v\n    .at = w", "junk {", "x", " = y", "s = { $n ->\n   *[o] v\n }",
               "   indented = v", "e ="]


def comment_placement(rng):
    """comments of all levels before / between / inside (as continuation look-alikes) / after entries"""
    eol = "\n" if rng.random() < 0.75 else "\r\n"
    parts = []
    for _ in range(rng.randint(1, 6)):
        k = rng.random()
        if k < 0.45:
            parts.append(rng.choice(COMMENT_LINES))
        elif k < 0.85:
            e = rng.choice(ENTRY_SNIPS)
            if rng.random() < 0.2:
                # comment look-alike inside a multi-line pattern (indented, so it is text) or at column 0 (ends the pattern)
                e = e + "\n" + rng.choice(["    ", "", " "]) + rng.choice(COMMENT_LINES)
            parts.append(e)
        else:
            parts.append("")
    src = eol.join(p.replace("\n", eol) for p in parts)
    if rng.random() < 0.8:
        src += eol
    if rng.random() < 0.12:
        # MIXED line ends: every line break picks LF / CRLF (rarely a lone CR) on its own, so that consecutive
        # comment lines, or a comment and the entry after it, do not end alike
        lines = src.replace("\r\n", "\n").split("\n")
        src = "".join(l + (rng.choice(["\n", "\n", "\r\n", "\r\n", "\r"]) if i < len(lines) - 1 else "")
                      for i, l in enumerate(lines))
    return src


class C05(Base):
    ID = "C05"
    AREA = "parse"
    LEMMA_FILES = ["FluentProofs/ParserRuntime.lean", "FluentProofs/ParserLoops.lean", "FluentProofs/ParserLines.lean", "FluentProofs/ParserLinesSim.lean", "FluentProofs/ParserLinesWF.lean", "FluentProofs/ConstTieSyntax.lean"]
    RULE = ("comment-placement generator (16 comment line shapes incl. malformed '#x', '####', tab; all levels; before, "
            "between, inside as indented/column-0 look-alikes, after entries; LF, CRLF and mixed line ends; adjacent to Junk) plus the C01 "
            "generator mix. Non-trivial = the source has at least one '#' line AND at least one message/term or Junk; "
            "distinct = distinct source.")
    EXPLANATION = ("Theorems: the two dispatchers coincide on every non-'#' entry start; sources without '#' give identical "
                   "results. Tie: both parsers vs both models on all generated inputs. Predicate on the implementation: "
                   "messages+terms (comments stripped) equal in order; when every '#' line is a well-formed comment, Junk "
                   "entries and complete error lists equal too.")

    def generate(self, rng, tier):
        n = 6000 if tier == "quick" else 400000
        for _ in range(n):
            yield "parse " + hx(comment_placement(rng))
        for c in parsefam.gen_mix(rng, tier):
            yield c

    def predicate(self, case, impl_obs):
        bad = super().predicate(case, impl_obs)
        if bad:
            return bad
        src = unhx(case.split(" ")[1])
        po = sexp.parse_obs(impl_obs)
        if po is None:
            return "unparseable observation"
        f = [strip_comment(e) for e in po["full"][1:] if e[0] in ("msg", "term")]
        r = [e for e in po["rt"][1:] if e[0] in ("msg", "term")]
        if any(e[4] != "~" for e in r):
            return "runtime parser produced an attached comment"
        if any(e[0] in ("c", "gc", "rc") for e in po["rt"][1:]):
            return "runtime parser produced a comment entry"
        if f != r:
            return "runtime parser's messages/terms differ from the full parser's"
        if comments_well_formed(src):
            fj = [e for e in po["full"][1:] if e[0] == "junk"]
            rj = [e for e in po["rt"][1:] if e[0] == "junk"]
            if fj != rj:
                return "Junk entries differ although every '#' line is a well-formed comment"
            if po["full_errs"] != po["rt_errs"]:
                return "error lists differ although every '#' line is a well-formed comment"
        return None

    def nontrivial(self, case, impl_obs):
        src = unhx(case.split(" ")[1])
        return (src.startswith(b"#") or b"\n#" in src) and ("(msg " in impl_obs or "(term " in impl_obs or "(junk" in impl_obs)

    def classify(self, case, impl_obs, dist):
        src = unhx(case.split(" ")[1])
        bump(dist, "comments-well-formed" if comments_well_formed(src) else "malformed-comment-line")
        bump(dist, "crlf" if b"\r\n" in src else "lf")
        for tag in ("(c ", "(gc", "(rc", "(junk", "(msg", "(term"):
            if tag in impl_obs:
                bump(dist, "has" + tag)

    def shrink(self, case, fails):
        from .c01 import P as P1
        return P1.shrink(case, fails)

    def mutate(self, case, rng, n):
        from .c01 import P as P1
        return P1.mutate(case, rng, n)


P = C05()
