"""C08 - formatting is pure; string and writer APIs agree"""
from .c06 import C06
from .base import bump
from . import resfam
from .. import resgen
from ..core import hx


class C08(C06):
    ID = "C08"
    EXTRA_MODULES = []
    LEMMA_FILES = ["FluentProofs/ResolverRefineTop.lean", "FluentProofs/ResolverRefineVal.lean"]
    RULE = ("histories on ONE bundle: every request of a GR bundle issued 2-4 times in random order interleaved with the "
            "other requests (so plural rules are cached and earlier calls have produced errors), the same argument set "
            "(in half of the single-thread histories preceded by a sibling-locale bundle and by a run of the same bundle under another configuration that is then changed back: pre=1) inserted in different orders (also by re-setting a key that is already present), and each request repeated on a FRESH bundle (second bundle case on the same "
            "line). In the pre=1 histories every request is also written to writers that FAIL after 0-12 bytes before the history starts (a failed call must leave nothing behind). Non-trivial = the history repeats at least one request whose resolution involved a reference, select or "
            "error; distinct = distinct case line.")
    EXPLANATION = ("Theorems: format_pattern and write_pattern of the model coincide (text and errors) for every bundle, "
                   "pattern and argument set; the model is a function of (bundle, pattern, arguments) only (no hidden state), "
                   "argument sets are canonical (C11). Predicate on the implementation: T == W and equal error lists for "
                   "every call; equal requests (modulo insertion order of the arguments) give identical observations "
                   "anywhere in the history and on a fresh bundle.")

    def history(self, rng):
        g = resgen.GR(rng, depth=rng.choice([1, 2, 3]))
        nres = rng.choice([1, 1, 2])
        # plural selects of both rule kinds, so that a history alternates the cached formatters
        plural = ("p0 = { $n ->\n [one] one\n [two] two\n [few] few\n *[other] other\n }\n"
                  "p1 = { NUMBER($n, type: \"ordinal\") ->\n [one] st\n [two] nd\n [few] rd\n *[other] th\n }\n")
        bomb = rng.random() < 0.5
        if bomb:
            ten = lambda x: " ".join(["{%s}" % x] * 10)
            plural += "bz0 = L\nbz1 = %s\nbz2 = %s\nbz3 = %s\nbz = {bz3}\n" % (ten("bz0"), ten("bz1"), ten("bz2"))
            # the limit also trips where a reference is resolved TO A VALUE (term attribute as selector, reference as
            # call argument) - between two identical requests that resolve such a selector / argument themselves
            plural += ("-tz = v\n    .sel = {bz3}\nbsel = { -tz.sel ->\n [x] X\n *[o] O\n }\nbarg = { IDENT(bz) }|{ ARGS(bz3, 1) }\n"
                       "-ts = s\n    .g = she\nsela = { -ts.g ->\n [she] She\n *[o] They\n }\nselb = { IDENT(-ts.g) }{ ARGS(sela) }\n")
        ress = ",".join("%s:%s" % ("a" if (i == 0 or rng.random() < 0.6) else "o", hx((plural if i == 0 else "") + g.resource()))
                        for i in range(nres))
        cfg = g.config()
        # the caller keeps ONE error list for the whole history ("earlier errors" must not matter)
        warm_cfg = cfg + (";ev=shared" if rng.random() < 0.6 else "")
        # pre=1: before the history a sibling-locale bundle formats everything, and the bundle under test formats
        # everything once under another configuration (isolation, transform, formatter) and is re-configured
        if "fl=st" in cfg and rng.random() < 0.5:
            warm_cfg += ";pre=1"
        fns = g.fns()
        base = []
        for m in resgen.MSGS:
            a = g.args()
            base.append((m, "~", a))
            if rng.random() < 0.4:
                base.append((m, hx(rng.choice(resgen.ATTRS)), a))
        reqs = []
        for (m, at, a) in base:
            for _ in range(rng.randint(1, 3)):
                aa = a
                if "&" in a and rng.random() < 0.7:
                    parts = a.split("&")
                    rng.shuffle(parts)
                    if len(parts) >= 3 and rng.random() < 0.5:
                        # the same final set reached by RE-SETTING a key that is already present (last one wins)
                        k = rng.randrange(len(parts))
                        final = parts.pop(k)
                        key = final.split("=")[0]
                        old_v = rng.choice(["i7", "s" + hx("old"), "z", "n2/2"])
                        parts.insert(rng.randrange(len(parts) + 1), "%s=%s" % (key, old_v))
                        parts.append(final)
                    aa = "&".join(parts)
                reqs.append("%s:%s:%s" % (hx(m), at, aa))
        rng.shuffle(reqs)
        # cardinal / ordinal alternating at random points of the history
        nn = rng.choice(["i1", "i2", "i3", "i22", "i4", "i0", "i0"])
        for k in range(rng.randint(2, 6)):
            reqs.insert(rng.randrange(len(reqs) + 1), "%s:~:%s=%s" % (hx("p%d" % (k % 2)), hx("n"), nn))
        if bomb:
            for k in range(rng.randint(1, 2)):
                reqs.insert(rng.randrange(len(reqs)), "%s:~:~" % hx("bz"))
            i = rng.randrange(len(reqs))
            reqs[i:i] = ["%s:~:~" % hx(m) for m in ("sela", "selb", rng.choice(["bsel", "barg"]), "sela", "selb",
                                                   rng.choice(["bsel", "barg"]), "selb", "sela")]
        warm = "fmt %s %s %s %s" % (warm_cfg, ress, fns, ",".join(reqs))
        # every distinct request once on a fresh bundle (a new bundle per request: several bundle cases)
        fresh = []
        for rq in rng.sample(reqs, min(3, len(reqs))):
            fresh.append("%s %s %s %s" % (cfg, ress, fns, rq))
        return warm + "".join(" | " + f for f in fresh)

    def generate(self, rng, tier):
        for c in resgen.handwritten():
            yield c
        n = 1500 if tier == "quick" else 80000
        for _ in range(n):
            yield self.history(rng)

    @staticmethod
    def canon_req(rq):
        i, a, args = rq.split(":")
        if "&" in args:
            last = {}
            for kv in args.split("&"):          # a key set twice: the last value wins (C11)
                last[kv.split("=")[0]] = kv
            args = "&".join(sorted(last.values()))
        return (i, a, args)

    def predicate(self, case, impl_obs):
        bad = super().predicate(case, impl_obs)
        if bad:
            return bad
        seen = {}
        for sub_case, so in zip(case.split(" | "), impl_obs.split(" | ")):
            reqs = resfam.case_parts(sub_case)["reqs"]
            obs = so.split(";")
            if len(obs) != len(reqs):
                return "observation count mismatch"
            for rq, o, r in zip(reqs, obs, resfam.parse_obs(so)):
                if "raw" not in r:
                    if r["T"] != r["W"]:
                        return "format_pattern text %r != write_pattern text %r" % (r["T"][:60], r["W"][:60])
                    if r["TE"] != r["WE"]:
                        return "format_pattern errors %s != write_pattern errors %s" % (r["TE"], r["WE"])
                key = self.canon_req(rq)
                if key in seen and seen[key] != o:
                    return "the same request %s gave different results at different points of the history / on a fresh bundle" % (rq.split(":")[0])
                seen[key] = o
        return None

    def predicate2(self, case, impl_obs, model_obs):
        """the result is a function of (bundle, pattern, arguments): whatever happened before in the history or in
        the process, every call must give what the semantics gives for that request alone (the specification's
        verdict is printed by the model side; same comparison as C07)"""
        from .c07 import C07
        why = C07.predicate2(self, case, impl_obs, model_obs)
        return ("result depends on what happened before: " + why) if why else None

    def classify(self, case, impl_obs, dist):
        super().classify(case, impl_obs, dist)
        bump(dist, "bundle-cases", len(case.split(" | ")))
        bump(dist, "requests", impl_obs.count(";") + 1)


P = C08()
