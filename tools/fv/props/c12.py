"""C12 - numbers keep their written precision and select the locale's plural category.

Independent oracle: python `decimal` for values, the CLDR 37 plural rules as CLDR rule *text* evaluated by a small
interpreter of the TR35 rule syntax (nothing here is derived from lean/FluentModel/Plural.lean).
"""
import re
from decimal import Decimal
from .base import Base, bump
from .. import core
from ..core import hx, unhx

# --------------------------------------------------------------------------------------------------------------
# CLDR 37 plural rules (rule text as published in common/supplemental/plurals.xml and ordinals.xml)

CLDR_CARDINAL = {
    "en": {"one": "i = 1 and v = 0"},
    "de": {"one": "i = 1 and v = 0"},
    "sv": {"one": "i = 1 and v = 0"},
    "pl": {"one": "i = 1 and v = 0",
           "few": "v = 0 and i % 10 = 2..4 and i % 100 != 12..14",
           "many": "v = 0 and i != 1 and i % 10 = 0..1 or v = 0 and i % 10 = 5..9 or v = 0 and i % 100 = 12..14"},
    "ru": {"one": "v = 0 and i % 10 = 1 and i % 100 != 11",
           "few": "v = 0 and i % 10 = 2..4 and i % 100 != 12..14",
           "many": "v = 0 and i % 10 = 0 or v = 0 and i % 10 = 5..9 or v = 0 and i % 100 = 11..14"},
    "uk": {"one": "v = 0 and i % 10 = 1 and i % 100 != 11",
           "few": "v = 0 and i % 10 = 2..4 and i % 100 != 12..14",
           "many": "v = 0 and i % 10 = 0 or v = 0 and i % 10 = 5..9 or v = 0 and i % 100 = 11..14"},
    "ar": {"zero": "n = 0", "one": "n = 1", "two": "n = 2", "few": "n % 100 = 3..10", "many": "n % 100 = 11..99"},
    "fr": {"one": "i = 0,1"},
    "cs": {"one": "i = 1 and v = 0", "few": "i = 2..4 and v = 0", "many": "v != 0"},
    "lt": {"one": "n % 10 = 1 and n % 100 != 11..19", "few": "n % 10 = 2..9 and n % 100 != 11..19", "many": "f != 0"},
    "ja": {},
    "sl": {"one": "v = 0 and i % 100 = 1", "two": "v = 0 and i % 100 = 2",
           "few": "v = 0 and i % 100 = 3..4 or v != 0"},
    "cy": {"zero": "n = 0", "one": "n = 1", "two": "n = 2", "few": "n = 3", "many": "n = 6"},
    "ro": {"one": "i = 1 and v = 0", "few": "v != 0 or n = 0 or n % 100 = 2..19"},
    "pt": {"one": "i = 0..1"},
    "pt-PT": {"one": "i = 1 and v = 0"},      # the only region-specific rule set (locales="pt_PT")
}
CLDR_ORDINAL = {
    "en": {"one": "n % 10 = 1 and n % 100 != 11", "two": "n % 10 = 2 and n % 100 != 12",
           "few": "n % 10 = 3 and n % 100 != 13"},
    "fr": {"one": "n = 1"},
    "ro": {"one": "n = 1"},
    "uk": {"few": "n % 10 = 3 and n % 100 != 13"},
    "cy": {"zero": "n = 0,7,8,9", "one": "n = 1", "two": "n = 2", "few": "n = 3,4", "many": "n = 5,6"},
    "sv": {"one": "n % 10 = 1,2 and n % 100 != 11,12"},
    "ar": {}, "cs": {}, "de": {}, "ja": {}, "lt": {}, "pl": {}, "ru": {}, "sl": {}, "pt": {},
}
LANGS = sorted(CLDR_CARDINAL)            # locale names: the 15 languages and pt-PT
KEYWORDS = ["zero", "one", "two", "few", "many", "other"]
# (language, type) pairs whose rule in intl_pluralrules 7.0.2 is mis-translated (known finding F26)
F26_PAIRS = {("ar", "cardinal"), ("lt", "cardinal"), ("ro", "cardinal"), ("en", "ordinal"), ("uk", "ordinal"),
             ("sv", "ordinal")}


class Ops:
    """CLDR operands of a decimal string as printed"""

    def __init__(self, text):
        t = text[1:] if text.startswith("-") else text
        ip, _, fp = t.partition(".")
        self.n = Decimal(ip + ("." + fp if fp else ""))
        self.i = int(ip)
        self.v = len(fp)
        self.f = int(fp) if fp else 0
        st = fp.rstrip("0")
        self.w = len(st)
        self.t = int(st) if st else 0


def eval_relation(rel, ops, buggy):
    m = re.fullmatch(r"\s*([nivwft])\s*(?:%\s*(\d+))?\s*(!=|=)\s*([\d.,]+)\s*", rel)
    opd, mod, op, rhs = m.group(1), m.group(2), m.group(3), m.group(4)
    val = getattr(ops, opd)
    ranges = []
    for part in rhs.split(","):
        if ".." in part:
            lo, hi = part.split("..")
            ranges.append((int(lo), int(hi)))
        else:
            ranges.append((int(part), int(part)))
    if buggy and opd == "n" and mod:
        # the generator of intl_pluralrules 7.0.2: `n % m` becomes `i % m`, and with a range on the right the
        # modulus is lost altogether
        if any(lo != hi for lo, hi in ranges):
            val = ops.i
        else:
            val = ops.i % int(mod)
    elif mod:
        val = val % int(mod)
    hit = False
    if val == int(val):
        hit = any(lo <= int(val) <= hi for lo, hi in ranges)
    return hit if op == "=" else not hit


def eval_condition(cond, ops, buggy=False):
    return any(all(eval_relation(r, ops, buggy) for r in conj.split(" and ")) for conj in cond.split(" or "))


def category(lang, typ, printed, buggy=False):
    table = (CLDR_ORDINAL if typ == "ordinal" else CLDR_CARDINAL)[lang]
    ops = Ops(printed)
    # categories of a locale are disjoint in CLDR; the crate tests them in alphabetical order
    for cat in sorted(table):
        if eval_condition(table[cat], ops, buggy):
            return cat
    return "other"


def rule_lang(locale, typ):
    """the bundle's first locale -> the CLDR rule set that applies: a region-specific rule set when CLDR has one for
    exactly this locale and type (cardinal pt-PT), else the rules of the language; unknown language: en"""
    table = CLDR_ORDINAL if typ == "ordinal" else CLDR_CARDINAL
    locale = locale.split("+")[0]        # a locale chain: the FIRST locale decides
    if locale in table:
        return locale
    l = locale.split("-")[0].lower()
    return l if l in CLDR_CARDINAL else "en"


# --------------------------------------------------------------------------------------------------------------
# case syntax

DEC = re.compile(r"-?[0-9]+(\.[0-9]+)?\Z")
RUST_FLOAT = re.compile(r"[+-]?(inf|infinity|nan|([0-9]+\.?[0-9]*|\.[0-9]+)([eE][+-]?[0-9]+)?)\Z", re.I)
INT_TYPES = {"i8": (-2 ** 7, 2 ** 7 - 1), "i16": (-2 ** 15, 2 ** 15 - 1), "i32": (-2 ** 31, 2 ** 31 - 1),
             "i64": (-2 ** 63, 2 ** 63 - 1), "i128": (-2 ** 127, 2 ** 127 - 1), "isize": (-2 ** 63, 2 ** 63 - 1),
             "u8": (0, 2 ** 8 - 1), "u16": (0, 2 ** 16 - 1), "u32": (0, 2 ** 32 - 1), "u64": (0, 2 ** 64 - 1),
             "u128": (0, 2 ** 128 - 1), "usize": (0, 2 ** 64 - 1)}
OPT_NAMES = ["type", "style", "currency", "currencyDisplay", "useGrouping", "minimumIntegerDigits",
             "minimumFractionDigits", "maximumFractionDigits", "minimumSignificantDigits", "maximumSignificantDigits"]
STR_OPTS = {"type": ["cardinal", "ordinal"], "style": ["decimal", "currency", "percent"], "currency": None,
            "currencyDisplay": ["symbol", "code", "name"], "useGrouping": ["true", "false"]}
PROBE_KEYS = {"type": "ty", "style": "style", "currency": "cur", "currencyDisplay": "cd", "useGrouping": "ug",
              "minimumIntegerDigits": "minid", "minimumFractionDigits": "minfd", "maximumFractionDigits": "maxfd",
              "minimumSignificantDigits": "minsd", "maximumSignificantDigits": "maxsd"}


def sig_digits(dec_text):
    t = dec_text.lstrip("-").replace(".", "").lstrip("0")
    return len(t)


def in_domain(dec_text):
    """decimal texts whose f64 round trip is exact: at most 15 significant digits (zeros at the end count)"""
    return DEC.match(dec_text) is not None and sig_digits(dec_text) <= 15


class Case:
    """parsed case line; .kind in {number, string, ood}; numbers carry .dec (text) and .written (fraction digits
    remembered by the value, None = none)"""

    def __init__(self, line):
        _, self.locale, self.val, self.opts, self.keys = line.split(" ")
        self.ood = False
        self.kind, self.dec, self.written, self.string = self.parse_val(self.val)
        # the plural rule type the VALUE carries before any NUMBER call (`n<v>/<mfd>/o`: FluentNumber built by the caller
        # with type = ordinal)
        self.start_type = "ordinal" if self.val[0] == "n" and self.val.endswith("/o") else "cardinal"
        self.named = None
        if self.opts != "-":
            self.named = []
            if self.opts != "+":
                for o in self.opts.split(","):
                    name, v = o.split("=")
                    if v[0] == "Q":
                        self.named.append((name, "str", unhx(v[1:]).decode("utf-8")))
                    else:
                        if not in_domain(v[1:]):
                            self.ood = True
                        self.named.append((name, "num", v[1:]))
        self.variants = []
        for k in self.keys.split(","):
            d = k.startswith("*")
            k = k.lstrip("*")
            if k[0] == "D" and not in_domain(k[1:]):
                self.ood = True
            self.variants.append((k[0], k[1:], d))
        if self.kind == "ood":
            self.ood = True

    @staticmethod
    def parse_val(tok):
        k, r = tok[0], tok[1:]
        if k == "L":
            t = unhx(r).decode()
            if not in_domain(t):
                return "ood", None, None, None
            return "number", t, (len(t.split(".")[1]) if "." in t else None), None
        if k == "R":
            ty, text = r.split(":")
            if ty in INT_TYPES:
                if not in_domain(text):
                    return "ood", None, None, None
                return "number", str(int(text)), None, None
            if ty == "f64":
                return ("number", text, None, None) if in_domain(text) else ("ood", None, None, None)
            if ty == "f32":
                if in_domain(text):
                    d = Decimal(text)
                    if d * 64 == int(d * 64) and abs(d) < 2 ** 17:
                        return "number", text, None, None
                return "ood", None, None, None
        if k in "so":
            return "string", None, None, unhx(r).decode("utf-8", "replace")
        if k in "iu":
            return ("number", str(int(r)), None, None) if in_domain(r) else ("ood", None, None, None)
        if k == "f":
            return ("number", r, None, None) if in_domain(r) else ("ood", None, None, None)
        if k == "t":
            try:
                t = unhx(r).decode("utf-8")
            except UnicodeDecodeError:
                return "ood", None, None, None
            if DEC.match(t):
                if sig_digits(t) > 15:
                    return "ood", None, None, None
                return "number", t, (len(t.split(".")[1]) if "." in t else None), None
            if RUST_FLOAT.match(t):
                return "ood", None, None, None
            return "string", None, None, t
        if k == "n":
            v, m = r.split("/")[:2]
            if not in_domain(v):
                return "ood", None, None, None
            return "number", v, (None if m == "-" else int(m)), None
        return "ood", None, None, None


def parse_obs(obs):
    d = {}
    for part in obs.split(";"):
        k, _, v = part.partition("=")
        d[k] = v
    return d


def text_of(field):
    """`<hex>:<errors>` -> (text, errors)"""
    h, _, e = field.rpartition(":")
    return unhx(h).decode("utf-8", "replace"), int(e)


PRINTED = re.compile(r"(-?)([0-9]+)(?:\.([0-9]*))?\Z")


def frac_digits(printed):
    m = PRINTED.match(printed)
    return len(m.group(3) or "")


def min_digits(dec_text):
    """fraction digits of the shortest decimal form of the value"""
    f = dec_text.split(".")[1] if "." in dec_text else ""
    return len(f.rstrip("0"))


def same_value(printed, dec_text):
    m = PRINTED.match(printed)
    if not m:
        return False
    p = Decimal(m.group(1) + m.group(2) + "." + (m.group(3) or "") + "0")
    return p == Decimal(dec_text)


def usize_of(num_text):
    """a valid ECMA-402 digit option: a non-negative integer"""
    d = Decimal(num_text)
    if d < 0 or d != int(d):
        return None
    return int(d)


# --------------------------------------------------------------------------------------------------------------

class C12(Base):
    ID = "C12"
    AREA = "num"
    LEMMA_FILES = ["FluentProofs/BundleLocale.lean", "FluentProofs/Num.lean", "FluentProofs/NumOperands.lean", "FluentProofs/NumMerge.lean",
                   "FluentProofs/NumRules.lean"]
    RULE = ("case = bundle locale x value (number literal in the FTL source with sign / leading zeros / 0-18 fraction "
            "digits, argument of each of the 14 Rust number types, numeric string through try_number, "
            "FluentNumber::new, plain string) x NUMBER call (none / no options / random subset of the 10 option names "
            "plus unknown names, with valid, invalid and wrong-kind values; minimumFractionDigits 0..18, 19, 20, 25, "
            "100, 101, 10^6, u64::MAX, 10^30, negative, fractional) x select with plural keywords in random order, exact "
            "numeric keys (the value written with other fraction digits / leading zero, neighbours), other identifiers "
            "and one default at a random position. Locales en pl ru ar fr cs lt ja de uk sl cy ro sv pt, en-US, pl-PL, "
            "fr-CA, ar-EG, pt-PT (the crate's only region-specific rule set), pt-BR, pt-AO, unknown (xx, tlh). A fixed family covers the property's examples per locale; 5% of the "
            "cases use values outside the exact-decimal domain (NaN, inf, 1e300, -0, >15 digits, 25+ fraction digits). "
            "thorough adds, per locale (20) x cardinal/ordinal: every integer 0-200 as i32 argument, as literal with "
            ".0/.00/.5/.10, and with minimumFractionDigits 1, and every one- and two-fraction-digit literal over "
            "integer parts 0-20. Values include numbers handed over by the caller that already carry type = ordinal (`n<v>/<mfd>/o`), with an explicit `type` in the call. Non-trivial = value in the exact-decimal domain, selector is a number, and either a "
            "variant other than the default was chosen by a key or NUMBER changed the printed text or fraction digits "
            "are visible; distinct = distinct case line.")
    EXPLANATION = ("Theorems (Props/C12.lean): literal_fraction_digits, number_options_override, operands_match_display, "
                   "plural_match_iff (+ variant order), CLDR sanity tests by decide. Tie: printed text of { $n } and "
                   "{ NUMBER($n, ...) }, chosen variant, FluentNumber after merge and PluralOperands::from(&n), "
                   "implementation (fluent-bundle + intl_pluralrules in-process) vs Lean model on the <=15 significant "
                   "digit domain. Independent python oracle: decimal arithmetic + an interpreter of the CLDR 37 rule "
                   "text. Outside the domain (NaN, inf, 1e300, >15 digits) only no-panic / bounded output.")
    ASSUMPTIONS = ["f64 parse/print is exact on decimals with <= 15 significant digits (Num.display)",
                   "u64::from_str, f64 -> u64/usize saturating casts",
                   "fluent-langneg Lookup negotiation: language subtag decides, unknown language -> en",
                   "CLDR 37 rule text for the 14 languages as transcribed by hand (Lean) and typed in as text (python)"]
    TRUSTED = ["intl_pluralrules 7.0.2 and fluent-langneg are external crates: compared by the tie against the "
               "hand-transcribed CLDR rules, not verified"]
    F26_CLASS = "F26 plural category follows the mis-translated rule of intl_pluralrules"

    # --- generators ----------------------------------------------------------------------------------------
    LOCALES = LANGS + ["en-US", "pl-PL", "xx", "tlh", "fr-CA", "ar-EG", "pt-BR", "pt-AO", "pt-PT", "pt"]
    ALLKEYS = "Izero,Ione,Itwo,Ifew,Imany,*Iother"

    def gen_decimal(self, rng, maxfrac=18):
        """decimal text with <= 15 significant digits, sign, leading zeros, up to maxfrac fraction digits"""
        r = rng.random()
        if r < 0.35:
            ip = str(rng.choice([0, 1, 2, 3, 4, 5, 6, 7, 8, 9, 10, 11, 12, 13, 14, 19, 20, 21, 22, 25, 100, 101, 102, 103,
                                 111, 112, 1000000]))
        elif r < 0.7:
            ip = str(rng.randrange(0, 300))
        else:
            ip = str(rng.randrange(0, 10 ** rng.randint(1, 12)))
        if rng.random() < 0.15:
            ip = "0" * rng.randint(1, 3) + ip
        fp = None
        if rng.random() < 0.6:
            k = rng.choice([1, 1, 2, 2, 3, rng.randint(1, maxfrac)]) if maxfrac else 0
            if k:
                room = max(0, 15 - len(ip.lstrip("0")))
                r2 = rng.random()
                if r2 < 0.35:
                    fp = "0" * k
                elif r2 < 0.6:
                    nz = rng.randint(1, max(1, min(k, room, 3)))
                    fp = (str(rng.randrange(1, 10 ** nz)).rjust(nz, "0") + "0" * k)[:k]
                else:
                    nz = min(k, room)
                    fp = "".join(rng.choice("0123456789") for _ in range(nz)) + "0" * (k - nz)
                # leading zeros of a value < 1 do not count, digits after the 15th must be zero
                body = (ip + fp).lstrip("0")
                if len(body) > 15:
                    fp = None
        s = ip + ("." + fp if fp else "")
        if rng.random() < 0.2:
            s = "-" + s
        if not in_domain(s):
            s = ip[:9] if in_domain(ip[:9]) else "1"
        return s

    def gen_value(self, rng):
        r = rng.random()
        if r < 0.3:
            return "L" + hx(self.gen_decimal(rng))
        if r < 0.55:
            ty = rng.choice(list(INT_TYPES) + ["f32", "f64", "f64"])
            if ty in INT_TYPES:
                lo, hi = INT_TYPES[ty]
                v = rng.choice([0, 1, 2, 3, 5, 11, 21, 22, 100, 101, 111, 127, -1, -2, -5, lo, hi, rng.randrange(0, 300),
                                rng.randrange(-10 ** 6, 10 ** 15)])
                v = max(lo, min(hi, v))
                return "R%s:%d" % (ty, v)
            if ty == "f32":
                v = Decimal(rng.randrange(-2 ** 12, 2 ** 12)) / Decimal(rng.choice([1, 2, 4, 8, 64]))
                return "Rf32:%s" % format(v, "f")
            return "Rf64:" + self.gen_decimal(rng, 6)
        if r < 0.7:
            t = self.gen_decimal(rng) if rng.random() < 0.8 else rng.choice(
                ["abc", "1 ", " 1", "one", "other", "1,5", "1.5.0", "0x10", "é", "", "١", "1_000", "--1", "1-"])
            return "t" + hx(t)
        if r < 0.8:
            # `/o`: the application hands over a number whose options already say type = ordinal
            return "n%s/%s%s" % (self.gen_decimal(rng, 6) if rng.random() < 0.6 else str(rng.choice([0, 1, 2, 3, 4, 11, 21, 22, 23, 101])),
                                 rng.choice(["-", "0", "1", "2", "3", "7", "18"]), rng.choice(["", "", "/o"]))
        if r < 0.86:
            return rng.choice(["i", "f"]) + str(rng.randrange(-50, 250)) if rng.random() < 0.7 else "u%d" % rng.randrange(256)
        if r < 0.93:
            return rng.choice("so") + hx(rng.choice(["one", "other", "few", "1", "1.0", "foo", "", "é", "many", "zero", "two"]))
        return self.gen_ood_value(rng)

    def boundary_family(self):
        """MIN / MAX / MAX/2+1 of every Rust integer type, and floats that are ALMOST an exact key"""
        bits = {"i8": 8, "i16": 16, "i32": 32, "i64": 64, "i128": 128, "isize": 64, "u8": 8, "u16": 16, "u32": 32, "u64": 64,
                "u128": 128, "usize": 64}
        for ty, b in bits.items():
            if ty.startswith("i"):
                vals = [-(1 << (b - 1)), (1 << (b - 1)) - 1, -1, 0]
            else:
                vals = [0, (1 << b) - 1, 1 << (b - 1), (1 << (b - 1)) - 1]
            for v in vals:
                yield "num en R%s:%d - D-1,D0,Ione,*Iother" % (ty, v)
                yield "num pl R%s:%d - *Iother,D-1,Ifew,Imany" % (ty, v)
        for x, key in (("1e-17", "0"), ("-1e-17", "0"), ("5e-324", "0"), ("1.0000000000000002", "1"), ("0.30000000000000004", "0.3"),
                       ("0.5000000000000001", "0.5"), ("2.9999999999999996", "3"), ("1e-300", "0")):
            for loc in ("en", "fr", "ar"):
                yield "num %s Rf64:%s - D%s,Izero,Ione,*Iother" % (loc, x, key)
                yield "num %s Rf64:%s - *Iother,D%s,Ione" % (loc, x, key)

    def gen_ood_value(self, rng):
        return rng.choice([
            "Rf64:NaN", "Rf64:inf", "Rf64:-inf", "Rf64:1e300", "Rf64:-1e300", "Rf64:-0", "Rf64:1e-25", "Rf64:5e-324",
            "Rf64:0.1234567890123456789012345", "Rf64:1.7976931348623157e308", "Rf32:0.1", "Rf32:3.4028235e38",
            "Rf32:NaN", "Rf32:inf", "Ru64:18446744073709551615", "Ri64:-9223372036854775808",
            "Ru128:340282366920938463463374607431768211455", "Ri128:-170141183460469231731687303715884105728",
            "Rusize:18446744073709551615", "Rf64:18446744073709551616", "Rf64:9007199254740993",
            "L" + hx("0." + "0" * 24 + "1"), "L" + hx("1." + "0" * 24 + "1"), "L" + hx("1." + "3" * 25),
            "L" + hx("123456789012345678901234567890"), "L" + hx("-0.0"), "L" + hx("1." + "0" * 120),
            "L" + hx("99999999999999999999.99999999999999999999"),
            "t" + hx("NaN"), "t" + hx("inf"), "t" + hx("-infinity"), "t" + hx("1e3"), "t" + hx("1e400"), "t" + hx(".5"),
            "t" + hx("5."), "t" + hx("+1.50"), "t" + hx("1E-7"), "t" + hx("1." + "9" * 30), "t" + hx("nan"),
            "n1e300/3", "nNaN/2", "ninf/-", "n0.1/25", "n1.5/1000000", "n1/18446744073709551615",
        ])

    def gen_opts(self, rng):
        r = rng.random()
        if r < 0.35:
            return "-"
        if r < 0.42:
            return "+"
        out = []
        names = rng.sample(OPT_NAMES + ["foo", "minimumfractiondigits"], rng.choice([1, 1, 1, 2, 2, 3, 5]))
        if rng.random() < 0.5 and "minimumFractionDigits" not in names:
            names[0] = "minimumFractionDigits"
        if rng.random() < 0.45 and "type" not in names:
            names.append("type")
        for n in names:
            r = rng.random()
            if n in STR_OPTS or n in ("foo",):
                if r < 0.08:
                    out.append("%s=D%d" % (n, rng.randrange(3)))          # wrong kind
                else:
                    vals = STR_OPTS.get(n) or ["USD", "EUR", "", "é", "x y"]
                    v = rng.choice(vals) if r < 0.85 else rng.choice(["Ordinal", "ORDINAL", "", "none", "TRUE", "yes"])
                    if n == "type" and r < 0.6:
                        v = "ordinal"
                    out.append("%s=Q%s" % (n, hx(v)))
            else:
                if r < 0.08:
                    out.append("%s=Q%s" % (n, hx(str(rng.randrange(5)))))   # wrong kind
                elif r < 0.8:
                    out.append("%s=D%d" % (n, rng.choice([0, 1, 1, 2, 2, 3, 4, 5, 6, 10, 17, 18])))
                elif r < 0.9:
                    out.append("%s=D%s" % (n, rng.choice(["-1", "-0", "2.7", "0.9", "1.0", "002", "-3.5"])))
                else:
                    out.append("%s=D%s" % (n, rng.choice(["19", "20", "25", "99", "100", "101", "1000000",
                                                         "18446744073709551615", "1" + "0" * 30])))
        return ",".join(out)

    def gen_keys(self, rng, val):
        ks = []
        kw = list(KEYWORDS)
        rng.shuffle(kw)
        ks += ["I" + k for k in kw[:rng.choice([2, 3, 4, 6, 6])]]
        # exact numeric keys around the value
        dec = None
        if val[0] == "L":
            dec = unhx(val[1:]).decode()
        elif val[0] == "t":
            try:
                dec = unhx(val[1:]).decode()
            except UnicodeDecodeError:
                dec = None
        elif val[0] == "R":
            dec = val.split(":")[1]
        elif val[0] in "iuf":
            dec = val[1:]
        elif val[0] == "n":
            dec = val[1:].split("/")[0]
        if dec is not None and DEC.match(dec) and in_domain(dec):
            d = Decimal(dec)
            ip = str(abs(int(d)))
            sign = "-" if d < 0 else ""
            fpart = dec.split(".")[1] if "." in dec else ""
            forms = [dec, sign + ip + ("." + fpart.rstrip("0") if fpart.rstrip("0") else ""),
                     sign + ip + "." + (fpart.rstrip("0") + "0")[:16], sign + ip + "." + (fpart + "00")[:17],
                     "0" + dec.lstrip("-"), str(abs(int(d)) + 1), sign + ip]
            for f in forms:
                if DEC.match(f) and in_domain(f) and rng.random() < 0.45:
                    ks.append("D" + f)
        for _ in range(rng.choice([0, 0, 1, 2])):
            ks.append(rng.choice(["D0", "D1", "D2", "D1.0", "D5", "D11", "D21", "D1.5", "D-1", "D100", "Ifoo", "Ibar-baz",
                                  "Ione", "Iother", "D0.0", "D1.00"]))
        rng.shuffle(ks)
        if not ks:
            ks = ["Iother"]
        d = rng.randrange(len(ks)) if rng.random() < 0.5 else max((i for i, k in enumerate(ks) if k == "Iother"),
                                                                 default=len(ks) - 1)
        ks[d] = "*" + ks[d]
        return ",".join(ks)

    def gen_case(self, rng):
        val = self.gen_value(rng)
        loc = rng.choice(self.LOCALES) if rng.random() < 0.9 else rng.choice(["en", "ar", "lt", "pl", "ru"])
        if rng.random() < 0.06:
            # a locale CHAIN: the first locale decides, whatever follows (often one with richer rules)
            loc = rng.choice([loc, "xx", "tlh", "en", "ja"]) + "+" + rng.choice(["pl", "ar", "ru", "lt", "cs"]) + rng.choice(["", "+en"])
        return "num %s %s %s %s" % (loc, val, self.gen_opts(rng), self.gen_keys(rng, val))

    def generate(self, rng, tier):
        for c in self.boundary_family():
            yield c
        ordinal = "type=Q" + hx("ordinal")
        # fixed family: property examples and the edge values named in DESIGN 6/C12
        for loc in ["en", "pl", "ru", "ar", "fr", "cs", "lt", "ja", "en-US", "xx"]:
            for v in ["1", "1.0", "2", "5", "21", "0", "11", "0.5", "1.5", "-1", "100", "1.00", "3.0"]:
                for o in ["-", ordinal, "minimumFractionDigits=D1", "minimumFractionDigits=D0"]:
                    yield "num %s L%s %s %s" % (loc, hx(v), o, self.ALLKEYS)
        # region-specific rules: pt (one: i = 0..1) versus pt-PT (one: i = 1 and v = 0); pt-BR / pt-AO negotiate to pt
        for loc in ["pt", "pt-PT", "pt-BR", "pt-AO"]:
            for v in ["0", "0.0", "0.5", "1", "1.0", "1.5", "2", "0.00", "1.9", "-0.5", "10", "2.0"]:
                for o in ["-", ordinal, "minimumFractionDigits=D1", "minimumFractionDigits=D0"]:
                    yield "num %s L%s %s %s" % (loc, hx(v), o, self.ALLKEYS)
                yield "num %s Rf64:%s - %s" % (loc, v, self.ALLKEYS)
        for v in ["1", "1.5", "0", "12345.678"]:
            for m in ["0", "18", "19", "20", "25", "100", "101", "1000000"]:
                yield "num en L%s minimumFractionDigits=D%s %s" % (hx(v), m, self.ALLKEYS)
                yield "num lt L%s minimumFractionDigits=D%s %s" % (hx(v), m, self.ALLKEYS)
        n = 40000 if tier == "quick" else 400000
        for _ in range(n):
            yield self.gen_case(rng)
        for _ in range(n // 20):
            v = self.gen_ood_value(rng)
            yield "num %s %s %s %s" % (rng.choice(self.LOCALES), v, self.gen_opts(rng), self.gen_keys(rng, v))
        if tier == "thorough":
            for loc in LANGS + ["en-US", "xx", "pt-BR", "pt-AO"]:
                for o in ["-", ordinal]:
                    for i in range(0, 201):
                        yield "num %s Ri32:%d %s %s" % (loc, i, o, self.ALLKEYS)
                        for f in ["0", "00", "5", "10"]:
                            yield "num %s L%s %s %s" % (loc, hx("%d.%s" % (i, f)), o, self.ALLKEYS)
                    for i in range(0, 21):
                        for f in range(10):
                            yield "num %s L%s %s %s" % (loc, hx("%d.%d" % (i, f)), o, self.ALLKEYS)
                        for f in range(100):
                            yield "num %s L%s %s %s" % (loc, hx("%d.%02d" % (i, f)), o, self.ALLKEYS)
                    for i in range(0, 201):
                        yield "num %s Ri32:%d %s,minimumFractionDigits=D1 %s" % (loc, i, o if o != "-" else "foo=D1", self.ALLKEYS)

    def mutate(self, case, rng, n):
        _, loc, val, opts, keys = case.split(" ")
        out = []
        for _ in range(n):
            k = rng.randrange(4)
            l, v, o, ks = loc, val, opts, keys
            if k == 0:
                l = rng.choice(self.LOCALES)
            elif k == 1:
                v = self.gen_value(rng)
                ks = self.gen_keys(rng, v)
            elif k == 2:
                o = self.gen_opts(rng)
            else:
                ks = self.gen_keys(rng, v)
            out.append("num %s %s %s %s" % (l, v, o, ks))
        return out

    def shrink(self, case, fails):
        _, loc, val, opts, keys = case.split(" ")
        cur = (loc, val, opts, keys)

        def line(c):
            return "num %s %s %s %s" % c
        changed = True
        rounds = 0
        while changed and rounds < 20:
            changed = False
            rounds += 1
            cands = []
            l, v, o, ks = cur
            if o not in ("-", "+"):
                ol = o.split(",")
                for i in range(len(ol)):
                    rest = ol[:i] + ol[i + 1:]
                    cands.append((l, v, ",".join(rest) if rest else "+", ks))
            if o == "+":
                cands.append((l, v, "-", ks))
            kl = ks.split(",")
            for i in range(len(kl)):
                if not kl[i].startswith("*"):
                    cands.append((l, v, o, ",".join(kl[:i] + kl[i + 1:])))
            if "-" in l:
                cands.append((l.split("-")[0], v, o, ks))
            if not cands:
                break
            res = fails([line(c) for c in cands])
            for c, r in zip(cands, res):
                if r:
                    cur = c
                    changed = True
                    break
        return line(cur)

    # --- the property predicate -----------------------------------------------------------------------------
    def oracle_options(self, c, probe):
        """options after NUMBER's merge according to the property: those given in the call replace the value's,
        all others are kept.  Returns {name: expected-or-None}; None = not pinned (invalid / wrong-kind value given)."""
        exp = {"type": c.start_type, "style": "decimal", "currency": "-", "currencyDisplay": "symbol",
               "useGrouping": "1", "minimumIntegerDigits": "-",
               "minimumFractionDigits": "-" if c.written is None else str(c.written),
               "maximumFractionDigits": "-", "minimumSignificantDigits": "-", "maximumSignificantDigits": "-"}
        for (name, kind, v) in (c.named or []):
            if name not in exp:
                continue
            if name in STR_OPTS:
                if kind != "str":
                    exp[name] = None
                elif name == "currency":
                    exp[name] = "x" + hx(v)
                elif v in STR_OPTS[name]:
                    exp[name] = {"true": "1", "false": "0"}.get(v, v) if name == "useGrouping" else v
                else:
                    exp[name] = None
            else:
                u = usize_of(v) if kind == "num" else None
                exp[name] = None if u is None else str(u)
        return exp

    def project(self, case, obs):
        # `cs` (the same select on concurrent bundles with a warmed formatter cache) is judged by the predicate only
        return ";".join(p for p in obs.split(";") if not p.startswith(("cs=", "ds=", "tp=")))

    def predicate(self, case, impl_obs):
        bad = super().predicate(case, impl_obs)
        if bad:
            return bad
        if len(impl_obs) > 20000:
            return "output not bounded: %d characters" % len(impl_obs)
        if impl_obs.startswith("bad-"):
            return "harness rejected the case: " + impl_obs
        c = Case(case)
        o = parse_obs(impl_obs)
        if not all(k in o for k in "pqsr"):
            return "malformed observation"
        if o.get("ds", "same") != "same":
            return "two selects on the same value in ONE pattern (with / without visible fraction digits) do not choose what each chooses alone: " + o["ds"][:80]
        if o.get("tp", "na") not in ("same", "na"):
            return "a number literal passed to a term as a named argument lost its written form: p=%s s=%s but %s" % (o["p"], o["s"], o["tp"][:80])
        if o.get("cs", "same") != "same":
            return "the selected variant depends on the bundle flavour / on which plural rules were cached first: s=%s but %s" % (o["s"], o["cs"])
        if c.ood:
            return self.check_outside(c, o)
        p, pe = text_of(o["p"])
        if c.kind == "string":
            if p != c.string:
                return "string argument printed as %r" % p
            if c.named is not None and o["r"] != "E":
                return "NUMBER of a string did not yield an error value: " + o["r"]
            if c.named is None and o["r"] != "S" + hx(c.string):
                return "string selector changed: " + o["r"]
            return self.check_select(c, o, None, None, None)
        # --- a number in the exact-decimal domain
        # (1) written precision and value
        if not PRINTED.match(p) or not same_value(p, c.dec):
            return "printed %r does not denote the value %s" % (p, c.dec)
        if c.written is not None and frac_digits(p) < min(c.written, 100):
            return "printed %r has fewer fraction digits than written (%d)" % (p, c.written)
        if c.written is not None and c.written <= 100 and frac_digits(p) != max(c.written, min_digits(c.dec)):
            return "printed %r: fraction digits differ from max(written, needed)" % p
        if c.written is None and frac_digits(p) != min_digits(c.dec):
            return "printed %r: unexpected fraction digits" % p
        # (2) what the selector is: the FluentNumber PROBE received
        r = o["r"]
        if not r.startswith("N"):
            return "selector is not a number: " + r
        fields = r.split("|")
        got = {kv.partition("=")[0]: kv.partition("=")[2] for kv in fields[1:]}
        if not same_value(fields[0][1:], c.dec):
            return "NUMBER changed the value: %s" % fields[0]
        exp = self.oracle_options(c, got)
        for name, e in exp.items():
            g = got.get(PROBE_KEYS[name])
            g = {"cardinal": "cardinal", "ordinal": "ordinal"}.get(g, g)
            if e is not None and g != e:
                return "option %s after NUMBER: expected %s got %s" % (name, e, g)
        typ = got["ty"]
        mfd = None if got["minfd"] == "-" else int(got["minfd"])
        # (3) text of { NUMBER(...) }: the options of the call decide
        printed = p
        if c.named is not None:
            q, qe = text_of(o["q"])
            if not PRINTED.match(q) or not same_value(q, c.dec):
                return "NUMBER printed %r which does not denote %s" % (q, c.dec)
            want = max(min_digits(c.dec), min(mfd, 100)) if mfd is not None else min_digits(c.dec)
            if frac_digits(q) != want:
                return "NUMBER printed %r: expected %d fraction digits" % (q, want)
            printed = q
        elif o["q"] != "~":
            return "unexpected q"
        # (4) operands = CLDR operands of the printed string
        vis = frac_digits(printed)
        ops = got["ops"].split(",")
        if vis <= 18:
            e = Ops(printed if not printed.endswith(".") else printed[:-1])
            if not same_value(ops[0], str(e.n)):
                return "operand n %s != |%s|" % (ops[0], printed)
            exp_ops = [e.i, e.v, e.w, e.f, e.t]
            if [int(x) for x in ops[1:]] != exp_ops:
                return "operands i,v,w,f,t %s != CLDR operands %s of the printed %s" % (ops[1:], exp_ops, printed)
        else:
            return None
        # (5) the select
        return self.check_select(c, o, printed.rstrip("."), typ, got)

    def check_outside(self, c, o):
        """values outside the exact-decimal domain (huge, tiny, 128-bit): no exact decimal oracle, but what Rust's own
        shortest round-trip printing gives still pins two things: (1) an argument of a Rust integer or f64 type prints
        as a text that parses back to the f64 nearest to the argument (the 'same numeric value'); (2) an exact NUMERIC
        key may be selected only by that very f64"""
        if not c.val.startswith("R") or c.named is not None:
            return None
        ty, _, x = c.val[1:].partition(":")
        try:
            if ty in ("f64",):
                want = float(x)
            elif ty in ("f32",):
                return None
            else:
                want = float(int(x))
        except (ValueError, OverflowError):
            return None
        if want != want or want in (float("inf"), float("-inf")):
            return None
        p, _ = text_of(o["p"])
        try:
            got = float(p)
        except ValueError:
            return "argument of type %s printed as %r, which is not a number" % (ty, p)
        if got != want:
            return "argument %s of type %s printed as %r, which does not denote the same value" % (x[:40], ty, p[:60])
        s, _ = text_of(o["s"])
        if s.isdigit() and int(s) < len(c.variants):
            kind, text, is_default = c.variants[int(s)]
            if kind == "D" and not is_default:          # (the default is also what is chosen when nothing matches)
                try:
                    if float(text) != want:
                        return "exact numeric key [%s] selected for the different number %s" % (text, x[:40])
                except ValueError:
                    pass
        return None

    def check_select(self, c, o, printed, typ, got):
        s, se = text_of(o["s"])
        if not s.isdigit() or int(s) >= len(c.variants):
            return "select printed %r" % s
        chosen = int(s)
        default = [i for i, v in enumerate(c.variants) if v[2]][0]
        lang = rule_lang(c.locale, typ or "cardinal")
        # walk the variants in order; `maybe` = the property does not pin whether this key matches
        acceptable = []
        decided = False
        for i, (kind, text, _) in enumerate(c.variants):
            m = self.key_matches(c, kind, text, printed, typ, got, lang)
            if m is None:
                acceptable.append(i)
            elif m:
                acceptable.append(i)
                decided = True
                break
        if not decided:
            acceptable.append(default)
        if chosen in acceptable:
            return None
        what = "variant %d [%s] chosen, expected %s" % (chosen, c.variants[chosen][1], acceptable)
        if printed is not None:
            cat = category(lang, typ, printed)
            return "plural/select mismatch: locale=%s rules=%s type=%s printed=%s CLDR category=%s: %s" % (
                c.locale, lang, typ, printed, cat, what)
        return "select mismatch on a string selector: " + what

    def key_matches(self, c, kind, text, printed, typ, got, lang):
        if printed is None:           # string (or error) selector
            if c.named is not None:
                return False          # NUMBER(string) is an error value: nothing matches
            return kind == "I" and text == c.string
        if kind == "I":
            if text not in KEYWORDS:
                return False
            return category(lang, typ, printed) == text
        # exact numeric key: the values must be equal; when they are, the code also compares the options
        # (property silent: then either outcome is accepted)
        if Decimal(text) != Decimal(c.dec):
            return False
        key_mfd = str(len(text.split(".")[1])) if "." in text else "-"
        defaults = {"ty": "cardinal", "style": "decimal", "cur": "-", "cd": "symbol", "ug": "1", "minid": "-",
                    "maxfd": "-", "minsd": "-", "maxsd": "-"}
        same_opts = got["minfd"] == key_mfd and all(got[k] == v for k, v in defaults.items())
        return True if same_opts else None

    def failure_class(self, case, impl_obs, why):
        if why.startswith("plural/select mismatch") and self.explained_by_f26(case, impl_obs):
            return self.F26_CLASS
        return super().failure_class(case, impl_obs, why)

    # --- known finding F26 ----------------------------------------------------------------------------------
    def explained_by_f26(self, case, impl_obs):
        """the chosen variant is exactly what the mis-translated rule of intl_pluralrules 7.0.2 selects, for one of
        the six (language, type) pairs it affects"""
        try:
            c = Case(case)
            o = parse_obs(impl_obs)
            if c.ood or c.kind != "number":
                return False
            got = {kv.partition("=")[0]: kv.partition("=")[2] for kv in o["r"].split("|")[1:]}
            typ = got["ty"]
            lang = rule_lang(c.locale, typ)
            if (lang, typ) not in F26_PAIRS:
                return False
            printed = text_of(o["q"])[0] if c.named is not None else text_of(o["p"])[0]
            printed = printed.rstrip(".")
            chosen = int(text_of(o["s"])[0])
            good = category(lang, typ, printed)
            buggy = category(lang, typ, printed, buggy=True)
            if good == buggy:
                return False
            if typ == "ordinal" and Ops(printed).t == 0:
                return False          # ordinal pairs: only non-integers are affected
            # replay the select with the buggy category
            default = [i for i, v in enumerate(c.variants) if v[2]][0]
            for i, (kind, text, _) in enumerate(c.variants):
                if kind == "I":
                    if text in KEYWORDS and text == buggy:
                        return chosen == i
                else:
                    m = self.key_matches(c, kind, text, printed, typ, got, lang)
                    if m is None:
                        if chosen == i:
                            return True
                    elif m:
                        return chosen == i
            return chosen == default
        except Exception:
            return False

    _witness_ok = {}

    def matches_known(self, k, case, impl_obs, why):
        if k.get("id") != "F26":
            return False
        if not (why.startswith("plural/select mismatch") or why == "disagreement"):
            return False
        if not self.explained_by_f26(case, impl_obs):
            return False
        # the recorded witness must still fail the same way
        w = k.get("witness")
        if w not in self._witness_ok:
            obs = core.run_impl(self.AREA, [w])[0]
            wy = self.predicate(w, obs)
            self._witness_ok[w] = bool(wy) and self.failure_class(w, obs, wy) == self.F26_CLASS
        return self._witness_ok[w]

    # --- evidence -------------------------------------------------------------------------------------------
    def nontrivial(self, case, impl_obs):
        try:
            c = Case(case)
            if c.ood or c.kind != "number" or impl_obs.startswith(("PANIC", "ABORT", "bad-", "TIMEOUT")):
                return False
            o = parse_obs(impl_obs)
            chosen = int(text_of(o["s"])[0])
            if not c.variants[chosen][2]:
                return True
            if c.named is not None and o["q"] != o["p"]:
                return True
            return "." in text_of(o["p"])[0]
        except Exception:
            return False

    def classify(self, case, impl_obs, dist):
        try:
            c = Case(case)
        except Exception:
            bump(dist, "unparsable-case")
            return
        bump(dist, "cases")
        bump(dist, "locale:" + c.locale)
        vk = c.val[0]
        bump(dist, "value:" + {"L": "literal", "R": "rust-" + c.val[1:].split(":")[0], "t": "try_number", "n": "FluentNumber::new",
                               "s": "string", "o": "string", "i": "i64", "u": "u8", "f": "f64"}.get(vk, vk))
        bump(dist, "domain:" + ("outside" if c.ood else c.kind))
        if c.named is None:
            bump(dist, "NUMBER:not-called")
        else:
            bump(dist, "NUMBER:%d-options" % len(c.named))
            for (n, kind, v) in c.named:
                bump(dist, "option:" + n)
        if impl_obs.startswith(("PANIC", "ABORT", "TIMEOUT", "bad-")):
            bump(dist, "obs:" + impl_obs.split(" ")[0])
            return
        o = parse_obs(impl_obs)
        if c.ood or "r" not in o:
            return
        if o["r"].startswith("N"):
            got = {kv.partition("=")[0]: kv.partition("=")[2] for kv in o["r"].split("|")[1:]}
            bump(dist, "type:" + got["ty"])
            ops = got["ops"].split(",")
            v = int(ops[2])
            bump(dist, "v:" + (str(v) if v <= 3 else "4-18" if v <= 18 else "19-100"))
            bump(dist, "minfd:" + ("none" if got["minfd"] == "-" else "0" if got["minfd"] == "0" else
                                   "1-18" if int(got["minfd"]) <= 18 else "19-100" if int(got["minfd"]) <= 100 else ">100"))
            printed = (text_of(o["q"])[0] if c.named is not None else text_of(o["p"])[0]).rstrip(".")
            if PRINTED.match(printed) and v <= 18:
                rl = rule_lang(c.locale, got["ty"])
                bump(dist, "category:%s:%s:%s" % (rl, got["ty"][:4], category(rl, got["ty"], printed)))
        elif o["r"] == "E":
            bump(dist, "selector:error-value")
        else:
            bump(dist, "selector:string")
        try:
            chosen = int(text_of(o["s"])[0])
            kind, text, d = c.variants[chosen]
            bump(dist, "chosen:" + ("numeric-key" if kind == "D" else "plural-keyword" if text in KEYWORDS else "identifier") +
                 ("(default)" if d else ""))
        except Exception:
            bump(dist, "chosen:?")


P = C12()
