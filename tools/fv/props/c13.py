"""C13 - string-literal escapes decode exactly and never fail."""
import itertools
from .base import Base, bump
from ..core import hx, unhx

HEX = "0123456789abcdefABCDEF"
FFFD = "�"

# escape-token soup (DESIGN 6/C13)
SOUP = ["\\", "\"", "u", "U", "0", "A", "f", "g", "+", "é", "€", "\U0001F600", "x", "d800", "DFFF", "110000",
        "10FFFF", "00", "\\u", "\\U", "\\\\", "\\\"", "\\u0041", "\\U01F600", " ", "-", "{", "\n"]
# characters whose code point has the low byte of a special ASCII character (`\\` 5C, `"` 22, `u` 75, `U` 55, `{` 7B):
# a test on `c as u8` takes them for it
LOOKALIKE = ["\u015c", "\u045c", "\u5c5c", "\U0001f35c", "\u0122", "\u0175", "\u0155", "\u017b", "\u2075", "\u7b22"]
SOUP = SOUP + LOOKALIKE[:4]
# 11-token alphabet of the exhaustive family
EXH = ["\\", "\"", "u", "U", "0", "A", "g", "+", "é", "\U0001F600", "x"]
PLAIN = ["a", "x", " ", "é", "€", "\U0001F600", "u", "U", "0", "\"q", "text ", "ｆ", "́", "\t"]
FOLLOW = ["", "x", "0", "é", "€", "\U0001F600", "\\", "\"", "u", "\\\\", "\\u0041"]
PREFIX = ["", "a", "é", "\U0001F600", "\\\\", "ab€"]
PLAIN = PLAIN + LOOKALIKE[:5]


import re
# a string-literal body the Fluent grammar accepts: no quote, backslash or line break outside the four escape forms
LITERAL_BODY = re.compile(r'(?:[^"\\\r\n]|\\\\|\\"|\\u[0-9a-fA-F]{4}|\\U[0-9a-fA-F]{6})*')


def is_scalar(v):
    return v < 0xD800 or 0xDFFF < v < 0x110000


def ref_decode(s):
    """Reference decoder written from the property text, on characters (python str).
    Extent of a malformed escape (the property leaves it open; this is what the fixed decoder does and what
    `decode` in FluentProofs/UnescapeSpec.lean says): the backslash and the next character; for u/U additionally
    the next 4/6 bytes' worth of characters, rounded up to whole characters."""
    out = []
    i = 0
    n = len(s)
    kinds = []
    while i < n:
        c = s[i]
        if c != "\\":
            out.append(c)
            i += 1
            continue
        i += 1
        if i >= n:
            out.append(FFFD)
            kinds.append("bad:eof")
            break
        e = s[i]
        i += 1
        if e == "\\" or e == "\"":
            out.append(e)
            kinds.append("ok:" + ("bs" if e == "\\" else "quote"))
        elif e in "uU":
            k = 4 if e == "u" else 6
            digits = s[i:i + k]
            if len(digits) == k and all(d in HEX for d in digits):
                v = int(digits, 16)
                if is_scalar(v):
                    out.append(chr(v))
                    kinds.append("ok:%s:%d-byte" % (e, len(chr(v).encode("utf-8"))))
                else:
                    out.append(FFFD)
                    kinds.append("ok:%s:%s" % (e, "surrogate" if v < 0x110000 else "out-of-range"))
                i += k
            else:
                b = 0
                straddle = False
                while i < n and b < k:
                    b += len(s[i].encode("utf-8"))
                    i += 1
                if b > k:
                    straddle = True
                out.append(FFFD)
                kinds.append("bad:%s:%s" % (e, "straddles-multibyte" if straddle else
                                            "truncated-at-eof" if b < k else "non-hex"))
        else:
            out.append(FFFD)
            kinds.append("bad:unknown-%s" % ("multibyte" if ord(e) > 127 else "ascii"))
    return "".join(out), kinds


def parts(obs):
    d = {}
    for p in obs.split(";"):
        k, _, v = p.partition(":")
        d[k] = v
    return d


class C13(Base):
    ID = "C13"
    AREA = "unesc"
    LEMMA_FILES = ["FluentProofs/UnescapeSpec.lean", "FluentProofs/Unescape.lean", "FluentProofs/UnescapeFast.lean"]
    RULE = ("escape-token soup over 28 tokens (\\, \", u, U, hex and non-hex digits, +, 2/3/4-byte characters, "
            "surrogate/out-of-range/maximal digit groups, ready-made escapes) of length <= 12; systematic family "
            "prefix x escape (every kind, every truncation length, every non-hex position) x follower (multi-byte, "
            "escapes, EOF); well-formed token concatenations with long plain runs (up to 20k characters); thorough adds "
            "the exhaustive family of all strings of <= 6 tokens over an 11-token alphabet (1.9 M). Non-trivial = the "
            "input contains a backslash (at least one escape is decoded); distinct = distinct input.")
    EXPLANATION = ("Theorems: for every valid UTF-8 input the byte-cursor model never panics and never runs out of fuel, "
                   "its output is the UTF-8 of `decode` (character-level specification), well-formed token "
                   "concatenations decode token by token, borrowed iff no backslash, writer form = string form. Tie: "
                   "unescape_unicode_to_string and unescape_unicode(writer) run in-process on the same inputs as the "
                   "Lean model; both observations diffed. An independent python reference decoder judges the "
                   "implementation; format_pattern of the literal as a placeable, as a positional and as a NAMED argument of "
                   "a function, as a named argument of a parameterized term, and as a selector (whose default arm prints it) "
                   "must give the same text whenever the parser admits the literal.")
    ASSUMPTIONS = ["u32::from_str_radix(_,16) on 4/6 hex digits = positional value", "char::from_u32 = Some iff scalar value",
                   "String::push / push_str append UTF-8", "str::get / is_char_boundary as documented in std"]

    # --- generators ----------------------------------------------------------------------------
    def gen_soup(self, rng, maxlen):
        n = rng.randint(1, maxlen)
        return "".join(rng.choice(SOUP) for _ in range(n))

    def gen_escape(self, rng):
        r = rng.random()
        if r < 0.15:
            return "\\\\"
        if r < 0.3:
            return "\\\""
        if r < 0.65:
            v = rng.choice([rng.randrange(0x80), rng.randrange(0x800), rng.randrange(0x10000), 0xD800, 0xDFFF, 0xD7FF,
                            0xE000, 0xFFFF, 0, 0xFFFD])
            f = rng.choice(["%04x", "%04X"])
            return "\\u" + f % v
        v = rng.choice([rng.randrange(0x110000), rng.randrange(0x1000000), 0x10FFFF, 0x110000, 0xD800, 0xFFFFFF, 0x1F600, 0])
        f = rng.choice(["%06x", "%06X"])
        return "\\U" + f % v

    def gen_wellformed(self, rng, maxtok):
        n = rng.randint(1, maxtok)
        out = []
        for _ in range(n):
            if rng.random() < 0.5:
                out.append(rng.choice(PLAIN))
            else:
                out.append(self.gen_escape(rng))
        return "".join(out)

    def systematic(self):
        escs = ["\\", "\\\\", "\\\"", "\\x", "\\é", "\\€", "\\\U0001F600", "\\{", "\\n"]
        for e, k in (("u", 4), ("U", 6)):
            good = "01F60A"[:k] if e == "U" else "00e9"
            for t in range(k + 1):
                escs.append("\\" + e + good[:t])                       # truncations
            for pos in range(k):
                for bad in ["g", "+", "-", " ", "é", "€", "\U0001F600", "\\", "\""]:
                    escs.append("\\" + e + good[:pos] + bad + good[pos + 1:])   # non-hex at every position
                    escs.append("\\" + e + good[:pos] + bad)
            for v in ["D800", "DFFF", "d7ff", "E000", "FFFF", "0000"] if e == "u" else \
                     ["00D800", "110000", "10FFFF", "FFFFFF", "00dfff", "000041"]:
                escs.append("\\" + e + v)
        # an UNKNOWN escape whose character is multi-byte: one representative per UTF-8 lead byte (0xC2..0xF4) - a test on
        # the first byte after the backslash must not take a lead byte for `u` / `U`
        for lead_cp in list(range(0x80, 0x800, 0x40)) + list(range(0x800, 0x10000, 0x1000)) + [0x10000, 0x40000, 0x80000, 0x100000]:
            if 0xD800 <= lead_cp <= 0xDFFF:
                continue
            escs.append("\\" + chr(lead_cp))
        for p in PREFIX:
            for e in escs:
                for f in FOLLOW:
                    yield p + e + f
        # literals that DECODE to the variant key `a` of the selector form (q): the decoded text selects, not the source
        for lit in ["a", "\\u0061", "\\U000061", "\\u0041", "\\u0061\\u0061", "\\u0062"]:
            yield lit
        # text WITHOUT any backslash but with look-alike characters (must come back borrowed and unchanged), and the same
        # next to / inside escapes
        for c in LOOKALIKE:
            for p in PREFIX:
                for f in FOLLOW + ["0041", "01F600x"]:
                    yield p + c + f
                    yield p + "\\" + c + f

    def generate(self, rng, tier):
        quick = tier == "quick"
        for s in self.systematic():
            yield "unesc " + hx(s)
        for _ in range(6000 if quick else 200000):
            yield "unesc " + hx(self.gen_soup(rng, 12))
        for _ in range(3000 if quick else 100000):
            yield "unesc " + hx(self.gen_wellformed(rng, 10))
        # MANY escapes in one string (more than a small buffer of decoded characters or positions holds)
        for _ in range(150 if quick else 5000):
            yield "unesc " + hx(self.gen_wellformed(rng, rng.choice([20, 40, 80, 150])))
        for _ in range(50 if quick else 2000):
            yield "unesc " + hx("".join(self.gen_escape(rng) for _ in range(rng.choice([9, 16, 17, 33, 64, 65, 130]))))
        # THOUSANDS of escapes (a decoder that recurses or allocates per escape)
        for n in ([3000, 40000] if quick else [3000, 40000, 120000, 400000]):
            yield "unesc " + hx("dir\\\\" * n)
            yield "unesc " + hx("\\u00e9\u0159" * (n // 2))
        # long runs without escapes, and long runs around a few escapes
        for _ in range(20 if quick else 200):
            n = rng.choice([100, 1000, 20000])
            body = "".join(rng.choice(PLAIN[:6]) for _ in range(n))
            yield "unesc " + hx(body)
            k = rng.randrange(len(body))
            yield "unesc " + hx(body[:k] + self.gen_escape(rng) + body[k:] + rng.choice(["", "\\", "\\u00", "\\U0001F"]))
        if not quick:
            for n in range(0, 7):
                for seq in itertools.product(EXH, repeat=n):
                    yield "unesc " + hx("".join(seq))

    def mutate(self, case, rng, n):
        s = unhx(case.partition(" ")[2]).decode("utf-8", "replace")
        out = []
        for _ in range(n):
            cs = list(s)
            k = rng.randrange(3)
            if k == 0 and cs:
                del cs[rng.randrange(len(cs))]
            elif k == 1:
                cs.insert(rng.randrange(len(cs) + 1), rng.choice(SOUP))
            elif cs:
                cs[rng.randrange(len(cs))] = rng.choice(SOUP)
            out.append("unesc " + hx("".join(cs)))
        return out

    def shrink(self, case, fails):
        from .. import core
        s = unhx(case.partition(" ")[2]).decode("utf-8", "replace")
        cs = list(s)
        if len(cs) < 2 or len(cs) > 4000:
            return case
        small = core.ddmin(cs, lambda cands: fails(["unesc " + hx("".join(c)) for c in cands]))
        return "unesc " + hx("".join(small))

    # --- observations --------------------------------------------------------------------------
    def project(self, case, obs):
        # the model predicts the two direct APIs; the bundle path is judged by the predicate
        return ";".join(p for p in obs.split(";") if p[:2] in ("s:", "w:"))

    def predicate(self, case, impl_obs):
        bad = super().predicate(case, impl_obs)
        if bad:
            return bad
        if impl_obs == "bad-input":
            return "harness rejected the input (not UTF-8?)"
        inp = unhx(case.partition(" ")[2])
        s = inp.decode("utf-8")
        d = parts(impl_obs)
        if d.get("s") == "panic" or d.get("w") == "panic":
            return "unescape panicked (%s)" % impl_obs[:80]
        sp = d.get("s", "").split(":")
        wp = d.get("w", "").split(":")
        if len(sp) != 3 or sp[0] != "ok" or len(wp) != 2 or wp[0] != "ok":
            return "unexpected observation " + impl_obs[:80]
        out = unhx(sp[1])
        exp, _ = ref_decode(s)
        if out != exp.encode("utf-8"):
            return "decoded text %s != reference %s" % (sp[1], hx(exp))
        has_bs = "\\" in s
        if has_bs and sp[2] != "o":
            return "input with a backslash returned %s" % sp[2]
        if not has_bs and sp[2] != "b":
            return "input without a backslash was not returned borrowed (%s)" % sp[2]
        if not has_bs and out != inp:
            return "input without a backslash changed"
        if unhx(wp[1]) != b"[" + out:
            return "writer form %s != '[' + string form %s" % (wp[1], sp[1])
        if len(inp) <= 8192 and LITERAL_BODY.fullmatch(s) and d.get("f", "na") == "na":      # (long inputs skip the bundle path)
            return "the parser does not admit a string literal whose escapes are all well-formed (\\\\, \\\", \\uXXXX, \\UXXXXXX with hex digits of either case)"
        for k in ("f", "r", "k", "t", "q", "y"):
            v = d.get(k, "na")
            if v.startswith("na"):
                continue
            if v == "panic" or v.startswith("err"):
                return "formatting the admitted literal failed: %s:%s" % (k, v)
            if k == "y":
                if unhx(v) != out + out:
                    return ("a literal wrapped in an inline placeable (as a function argument, and nested in a placeable) gave %s, "
                            "the direct call gives %s (expected twice)" % (v, sp[1]))
                continue
            if k == "q" and out == b"a":
                if unhx(v) != b"A":
                    return "a literal decoding to `a` used as selector did not select [a]: %s" % v
                continue
            if unhx(v) != out:
                return "format_pattern path %s gave %s, direct call gave %s" % (k, v, sp[1])
        return None

    def nontrivial(self, case, impl_obs):
        return b"\\" in unhx(case.partition(" ")[2])

    def classify(self, case, impl_obs, dist):
        inp = unhx(case.partition(" ")[2])
        s = inp.decode("utf-8", "replace")
        bump(dist, "inputs")
        n = len(inp)
        bump(dist, "bytes:" + ("0" if n == 0 else "<=8" if n <= 8 else "<=32" if n <= 32 else "<=1000" if n <= 1000 else ">1000"))
        _, kinds = ref_decode(s)
        bump(dist, "escapes:" + ("0" if not kinds else "1" if len(kinds) == 1 else "2-4" if len(kinds) <= 4 else ">4"))
        for k in set(kinds):
            bump(dist, "esc:" + k)
        if kinds and all(k.startswith("ok:") for k in kinds):
            bump(dist, "all-escapes-wellformed")
        d = parts(impl_obs)
        bump(dist, "result:" + d.get("s", "?").rpartition(":")[2])
        f = d.get("f", "na")
        bump(dist, "parser:" + ("admits-literal" if not f.startswith("na") else f if f != "na" else "rejects-literal"))


P = C13()
P.RULE = P.RULE + ' A look-alike family (characters whose code point ends in the byte of a backslash, a quote, `u`, `U`, `{`) with and without escapes around them; literals that decode to the variant key of the selector form.'
