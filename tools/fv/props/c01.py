"""C01 - parsing is total"""
from .base import Base, bump
from . import parsefam
from .. import sexp
from ..core import hx, unhx


class C01(Base):
    ID = "C01"
    AREA = "parse"
    LEMMA_FILES = ["FluentProofs/ParserBasics.lean", "FluentProofs/ParserHoareAst.lean", "FluentProofs/ParserHoareExpr.lean", "FluentProofs/ParserHoareEntry.lean", "FluentProofs/ConstTieSyntax.lean"]
    RULE = ("G1 all .ftl files of the repo + YAML fixture sources + their entry chunks; G2 random well-formed ASTs under random "
            "layouts; G3 char-level mutations with a multi-byte/CR/CRLF/tab alphabet and every prefix of sampled entries; G4 "
            "token soup; G5 token x follower x context; G6 nesting depth. Non-trivial = the input produced at least one "
            "message/term AND at least one of {placeable, multi-line pattern, junk}, or it is ill-formed (>=1 error); "
            "distinct = distinct source text.")
    EXPLANATION = ("Theorems about the transcribed parser model (FluentModel/Parser.lean); tie: full+runtime parser, borrowed and "
                   "owned input, AST + complete error list (kind, pos, slice) compared with the model's prediction byte for byte.")

    def generate(self, rng, tier):
        from .. import ftlgen
        # arbitrarily deep nesting (the quantifier names it): far beyond any machine stack
        for src in ftlgen.g6_depth(20000):
            yield parsefam.case(src)
        for c in parsefam.gen_mix(rng, tier):
            yield c

    @staticmethod
    def nesting_depth(src):
        d = m = 0
        for ch in src:
            if ch in "{(":
                d += 1
                m = max(m, d)
            elif ch in "})":
                d = max(0, d - 1)
        return m

    def matches_known(self, k, case, impl_obs, why):
        """F2: unbounded recursion get_placeable <-> get_inline_expression <-> get_call_arguments: stack overflow"""
        if k.get("id") != "F2":
            return False
        if not str(impl_obs).startswith("ABORT"):
            return False
        src = unhx(case.split(" ")[1]).decode("utf-8", "replace")
        return self.nesting_depth(src) >= 1000

    def failure_class(self, case, impl_obs, why):
        if str(impl_obs).startswith("ABORT"):
            return "ABORT"
        return super().failure_class(case, impl_obs, why)

    def predicate(self, case, impl_obs):
        bad = super().predicate(case, impl_obs)
        if bad:
            return bad
        if "BORROWED!=OWNED" in impl_obs:
            return "borrowed and owned input give different results"
        if not impl_obs.startswith("F (res"):
            return "unexpected observation " + impl_obs[:80]
        return None

    def nontrivial(self, case, impl_obs):
        return ("(msg " in impl_obs or "(term " in impl_obs) and ("(p " in impl_obs or "0a" in impl_obs or "(junk" in impl_obs) \
            or "(e " in impl_obs

    def classify(self, case, impl_obs, dist):
        n = len(case) // 2
        bump(dist, "size<16" if n < 16 else "size<128" if n < 128 else "size<2048" if n < 2048 else "size>=2048")
        for tag in ("(msg ", "(term ", "(junk ", "(sel ", "(f ", "(tm ", "(c ", "(gc ", "(rc ", "(pl "):
            if tag in impl_obs:
                bump(dist, "has" + tag.strip())
        i = impl_obs.find("[(e ")
        if i >= 0:
            bump(dist, "err:" + impl_obs[i + 4:].split(" ")[0].split(":")[0])
        else:
            bump(dist, "no-error")

    def shrink(self, case, fails):
        from .. import core
        src = unhx(case.split(" ")[1]).decode("utf-8", "replace")
        chars = list(src)
        if len(chars) < 2 or len(chars) > 20000:
            return case

        def f(cands):
            return fails(["parse " + hx("".join(c)) for c in cands])
        small = core.ddmin(chars, f)
        return "parse " + hx("".join(small))

    def mutate(self, case, rng, n):
        from .. import ftlgen
        src = unhx(case.split(" ")[1]).decode("utf-8", "replace")
        return ["parse " + hx(ftlgen.g3_mutate(rng, src, 1)) for _ in range(n)]


P = C01()
