"""C16 - locale fallback picks the first locale that can answer, in every API shape.

Case line (area `fb`):  cfg:<s|a|p|q>;b:<locale|_>:<brk>:<id>=<state>,...;...;<op>;...
(see lean/FluentModel/Drv/FbDrv.lean).  The predicate below is written from the property text
(first locale that has the message with a value answers; error list order), not from the Rust loops
and not from the Lean model.
"""
import itertools
from .base import Base, bump
from ..core import hx

LOCALES = ["pl", "en-US", "de", "fr", "sr-Cyrl", "en", "ja-JP"]
IDS = ["k0", "k1", "k2", "k3", "k4"]
STATES = "mpanxezyr"
HAS_VALUE = set("paxezr")
CARRIED = {0: [], 1: ["B(Overriding.message.dup)"], 2: ["B(Parser)"],
           3: ["B(Parser)", "B(Overriding.message.dup)"], 4: []}


def var_part(args):
    """text and errors of `{ $x }` (isolation off)"""
    return ("ARG", []) if args == 1 else ("{$x}", ["Var.x"])


def value_of(st, loc, mid, args):
    """(text, resolver errors) of the value pattern of a message in state st"""
    sfx = "%s %s" % (loc, mid)
    if st == "p":
        return "P " + sfx, []
    if st == "a":
        return "A " + sfx, []
    if st == "x":
        t, e = var_part(args)
        return "X %s %s" % (sfx, t), e
    if st == "e":
        return "E %s {-nope}" % sfx, ["Term.nope"]
    if st == "z":
        t, e = var_part(args)
        return "Z %s %s" % (sfx, t), e
    if st == "r":
        return "R " + sfx, []
    return None


def attrs_of(st, loc, mid, args):
    sfx = "%s %s" % (loc, mid)
    if st == "a":
        return [("t", "AT " + sfx, [])]
    if st == "n":
        return [("t", "NT " + sfx, [])]
    if st == "z":
        t, e = var_part(args)
        return [("t", "ZT " + t, e), ("u", "ZU {-nope}", ["Term.nope"])]
    if st == "y":
        t, e = var_part(args)
        return [("t", "YT %s %s" % (sfx, t), e)]
    if st == "r":
        # the attribute name `t` twice: both are handed over, in source order
        t, e = var_part(args)
        return [("t", "RT " + sfx, []), ("u", "RU " + t, e), ("t", "RV {-nope}", ["Term.nope"])]
    return []


class Bundle:
    __slots__ = ("loc", "brk", "ents", "eloc")

    def __init__(self, loc, brk, ents):
        self.loc, self.brk, self.ents = loc, brk, ents
        self.eloc = loc.split("+")[0]     # `en-GB+en`: a bundle built with two locales; errors name its FIRST locale

    def state(self, mid):
        st = self.ents.get(mid, "m")
        if st == "m" and mid == "dup" and self.brk in (1, 3):
            return "p"
        return st


def parse_case(case):
    segs = case.partition(" ")[2].split(";")
    sync = segs[0] == "cfg:s"
    bundles = []
    i = 1
    while i < len(segs) and segs[i].startswith("b:"):
        _, loc, brk, ents = segs[i].split(":")
        d = {}
        if ents not in ("-", ""):
            for kv in ents.split(","):
                k, v = kv.split("=")
                if k not in d:
                    d[k] = v
        bundles.append(Bundle(loc, int(brk), d))
        i += 1
    return sync, bundles, segs[i:]


def parse_key(s):
    if s.endswith("+"):
        return (s[:-1], 1)
    if s.endswith("~"):
        return (s[:-1], 2)
    return (s, 0)


def parse_keys(s):
    return [] if s == "-" else [parse_key(k) for k in s.split(",")]


def show_val(t):
    return "none" if t is None else "some=" + hx(t)


# --- the property, per request ------------------------------------------------------------------

def spec_value(bundles, key):
    """single value request: (result text|None, error list)"""
    mid, args = key
    errs = []
    seen_message = False
    for b in bundles:
        errs += CARRIED[b.brk]
        st = b.state(mid)
        if st in HAS_VALUE:
            text, res_errs = value_of(st, b.loc, mid, args)
            if res_errs:
                errs.append("R(%s@%s:%s)" % (mid, b.eloc, "+".join(res_errs)))
            return text, errs
        if st != "m":
            seen_message = True
            errs.append("MV(%s@%s)" % (mid, b.eloc))
        else:
            errs.append("MM(%s@%s)" % (mid, b.eloc))
    errs.append(("MV(%s@-)" if seen_message else "MM(%s@-)") % mid)
    return None, errs


def first_index(bundles, key, want_value):
    for j, b in enumerate(bundles):
        st = b.state(key[0])
        if (st in HAS_VALUE) if want_value else (st != "m"):
            return j
    return None


def spec_batch(bundles, keys, want_value):
    """batch request: per-key results are the single results; errors are grouped by locale in the
    given order (carried errors first, then one entry per key that no earlier locale answered, in
    key order), then one locale-less entry per unanswered key"""
    ans = [first_index(bundles, k, want_value) for k in keys]
    if not bundles:
        n = 0
    elif any(a is None for a in ans):
        n = len(bundles)
    else:
        n = max([a + 1 for a in ans] + [1])
    errs = []
    results = []
    for j in range(n):
        b = bundles[j]
        errs += CARRIED[b.brk]
        for (mid, args), a in zip(keys, ans):
            if a is not None and a < j:
                continue
            st = b.state(mid)
            if a == j:
                if want_value:
                    res_errs = value_of(st, b.loc, mid, args)[1]
                else:
                    v = value_of(st, b.loc, mid, args)
                    res_errs = (v[1] if v else []) + [e for (_, _, es) in attrs_of(st, b.loc, mid, args) for e in es]
                if res_errs:
                    errs.append("R(%s@%s:%s)" % (mid, b.eloc, "+".join(res_errs)))
            elif want_value and st != "m":
                errs.append("MV(%s@%s)" % (mid, b.eloc))
            else:
                errs.append("MM(%s@%s)" % (mid, b.eloc))
    for (mid, args), a in zip(keys, ans):
        if a is None:
            if want_value and any(b.state(mid) != "m" for b in bundles):
                errs.append("MV(%s@-)" % mid)
            else:
                errs.append("MM(%s@-)" % mid)
        if want_value:
            results.append(show_val(None if a is None else value_of(bundles[a].state(mid), bundles[a].loc, mid, args)[0]))
        elif a is None:
            results.append("none")
        else:
            b = bundles[a]
            st = b.state(mid)
            v = value_of(st, b.loc, mid, args)
            parts = [hx(v[0]) if v else "~"] + ["%s=%s" % (n_, hx(t)) for (n_, t, _) in attrs_of(st, b.loc, mid, args)]
            results.append("msg(%s)" % "/".join(parts))
    return results, errs


def split_obs(o):
    """`<result>|E[...]|g<n>` -> (result, [errors], n) or None"""
    p = o.split("|")
    if len(p) != 3 or not p[1].startswith("E[") or not p[1].endswith("]") or not p[2].startswith("g"):
        return None
    body = p[1][2:-1]
    errs = []
    if body:
        # error tokens contain no commas except as separators (resolver errors are joined by '+')
        errs = body.split(",")
    try:
        g = int(p[2][1:])
    except ValueError:
        return None
    return p[0], errs, g


class C16(Base):
    ID = "C16"
    AREA = "fb"
    LEMMA_FILES = ["FluentProofs/Fallback.lean", "FluentProofs/FallbackBatch.lean", "FluentProofs/FallbackApi.lean"]
    RULE = ("random availability matrices: 0-4 locales (repeats allowed) x 7 message ids x 8 message states "
            "(absent, value, value+attribute, attribute only, value with a missing-variable / missing-term resolver "
            "error, attribute resolver errors) x bundle results (Ok, duplicate id, junk, both, Err with no errors), "
            "sync and async Bundles, histories of 1-8 requests through all six API shapes with key lists of 0-5 keys "
            "(duplicates, with/without args, unknown ids), shared and cleared errors vectors; thorough adds the "
            "exhaustive family 3 locales x 2 keys x 4 states x broken/ok per locale x both modes with a fixed 10-request "
            "history.  Non-trivial = at least one request had to fall back past a locale (a MissingMessage/MissingValue "
            "entry was produced); distinct = distinct case line.")
    EXPLANATION = ("Theorems: closed forms of the three macros for every bundle list and key list (first answering "
                   "locale, exact error order, bundles consumed), batch = per-key single, sync = async, refusal in async "
                   "mode, histories of requests on one instance.  Tie: the same case lines run on fluent_fallback::Bundles "
                   "with an in-memory BundleGenerator (iterator and stream, real FluentBundle/FluentResource) and on the "
                   "Lean model; observations diffed.  The python predicate recomputes every request from the matrix "
                   "according to the property text.")
    ASSUMPTIONS = ["FluentBundle::get_message/format_pattern are pure functions of (bundle, id, args) (C06-C08, C10)",
                   "the cache delivers the generator's sequence in order to every fresh cursor (C17)"]

    # --- generators ---------------------------------------------------------------------------
    def gen_bundle(self, rng, ids, p_noloc=0.0):
        loc = "_" if rng.random() < p_noloc else rng.choice(LOCALES)
        if loc != "_" and rng.random() < 0.12:
            loc = loc + "+" + rng.choice(LOCALES)          # a bundle built with two locales (regional + base language)
        r = rng.random()
        brk = 0 if r < 0.6 else rng.choice([1, 2, 3, 4])
        profile = rng.random()
        ents = []
        for mid in ids:
            if profile < 0.2:
                st = rng.choice("mmmp")          # sparse: mostly missing
            elif profile < 0.4:
                st = rng.choice("mnnyp")         # mostly value-less
            else:
                st = rng.choice(STATES)
            if st != "m" or rng.random() < 0.2:
                ents.append("%s=%s" % (mid, st))
        rng.shuffle(ents)
        return "b:%s:%d:%s" % (loc, brk, ",".join(ents) if ents else "-")

    def gen_key(self, rng, ids):
        r = rng.random()
        mid = rng.choice(ids) if r < 0.85 else ("dup" if r < 0.93 else "zz")
        return mid + rng.choice(["", "", "", "+", "+", "~"])

    def gen_case(self, rng, p_noloc=0.0, big=False):
        nb = rng.choice([0, 1, 2, 2, 3, 3, 3, 4, 4])
        ids = IDS[:rng.choice([1, 2, 2, 3, 5])]
        bigkeys = 0
        if big:
            # a LONG fallback chain (9-40 bundles, the answer often only near the end) or a LARGE batch (9-40 keys)
            if rng.random() < 0.5:
                nb = rng.choice([9, 10, 16, 17, 33, 40])
            else:
                bigkeys = rng.choice([9, 10, 16, 17, 33, 40, 64, 65, 66, 130])
        segs = ["cfg:" + rng.choice("sssaapq")]
        for j in range(nb):
            b = self.gen_bundle(rng, ids, p_noloc)
            if big and nb > 8 and j < nb - 3 and rng.random() < 0.8:
                b = b[:b.rindex(":") + 1] + "-"      # most of a long chain knows nothing: the walk goes deep
            segs.append(b)
        for _ in range(rng.randint(1, 8)):
            r = rng.random()
            if r < 0.06:
                segs.append("clr")
                continue
            if r < 0.14:
                segs.append("pf")          # a prefetch between requests (several in a row now and then)
                if rng.random() < 0.4:
                    segs.append("pf")
                continue
            api = rng.choice(["v", "vs", "vv", "vvs", "mm", "mms"])
            if api in ("v", "vv", "mm") and rng.random() < 0.15:
                api = "x" + api                 # preceded by the same request polled once and dropped
            if api in ("v", "vs", "xv"):
                segs.append("%s:%s" % (api, self.gen_key(rng, ids)))
            else:
                n = bigkeys or rng.choice([0, 1, 2, 2, 3, 3, 4, 5])
                ks = [self.gen_key(rng, ids) for _ in range(n)]
                if ks and rng.random() < 0.3:
                    ks.append(rng.choice(ks))           # duplicate key
                segs.append("%s:%s" % (api, ",".join(ks) if ks else "-"))
        return "fb " + ";".join(segs)

    def generate(self, rng, tier):
        n = 5000 if tier == "quick" else 300000
        for i in range(n):
            yield self.gen_case(rng, 0.25 if i % 50 == 0 else 0.0)
        for i in range(200 if tier == "quick" else 10000):
            yield self.gen_case(rng, big=True)
        if tier == "thorough":
            ops = ("v:k0;v:k1;vv:k0,k1;vv:k1,k0,k0;mm:k0,k1;vs:k0;vvs:k0,k1;mms:k1,k0;clr;vv:k1")
            locs = ["pl", "en-US", "de"]
            for mode in "sapq":
                for brks in itertools.product([0, 1], repeat=3):
                    for sts in itertools.product("mpnx", repeat=6):
                        segs = ["cfg:" + mode]
                        for i in range(3):
                            segs.append("b:%s:%d:k0=%s,k1=%s" % (locs[i], brks[i], sts[2 * i], sts[2 * i + 1]))
                        yield "fb " + ";".join(segs) + ";" + ops

    def mutate(self, case, rng, n):
        area, _, payload = case.partition(" ")
        segs = payload.split(";")
        out = []
        for _ in range(n):
            o = list(segs)
            k = rng.randrange(3)
            i = rng.randrange(1, len(o)) if len(o) > 1 else 0
            if k == 0 and len(o) > 2:
                del o[i]
            elif k == 1 and len(o) > 1:
                o.insert(i, o[i])
            elif len(o) > 1 and o[i].startswith("b:"):
                o[i] = self.gen_bundle(rng, IDS[:3])
            out.append(area + " " + ";".join(o))
        return out

    def shrink(self, case, fails):
        from .. import core
        area, _, payload = case.partition(" ")
        segs = payload.split(";")
        if len(segs) < 3:
            return case

        def f(cands):
            return fails([area + " " + ";".join([segs[0]] + c) for c in cands])
        small = core.ddmin(segs[1:], f)
        return area + " " + ";".join([segs[0]] + small)

    # --- observation handling -----------------------------------------------------------------
    def project(self, case, obs):
        return "PANIC" if obs.startswith("PANIC") else obs

    def predicate(self, case, impl_obs):
        try:
            sync, bundles, ops = parse_case(case)
        except ValueError:
            return None
        if any(b.loc == "_" for b in bundles):
            return None  # a bundle without a locale is outside the property's quantifier
        bad = super().predicate(case, impl_obs)
        if bad:
            return bad
        if impl_obs == "bad-case":
            return None
        if "SHADOW-DISAGREE" in impl_obs:
            return "two identical requests in flight at the same time got different answers: " + impl_obs[impl_obs.index("SHADOW-DISAGREE") - 40:][:160]
        obs = impl_obs.split(";") if impl_obs else []
        if len(obs) != len(ops):
            return "observation count %d != op count %d" % (len(obs), len(ops))
        for op, o in zip(ops, obs):
            if op == "pf":
                if o != "ok":
                    return "prefetch answered %s (the source's prefetch hook is empty: nothing happens)" % o
                continue
            if o == "bad-op" or op == "clr":
                continue
            api, _, arg = op.partition(":")
            if o == "STALLED":
                return ("%s: the asynchronous request never completes - it answered Pending while nobody holds a waker of it "
                        "that was or will be used%s" % (op, " (an earlier request was polled once and dropped)" if any(x.startswith("x") for x in ops) else ""))
            if api.startswith("x"):
                api = api[1:]
            so = split_obs(o)
            if so is None:
                return "unreadable observation %s" % o[:80]
            res, errs, _g = so
            is_sync_api = api.endswith("s") and api != "vv" and api != "v"
            base = api[:-1] if is_sync_api else api
            if is_sync_api and not sync:
                if res != "err:Sync" or errs:
                    return "%s in async mode: expected SyncRequestInAsyncMode and untouched errors, got %s %s" % (op, res, errs)
                continue
            if is_sync_api:
                if not res.startswith("ok:"):
                    return "%s in sync mode refused: %s" % (op, res)
                res = res[3:]
            if base == "v":
                key = parse_key(arg)
                t, exp_errs = spec_value(bundles, key)
                exp = show_val(t)
            else:
                keys = parse_keys(arg)
                rs, exp_errs = spec_batch(bundles, keys, base == "vv")
                exp = "[" + ",".join(rs) + "]"
                if base == "vv":
                    # batch = per-key single
                    singles = [show_val(spec_value(bundles, k)[0]) for k in keys]
                    if singles != rs:
                        return "internal: spec mismatch"
            if res != exp:
                return "%s: result %s, the first locale that can answer gives %s" % (op, res[:120], exp[:120])
            if errs != exp_errs:
                return "%s: errors %s, expected %s" % (op, ",".join(errs)[:200], ",".join(exp_errs)[:200])
        return None

    def nontrivial(self, case, impl_obs):
        return "MM(" in impl_obs or "MV(" in impl_obs

    def classify(self, case, impl_obs, dist):
        try:
            sync, bundles, ops = parse_case(case)
        except ValueError:
            bump(dist, "malformed")
            return
        bump(dist, "cases")
        bump(dist, "mode:" + ("sync" if sync else "async"))
        bump(dist, "locales:%d" % len(bundles))
        for b in bundles:
            bump(dist, "bundle-result:%d" % b.brk)
            if b.loc == "_":
                bump(dist, "bundle-without-locale")
            for st in b.ents.values():
                bump(dist, "state:" + st)
        if impl_obs.startswith("PANIC"):
            bump(dist, "obs:panic(no-locale bundle)")
            return
        if impl_obs == "bad-case":
            bump(dist, "malformed")
            return
        obs = impl_obs.split(";") if impl_obs else []
        for op, o in zip(ops, obs):
            api, _, arg = op.partition(":")
            bump(dist, "op:" + api)
            if api.startswith("x"):
                api = api[1:]
            if o == "bad-op":
                bump(dist, "malformed")
                continue
            if api == "clr":
                continue
            if api not in ("v", "vs"):
                ks = parse_keys(arg)
                bump(dist, "batch-keys:%d" % len(ks))
                if len(set(ks)) < len(ks):
                    bump(dist, "batch-with-duplicate-key")
            so = split_obs(o)
            if so is None:
                continue
            res, errs, g = so
            bump(dist, "generated-so-far:%d" % g)
            if res.startswith("err:"):
                bump(dist, "obs:refused-sync-in-async")
            for e in errs:
                kind = e.split("(")[0]
                if e.endswith("@-)"):
                    kind += "-final"
                bump(dist, "err:" + kind)
            if api in ("v", "vs") and not res.startswith("err:"):
                key = parse_key(arg)
                a = first_index(bundles, key, True)
                bump(dist, "value-answered-by:%s" % ("none" if a is None else a))


P = C16()
P.RULE = P.RULE + ' Bundles built with TWO locales (`en-GB+en`: errors name the first), a message state with a repeated attribute name, prefetch ops between requests (`pf`), and requests preceded by the same request polled once and dropped (`xv`/`xvv`/`xmm`; a hand executor reports a request that would sleep for ever as STALLED).'
