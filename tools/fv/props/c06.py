"""C06 - formatting is total and bounded"""
import re
from .base import Base, bump
from . import resfam
from .. import resgen
from ..core import hx, unhx


class C06(Base):
    ID = "C06"
    AREA = "fmt"
    # the end-to-end composition (load any FTL text, format any message: total, fuel-independent, both APIs agree)
    EXTRA_MODULES = ["FluentProofs.Props.E2E"]
    LEMMA_FILES = ["FluentProofs/Resolver.lean", "FluentProofs/ResolverTotal.lean", "FluentProofs/ResolverBound.lean", "FluentProofs/ResolverFuel.lean", "FluentProofs/ConstTieResolver.lean"]
    RULE = ("GR random bundles (<=6 messages, <=4 terms over a colliding id alphabet: cycles, self-reference, missing "
            "references at value/selector/argument position, value-less messages, selects on variables/literals/functions/"
            "term attributes, nested term calls) x argument sets x configurations (isolation, transform, formatter, both "
            "bundle flavours); the bomb family (3^k / 4^k fan-out chains with the placeable limit tripping inside plain "
            "patterns, select variants, literal selectors, nested placeables, call arguments, term values and attributes); "
            "the same under long multi-byte string-literal selectors; a caller-owned error list already holding 100-500 errors "
            "when a cycle or a bomb is formatted; numeric extremes; hand-written scenarios. Non-trivial = at least one request resolved a reference or a "
            "select or reported an error; distinct = distinct case line.")
    EXPLANATION = ("Theorems about the transcribed resolver model; tie: text and error list of format_pattern and "
                   "write_pattern for every request vs the model. Predicate on the implementation: returns (no panic / "
                   "abort / timeout), output length within a fixed multiple of resources+arguments, limit and cycles "
                   "reported.")

    def extremes(self, rng):
        vals = ["fNaN", "finf", "f-inf", "f1e300", "f-0", "f1e-300", "i9223372036854775807", "i-9223372036854775808", "u255",
                "t" + hx("1." + "0" * 25), "t" + hx("9" * 30), "t" + hx("1e5"), "t" + hx("inf"), "t" + hx("NaN"), "n1/1000000",
                "n1/18446744073709551615", "n0.5/25", "t" + hx("-0.0"), "t" + hx("0." + "1" * 19)]
        progs = ["m0 = { $n }\nm1 = { $n ->\n [one] 1\n [few] f\n *[other] o\n }\nm2 = { NUMBER($n, minimumFractionDigits: %s) }\n"
                 "m3 = { NUMBER($n, minimumFractionDigits: %s) ->\n [one] 1\n *[other] o\n }\nm4 = { NUMBER($n, type: \"ordinal\") ->\n [one] 1\n [two] 2\n *[other] o\n }\n"
                 "m5 = { 1.0000000000000000000000000 ->\n [one] 1\n *[other] o\n }\n" % (d, d)
                 for d in ["0", "19", "20", "25", "100", "101", "1000000", "100000000000000", "1000000000000000000000000", "-1", "1.5"]]
        for prog in progs:
            for v in vals:
                cfg = "iso=0;tr=none;fm=none;fl=%s;loc=en" % rng.choice(["st", "conc"])
                reqs = ",".join("%s:~:%s=%s" % (hx(m), hx("n"), v) for m in resgen.MSGS)
                yield "fmt %s a:%s NUMBER %s" % (cfg, hx(prog), reqs)

    def generate(self, rng, tier):
        for c in resgen.handwritten():
            yield c
        for c in resgen.bomb_cases(rng):
            yield c
        for c in resgen.arg_bomb_cases(rng):
            yield c
        for c in resgen.errlist_cases(rng):
            yield c
        for c in resgen.chain_cases(rng):
            yield c
        for c in self.extremes(rng):
            yield c
        n = 2500 if tier == "quick" else 150000
        for _ in range(n):
            yield resgen.GR(rng, depth=rng.choice([1, 2, 3])).case()

    def predicate(self, case, impl_obs):
        if resfam.bad_runtime(impl_obs):
            return impl_obs[:200]
        size = len(resfam.sources(case)) + len(case)
        for sub_case, sub_obs in zip(case.split(" | "), impl_obs.split(" | ")):
            for r in resfam.parse_obs(sub_obs):
                if "raw" in r:
                    if r["raw"] not in ("nomsg", "novalue", "noattr"):
                        return "unexpected observation " + r["raw"][:80]
                    continue
                for k in ("T", "W"):
                    if len(r[k]) > 110 * (size + 256):
                        return "output of %d bytes is not bounded by a fixed multiple of resources+arguments (%d)" % (len(r[k]), size)
                for errs in (r["TE"], r["WE"]):
                    if errs.count("TooMany") > 1:
                        return "placeable limit reported more than once"
        return None

    def project(self, case, obs):
        return resfam.strip_spec(obs)

    def predicate2(self, case, impl_obs, model_obs):
        """'at most 100 placeables are resolved per call … exceeding the limit is reported': where the reference
        semantics (evaluated next to the model) runs into the limit, the implementation must report it, once"""
        for sub_case, so, mo in zip(case.split(" | "), impl_obs.split(" | "), model_obs.split(" | ")):
            if "unsupported" in mo:
                continue
            reqs = resfam.case_parts(sub_case)["reqs"]
            for rq, r, sv in zip(reqs, resfam.parse_obs(so), resfam.spec_verdicts(mo)):
                if "raw" in r or sv is None or sv[0] != "limit":
                    continue
                for errs in (r["TE"], r["WE"]):
                    if errs.count("TooMany") != 1:
                        return "request %s: more than 100 placeables are needed but the limit was reported %d times" % (
                            rq.split(":")[0], errs.count("TooMany"))
        return None

    def nontrivial(self, case, impl_obs):
        return "Ref:" in impl_obs or "Cyclic" in impl_obs or "TooMany" in impl_obs or "->" in resfam.sources(case).decode("utf-8", "replace")

    def classify(self, case, impl_obs, dist):
        for k in ("TooMany", "Cyclic", "Ref:fn", "Ref:msg", "Ref:term", "Ref:var", "NoValue", "MissingDefault", "nomsg", "novalue", "noattr"):
            if k in impl_obs:
                bump(dist, "obs:" + k)
        cp = resfam.case_parts(case.split(" | ")[0])
        bump(dist, "iso=" + cp["cfg"]["iso"])
        bump(dist, "fl=" + cp["cfg"]["fl"])
        bump(dist, "tr=" + cp["cfg"]["tr"])
        bump(dist, "fm=" + cp["cfg"]["fm"])

    def shrink(self, case, fails):
        """drop requests, then resource lines"""
        from .. import core
        if " | " in case:
            return case
        cp = case.split(" ")
        reqs = cp[4].split(",")
        if len(reqs) > 1:
            reqs = core.ddmin(reqs, lambda cands: fails([" ".join(cp[:4] + [",".join(c)]) for c in cands]))
            cp[4] = ",".join(reqs)
        ress = cp[2].split(",") if cp[2] != "-" else []
        if len(ress) == 1:
            kind, h = ress[0].split(":")
            lines = unhx(h).decode("utf-8", "replace").split("\n")
            if len(lines) > 2:
                keep = core.ddmin(lines, lambda cands: fails([" ".join([cp[0], cp[1], kind + ":" + hx("\n".join(c) + "\n"), cp[3], cp[4]]) for c in cands]))
                cp[2] = kind + ":" + hx("\n".join(keep) + "\n")
        return " ".join(cp)

    def mutate(self, case, rng, n):
        return [resgen.GR(rng, depth=2).case() for _ in range(n)]


P = C06()
