"""C14 - formatter memoizer constructs each formatter once per key, under any schedule."""
import itertools
from .base import Base, bump
from .. import core
from ..core import hx

# ca / ca-valencia and de / de-1901 / de-1996 differ only in their VARIANT subtags
LANGS = ["en", "en-US", "pl", "fr-CA", "de", "und", "ca", "ca-valencia", "de-1901", "de-1996"]
ARGS = ["", "a", "b", "ab", "é", "a ", "A", "\U0001F600"]
FAILS = [0, 1, 1, 2, 3, 9]


def all_keys():
    ks = []
    for a in ARGS:
        ks.append(("A", hx(a)))
        ks.append(("B", hx(a)))
        ks.append(("C", hx(a)))      # same Args type and values as A, another formatter type
        for n in (0, 1, 2, 3, 9):
            ks.append(("F", "%s.%d" % (hx(a), n)))
    return ks


KEYS = all_keys()


def fail_n(ty, arg):
    return int(arg.rsplit(".", 1)[1]) if ty == "F" else 0


def should_fail(ty, arg, k):
    n = fail_n(ty, arg)
    return n == 9 or k < n


def parse_conc_case(payload):
    """-> lang, sched, programs (list of list of (ty, arg, x, via))"""
    _, lang, sched, progs = payload.split(" ")
    ps = []
    for p in progs.split("|"):
        if p == "-":
            ps.append([])
        else:
            ps.append([tuple(o.split(":")) for o in p.split(",")])
    return lang, sched, ps


def parse_conc_obs(obs):
    parts = obs.split("#")
    if len(parts) != 3:
        return None
    threads = [[r for r in t.split(",") if r] for t in parts[0].split("|")]
    events = [e for e in parts[1].split(",") if e]
    return threads, events, parts[2]


class C14(Base):
    ID = "C14"
    AREA = "memo"
    LEMMA_FILES = ["FluentProofs/Memo.lean", "FluentProofs/MemoIntl.lean", "FluentProofs/MemoReenter.lean", "FluentProofs/MemoConc.lean"]
    RULE = ("(seq) random histories of get_for_lang / IntlLangMemoizer::new / drop / with_try_get (direct and through "
            "fluent_bundle's MemoizerKind) over 6 languages, 3 counting formatter types (A, B never fail; F fails its "
            "first n constructions, n in {0,1,2,3,always}) and 8 argument strings, plus fail-then-succeed and "
            "handle-lifecycle focused families and a many-values family (9-70 distinct argument values of one type, then repeats); (cseq) the same on concurrent::IntlLangMemoizer from one thread; "
            "(conc) 2-8 real threads released by a barrier onto a cold concurrent::IntlLangMemoizer with programs "
            "that start on one shared key (simultaneous first lookups) or draw from a small key pool - this is "
            "schedule SAMPLING (the OS schedules), the model runs the schedule written in the case line and the "
            "comparison is on the schedule-independent projection (per-key constructions, every always-ok result, "
            "per-key ok/err multisets); thorough adds all histories of length <= 5 over an 8-op alphabet and all "
            "model schedules of length <= 8 for fixed 2-thread programs. Non-trivial = at least one cache hit and two "
            "constructions (seq) / two threads sharing a key (conc); distinct = distinct case line.")
    EXPLANATION = ("Theorems (all histories / all schedules, by induction): at most one successful construction per key "
                   "and memoizer, with the memoizer's language and the looked-up arguments; every callback ran against "
                   "that instance and its result is returned unchanged; a failure is returned, not cached, other keys "
                   "untouched; memoization is transparent for a pure construct (lookup_eq_construct); get_for_lang "
                   "shares while a handle is alive, separates languages, starts fresh after the last drop, strong "
                   "counts = live handles, no dangling handle; concurrent: same invariant, outcomes = sequential run "
                   "in lock-acquisition order (a linearisation that interleaves the programs), deadlock freedom, "
                   "progress measure, completion by round-robin. Tie: the same case lines run on the real crates "
                   "(counting Memoizable types in the harness observe construct calls, arguments, language, serial "
                   "of the instance every callback saw, Rc::ptr_eq classes, overlap of critical sections) and on the "
                   "Lean model; an independent python oracle evaluates the property on the implementation.")
    ASSUMPTIONS = ["construct and callbacks do not re-enter the memoizer and do not panic (RefCell borrow / Mutex "
                   "poisoning are outside the property)",
                   "HashMap / TypeMap are finite maps; Clone of LanguageIdentifier and Args yields equal values",
                   "Rc/Weak: upgrade succeeds iff a strong handle is alive; std::sync::Mutex gives mutual exclusion",
                   "real thread interleavings and the memory model are sampled, not enumerated (partial, DESIGN 8)"]

    # --- generators ---------------------------------------------------------------------------
    def gen_hist(self, rng, conc, maxlen, p_lang=0.15, p_drop=0.12, pool=None):
        langs = rng.sample(LANGS, rng.choice([1, 1, 2, 3]))
        pool = pool or rng.sample(KEYS, rng.randint(1, 5))
        n = rng.randint(1, maxlen)
        ops = []
        live = []
        from_get = []
        nh = 0
        for _ in range(n):
            r = rng.random()
            if nh == 0 or r < p_lang:
                if conc or rng.random() < 0.15:
                    ops.append("new:" + rng.choice(langs))
                    from_get.append(False)
                else:
                    ops.append("lang:" + rng.choice(langs))
                    from_get.append(True)
                live.append(nh)
                nh += 1
            elif r < p_lang + p_drop:
                h = rng.choice(live) if live and rng.random() < 0.85 else rng.randrange(nh + 2)
                ops.append("drop:%d" % h)
                if h in live:
                    live.remove(h)
            else:
                h = rng.choice(live) if live and rng.random() < 0.93 else rng.randrange(nh + 1)
                ty, arg = rng.choice(pool)
                # x = 666: the callback panics (single-thread memoizer only); the key must stay cached
                x = 666 if (not conc and rng.random() < 0.12) else rng.randrange(100)
                # x = 777: the callback calls get_for_lang for its own language while the lookup is active (handles
                # that came from get_for_lang only): the memoizer it runs on must be handed out
                if not conc and h < len(from_get) and from_get[h] and rng.random() < 0.15:
                    x = 777
                # x = 778: the callback does a lookup on ANOTHER memoizer (live handle with the largest smaller index)
                if x not in (666, 777) and nh >= 2 and rng.random() < 0.1 and (ty, arg) != ("C", "7a7a"):
                    x = 778
                ops.append("get:%d:%s:%s:%d:%s" % (h, ty, arg, x, rng.choice("dk")))
        return ("cseq " if conc else "seq ") + ";".join(ops)

    def gen_many(self, rng, conc):
        """MANY distinct argument values of one formatter type (9..70: beyond any small inline table, several hash-map
        growth steps), then repeats of early, middle and late ones in random order; a second type shares the values"""
        n = rng.choice([9, 10, 12, 16, 17, 24, 33, 40, 65, 70])
        ty = rng.choice(["A", "A", "B", "C"])
        vals = [hx("k%d" % i) for i in range(n)]
        if rng.random() < 0.3:
            rng.shuffle(vals)
        ops = ["new:en" if conc else "lang:" + rng.choice(LANGS)]
        for v in vals:
            ops.append("get:0:%s:%s:%d:%s" % (ty, v, rng.randrange(100), rng.choice("dk")))
        rep = [vals[0], vals[1], vals[7], vals[8], vals[n // 2], vals[-1]] + rng.sample(vals, min(n, 6))
        rng.shuffle(rep)
        for v in rep:
            t2 = ty if rng.random() < 0.8 else rng.choice(["A", "C"])
            ops.append("get:0:%s:%s:%d:%s" % (t2, v, rng.randrange(100), rng.choice("dk")))
        return ("cseq " if conc else "seq ") + ";".join(ops)

    MANY_LANGS = ['en', 'pl', 'de', 'ca', 'aa', 'ab', 'af', 'ak', 'am', 'an', 'ar', 'as', 'az', 'be', 'bg', 'bm', 'bn', 'bo', 'br', 'bs', 'cs', 'cy', 'da', 'dz', 'ee', 'el', 'eo', 'es', 'et', 'eu', 'fa', 'ff', 'fi', 'fo']

    def gen_manylangs(self, rng):
        """MANY languages in the per-language table (9-30, most handles dropped again so that the table is full of dead
        entries), a few handles held throughout and asked for AGAIN at the end: a held memoizer must be handed out again,
        with its formatter still cached"""
        n = rng.choice([9, 12, 16, 17, 18, 24, 30])
        langs = rng.sample(self.MANY_LANGS, n)
        held = rng.sample(range(n), rng.choice([1, 2, 3]))
        ops, h = [], 0
        hidx = {}
        for i, l in enumerate(langs):
            ops.append("lang:" + l)
            hidx[i] = h
            ops.append("get:%d:A:%s:%d:d" % (h, hx("a"), rng.randrange(100)))
            if i not in held and rng.random() < 0.8:
                ops.append("drop:%d" % h)
            h += 1
        for i in held:
            ops.append("lang:" + langs[i])           # must be the allocation of handle hidx[i]
            ops.append("get:%d:A:%s:%d:d" % (h, hx("a"), rng.randrange(100)))
            h += 1
        return "seq " + ";".join(ops)

    def gen_failthen(self, rng, conc):
        a = hx(rng.choice(ARGS))
        n = rng.choice([1, 2, 3])
        other = rng.choice(KEYS)
        ops = ["new:en" if conc else "lang:" + rng.choice(LANGS)]
        seq = ["F:%s.%d" % (a, n)] * (n + rng.randint(1, 3)) + ["%s:%s" % other] * rng.randint(0, 3) \
            + ["F:%s.9" % a] * rng.randint(0, 2) + ["A:%s" % a] * rng.randint(0, 2)
        rng.shuffle(seq)
        for k in seq:
            ops.append("get:0:%s:%d:%s" % (k, rng.randrange(100), rng.choice("dk")))
        return ("cseq " if conc else "seq ") + ";".join(ops)

    def gen_lifecycle(self, rng):
        langs = rng.sample(LANGS, rng.choice([1, 2, 2, 3]))
        ops = []
        live = []
        nh = 0
        for _ in range(rng.randint(3, 24)):
            r = rng.random()
            if nh == 0 or r < 0.4:
                ops.append(("lang:" if rng.random() < 0.9 else "new:") + rng.choice(langs))
                live.append(nh)
                nh += 1
                if rng.random() < 0.7:
                    ops.append("get:%d:A:61:%d:d" % (nh - 1, rng.randrange(10)))
            elif r < 0.75 and live:
                h = rng.choice(live)
                live.remove(h)
                ops.append("drop:%d" % h)
            elif live:
                ops.append("get:%d:%s:%d:%s" % (rng.choice(live), rng.choice(["A:61", "B:61", "F:61.1"]),
                                                  rng.randrange(10), rng.choice("dk")))
        return "seq " + ";".join(ops)

    def gen_conc(self, rng, family):
        nt = rng.choice([2, 2, 3, 4, 4, 6, 8])
        if family == "first":
            shared = rng.choice(KEYS)
            pool = [shared] + rng.sample(KEYS, rng.randint(0, 2))
        elif family == "fail":
            a = hx(rng.choice(ARGS))
            pool = [("F", "%s.%d" % (a, rng.choice([1, 2, 3, 9])))] + rng.sample(KEYS, rng.randint(0, 2))
        else:
            pool = rng.sample(KEYS, rng.randint(1, 3))
        progs = []
        total = 0
        for t in range(nt):
            ln = rng.randint(1, 4) if rng.random() < 0.95 else 0
            p = []
            for i in range(ln):
                ty, arg = pool[0] if (i == 0 and family != "pool") else rng.choice(pool)
                p.append("%s:%s:%d:%s" % (ty, arg, rng.randrange(100), rng.choice("dk")))
            total += ln
            progs.append(",".join(p) if p else "-")
        sl = rng.randint(0, 3 * total)
        sched = "".join(str(rng.randrange(nt)) for _ in range(sl)) or "-"
        return "memo conc %s %s %s" % (rng.choice(LANGS), sched, "|".join(progs))

    def generate(self, rng, tier):
        q = tier == "quick"
        for _ in range(3000 if q else 120000):
            yield "memo " + self.gen_hist(rng, False, 30 if rng.random() < 0.9 else 90)
        for _ in range(700 if q else 10000):
            yield "memo " + self.gen_failthen(rng, rng.random() < 0.3)
        for _ in range(700 if q else 10000):
            yield "memo " + self.gen_lifecycle(rng)
        for _ in range(150 if q else 5000):
            yield "memo " + self.gen_many(rng, rng.random() < 0.35)
        for _ in range(150 if q else 5000):
            yield "memo " + self.gen_manylangs(rng)
        for _ in range(1000 if q else 20000):
            yield "memo " + self.gen_hist(rng, True, 30)
        for _ in range(2500 if q else 120000):
            yield self.gen_conc(rng, rng.choice(["first", "first", "fail", "pool"]))
        if not q:
            alpha = ["lang:en", "lang:pl", "drop:0", "drop:1", "get:0:A:61:1:d", "get:1:A:61:2:k",
                     "get:0:F:61.1:3:d", "get:1:F:61.1:4:k"]
            for n in range(1, 6):
                for seq in itertools.product(alpha, repeat=n):
                    yield "memo seq " + ";".join(seq)
            fixed = ["A:61:1:d,F:62.1:2:d|A:61:3:k,F:62.1:4:d", "F:61.2:1:d,F:61.2:2:d|F:61.2:3:d,A:61:4:d",
                     "B:-:1:d|B:-:2:d", "F:61.9:1:d,A:61:2:d|A:61:3:d,F:61.9:4:d"]
            for progs in fixed:
                for n in range(0, 9):
                    for s in itertools.product("01", repeat=n):
                        yield "memo conc en %s %s" % ("".join(s) or "-", progs)

    # --- comparison projection: only what does not depend on the schedule ------------------------
    def project(self, case, obs):
        payload = case.partition(" ")[2]
        if not payload.startswith("conc "):
            return obs
        po = parse_conc_obs(obs)
        if po is None:
            return obs
        try:
            lang, _, progs = parse_conc_case(payload)
        except ValueError:
            return obs
        threads, events, ovl = po
        if len(threads) != len(progs) or any(len(t) != len(p) for t, p in zip(threads, progs)):
            return obs
        # serial -> per-key rank, in order of the key's successful events
        rank = {}
        per_key_ok = {}
        evs = []
        for e in events:
            k, _, v = e.partition("=")
            if v.startswith("!"):
                evs.append(e)
            else:
                r = per_key_ok.get(k, 0)
                per_key_ok[k] = r + 1
                rank[v] = "s%d" % r
                evs.append("%s=s%d" % (k, r))
        out_threads = []
        summary = {}
        for t, p in zip(threads, progs):
            row = []
            for res, (ty, arg, x, via) in zip(t, p):
                key = "%s/%s/%s" % (ty, lang, arg)
                if res.startswith("ok:"):
                    serial, _, rest = res[3:].partition("/")
                    res = "ok:%s/%s" % (rank.get(serial, "?" + serial), rest)
                if fail_n(ty, arg) > 0:
                    s = summary.setdefault(key, [0, []])
                    if res.startswith("ok:"):
                        s[0] += 1
                    else:
                        s[1].append(res)
                    row.append("*")
                else:
                    row.append(res)
            out_threads.append(",".join(row))
        summ = ["%s:ok=%d:%s" % (k, v[0], "+".join(sorted(v[1]))) for k, v in sorted(summary.items())]
        return "|".join(out_threads) + "#" + ",".join(sorted(evs)) + "#" + ",".join(summ) + "#" + ovl

    # --- independent oracle ----------------------------------------------------------------------
    def predicate(self, case, impl_obs):
        bad = super().predicate(case, impl_obs)
        if bad:
            return bad
        payload = case.partition(" ")[2]
        mode = payload.partition(" ")[0]
        if mode in ("seq", "cseq"):
            return self.pred_seq(payload.partition(" ")[2], impl_obs)
        if mode == "conc":
            return self.pred_conc(payload, impl_obs)
        return "unknown mode"

    def pred_seq(self, body, impl_obs):
        ops = body.split(";")
        obs = impl_obs.split(";") if impl_obs else []
        if len(ops) != len(obs):
            return "observation count %d != op count %d" % (len(obs), len(ops))
        # x = 778: the callback looks up the fixed key C "zz" on the live handle with the largest index below its own.
        # For the oracle that is the outer lookup followed by a lookup on that partner: split op and observation in two
        # (the inner key is used by nothing else, so its construction event is recognised by its name)
        live, ops2, obs2 = [], [], []       # live[j] = memoizer class of handle j, None once dropped
        for op, o in zip(ops, obs):
            p = op.split(":")
            if p[0] in ("lang", "new") and o.startswith("h"):
                live.append(o.partition("=m")[2].partition("/")[0])
            elif p[0] == "drop" and o == "ok" and p[1].isdigit() and int(p[1]) < len(live):
                live[int(p[1])] = None
            if p[0] == "get" and len(p) > 4 and p[4] == "778" and p[1].isdigit():
                h = int(p[1])
                own = live[h] if h < len(live) else None
                partner = next((j for j in range(min(h, len(live)) - 1, -1, -1) if live[j] is not None and live[j] != own), None)
                if partner is None:
                    if o != "bad-op":
                        return "op (%s): no other live memoizer, expected bad-op, got %s" % (op, o[:80])
                    continue
                evs, _, res = o.partition(">")
                if "+inner=" in res:
                    outer_res, _, inner_res = res.partition("+inner=")
                    ev_list = [e for e in evs.split(",") if e]
                    inner_evs = [e for e in ev_list if e.startswith("C/") and "/7a7a=" in e]
                    outer_evs = [e for e in ev_list if e not in inner_evs]
                    if p[2] == "C" and p[3] == "7a7a":          # the outer key happens to be the inner key's name
                        outer_evs, inner_evs = ev_list[:max(0, len(ev_list) - 1)] if len(ev_list) == 2 else [], ev_list[-1:] if ev_list else []
                        if len(ev_list) == 1:
                            # one event: decide by the language in the event and the two memoizers later (keep it with the inner)
                            pass
                    ops2.append(op)
                    obs2.append(",".join(outer_evs) + ">" + outer_res)
                    ops2.append("get:%d:C:7a7a:0:d" % partner)
                    obs2.append(",".join(inner_evs) + ">" + inner_res)
                    continue
                if res.startswith("ok:"):
                    return "op (%s): the callback did not report its nested lookup: %s" % (op, o[:100])
            ops2.append(op)
            obs2.append(o)
        ops, obs = ops2, obs2
        handles = []       # class or None
        classes = {}       # class -> dict(lang, cache, live)
        table = {}         # lang -> class handed out by get_for_lang
        attempts = {}
        used_serials = set()
        for idx, (op, o) in enumerate(zip(ops, obs)):
            p = op.split(":")
            where = "op %d (%s): " % (idx, op)
            if o == "bad-op":
                if p[0] == "get" and len(p) > 4 and p[4] == "777":
                    continue      # the re-entrant callback is only defined on handles that came from get_for_lang
                return where + "harness rejected the op"
            if p[0] in ("lang", "new"):
                exp_h = "h%d=m" % len(handles)
                if not o.startswith(exp_h):
                    return where + "expected a new handle %s.., got %s" % (exp_h, o)
                cs, _, strong = o[len(exp_h):].partition("/s")
                c = int(cs)
                cur = table.get(p[1]) if p[0] == "lang" else None
                if cur is not None and classes[cur]["live"] > 0:
                    if c != cur:
                        return where + "a handle for %s is alive (memoizer m%d) but get_for_lang returned m%d" % (p[1], cur, c)
                else:
                    if c in classes or c != len(classes):
                        return where + "expected a fresh memoizer m%d, got m%d (already handed out for %s)" % (
                            len(classes), c, classes.get(c, {}).get("lang"))
                    classes[c] = {"lang": p[1], "cache": {}, "live": 0}
                    if p[0] == "lang":
                        table[p[1]] = c
                if classes[c]["lang"] != p[1]:
                    return where + "memoizer m%d belongs to %s, handed out for %s" % (c, classes[c]["lang"], p[1])
                classes[c]["live"] += 1
                handles.append(c)
                if strong != str(classes[c]["live"]):
                    return where + "strong count %s but %d handles of m%d are alive" % (strong, classes[c]["live"], c)
            elif p[0] == "drop":
                h = int(p[1])
                if h < len(handles) and handles[h] is not None:
                    if o != "ok":
                        return where + "expected ok, got " + o
                    c = handles[h]
                    handles[h] = None
                    classes[c]["live"] -= 1
                    if classes[c]["live"] == 0:
                        classes[c]["cache"] = None   # freed
                elif o != "dead":
                    return where + "expected dead, got " + o
            elif p[0] == "get":
                h, ty, arg, x = int(p[1]), p[2], p[3], p[4]
                if not (h < len(handles) and handles[h] is not None):
                    if o != "dead":
                        return where + "expected dead, got " + o
                    continue
                c = handles[h]
                m = classes[c]
                lang = m["lang"]
                if ">" not in o:
                    return where + "malformed observation " + o
                evs, _, res = o.partition(">")
                evs = [e for e in evs.split(",") if e]
                key = (ty, arg)
                kname = "%s/%s/%s" % (ty, lang, arg)
                if key in m["cache"]:
                    if evs:
                        return where + "key is cached in m%d but construct ran again: %s" % (c, evs)
                    exp = "ok:CBPANIC" if x == "666" else "ok:%d/%s/%s%s" % (m["cache"][key], kname, x, "+same" if x == "777" else "")
                    if res != exp:
                        return where + "callback result: expected %s got %s" % (exp, res)
                    continue
                if len(evs) != 1:
                    return where + "key not cached in m%d: expected exactly one construct call, got %s" % (c, evs)
                ek, _, ev = evs[0].partition("=")
                if ek != kname:
                    return where + "construct was called with %s, expected %s (type, memoizer language, looked-up args)" % (ek, kname)
                k = attempts.get((ty, lang, arg), 0)
                attempts[(ty, lang, arg)] = k + 1
                sf = should_fail(ty, arg, k)
                if ev.startswith("!"):
                    if not sf:
                        return where + "test formatter failed unexpectedly at attempt %d" % k
                    if ev[1:] != "%s/%d" % (kname, k):
                        return where + "error of attempt %d expected, construct reported %s" % (k, ev[1:])
                    if res != "err:" + ev[1:]:
                        return where + "construct failed with %s but with_try_get returned %s" % (ev[1:], res)
                else:
                    if sf:
                        return where + "test formatter succeeded unexpectedly at attempt %d" % k
                    s = int(ev)
                    if s in used_serials:
                        return where + "serial %d handed out twice" % s
                    used_serials.add(s)
                    m["cache"][key] = s
                    exp = "ok:CBPANIC" if x == "666" else "ok:%d/%s/%s%s" % (s, kname, x, "+same" if x == "777" else "")
                    if res != exp:
                        return where + "callback result: expected %s got %s" % (exp, res)
            else:
                return where + "unknown op"
        return None

    def pred_conc(self, payload, impl_obs):
        lang, _, progs = parse_conc_case(payload)
        po = parse_conc_obs(impl_obs)
        if po is None:
            return "malformed observation " + impl_obs[:100]
        threads, events, ovl = po
        if ovl != "ovl=0":
            return "critical sections (construct/callback) overlapped: " + ovl
        if len(threads) != len(progs):
            return "thread count %d != %d" % (len(threads), len(progs))
        total = {}
        for p in progs:
            for (ty, arg, x, via) in p:
                k = "%s/%s/%s" % (ty, lang, arg)
                total[k] = total.get(k, 0) + 1
        per_key = {}
        for e in events:
            k, _, v = e.partition("=")
            if k not in total:
                return "construct called for %s which nobody looked up in this memoizer (language %s)" % (k, lang)
            per_key.setdefault(k, []).append(v)
        serial_of = {}
        errs_of = {}
        seen_serials = set()
        for k, n_look in total.items():
            ty, _, arg = k.split("/")
            n = fail_n(ty, arg)
            evs = per_key.get(k, [])
            exp_attempts = n_look if n == 9 else min(n_look, n + 1)
            oks = [v for v in evs if not v.startswith("!")]
            if len(oks) > 1:
                return "key %s constructed successfully %d times" % (k, len(oks))
            if len(evs) != exp_attempts:
                return "key %s: %d lookups, expected %d construct calls, got %d (%s)" % (k, n_look, exp_attempts, len(evs), evs)
            for j, v in enumerate(evs):
                if should_fail(ty, arg, j):
                    if v != "!%s/%d" % (k, j):
                        return "key %s attempt %d: expected failure %d, got %s" % (k, j, j, v)
                else:
                    if v.startswith("!"):
                        return "key %s attempt %d: unexpected failure %s" % (k, j, v)
                    if v in seen_serials:
                        return "serial %s handed out twice" % v
                    seen_serials.add(v)
                    serial_of[k] = v
            errs_of[k] = sorted(v[1:] for v in evs if v.startswith("!"))
        got_errs = {}
        got_ok = {}
        for ti, (t, p) in enumerate(zip(threads, progs)):
            if len(t) != len(p):
                return "thread %d: %d results for %d lookups (%s)" % (ti, len(t), len(p), t)
            ok_seen = set()
            for res, (ty, arg, x, via) in zip(t, p):
                k = "%s/%s/%s" % (ty, lang, arg)
                if res.startswith("ok:"):
                    if k not in serial_of:
                        return "thread %d: %s returned %s but no construction succeeded" % (ti, k, res)
                    exp = "ok:%s/%s/%s" % (serial_of[k], k, x)
                    if res != exp:
                        return "thread %d: callback result expected %s got %s" % (ti, exp, res)
                    ok_seen.add(k)
                    got_ok[k] = got_ok.get(k, 0) + 1
                elif res.startswith("err:"):
                    if k in ok_seen:
                        return "thread %d: %s failed after this thread already saw the cached instance" % (ti, k)
                    got_errs.setdefault(k, []).append(res[4:])
                else:
                    return "thread %d: malformed result %s" % (ti, res)
        for k in total:
            if sorted(got_errs.get(k, [])) != errs_of[k]:
                return "key %s: errors returned %s != errors construct produced %s" % (k, sorted(got_errs.get(k, [])), errs_of[k])
            if got_ok.get(k, 0) != total[k] - len(errs_of[k]):
                return "key %s: %d ok results, expected %d" % (k, got_ok.get(k, 0), total[k] - len(errs_of[k]))
        return None

    # --- coverage ---------------------------------------------------------------------------------
    def nontrivial(self, case, impl_obs):
        payload = case.partition(" ")[2]
        if payload.startswith("conc "):
            try:
                lang, _, progs = parse_conc_case(payload)
            except ValueError:
                return False
            seen = {}
            for ti, p in enumerate(progs):
                for (ty, arg, x, via) in p:
                    seen.setdefault((ty, arg), set()).add(ti)
            return any(len(v) >= 2 for v in seen.values())
        obs = impl_obs.split(";") if impl_obs else []
        hits = sum(1 for o in obs if o.startswith(">"))
        cons = sum(1 for o in obs if ">" in o and not o.startswith(">"))
        return hits >= 1 and cons >= 2

    def classify(self, case, impl_obs, dist):
        payload = case.partition(" ")[2]
        mode = payload.partition(" ")[0]
        bump(dist, "mode:" + mode)
        if mode == "conc":
            try:
                lang, sched, progs = parse_conc_case(payload)
            except ValueError:
                return
            bump(dist, "conc:threads=%d" % len(progs))
            n = sum(len(p) for p in progs)
            bump(dist, "conc:lookups<=4" if n <= 4 else "conc:lookups<=12" if n <= 12 else "conc:lookups>12")
            firsts = [p[0][:2] for p in progs if p]
            if len(firsts) >= 2 and len(set(firsts)) == 1:
                bump(dist, "conc:simultaneous-first-lookup-of-one-key")
            po = parse_conc_obs(impl_obs)
            if po:
                threads, events, _ = po
                for e in events:
                    bump(dist, "conc:construct-" + ("err" if "=!" in e else "ok"))
                for ti, t in enumerate(threads):
                    for r in t:
                        bump(dist, "conc:result-" + r[:2])
                        if r.startswith("err:") and not r.split("/")[2].endswith(".9"):
                            bump(dist, "conc:transient-failure-seen-by-thread-%d" % ti)
                # which thread's lookup performed the construction (first ok event's key): visible through x
            return
        ops = payload.partition(" ")[2].split(";")
        bump(dist, "len<=8" if len(ops) <= 8 else "len<=32" if len(ops) <= 32 else "len>32")
        live = {}
        lang_of = {}
        nh = 0
        for op, o in zip(ops, impl_obs.split(";")):
            k = op.split(":")[0]
            bump(dist, "op:" + k)
            if k == "get":
                bump(dist, "via:" + op.rsplit(":", 1)[1])
                if o == "dead":
                    bump(dist, "obs:get-on-dead-handle")
                elif o.startswith(">"):
                    bump(dist, "obs:hit")
                elif "=!" in o:
                    bump(dist, "obs:construct-failed")
                elif ">" in o:
                    bump(dist, "obs:constructed")
            elif k in ("lang", "new") and "=m" in o:
                c = o.split("=m")[1].split("/")[0]
                if k == "new":
                    bump(dist, "obs:new-fresh")
                elif live.get(c, 0) > 0:
                    bump(dist, "obs:get_for_lang-shared")
                elif op.split(":")[1] in lang_of.values():
                    bump(dist, "obs:get_for_lang-fresh-after-last-drop")
                else:
                    bump(dist, "obs:get_for_lang-first")
                live[c] = live.get(c, 0) + 1
                lang_of[c] = op.split(":")[1] if k == "lang" else None
                live["h%d" % nh] = c
                nh += 1
            elif k == "drop":
                bump(dist, "obs:drop-" + o)
                if o == "ok":
                    c = live.get("h" + op.split(":")[1])
                    if c is not None:
                        live[c] -= 1
                        if live[c] == 0:
                            bump(dist, "obs:last-handle-dropped")

    # --- shrinking / neighbourhood -----------------------------------------------------------------
    def _split(self, case):
        area, _, payload = case.partition(" ")
        mode, _, body = payload.partition(" ")
        return area, mode, body

    def shrink(self, case, fails):
        area, mode, body = self._split(case)
        if mode == "conc":
            return case
        ops = body.split(";")
        if len(ops) < 2:
            return case

        def f(cands):
            return fails(["%s %s %s" % (area, mode, ";".join(c)) for c in cands])
        return "%s %s %s" % (area, mode, ";".join(core.ddmin(ops, f)))

    def mutate(self, case, rng, n):
        area, mode, body = self._split(case)
        if mode == "conc":
            lang, sched, progs = body.split(" ")
            out = []
            for _ in range(n):
                ps = progs.split("|")
                rng.shuffle(ps)
                out.append("%s conc %s %s %s" % (area, lang, sched, "|".join(ps)))
            return out
        ops = body.split(";")
        out = []
        for _ in range(n):
            o = list(ops)
            k = rng.randrange(3)
            if k == 0 and len(o) > 1:
                del o[rng.randrange(len(o))]
            elif k == 1:
                o.insert(rng.randrange(len(o) + 1), rng.choice(o))
            else:
                i = rng.randrange(len(o))
                j = rng.randrange(len(o))
                o[i], o[j] = o[j], o[i]
            out.append("%s %s %s" % (area, mode, ";".join(o)))
        return out


P = C14()
P.RULE = P.RULE + ' The formatter types A and C are two distinct types with the same Args type AND the same `std::any::type_name` (declared under one name in two closures).'
