"""Defaults shared by the property modules."""
import glob
import os
from .. import core


class Base:
    ID = None
    AREA = None
    RULE = ""
    EXPLANATION = ""
    LEMMA_FILES = []
    TRUSTED = []
    ASSUMPTIONS = []
    SEARCH_FACTOR = 5
    # set by core around every matches_known call: the model's observation of the case being judged
    current_model_obs = None

    # --- cases -------------------------------------------------------------------------------
    def corpus(self):
        out = []
        for f in sorted(glob.glob(os.path.join(core.VERIF, "corpus", self.AREA, "*.case"))):
            for line in open(f, encoding="utf-8"):
                line = line.rstrip("\n")
                if line and not line.startswith("#"):
                    out.append(line)
        return out

    def generate(self, rng, tier):
        return []

    def mutate(self, case, rng, n):
        """neighbourhood of a disagreeing case: drop / duplicate / swap ops"""
        area, _, payload = case.partition(" ")
        ops = payload.split(";")
        out = []
        for _ in range(n):
            o = list(ops)
            k = rng.randrange(3)
            if k == 0 and len(o) > 1:
                del o[rng.randrange(len(o))]
            elif k == 1:
                o.insert(rng.randrange(len(o) + 1), rng.choice(o))
            else:
                rng.shuffle(o)
            out.append(area + " " + ";".join(o))
        return out

    # --- observation handling ----------------------------------------------------------------
    def model_skips(self, case, model_obs):
        return "unsupported" in model_obs

    def project(self, case, obs):
        return obs

    def predicate(self, case, impl_obs):
        """property predicate on the implementation's observation: None = holds, else reason"""
        if impl_obs.startswith("PANIC") or impl_obs.startswith("ABORT") or impl_obs.startswith("TIMEOUT"):
            return impl_obs[:200]
        # in-harness cross-checks between two entry points of the implementation that must agree
        if "RESOURCE!=PARSE_RUNTIME" in impl_obs:
            return ("FluentResource::try_new disagrees with parse_runtime on the same text (entries, errors relative "
                    "to source(), or source() itself)")
        return None

    def predicate2(self, case, impl_obs, model_obs):
        """optional: property predicate that compares the implementation's observation with extra
        fields printed only by the model side (an executable specification); None = holds"""
        return None

    def nontrivial(self, case, impl_obs):
        return True

    def classify(self, case, impl_obs, dist):
        pass

    def failure_class(self, case, impl_obs, why):
        import re
        return re.sub(r"[0-9a-f]{2,}|\d+", "#", why)[:60]

    def matches_known(self, k, case, impl_obs, why):
        return False

    def shrink(self, case, fails):
        area, _, payload = case.partition(" ")
        ops = payload.split(";")
        if len(ops) < 2:
            return case

        def f(cands):
            return fails([area + " " + ";".join(c) for c in cands])
        small = core.ddmin(ops, f)
        return area + " " + ";".join(small)


def bump(d, k, n=1):
    d[k] = d.get(k, 0) + n
