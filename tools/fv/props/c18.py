"""C18 - Localization reflects every state change as a fresh instance would.

Case line (area `loc`):  init:<s|a>:<locales>:<ids>;<op>;...   (see lean/FluentModel/Drv/LocDrv.lean).
The predicate simulates the *property*: it keeps the current (ids, locales, mode), recomputes what a
freshly built Localization would answer, and checks the generator log (at most one call per change
epoch, with exactly the current arguments), handle identities and the stability of held handles.
It does not use the Lean model.
"""
from collections import deque
from .base import Base, bump
from ..core import hx

LOC_POOL = ["en", "pl", "de", "fr"]
ID_POOL = ["a", "b", "c", "d", "e", "A", "B"]       # `a`/`A`, `b`/`B`: ids that differ only in ASCII case are DIFFERENT ids
MUTATORS = ("add", "addm", "rm", "rmm", "rmp", "chg", "async")
NEED_BUNDLES = ("pfs", "pfa", "bun", "req", "hold")


def avail(l, r):
    li = LOC_POOL.index(l) if l in LOC_POOL else len(LOC_POOL)
    ri = ID_POOL.index(r) if r in ID_POOL else len(ID_POOL)
    return (li + ri) % 3 != 0


def parse_list(s):
    return [] if s in ("-", "") else s.split(",")


def parse_ids(s):
    return [(x[:-1], x[-1] == "O") for x in parse_list(s)]


def fresh_answer(ids, locales, key):
    """what a Localization built from (ids, locales) answers to format_value(key): first locale whose
    resources define the message"""
    errs = []
    for l in locales:
        text = None
        if key.startswith("t-") and key[2:] in ids:
            text = "%s:%s:%s" % (l, key[2:], "O" if ids[key[2:]] else "R")
        elif key in ids and avail(l, key):
            text = "%s:%s" % (l, key)
        if text is not None:
            return "some=%s:E[%s]" % (hx(text), ",".join(errs))
        errs.append("MM(%s@%s)" % (key, l))
    errs.append("MM(%s@-)" % key)
    return "none:E[%s]" % ",".join(errs)


def call_entry(sync, locales, ids):
    return "%s(%s/%s)" % ("I" if sync else "S", "+".join(locales),
                          "+".join("%s%s" % (v, "O" if o else "R") for v, o in sorted(ids.items())))


def split_obs(o):
    if "|L[" not in o or not o.endswith("]"):
        return None
    head, _, log = o.rpartition("|L[")
    log = log[:-1]
    return head, ([] if not log else log.split(","))


class Sim:
    """the current state of the Localization as the property describes it"""

    def __init__(self, sync, locales, ids):
        self.sync = sync
        self.locales = list(locales)
        self.ids = {}
        for v, o in ids:
            self.ids.setdefault(v, o)          # a set keyed by value: the first type stays
        self.cached = None                      # index of the bundle set built in this epoch
        self.builds = []                        # snapshot (sync, locales, ids) per generator call
        self.held = []
        self.inflight = deque()
        self.dirty = False                      # provider changed, no notification yet

    def change(self):
        self.cached = None
        self.dirty = False


class C18(Base):
    ID = "C18"
    AREA = "loc"
    LEMMA_FILES = ["FluentProofs/Localization.lean"]
    RULE = ("random histories (1-14 ops; thorough also 15-40) over add/remove of resource ids (single and bulk, "
            "duplicates, same id with the other Required/Optional type), provider mutation with and without on_change, "
            "set_async, prefetch_sync/async, bundles(), format_value requests, held Rc<Bundles> handles asked after "
            "later changes, requests begun on a held handle (one poll, the stream is Pending once per bundle) and finished "
            "after later changes; initial ids with duplicates; plus the systematic family (every mutator) x (cached / "
            "not cached) x (observe after).  Non-trivial = the generator was consulted at least twice in the history (a "
            "change really invalidated a bundle set that was then rebuilt) ; distinct = distinct case line.")
    EXPLANATION = ("Theorems over all histories: cached bundle set was built from the current ids/mode and (unless the "
                   "provider was mutated without notification) locales; at most one generator call per epoch with the "
                   "current arguments; held handles never change.  Tie: histories run on fluent_fallback::Localization "
                   "with a logging BundleGenerator (iterator and Pending-once stream) and a mutable LocalesProvider, and "
                   "on the Lean model; observations (answers, errors, Rc identity classes, generator log per op, returned "
                   "lengths) diffed.  The python predicate is an independent simulation of the property.")
    ASSUMPTIONS = ["OnceCell get_or_init/take, Rc identity, FxHashSet (finite set keyed by ResourceId value) by contract",
                   "what an Rc<Bundles> answers is a function of the generator call that built it (C16, C17)"]

    # --- generators ---------------------------------------------------------------------------
    def gen_id(self, rng, pool=ID_POOL):
        return rng.choice(pool) + rng.choice("RRO")

    def gen_ids(self, rng, lo=0, hi=4):
        n = rng.randint(lo, hi)
        ids = [self.gen_id(rng) for _ in range(n)]
        if ids and rng.random() < 0.3:
            v = rng.choice(ids)
            ids.append(v[:-1] + rng.choice("RO"))           # duplicate, maybe with the other type
        return ",".join(ids) if ids else "-"

    def gen_locales(self, rng):
        n = rng.choice([0, 1, 1, 2, 2, 2, 3, 3, 4])
        ls = [rng.choice(LOC_POOL) for _ in range(n)] if rng.random() < 0.2 else rng.sample(LOC_POOL, n)
        if ls and rng.random() < 0.15:
            k = rng.randrange(len(ls))
            ls.insert(k, ls[k])                 # the same locale twice in a row
        return ",".join(ls) if ls else "-"

    def gen_key(self, rng):
        r = rng.random()
        if r < 0.55:
            return "t-" + rng.choice(ID_POOL)
        if r < 0.92:
            return rng.choice(ID_POOL)
        return "zz"

    def gen_history(self, rng, maxlen, big=False):
        sync = rng.random() < 0.7
        segs = ["init:%s:%s:%s" % ("s" if sync else "a", self.gen_locales(rng), self.gen_ids(rng))]
        if big:
            # MANY resource ids (9-40 distinct, added in one call or one by one, some removed again)
            n = rng.choice([9, 10, 16, 17, 33, 40])
            ids = ["r%02d%s" % (i, rng.choice("RO")) for i in range(n)]   # fixed width: both sides print the id set sorted
            if rng.random() < 0.5:
                segs.append("addm:" + ",".join(ids))
            else:
                segs += ["add:" + i for i in ids]
            for i in rng.sample(ids, rng.randint(0, 4)):
                segs.append("rm:" + i)
        nheld = 0
        ninfl = 0
        n = rng.randint(1, maxlen)
        while len(segs) - 1 < n:
            r = rng.random()
            if r < 0.10:
                segs.append("add:" + self.gen_id(rng))
            elif r < 0.15:
                segs.append("addm:" + self.gen_ids(rng))
            elif r < 0.22:
                segs.append("rm:" + self.gen_id(rng))
            elif r < 0.26:
                segs.append(rng.choice(["rmm:", "rmm:", "rmp:"]) + self.gen_ids(rng))
            elif r < 0.35:
                segs.append("loc:" + self.gen_locales(rng))
                if rng.random() < 0.75:
                    segs.append("chg")
            elif r < 0.38:
                segs.append("chg")
            elif r < 0.41:
                segs.append("async")
                sync = False
            elif r < 0.45:
                misuse = rng.random() < 0.02
                segs.append("pfs" if (sync != misuse) else "pfa")
            elif r < 0.52:
                segs.append("bun")
            elif r < 0.74:
                segs.append("req:" + self.gen_key(rng))
            elif r < 0.80:
                segs.append("hold")
                nheld += 1
            elif r < 0.90 and nheld:
                segs.append("ask:%d:%s" % (rng.randrange(nheld), self.gen_key(rng)))
            elif r < 0.95 and nheld:
                segs.append("beg:%d:%s" % (rng.randrange(nheld), self.gen_key(rng)))
                ninfl += 1
            elif ninfl:
                segs.append("fin")
                ninfl -= 1
        # always end by observing the final state and finishing what is in flight
        segs.append("req:" + self.gen_key(rng))
        segs.append("bun")
        for _ in range(ninfl):
            segs.append("fin")
        return "loc " + ";".join(segs)

    def systematic(self):
        muts = ["add:cO", "add:aO", "addm:cR,dO,cO", "addm:-", "rm:aO", "rm:eR", "rmm:aR,bR", "rmm:-",
                "loc:pl,en;chg", "loc:de", "chg", "async"]
        for mode in "sa":
            for m in muts:
                for pre in ["", "bun;", "req:t-a;hold;", "pf" + mode + ";"]:
                    for post in ["req:t-a;req:a;bun", "bun;req:t-c;req:b", "pf" + ("a" if (mode == "a" or m == "async") else "s") + ";req:t-b"]:
                        tail = ";ask:0:t-a;ask:0:a" if "hold" in pre else ""
                        yield "loc init:%s:en,pl:aR,bO;%s%s;%s%s" % (mode, pre, m, post, tail)

    def generate(self, rng, tier):
        for c in self.systematic():
            yield c
        n = 3000 if tier == "quick" else 200000
        for i in range(n):
            yield self.gen_history(rng, 14 if (tier == "quick" or i % 4) else 40)
        for i in range(150 if tier == "quick" else 5000):
            yield self.gen_history(rng, 14, big=True)

    def mutate(self, case, rng, n):
        area, _, payload = case.partition(" ")
        segs = payload.split(";")
        out = []
        for _ in range(n):
            o = list(segs)
            k = rng.randrange(3)
            if len(o) > 2:
                i = rng.randrange(1, len(o))
                if k == 0:
                    del o[i]
                elif k == 1:
                    o.insert(i, o[i])
                else:
                    o.insert(i, rng.choice(["chg", "bun", "req:t-a", "add:cO", "rm:aR", "loc:pl,en"]))
            out.append(area + " " + ";".join(o))
        return out

    def shrink(self, case, fails):
        from .. import core
        area, _, payload = case.partition(" ")
        segs = payload.split(";")
        if len(segs) < 3:
            return case

        def f(cands):
            return fails([area + " " + ";".join([segs[0]] + c) for c in cands])
        small = core.ddmin(segs[1:], f)
        return area + " " + ";".join([segs[0]] + small)

    # --- observation handling -----------------------------------------------------------------
    def project(self, case, obs):
        return "PANIC" if obs.startswith("PANIC") else obs

    def walk(self, case, impl_obs, visit=None):
        """simulate the property along the history; returns a failure string or None.
        `visit(kind, info)` is used by classify."""
        segs = case.partition(" ")[2].split(";")
        ini = segs[0].split(":")
        if len(ini) != 4 or ini[0] != "init":
            return None
        sim = Sim(ini[1] == "s", parse_list(ini[2]), parse_ids(ini[3]))
        ops = segs[1:]
        # API misuse (prefetch of the wrong kind) is outside the property; the implementation panics there
        mode = sim.sync
        for op in ops:
            if op == "async":
                mode = False
            if (op == "pfs" and not mode) or (op == "pfa" and mode):
                if visit:
                    visit("misuse", None)
                return None
        if impl_obs.startswith(("PANIC", "ABORT", "TIMEOUT")):
            return impl_obs[:200]
        if impl_obs == "bad-case":
            return None
        obs = impl_obs.split(";")
        if len(obs) != len(ops):
            return "observation count %d != op count %d" % (len(obs), len(ops))
        for op, o in zip(ops, obs):
            so = split_obs(o)
            if so is None:
                return "unreadable observation " + o[:80]
            head, log = so
            if head == "bad-op":
                continue
            p = op.split(":")
            kind = p[0]
            calls = [e for e in log if e[0] in "IS"]
            prefetches = [e for e in log if e[0] == "P"]
            if kind in MUTATORS or kind == "loc":
                if log:
                    return "%s consulted the generator: %s" % (op, log)
            if kind == "add":
                v, o_ = parse_ids(p[1])[0]
                sim.ids.setdefault(v, o_)
                sim.change()
            elif kind == "addm":
                for v, o_ in parse_ids(p[1]):
                    sim.ids.setdefault(v, o_)
                sim.change()
            elif kind in ("rm", "rmm", "rmp"):
                for v, _ in parse_ids(p[1]):
                    sim.ids.pop(v, None)
                sim.change()
                if head != "len=%d" % len(sim.ids):
                    return "%s returned %s, %d ids remain" % (op, head, len(sim.ids))
            elif kind == "loc":
                sim.locales = parse_list(p[1])
                if sim.cached is not None:
                    sim.dirty = True
            elif kind == "chg":
                sim.change()
            elif kind == "async":
                if sim.sync:
                    sim.sync = False
                    sim.change()
            elif kind in NEED_BUNDLES:
                if sim.cached is None:
                    exp = call_entry(sim.sync, sim.locales, sim.ids)
                    if calls != [exp]:
                        return "%s in a new epoch: generator calls %s, expected exactly [%s]" % (op, calls, exp)
                    sim.builds.append((sim.sync, list(sim.locales), dict(sim.ids)))
                    sim.cached = len(sim.builds) - 1
                    if visit:
                        visit("build", None)
                elif calls:
                    return "%s: generator consulted again within one epoch: %s" % (op, calls)
                if kind in ("pfs", "pfa"):
                    if prefetches != ["P%d" % sim.cached]:
                        return "%s: prefetch events %s, expected [P%d]" % (op, prefetches, sim.cached)
                elif prefetches:
                    return "%s: unexpected prefetch %s" % (op, prefetches)
                if kind in ("bun", "hold"):
                    exp = "h%d:%s" % (sim.cached, "s" if sim.sync else "a")
                    if head != exp:
                        return "%s: %s, expected %s (same Rc within an epoch, a new one after a change)" % (op, head, exp)
                    if kind == "hold":
                        sim.held.append(sim.cached)
                elif kind == "req":
                    if sim.dirty:
                        b = sim.builds[sim.cached]
                        exp = "h%d:%s" % (sim.cached, fresh_answer(b[2], b[1], p[1]))
                        if visit:
                            visit("dirty-req", None)
                    else:
                        exp = "h%d:%s" % (sim.cached, fresh_answer(sim.ids, sim.locales, p[1]))
                    if head != exp:
                        return "%s: answered %s, a fresh Localization with the current state answers %s" % (op, head, exp)
            elif kind in ("ask", "beg"):
                if log:
                    return "%s consulted the generator: %s" % (op, log)
                n = int(p[1])
                if n >= len(sim.held):
                    continue
                bi = sim.held[n]
                b = sim.builds[bi]
                exp = "h%d:%s" % (bi, fresh_answer(b[2], b[1], p[2]))
                if kind == "ask":
                    if head != exp:
                        return "%s: held handle answered %s, at creation it answered %s" % (op, head, exp)
                    if visit and bi != sim.cached:
                        visit("ask-old-handle", None)
                else:
                    if head != "begun":
                        return "%s: %s" % (op, head)
                    sim.inflight.append((exp, bi, len(sim.builds), sim.cached))
            elif kind == "fin":
                if log:
                    return "%s consulted the generator: %s" % (op, log)
                if not sim.inflight:
                    continue
                exp, bi, nb, cached_then = sim.inflight.popleft()
                if head != exp:
                    return "fin: request in flight answered %s, its handle answers %s" % (head, exp)
                if visit and (cached_then != sim.cached):
                    visit("inflight-across-change", None)
        return None

    def predicate(self, case, impl_obs):
        if "VEC-PROVIDER-DISAGREE" in impl_obs:
            return ("the built-in locales provider (Vec<LanguageIdentifier>) does not hand over exactly the locales it holds "
                    "(tried with und, und-Latn, en-US, und-Cyrl-RS appended): the source would not be consulted with the current locales")
        if "SYNC-API-DISAGREE" in impl_obs:
            return ("a bundle set obtained before a mode change no longer answers its synchronous request API from the state it "
                    "was created in: " + impl_obs[impl_obs.index("SYNC-API-DISAGREE"):][:160])
        return self.walk(case, impl_obs)

    def nontrivial(self, case, impl_obs):
        return impl_obs.count("I(") + impl_obs.count("S(") >= 2

    def classify(self, case, impl_obs, dist):
        segs = case.partition(" ")[2].split(";")
        bump(dist, "histories")
        n = len(segs) - 1
        bump(dist, "len<=8" if n <= 8 else "len<=16" if n <= 16 else "len>16")
        ini = segs[0].split(":")
        if len(ini) == 4:
            ids = parse_ids(ini[3])
            if len({v for v, _ in ids}) < len(ids):
                bump(dist, "init-with-duplicate-ids")
            bump(dist, "init-mode:" + ini[1])
        for op in segs[1:]:
            bump(dist, "op:" + op.split(":")[0])
        if impl_obs.startswith("PANIC"):
            bump(dist, "obs:panic(prefetch misuse)")

        def visit(kind, _):
            bump(dist, "event:" + kind)
        self.walk(case, impl_obs, visit)
        bump(dist, "generator-calls:%d" % min(9, impl_obs.count("I(") + impl_obs.count("S(")))


P = C18()
P.RULE = P.RULE + " Every `ask` on a held handle also makes the synchronous request: a set created in sync mode answers it, a set created in async mode refuses it, whatever the localization's mode is by then."
