"""C02 - well-formed FTL parses to exactly the tree the Fluent grammar assigns

Area `spec`.  Case line:  spec <hex src>[|<hex src>...] [~ <kind>:<hex expected tree>]
  kind g2  : the sources are layouts of ONE random AST; expected = the unparser's tree (known by construction)
  kind ref : the source is a reference fixture of the repo; expected = its reference .json converted to our form
Observation per source (joined by ' | '):
  model side : W <0|1> G <SpecGrammar tree> M <joinText(parser model tree)> E <errors> R <joinText(runtime model tree)>
  harness    : W ? G ? M <joinText(real parser tree)> E <errors> R <joinText(real runtime parser tree)>
`project` keeps M/E/R (model-vs-implementation tie).  The three-way comparison spec / implementation / generator is
`predicate` (implementation only) + `predicate2` (needs the spec's W and G, which only the Lean side prints).
"""
import glob
import json
import os
import re
from .base import Base, bump
from .. import sexp, ftlgen, core
from ..core import hx, unhx

REPO = "/repo"
OBS_RE = re.compile(r"^W (\S) G (.*?) M (.*?) E (\S+) R (.*)$")


# ---------------------------------------------------------------------------------------------
# reference JSON (fluent.js reference implementation, and serde dumps for the bench files) -> S-expression

def hexs(s):
    b = s.encode("utf-8")
    return b.hex() if b else "-"


def j_inline(e):
    t = e["type"]
    if t == "StringLiteral":
        return "(s %s)" % hexs(e["value"])
    if t == "NumberLiteral":
        return "(n %s)" % hexs(e["value"])
    if t == "VariableReference":
        return "(var %s)" % hexs(e["id"]["name"])
    if t == "MessageReference":
        return "(m %s %s)" % (hexs(e["id"]["name"]), hexs(e["attribute"]["name"]) if e.get("attribute") else "~")
    if t == "TermReference":
        a = e.get("arguments")
        return "(tm %s %s %s)" % (hexs(e["id"]["name"]), hexs(e["attribute"]["name"]) if e.get("attribute") else "~",
                                  "(args %s)" % j_args(a) if a else "~")
    if t == "FunctionReference":
        return "(f %s %s)" % (hexs(e["id"]["name"]), j_args(e["arguments"]))
    if t == "Placeable":
        return "(pl %s)" % j_expr(e["expression"])
    raise ValueError(t)


def j_args(a):
    return "(pos%s) (named%s)" % ("".join(" " + j_inline(p) for p in a["positional"]),
                                  "".join(" (na %s %s)" % (hexs(n["name"]["name"]), j_inline(n["value"])) for n in a["named"]))


def j_expr(e):
    # the serde dumps have an untagged select expression
    if e.get("type") == "SelectExpression" or "selector" in e:
        return "(sel %s%s)" % (j_inline(e["selector"]), "".join(" " + j_variant(v) for v in e["variants"]))
    return j_inline(e)


def j_variant(v):
    k = v["key"]
    ks = "(kn %s)" % hexs(k["value"]) if k["type"] == "NumberLiteral" else "(ki %s)" % hexs(k["name"])
    return "(v %s %s %s)" % ("1" if v["default"] else "0", ks, j_pattern(v["value"]))


def j_pattern(p):
    out = []
    for el in p["elements"]:
        if el["type"] == "TextElement":
            # the serde dumps have one text element per line; the reference has them joined: join always
            if out and out[-1][0] == "t":
                out[-1] = ("t", out[-1][1] + el["value"])
            else:
                out.append(("t", el["value"]))
        else:
            out.append(("p", j_expr(el["expression"])))
    return "(pat%s)" % "".join(" (t %s)" % hexs(x[1]) if x[0] == "t" else " (p %s)" % x[1] for x in out)


def j_comment(c, tag="c"):
    # reference: one string with "\n" separators; serde dumps: list of lines
    ls = c["content"] if isinstance(c["content"], list) else c["content"].split("\n")
    return "(%s%s)" % (tag, "".join(" " + hexs(l) for l in ls))


def j_attrs(a):
    return "(attrs%s)" % "".join(" (a %s %s)" % (hexs(x["id"]["name"]), j_pattern(x["value"])) for x in a)


def j_entry(e):
    t = e["type"]
    if t == "Message":
        return "(msg %s %s %s %s)" % (hexs(e["id"]["name"]), j_pattern(e["value"]) if e["value"] else "~",
                                      j_attrs(e["attributes"]), j_comment(e["comment"]) if e.get("comment") else "~")
    if t == "Term":
        return "(term %s %s %s %s)" % (hexs(e["id"]["name"]), j_pattern(e["value"]), j_attrs(e["attributes"]),
                                       j_comment(e["comment"]) if e.get("comment") else "~")
    if t == "Comment":
        return j_comment(e)
    if t == "GroupComment":
        return j_comment(e, "gc")
    if t == "ResourceComment":
        return j_comment(e, "rc")
    if t == "Junk":
        return "(junk %s)" % hexs(e["content"])
    raise ValueError(t)


def j_resource(d):
    return "(res%s)" % "".join(" " + j_entry(e) for e in d["body"])


def reference_pairs():
    """(ftl path, json path) of every reference tree in the repo"""
    R = os.path.join(REPO, "fluent-syntax")
    for j in sorted(glob.glob(R + "/tests/fixtures/*.json")):
        yield j[:-5] + ".ftl", j
    base = R + "/tests/fixtures/benches"
    for j in sorted(glob.glob(base + "/**/*.json", recursive=True)):
        yield R + "/benches/" + os.path.relpath(j, base)[:-5] + ".ftl", j


def reference_cases():
    out = []
    for f, j in reference_pairs():
        if not os.path.exists(f):
            continue
        src = open(f, "rb").read()
        try:
            src.decode("utf-8")
            exp = j_resource(json.load(open(j, encoding="utf-8")))
        except Exception:
            continue
        out.append("spec %s ~ ref:%s" % (src.hex() or "-", hexs(exp)))
    return out


# ---------------------------------------------------------------------------------------------

def split_case(case):
    """-> (list of hex sources, kind or None, expected S-expression or None)"""
    parts = case.split(" ")
    srcs = parts[1].split("|") if len(parts) > 1 else []
    kind = exp = None
    if len(parts) >= 4 and parts[2] == "~":
        kind, _, hexp = parts[3].partition(":")
        exp = unhx(hexp).decode("utf-8")
    return srcs, kind, exp


def split_obs(obs):
    """-> list of (W, G, M, E, R) per source, or None when not in that shape"""
    out = []
    for part in obs.split(" | "):
        m = OBS_RE.match(part)
        if not m:
            return None
        out.append(m.groups())
    return out


def minus_comments(tree_sexp):
    """full-parser tree with comment entries removed and attached comments cleared (what the runtime parser builds)"""
    t = sexp.parse_all(tree_sexp)[0]
    out = [t[0]]
    for e in t[1:]:
        if e[0] in ("c", "gc", "rc"):
            continue
        if e[0] in ("msg", "term"):
            e = e[:4] + ["~"]
        out.append(e)
    return out


def entries(tree_sexp):
    try:
        return sexp.parse_all(tree_sexp)[0][1:]
    except Exception:
        return []


def leniency_kind(g, m):
    """name of a spec-vs-parser difference on an ILL-formed source (never reported, only counted).
    recovery:*       = both reject the same broken entry but cut the Junk differently: the PEG keeps the longest valid
                       prefix of an entry (and rejects an entry one of whose attributes is broken), the parser junks from
                       the entry start (and keeps an entry up to its last good attribute); comment attachment follows;
    lenient-syntax:* = the parser fully admits (part of) an entry the grammar rejects, no Junk on its side;
    strict:*         = the converse."""
    ge, me = entries(g), entries(m)
    gj = sum(1 for e in ge if e[0] == "junk")
    mj = sum(1 for e in me if e[0] == "junk")
    for k, (a, b) in enumerate(zip(ge, me)):
        if a != b:
            nm = me[k + 1][0] if k + 1 < len(me) else None
            ng = ge[k + 1][0] if k + 1 < len(ge) else None
            if a[0] == "junk" and b[0] in ("msg", "term"):
                if nm == "junk":
                    return "recovery:parser-keeps-entry-up-to-last-good-part(%s)" % b[0]
                return "lenient-syntax:parser-admits-entry-the-grammar-rejects(%s)" % b[0]
            if a[0] in ("msg", "term") and b[0] == "junk":
                if ng == "junk":
                    return "recovery:grammar-keeps-valid-prefix-of-broken-entry(%s)" % a[0]
                return "strict:parser-rejects-entry-the-grammar-admits(%s)" % a[0]
            if a[0] == "junk" and b[0] == "junk":
                return "recovery:junk-extent-differs"
            if a[0] in ("c", "gc", "rc") or b[0] in ("c", "gc", "rc"):
                return "recovery:comment-attachment-follows-entry-recovery(%s/%s)" % (a[0], b[0])
            if a[0] == b[0] and a[1] == b[1]:
                if ng == "junk" and nm != "junk":
                    return "lenient-syntax:parser-continues-entry-where-grammar-stops(%s)" % a[0]
                if nm == "junk" and ng != "junk":
                    return "strict:parser-stops-entry-where-grammar-continues(%s)" % a[0]
                return "recovery:kept-part-of-entry-differs(%s)" % a[0]
            return "entry-differs(%s/%s)" % (a[0], b[0])
    return "entry-count-differs(junk %d/%d)" % (gj, mj)


# ---------------------------------------------------------------------------------------------
# G7: dedentation matrix - (first line kind) x (continuation line kind x indent)^k x context, exhaustively.
# The expected tree is computed here from the abstract-syntax rule (a third, independent statement of it).

LINE_KINDS = ("text", "pl", "pltext", "textpl", "blank0", "blanklo", "blankhi", "textsp", "crsp")
INDENTS = (1, 2, 4)


def finish_pattern(raw):
    """raw: list of ('t', str) | ('i', n) | ('p', sexp) -> list of ('t', str) | ('p', sexp)  (abstract-syntax rule)"""
    ind = [x[1] for x in raw if x[0] == "i"]
    common = min(ind) if ind else 0
    out = []
    for x in raw:
        if x[0] == "i":
            x = ("t", " " * (x[1] - common))
        if x[0] == "t" and out and out[-1][0] == "t":
            out[-1] = ("t", out[-1][1] + x[1])
        else:
            out.append(x)
    if out and out[0][0] == "t":
        out[0] = ("t", out[0][1].lstrip("\n"))
    if out and out[-1][0] == "t":
        out[-1] = ("t", out[-1][1].rstrip(" \n\r"))
    return [x for x in out if x[0] == "p" or x[1]]


def pat_sexp(els):
    return "(pat%s)" % "".join(" (t %s)" % hexs(e[1]) if e[0] == "t" else " (p %s)" % e[1] for e in els)


def matrix_pattern(first, lines, base):
    """-> (list of source lines after the '=' / ']', raw elements).  `base` = extra indent of the context."""
    src = [""]
    raw = []
    n = [0]

    def pl():
        n[0] += 1
        return "{ $v%d }" % n[0], ("p", "(var %s)" % hexs("v%d" % n[0]))
    if first == "text":
        src[0] = " first"
        raw.append(("t", "first"))
    elif first == "pl":
        t, e = pl()
        src[0] = " " + t
        raw.append(e)
    pending_nl = 0
    started = first != "none"
    for kind, ind in lines:
        if kind.startswith("blank"):
            src.append({"blank0": "", "blanklo": " ", "blankhi": " " * (base + 7)}[kind])
            pending_nl += 1
            continue
        pending_nl += 1
        raw.append(("t", "\n" * pending_nl))
        pending_nl = 0
        raw.append(("i", base + ind))
        line = " " * (base + ind)
        if kind in ("text", "textsp", "textpl"):
            line += "x y"
            raw.append(("t", "x y"))
        if kind in ("pl", "pltext", "textpl"):
            t, e = pl()
            line += t
            raw.append(e)
        if kind == "pltext":
            line += " z"
            raw.append(("t", " z"))
        if kind == "textsp":
            line += "  "
            raw.append(("t", "  "))
        if kind == "crsp":
            # a line of trimmable text only: a lone CR (text char) and a space
            line += "\r "
            raw.append(("t", "\r "))
        src.append(line)
        started = True
    return src, raw


def dedent_matrix(k):
    """yields case lines (4 layouts each: LF/CRLF x final newline) for all line-kind tuples of length <= k"""
    import itertools
    cells = [(kind, ind) for kind in LINE_KINDS for ind in (INDENTS if not kind.startswith("blank") else (0,))]
    for first in ("text", "pl", "none"):
        for n in range(0, k + 1):
            for lines in itertools.product(cells, repeat=n):
                if first == "none" and not any(not c[0].startswith("blank") for c in lines):
                    continue
                for ctx in ("msg", "attr", "variant"):
                    base = {"msg": 0, "attr": 2, "variant": 3}[ctx]
                    src, raw = matrix_pattern(first, lines, base)
                    if not finish_pattern(raw):
                        continue      # only trimmable text: no Pattern, the entry is not well-formed
                    # (blank lines after the last content line are not part of the pattern: `raw` has none)
                    pat = pat_sexp(finish_pattern(raw))
                    if ctx == "msg":
                        body = ["m =" + src[0]] + src[1:]
                        exp = "(res (msg %s %s (attrs) ~))" % (hexs("m"), pat)
                    elif ctx == "attr":
                        body = ["m = v", "  .a =" + src[0]] + src[1:]
                        exp = "(res (msg %s (pat (t %s)) (attrs (a %s %s)) ~))" % (hexs("m"), hexs("v"), hexs("a"), pat)
                    else:
                        body = ["m = { $s ->", "   *[k]" + src[0]] + src[1:] + ["  }"]
                        exp = "(res (msg %s (pat (p (sel (var %s) (v 1 (ki %s) %s)))) (attrs) ~))" % (
                            hexs("m"), hexs("s"), hexs("k"), pat)
                    lay = []
                    for eol in ("\n", "\r\n"):
                        for final in (True, False):
                            lay.append(eol.join(body) + (eol if final else ""))
                    yield "spec %s ~ g2:%s" % ("|".join(hx(x) for x in lay), hexs(exp))


# ---------------------------------------------------------------------------------------------
# known finding F30 (deliberate deviation, see known_findings.json): a trailing continuation line made only of
# trimmable non-blank text (lone CR, spaces) whose indent is smaller than that of the kept lines

def logical_lines(src):
    """lines of the source with their line ends (LF / CRLF) removed; a lone CR stays in the line"""
    parts = src.split("\n")
    out = []
    for k, ln in enumerate(parts):
        if k + 1 < len(parts) and ln.endswith("\r"):
            ln = ln[:-1]
        out.append(ln)
    return out


def dedent_more(pat, d):
    """the pattern node `(pat ...)` with `d` more spaces removed at every line start (first element: also its first line)"""
    out = ["pat"]
    for idx, el in enumerate(pat[1:]):
        if isinstance(el, list) and el and el[0] == "t":
            segs = sexp.unhex(el[1]).decode("utf-8", "replace").split("\n")
            for j, seg in enumerate(segs):
                if (j > 0 or idx == 0) and seg.startswith(" " * d):
                    segs[j] = seg[d:]
            text = "\n".join(segs)
            if text:
                out.append(["t", hexs(text)])
        else:
            out.append(el)
    return out


def same_up_to_dedent(g, m, dmax, hits):
    """g == m except that whole patterns of m are dedented by 1..dmax more spaces (each such pattern is counted in hits)"""
    if g == m:
        return True
    if not (isinstance(g, list) and isinstance(m, list)):
        return False
    if g and m and g[0] == "pat" and m[0] == "pat":
        if any(dedent_more(g, d) == m for d in range(1, dmax + 1)):
            hits.append(1)
            return True
    if len(g) != len(m):
        return False
    return all(same_up_to_dedent(a, b, dmax, hits) for a, b in zip(g, m))


# a line made of spaces and lone carriage returns only (the trimmable, non-blank line of known finding F30)
F30_SOURCE_RE = r"\n +\r[\r ]*\r?(\n|$)"


def f30_shape(src_bytes, g, m):
    """True iff the source has a run of lines `spaces CR (CR|space)*` that (1) ends its pattern (end of input, or
    followed by a line that is not a continuation line), (2) contains a line indented less than every other continuation
    line of that pattern, and (3) the grammar's tree and the parser's tree differ only in that some pattern is dedented more by the
    parser (by at most the difference of those indents)"""
    try:
        src = src_bytes.decode("utf-8")
    except UnicodeDecodeError:
        return False
    # placeable depth at the start of every line (a placeable may span lines; its inner lines are not lines of the pattern)
    all_lines = logical_lines(src)
    # (a variant key may span lines - `[` blank? key blank? `]` with line ends in the blanks: a line that starts INSIDE the
    # brackets is the tail of a variant header, not a continuation line of a pattern)
    depth_at, key_open_at, d, in_str, key_open = [], [], 0, False, False
    for ln in all_lines:
        depth_at.append(d)
        key_open_at.append(key_open)
        i = 0
        while i < len(ln):
            ch = ln[i]
            if in_str:
                if ch == "\\":
                    i += 1
                elif ch == '"':
                    in_str = False
            elif ch == '"' and d > 0:
                in_str = True
            elif ch == "{":
                d += 1
            elif ch == "}":
                d = max(0, d - 1)
            elif ch == "[" and d > 0 and ln[:i].strip(" ") in ("", "*"):
                key_open = True
            elif ch == "]":
                key_open = False
            i += 1
        in_str = False                     # a string literal does not span lines
    keep = [k for k, l in enumerate(all_lines) if l.strip(" ") != ""]
    lines = [all_lines[k] for k in keep]
    depth = [depth_at[k] for k in keep]
    key_tail = [key_open_at[k] for k in keep]
    headers = ("[", "*", ".")
    best = 0
    cr_only = [re.fullmatch(r"( +)\r[\r ]*", ln) for ln in lines]
    j = 0
    while j < len(lines):
        if not cr_only[j]:
            j += 1
            continue
        a = j
        while j + 1 < len(lines) and cr_only[j + 1]:
            j += 1
        b = j                      # lines a..b: a maximal run of trimmable-only lines
        j += 1
        # (1) the run ends its pattern: what follows is not a continuation line
        if b + 1 < len(lines):
            nxt = lines[b + 1]
            if nxt.startswith(" ") and not nxt.lstrip(" ").startswith(headers + ("}",)):
                continue
        # (2) the other continuation lines of that pattern are indented more than some line of the run
        k = min(len(cr_only[t].group(1)) for t in range(a, b + 1))
        kept = []
        for t in range(a - 1, -1, -1):
            l = lines[t]
            if depth[t] > depth[a]:
                continue                   # inside a placeable of an earlier line of this pattern
            if depth[t] < depth[a] or not l.startswith(" ") or l.lstrip(" ").startswith(headers) or key_tail[t]:
                break
            kept.append(len(l) - len(l.lstrip(" ")))
        if kept and k < min(kept):
            best = max(best, min(kept) - k)
    if best == 0:
        return False
    try:
        tg, tm = sexp.parse_all(g)[0], sexp.parse_all(m)[0]
    except Exception:
        return False
    hits = []
    return same_up_to_dedent(tg, tm, best, hits) and len(hits) >= 1


class C02(Base):
    ID = "C02"
    AREA = "spec"
    LEMMA_FILES = ["FluentProofs/SpecLex.lean", "FluentProofs/SpecDedent.lean", "FluentProofs/SpecFuel.lean",
                   "FluentProofs/SpecRefine.lean", "FluentProofs/SpecPatFlat.lean", "FluentProofs/SpecPatLoop.lean",
                   "FluentProofs/SpecEntries.lean", "FluentProofs/SpecResource.lean"]
    SEARCH_FACTOR = 2
    RULE = ("ref: the 68 reference trees of the repo (tests/fixtures/*.json + fixtures/benches/**/*.json) against the executable "
            "grammar and the parser; G2: random well-formed ASTs (all expression forms at all nesting positions, multi-line "
            "patterns with random indentation profiles incl. placeable-led and whitespace-only lines, all comment levels and "
            "attachments, escapes, special characters), each rendered under >= 8 random layouts (spacing, blank lines, indent "
            "depth, LF/CRLF, final newline) = one case line; G1: every .ftl of the repo + YAML fixture sources + their entry "
            "chunks; G3/G4: mutations of G2/G1 and token soup (mostly ill-formed: spec/model tie and leniency census; the "
            "ones the grammar still accepts are extra well-formed inputs). Non-trivial = at least one message/term AND at "
            "least one of {multi-line text, placeable, attached comment}; distinct = distinct case line.")
    EXPLANATION = ("Three-way differential: SpecGrammar.parse (Lean, transcribed from the Fluent 1.0 EBNF + abstract-syntax "
                   "rules, validated at every run against the repo's 68 reference trees) vs the real parser (full and runtime) "
                   "vs the generator's tree. On every source the grammar calls well-formed (W=1) the parser must report no "
                   "error, no Junk and exactly the grammar's tree; all layouts of one AST must give one tree; runtime tree = "
                   "full tree minus comments. Differences on ill-formed sources (W=0) are leniencies: counted under "
                   "'leniency:*' in the input distribution, never reported. The parser MODEL is tied to the implementation on "
                   "M/E/R for every case. The whole-resource statement is the Lean theorem parse_refines_grammar (Props/C02.lean): "
                   "for every String that the grammar calls well-formed and that satisfies the side condition Surv (which "
                   "excludes exactly the shape of known finding F30 and holds for every source without a lone carriage "
                   "return), the parser MODEL returns no error and the grammar's tree; this differential test ties the model "
                   "and the executable grammar to the implementation and the reference, and watches the sources outside the "
                   "side condition.")

    def __init__(self):
        self._info = {}     # case -> list of (W, leniency kind or None) recorded by predicate2 for classify
        self._dev = {}      # case -> (source bytes, grammar tree, parser tree) of a W=1 deviation (for failure_class / known)

    # --- cases -------------------------------------------------------------------------------
    def generate(self, rng, tier):
        quick = tier == "quick"
        for c in reference_cases():
            yield c
        files = list(ftlgen.g1_corpus(max_len=None))
        for src in files:
            yield "spec " + hx(src)
        chunks = []
        for src in files:
            chunks.extend(ftlgen.split_entries(src))
        chunks = sorted({c for c in chunks if len(c) < 600})
        for c in chunks:
            yield "spec " + hx(c)
        n2 = 3000 if quick else 15000
        nl = 8 if quick else 12
        pool = []
        for k in range(n2):
            lay = list(ftlgen.g2_case(rng, depth=rng.choice([1, 2, 2, 3, 3, 4]), nlayouts=nl))
            exp = lay[0][1]
            # the expected tree does not depend on the layout (by construction of the unparser)
            assert all(e == exp for _, e in lay)
            yield "spec %s ~ g2:%s" % ("|".join(hx(s) for s, _ in lay), hexs(exp))
            if k < 3000:
                pool.append(lay[rng.randrange(len(lay))][0])
        for c in dedent_matrix(2 if quick else 3):
            yield c
        # identifier CHARACTERS (every identifier kind with the boundary characters of a-z A-Z 0-9 _ -) and pattern lines
        # indented by 255 ... 65540 columns; both are well-formed: the parser must give the grammar's tree
        for ch in "AZaz09_-MmQ5":
            for ident in ("x" + ch + "y", "x" + ch):
                yield "spec " + hx("%s = v\n-%s = t\nm = { %s } { -%s } { $%s } { m.%s } { $n ->\n   *[%s] k\n } { FN(%s: 1) }\n    .%s = a\n"
                                   % (ident, ident, ident, ident, ident, ident, ident, ident, ident))
                yield "spec " + hx("m = { F%sN() } { F%sN($x, k: 1) }\n" % (ch.upper(), ch.upper()))
        for n in (255, 256, 257, 65535, 65536, 65540):
            pad = " " * n
            yield "spec " + hx("k =\n%sa\n%s  b\n%s{ $x } c\n" % (pad, pad, pad))
        n3 = 15000 if quick else 120000
        mpool = pool + chunks
        for _ in range(n3):
            yield "spec " + hx(ftlgen.g3_mutate(rng, rng.choice(mpool), rng.choice([1, 1, 2, 3])))
        for base in rng.sample(chunks, min(len(chunks), 15 if quick else 300)):
            for p in ftlgen.g3_prefixes(base):
                yield "spec " + hx(p)
        n4 = 6000 if quick else 60000
        for _ in range(n4):
            yield "spec " + hx(ftlgen.g4_soup(rng, 14 if rng.random() < 0.9 else 40))
        if not quick:
            for src in ftlgen.g5_neighbourhood():
                yield "spec " + hx(src)

    # --- observations ------------------------------------------------------------------------
    def project(self, case, obs):
        po = split_obs(obs)
        if po is None:
            return obs
        return " | ".join("M %s E %s R %s" % (m, e, r) for (_, _, m, e, r) in po)

    def model_skips(self, case, model_obs):
        return False

    def predicate(self, case, impl_obs):
        bad = super().predicate(case, impl_obs)
        if bad:
            return bad
        po = split_obs(impl_obs)
        srcs, kind, exp = split_case(case)
        if po is None or len(po) != len(srcs):
            return "unexpected observation " + impl_obs[:80]
        for k, (_, _, m, e, r) in enumerate(po):
            if not m.startswith("(res"):
                return "unexpected observation " + m[:80]
            clean = e == "0" and "(junk " not in m
            if kind == "g2":
                if e != "0":
                    return "layout %d of a well-formed AST: parser reports %s error(s)" % (k, e)
                if "(junk " in m:
                    return "layout %d of a well-formed AST: parser produced Junk" % k
                if m != exp:
                    self._dev[case] = (unhx(srcs[k]), exp, m)     # exp is what the grammar assigns (checked in predicate2)
                    return "layout %d: parser tree differs from the tree the source was generated from" % k
            if kind == "ref" and m != exp:
                return "parser tree differs from the reference tree of the fixture"
            if clean and minus_comments(m) != sexp.parse_all(r)[0]:
                return "source %d: runtime parser tree is not the full tree minus comments" % k
        if kind == "g2" and len({p[2] for p in po}) != 1:
            return "layouts of one AST give different trees"
        return None

    def predicate2(self, case, impl_obs, model_obs):
        pi = split_obs(impl_obs)
        pm = split_obs(model_obs)
        srcs, kind, exp = split_case(case)
        if pm is None or pi is None or len(pm) != len(pi):
            return "model side: unexpected observation " + model_obs[:80]
        info = []
        for k, ((w, g, _, _, _), (_, _, m, e, _)) in enumerate(zip(pm, pi)):
            if not g.startswith("(res"):
                return "executable grammar did not produce a tree: " + g[:40]
            if kind == "ref" and g != exp:
                return "SPEC-BUG: the executable grammar disagrees with the reference tree of a repo fixture"
            if kind == "g2":
                if w != "1":
                    return "SPEC/GENERATOR: layout %d of a generated AST is not well-formed under the executable grammar" % k
                if g != exp:
                    return "SPEC/GENERATOR: layout %d: grammar's tree differs from the tree the source was generated from" % k
            if w == "1":
                if e != "0" or "(junk " in m:
                    return "source %d is well-formed under the Fluent grammar but the parser reports errors/Junk" % k
                if g != m:
                    self._dev[case] = (unhx(srcs[k]), g, m)
                    return "source %d is well-formed under the Fluent grammar but the parser's tree differs from the grammar's" % k
                info.append(("1", None))
            else:
                info.append(("0", None if g == m else leniency_kind(g, m)))
        self._info[case] = info
        return None

    def nontrivial(self, case, impl_obs):
        return ("(msg " in impl_obs or "(term " in impl_obs) and \
            ("(p " in impl_obs or "0a" in impl_obs or ") (c " in impl_obs)

    def classify(self, case, impl_obs, dist):
        srcs, kind, _ = split_case(case)
        bump(dist, "family:" + (kind or "plain"))
        bump(dist, "sources", len(srcs))
        if kind == "g2":
            bump(dist, "layouts-per-ast:%d" % len(srcs))
        n = max((len(s) // 2 for s in srcs), default=0)
        bump(dist, "size<16" if n < 16 else "size<128" if n < 128 else "size<2048" if n < 2048 else "size>=2048")
        for w, len_kind in self._info.pop(case, []):
            bump(dist, "grammar:well-formed" if w == "1" else "grammar:ill-formed")
            if w == "0":
                bump(dist, "ill-formed:parser-agrees-with-grammar" if len_kind is None else "leniency:" + len_kind)
        first = impl_obs.split(" | ")[0]
        for tag in ("(msg ", "(term ", "(junk ", "(sel ", "(f ", "(tm ", "(m ", "(var ", "(s ", "(n ", "(pl ", "(c ", "(gc ", "(rc ",
                    "(kn ", "(ki ", "(na ", "(a "):
            if tag in first:
                bump(dist, "has" + tag.strip())
        if ") (c " in first:
            bump(dist, "has-attached-comment")
        if re.search(r"\(t [0-9a-f]*0a20", first):
            bump(dist, "has-kept-indent-after-newline")
        if re.search(r"\(t [0-9a-f]*0a0a", first):
            bump(dist, "has-blank-line-in-text")
        if any(b"\r\n" in unhx(s) for s in srcs):
            bump(dist, "has-crlf-layout")

    def failure_class(self, case, impl_obs, why):
        cls = re.sub(r"\d+", "#", why)[:70]
        dev = self._dev.get(case)
        if dev is not None and f30_shape(*dev):
            # kept apart so that a known-shaped case can never stand in for (and hide) another deviation
            cls = "F30-shaped " + cls
        return cls

    # --- shrinking: to a single source, then lines, then characters; only steps that keep the failure CLASS are taken,
    # so that a case can never drift into the (known) minimal form of a different deviation
    def _classes(self, cands):
        io = core.run_impl(self.AREA, cands)
        mo = core.run_model(self.AREA, cands)
        out = []
        for c, i, m in zip(cands, io, mo):
            why = self.predicate(c, i) or self.predicate2(c, i, m)
            out.append(self.failure_class(c, i, why) if why else None)
        return out

    @staticmethod
    def _core_class(cls):
        # the reason text changes when the expected tree / layout group is dropped; the F30 marker must not
        if cls is None:
            return None
        return "F30-shaped" if cls.startswith("F30-shaped") else "other"

    def shrink(self, case, fails):
        srcs, kind, exp = split_case(case)
        want = self._core_class(self._classes([case])[0])
        if want is None:
            return case

        def keep(cands):
            return [self._core_class(c) == want for c in self._classes(cands)]
        singles = ["spec " + s for s in srcs]
        if len(srcs) > 1 or kind:
            res = keep(singles)
            hit = [c for c, r in zip(singles, res) if r]
            if not hit:
                return case          # only reproducible with the expected tree / the layout group
            case = min(hit, key=len)
        src = unhx(case.split(" ")[1]).decode("utf-8", "replace")
        lines = src.split("\n")
        if len(lines) > 2:
            def fl(cands):
                return keep(["spec " + hx("\n".join(c)) for c in cands])
            src = "\n".join(core.ddmin(lines, fl))
        chars = list(src)
        if len(chars) < 2 or len(chars) > 3000:
            return "spec " + hx(src)          # (very long lines are not shrunk character by character)

        def f(cands):
            return keep(["spec " + hx("".join(c)) for c in cands])
        return "spec " + hx("".join(core.ddmin(chars, f)))

    def mutate(self, case, rng, n):
        srcs, _, _ = split_case(case)
        out = []
        for _ in range(n):
            src = unhx(rng.choice(srcs)).decode("utf-8", "replace")
            out.append("spec " + hx(ftlgen.g3_mutate(rng, src, 1)))
        return out

    def matches_known(self, k, case, impl_obs, why):
        """a known finding names a regular expression over the (shrunk) source text and a fragment of the reason;
        F30 additionally requires the structural shape checked by `f30_shape` (needs the grammar's tree, recorded by
        predicate2 when the case was evaluated)"""
        sig = k.get("signature")
        if not isinstance(sig, dict):
            return False
        srcs, _, _ = split_case(case)
        if sig.get("why") and sig["why"] not in (why or ""):
            return False
        src_re = sig.get("source", "$^")
        try:
            if not all(re.search(src_re, unhx(s).decode("utf-8", "replace"), re.S) for s in srcs):
                return False
        except re.error:
            return False
        # the witness itself must still fail the same way (otherwise the finding is gone and nothing may hide behind it)
        wit = k.get("witness")
        if wit:
            wcls = self._classes([wit])[0]
            if wcls is None:
                return False
        if k.get("id") == "F30":
            dev = self._dev.get(case)
            return dev is not None and f30_shape(*dev) and wcls is not None and wcls.startswith("F30-shaped")
        return True


P = C02()
