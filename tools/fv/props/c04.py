"""C04 - serializer round trip"""
from .base import Base, bump
from . import parsefam
from .. import sexp
from ..core import hx, unhx


def norm_pattern(p):
    """join adjacent text elements; recurse into placeables"""
    out = ["pat"]
    for el in p[1:]:
        if el[0] == "t":
            if len(out) > 1 and out[-1][0] == "t":
                out[-1] = ["t", (sexp.unhex(out[-1][1]) + sexp.unhex(el[1])).hex() or "-"]
            else:
                out.append(["t", sexp.unhex(el[1]).hex() or "-"])
        else:
            out.append(["p", norm_expr(el[1])])
    return out


def norm_inline(e):
    k = e[0]
    if k == "pl":
        return ["pl", norm_expr(e[1])]
    if k == "f":
        return ["f", e[1], ["pos"] + [norm_inline(x) for x in e[2][1:]], ["named"] + [["na", n[1], norm_inline(n[2])] for n in e[3][1:]]]
    if k == "tm" and e[3] != "~":
        a = e[3]
        return ["tm", e[1], e[2], ["args", ["pos"] + [norm_inline(x) for x in a[1][1:]],
                                   ["named"] + [["na", n[1], norm_inline(n[2])] for n in a[2][1:]]]]
    return e


def norm_expr(x):
    if x[0] == "sel":
        return ["sel", norm_inline(x[1])] + [["v", v[1], v[2], norm_pattern(v[3])] for v in x[2:]]
    return norm_inline(x)


def norm_comment(c):
    if c == "~":
        return c
    # whitespace-only comment lines equal empty ones
    return [c[0]] + [("-" if sexp.unhex(l).strip(b" \r\n") == b"" else l) for l in c[1:]]


def norm_entry(e):
    k = e[0]
    if k in ("msg", "term"):
        return [k, e[1], e[2] if e[2] == "~" else norm_pattern(e[2]),
                ["attrs"] + [["a", a[1], norm_pattern(a[2])] for a in e[3][1:]], norm_comment(e[4])]
    if k in ("c", "gc", "rc"):
        return norm_comment(e)
    return e


def norm_tree(t, with_junk):
    return [norm_entry(e) for e in t[1:] if with_junk or e[0] != "junk"]


class C04(Base):
    ID = "C04"
    AREA = "ser"
    LEMMA_FILES = ["FluentProofs/Serializer.lean", "FluentProofs/SerializerCongr.lean", "FluentProofs/SerializerEntries.lean", "FluentProofs/SerializerFinal.lean", "FluentProofs/SerializerInline.lean", "FluentProofs/SerializerLineSplit.lean", "FluentProofs/SerializerML.lean", "FluentProofs/SerializerCrLoneLoop.lean", "FluentProofs/SerializerML2.lean", "FluentProofs/SerializerParse.lean", "FluentProofs/SerializerPattern.lean", "FluentProofs/SerializerResParse.lean", "FluentProofs/SerializerResource.lean", "FluentProofs/SerializerRoundtrip.lean", "FluentProofs/SerializerSelect.lean", "FluentProofs/SerializerSources.lean", "FluentProofs/SerializerUtf8.lean", "FluentProofs/SerializerExt.lean", "FluentProofs/SerializerExtArgs.lean", "FluentProofs/SerializerExtClass.lean", "FluentProofs/SerializerOutShape1.lean", "FluentProofs/SerializerOutShape2.lean", "FluentProofs/SerializerOutShape3.lean", "FluentProofs/SerializerOutShape4.lean", "FluentProofs/SerializerOutShape5.lean", "FluentProofs/SerializerOutDeep.lean", "FluentProofs/SerializerOutComment.lean", "FluentProofs/SerializerOutValid.lean", "FluentProofs/SerializerOutCr1.lean", "FluentProofs/SerializerOutCr2.lean", "FluentProofs/SerializerOutCr3.lean", "FluentProofs/SerializerOutCr4.lean", "FluentProofs/SerializerOutCr5.lean", "FluentProofs/SerializerOutCrValid.lean", "FluentProofs/ParserLocalSimDefs.lean", "FluentProofs/ParserLocalSimGe.lean", "FluentProofs/ParserLocalSimLeaf.lean", "FluentProofs/ParserLocalSimLeaf2.lean", "FluentProofs/ParserLocalSimExprAux.lean", "FluentProofs/ParserLocalSimExpr.lean", "FluentProofs/ParserLocalSimExpr2.lean", "FluentProofs/ParserLocalSimEntry.lean", "FluentProofs/ParserLocalSimEntry2.lean", "FluentProofs/ParserLocalSimTop.lean", "FluentProofs/SerializerJunkText.lean", "FluentProofs/SerializerJunkSrcEnd.lean", "FluentProofs/SerializerJunkSrcHead.lean", "FluentProofs/SerializerJunkSrc.lean", "FluentProofs/SerializerJunkTransfer.lean", "FluentProofs/ConstTieSyntax.lean"]
    RULE = ("every source of the C01 generator mix (corpus, grammar-directed with layouts, mutations, token soup, "
            "neighbourhood) x both serializer options, plus targeted families: values whose first text starts with '.', '[' "
            "or '*', uneven indentation, placeable-led lines, CRLF, nested selects, comments at end of input, Junk between "
            "entries. Non-trivial = the parsed tree has a multi-line pattern, a select, a comment or Junk; distinct = distinct "
            "(option, source).")
    EXPLANATION = ("Theorems about the transcribed serializer model (writer discipline, congruence under text joining); tie: "
                   "serializer output, reparse tree and second serialisation of the real crate vs the models byte for byte. "
                   "Predicate on the implementation: reparse equals the tree modulo joining adjacent text / blank comment "
                   "lines (Junk kept or dropped per option) and the second serialisation is byte-identical.")

    def targeted(self, rng, n):
        firsts = [".x", "[x", "*x", "[a] b", "*[a] b", ". ", "x", "{ $v }", "{\"[\"}", "é", "x  ", "\"q"]
        conts = ["y", "  y", "{ $v } z", "    deep", "", "y  ", "{ $a }{ $b }", "-dash", "#hash", "é😀", "\ttab", "\r", "\r ", " \r",
                 "\r\r", "x\r"]
        for _ in range(n):
            eol = "\n" if rng.random() < 0.7 else "\r\n"
            k = rng.random()
            if k < 0.5:
                lines = [rng.choice(firsts)] + [rng.choice(conts) for _ in range(rng.randint(1, 4))]
                inline = rng.random() < 0.6
                ind = rng.choice([1, 2, 4, 6])
                head = rng.choice(["a =", "-t =", "a = v\n    .at ="]).replace("\n", eol)
                if inline:
                    src = head + " " + lines[0] + eol
                else:
                    src = head + eol + " " * ind + lines[0] + eol
                for l in lines[1:]:
                    src += ((" " * max(1, ind + rng.choice([0, 0, 2, 4, -1, -2])) + l) if l else rng.choice(["", "   "])) + eol
                if rng.random() < 0.3:
                    src = src[: -len(eol)]      # no final line break
            elif k < 0.7:
                v1 = rng.choice(["one", "{ $y ->\n            [a] A\n           *[b] B\n        }", "l1\n            l2", ".dot", "[br"])
                src = ("a = { $x ->\n        [one] %s\n       *[other] { 1 }\n    } tail\n" % v1).replace("\n", eol)
            elif k < 0.85:
                src = rng.choice(["a = 1\nerr {\n\n# c\n\nb = 2\n", "# c\n", "a = 1\n# c", "### r\n\n## g\n\n# c\na = 1\n\n#\n",
                                  "junk1 {\njunk2 }\n# c\n", "a = 1\n\n\n\nb = 2\n##   \n", "#  \n#\n# x\nm = v\n",
                                  "a = x\r", "a = x\r\n\r", "a = { \"\\r\" }\r\n", "x = \r\ny", "a = x\r\r\n"]).replace("\n", eol)
            else:
                src = rng.choice(["a = { FOO(1, \"s\", $v, m, m.a, -t, -t(x: 1), { 2 }, x: 1, y: \"z\") }\n",
                                  "a = {{ $x }}\n", "a = { { { $x } } }\n", "a = {{ $x ->\n *[o] v\n }}\n",
                                  "a = { -t.attr ->\n *[o] v\n }\n", "a = { -t.attr(x: 1) ->\n *[o] v\n }\n"])
            yield "ser %d %s" % (rng.randrange(2), hx(src))

    def generate(self, rng, tier):
        for c in self.targeted(rng, 3000 if tier == "quick" else 200000):
            yield c
        for c in parsefam.gen_mix(rng, tier):
            if "|" in c:
                continue
            h = c.split(" ")[1]
            if tier == "quick" and len(h) > 8000:
                yield "ser %d %s" % (rng.randrange(2), h)
            else:
                yield "ser 0 " + h
                yield "ser 1 " + h

    def predicate(self, case, impl_obs):
        bad = super().predicate(case, impl_obs)
        if bad:
            return bad
        if "BORROWED!=OWNED" in impl_obs:
            return "borrowed and owned trees serialise differently"
        with_junk = case.split(" ")[1] == "1"
        try:
            nodes = sexp.parse_all(impl_obs)
        except Exception:
            return "unparseable observation"
        if len(nodes) < 8 or nodes[0] != "S" or nodes[2] != "T" or nodes[4] != "T2" or nodes[6] != "S2":
            return "unexpected observation " + impl_obs[:60]
        s1, t, t2, s2 = nodes[1], nodes[3], nodes[5], nodes[7]
        if norm_tree(t, with_junk) != norm_tree(t2, with_junk):
            return "serialise-then-parse does not give an equal tree (with_junk=%s)" % with_junk
        if s1 != s2:
            return "serialising the re-parsed tree does not reproduce the text (not a fixed point, with_junk=%s)" % with_junk
        return None

    def nontrivial(self, case, impl_obs):
        t = impl_obs.split(" T2 ")[0]
        return "0a" in t or "(sel" in t or "(c " in t or "(junk" in t or "(gc" in t

    def classify(self, case, impl_obs, dist):
        bump(dist, "with_junk=" + case.split(" ")[1])
        t = impl_obs.split(" T2 ")[0]
        for tag in ("(sel", "(junk", "(c ", "(gc", "(rc", "(attrs (a", "(pl "):
            if tag in t:
                bump(dist, "has" + tag)
        if "0d0a" in case:
            bump(dist, "crlf-source")

    def shrink(self, case, fails):
        from .. import core
        _, wj, h = case.split(" ")
        chars = list(unhx(h).decode("utf-8", "replace"))
        if len(chars) < 2:
            return case

        def f(cands):
            return fails(["ser %s %s" % (wj, hx("".join(c))) for c in cands])
        return "ser %s %s" % (wj, hx("".join(core.ddmin(chars, f))))

    def mutate(self, case, rng, n):
        from .. import ftlgen
        _, wj, h = case.split(" ")
        src = unhx(h).decode("utf-8", "replace")
        return ["ser %s %s" % (wj, hx(ftlgen.g3_mutate(rng, src, 1))) for _ in range(n)]


P = C04()
