"""C19 - ResourceManager: files loaded once, bundles per locale, I/O faults reported.

Case line: `rm <scheme> <probes> <step>;<step>;...` (format: lean/FluentModel/Drv/RmDrv.lean).  A case is a
sequence of file-system mutation steps (write / invalid UTF-8 / directory / remove) and request steps
(get_bundle, get_bundles, next) executed against a fresh temp directory.
"""
import itertools
from .base import Base, bump
from ..core import hx, unhx, ddmin
from .c10 import Gen, defs_of

SCHEMES = ["{locale}/{res_id}", "res/{locale}/{res_id}", "{res_id}", "{locale}", "{locale}-{res_id}",
           "{res_id}/{locale}", "{locale}/{locale}/{res_id}", "x{locale}{res_id}{res_id}", "static.ftl",
           "{locale}/{res_id}.ftl", "{{locale}}/{res_id}", "{locale/{res_id}", "{res_id}{locale}",
           "{loc{locale}ale}/{res_id}", "{res_{locale}id}/{res_id}", "{locale}/{res_id}/{locale}/{res_id}",
           "l={locale}&r={res_id}", "{res_id}_{locale}_{res_id}", "{locale}{locale}", "{res_id}}{{locale}",
           # non-ASCII characters in the LITERAL part of the scheme (directory and file names)
           "übersetzungen/{locale}/{res_id}", "{locale}/größe_{res_id}", "日本/{locale}/{res_id}", "{locale}/{res_id}.é", "😀{locale}/{res_id}"]
LOCALES = ["en-US", "pl", "fr", "de-AT", "sr-Cyrl", "en"]
RES_IDS = ["main.ftl", "extra.ftl", "sub/menu.ftl", "{locale}", "{res_id}", "a{locale}b.ftl", "errors.ftl", "m"]
IDS = ["A", "b", "C-D", "key_1", "Z9", "msg-x"]


def path_of(scheme, locale, rid):
    # the property text: substitute locale, then resource id (python's str.replace is left-to-right, non-overlapping)
    return scheme.replace("{locale}", locale).replace("{res_id}", rid)


def valid_rel(p):
    return p != "" and not p.startswith("/") and all(c not in ("", ".", "..") for c in p.split("/"))


def prefix_free(ps):
    ps = sorted(set(ps))
    return not any(q.startswith(p + "/") for p in ps for q in ps if p != q)


def hl(xs):
    return ",".join(hx(x) for x in xs)


def unhl(s):
    return [unhx(t).decode() for t in s.split(",")] if s else []


class C19(Base):
    ID = "C19"
    AREA = "rm"
    LEMMA_FILES = ["FluentProofs/ResMgr.lean", "FluentProofs/Registry.lean"]
    RULE = ("random scenarios: a path scheme out of 25 (0-4 placeholders at any position, doubled, adjacent, with "
            "stray braces, placeholder text inside resource ids), 1-3 locales, 1-4 resource ids, then 4-16 steps mixing "
            "file-system mutations of the addressed paths (write a structured resource with Junk / duplicate ids, "
            "invalid UTF-8, directory instead of file, remove) with get_bundle requests (repeated ids, several "
            "locales), get_bundles iterators held open across mutations and other requests, and next() calls past the "
            "end. Opens of regular files are observed with inotify. Non-trivial = some request is served from the "
            "cache and (the file behind a cached path had changed, or a request failed); distinct = distinct case "
            "line.")
    EXPLANATION = ("Theorems (all worlds = arbitrary functions of read-time, all request histories): str::replace "
                   "characterisation and path_substitution for any placement/count of placeholders; bundle_contents "
                   "(either all failures in resource order or C10's fold); load_once; bundles_lazy_in_order. Tie: the "
                   "same scenarios on the real ResourceManager over a temp directory and on the Lean model; "
                   "observations (results, bundle contents, opens) diffed. Independent python oracle of the property "
                   "text evaluates the implementation.")
    ASSUMPTIONS = ["str::replace: left-to-right, non-overlapping, replacement not rescanned",
                   "fs::read_to_string is an arbitrary function of (time, path): the real OS is only sampled",
                   "elsa::FrozenMap is a finite map with insert = entry().or_insert()",
                   "FluentResource::try_new yields the described entries for the rendered FTL text",
                   "LanguageIdentifier::to_string is the identity on canonical locale strings"]
    TRUSTED = ["inotify IN_OPEN events as the observation of file opens (Linux)"]

    # --- generation ----------------------------------------------------------------------------------
    def scenario(self, rng, nsteps=None, big=False):
        for _ in range(50):
            scheme = rng.choice(SCHEMES)
            locales = rng.sample(LOCALES, rng.choice([1, 2, 2, 3]))
            rids = rng.sample(RES_IDS, rng.choice([1, 2, 3, 3, 4]))
            if big and rng.random() < 0.4:
                # LONG paths full of multi-byte characters, shifted byte by byte (anything that cuts a path - for an
                # error message, a cache key - at a fixed byte offset lands inside a character for some of them)
                stem = rng.choice(["長い名前のリソース", "очень-длинное-имя", "😀😀😀😀", "ééééééééé"])
                # (a file NAME may not exceed 255 bytes - the OS answers "name too long", not "not found" - and some
                # schemes use the id twice: keep one occurrence below 100 bytes)
                stem = stem * max(1, 90 // len(stem.encode("utf-8")))
                rids = ["a" * k + stem + "%d.ftl" % k for k in range(4)]
            elif big:
                # MANY resource files per bundle (9-24 distinct ids requested at once)
                rids = rids[:2] + ["r%d.ftl" % i for i in range(rng.choice([9, 10, 16, 17, 24]))]
            paths = sorted({path_of(scheme, l, r) for l in locales for r in rids})
            if all(valid_rel(p) for p in paths) and prefix_free(paths):
                break
        else:
            scheme, locales, rids = "{locale}/{res_id}", ["en-US", "pl"], ["main.ftl", "extra.ftl"]
            paths = sorted({path_of(scheme, l, r) for l in locales for r in rids})
        g = Gen(rng, IDS)
        steps = []
        niter = 0

        def resource():
            # small resources over 6 ids: most bundles assemble cleanly, duplicates still frequent
            if rng.random() < 0.2:
                return g.resource()
            return ",".join(g.desc() for _ in range(rng.choice([1, 1, 2, 2, 3])))

        def mutation(p=None):
            p = hx(p if p is not None else rng.choice(paths))
            r = rng.random()
            if r < 0.62:
                return "w:%s:%s" % (p, resource())
            if r < 0.72:
                return "bad:" + p
            if r < 0.82:
                return "dir:" + p
            return "rm:" + p

        def loclist():
            k = rng.randint(1, len(locales))
            ls = rng.sample(locales, k)
            if rng.random() < 0.2:
                # the caller's list may REPEAT a locale (adjacent or not): one result per list position all the same
                i = rng.randrange(len(ls))
                ls.insert(i + (0 if rng.random() < 0.7 else rng.randrange(len(ls) - i + 1)), ls[i])
            return ls

        def idlist():
            k = rng.choice([0, 1, 1, 2, 2, 3, 4])
            if big and len(rids) >= 9 and rng.random() < 0.6:
                return rng.sample(rids, rng.randint(9, len(rids)))
            return [rng.choice(rids) for _ in range(k)]

        for p in paths:
            if rng.random() < 0.7:
                steps.append(mutation(p))
        n = nsteps or rng.randint(4, 16)
        for _ in range(n):
            r = rng.random()
            if r < 0.35:
                steps.append(mutation())
            elif r < 0.70:
                ls = loclist() if rng.random() > 0.02 else []
                steps.append("bundle:%s:%s" % (hl(ls), hl(idlist())))
            elif r < 0.80 or niter == 0:
                ls = loclist() if rng.random() > 0.05 else []
                steps.append("iter:%s:%s" % (hl(ls), hl(idlist())))
                niter += 1
            else:
                if rng.random() < 0.2:
                    steps.append("nth:%d:%d" % (rng.randrange(niter), rng.choice([0, 1, 1, 2])))
                else:
                    steps.append("next:%d" % rng.randrange(niter))
        for h in range(niter):
            for _ in range(rng.randint(0, 3)):
                steps.append("next:%d" % h)
        return "rm %s %s %s" % (hx(scheme), hl(IDS), ";".join(steps))

    def generate(self, rng, tier):
        n = 5000 if tier == "quick" else 60000
        for _ in range(n):
            yield self.scenario(rng)
        for _ in range(60 if tier == "quick" else 3000):
            yield self.scenario(rng, big=True)
        if tier == "thorough":
            # exhaustive small family: one path, every sequence of <=4 steps from 9 step shapes, then a request
            sch, loc, rid = "{locale}/{res_id}", "pl", "m"
            p = hx(path_of(sch, loc, rid))
            A = hx("A")
            shapes = ["w:%s:m/%s/%s/" % (p, A, hx("v1")), "w:%s:m/%s/%s/,m/%s/%s/" % (p, A, hx("v2"), A, hx("v3")),
                      "w:%s:j" % p, "bad:" + p, "dir:" + p, "rm:" + p,
                      "bundle:%s:%s" % (hx(loc), hx(rid)), "bundle:%s:%s,%s" % (hx(loc), hx(rid), hx(rid)),
                      "next:0"]
            head = "rm %s %s iter:%s,%s:%s;" % (hx(sch), A, hx(loc), hx(loc), hx(rid))
            tail = ";bundle:%s:%s;next:0" % (hx(loc), hx(rid))
            for k in range(1, 5):
                for seq in itertools.product(shapes, repeat=k):
                    yield head + ";".join(seq) + tail

    def split(self, case):
        _, scheme, probes, steps = case.split(" ", 3)
        return unhx(scheme).decode(), unhl(probes), steps.split(";")

    def mutate(self, case, rng, n):
        head, _, steps = case.rpartition(" ")
        ops = steps.split(";")
        out = []
        for _ in range(n):
            o = list(ops)
            k = rng.randrange(3)
            if k == 0 and len(o) > 1:
                del o[rng.randrange(len(o))]
            elif k == 1:
                o.insert(rng.randrange(len(o) + 1), rng.choice(o))
            else:
                i, j = rng.randrange(len(o)), rng.randrange(len(o))
                o[i], o[j] = o[j], o[i]
            out.append(head + " " + ";".join(o))
        return out

    def shrink(self, case, fails):
        head, _, steps = case.rpartition(" ")
        ops = steps.split(";")
        if len(ops) < 2:
            return case
        small = ddmin(ops, lambda cands: fails([head + " " + ";".join(c) for c in cands]))
        return head + " " + ";".join(small)

    # --- independent oracle of the property text --------------------------------------------------
    def oracle(self, case):
        """expected observation per step (None = not constrained by the property) and statistics"""
        scheme, probes, steps = self.split(case)
        fs = {}       # path -> ("file", desc) | ("bad",) | ("dir",)
        loaded = {}   # path -> (list of definitions, desc) : first-loaded content
        iters = []
        exp = []
        st = {"hits": 0, "stale": 0, "errors": 0, "lazy": 0}

        def assemble(locale, bundle_locales, rids):
            errors, opened = [], []
            bundle = {}
            for rid in rids:
                path = path_of(scheme, locale, rid)
                if path in loaded:
                    st["hits"] += 1
                    cur = fs.get(path)
                    if cur != ("file", loaded[path][1]):
                        st["stale"] += 1
                    defs = loaded[path][0]
                else:
                    cur = fs.get(path)
                    if cur is None:
                        errors.append("io.nf")
                        continue
                    if cur[0] == "dir":
                        errors.append("io.dir")
                        continue
                    opened.append(hx(path))
                    if cur[0] == "bad":
                        errors.append("io.utf8")
                        continue
                    defs = defs_of(cur[1])
                    loaded[path] = (defs, cur[1])
                for (k, i, v, a) in defs:
                    if i in bundle:
                        errors.append("%s=%s" % (k, i))
                    else:
                        bundle[i] = (k, v, a)
            if errors:
                st["errors"] += 1
                res = "err:" + ",".join(errors)
            else:
                d = []
                for pid in probes:
                    e = bundle.get(hx(pid))
                    m = "n"
                    t = "n"
                    if e and e[0] == "M":
                        m = "m.%s.%s" % (e[1] if e[1] is not None else "~", "+".join("%s=%s" % x for x in e[2]))
                    if e and e[0] == "T":
                        t = "t." + e[1]
                    d.append("%s=%s/%s" % (hx(pid), m, t))
                res = "ok:%s:%s" % (hl(bundle_locales), ",".join(d))
            return res + "|opens=" + ",".join(opened)

        for s in steps:
            p = s.split(":")
            if p[0] == "w":
                fs[unhx(p[1]).decode()] = ("file", p[2])
                exp.append("ok")
            elif p[0] == "bad":
                fs[unhx(p[1]).decode()] = ("bad",)
                exp.append("ok")
            elif p[0] == "dir":
                fs[unhx(p[1]).decode()] = ("dir",)
                exp.append("ok")
            elif p[0] == "rm":
                fs.pop(unhx(p[1]).decode(), None)
                exp.append("ok")
            elif p[0] == "bundle":
                ls, rids = unhl(p[1]), unhl(p[2])
                if not ls:
                    exp.append(None)      # outside the property's precondition (non-empty locale list)
                else:
                    exp.append(assemble(ls[0], ls, rids))
            elif p[0] == "iter":
                iters.append([unhl(p[1]), unhl(p[2]), 0, len(exp)])
                exp.append("ok|opens=")     # lazily: nothing is read when the iterator is created
            elif p[0] == "next":
                h = int(p[1])
                if h >= len(iters):
                    exp.append("no-such-iter|opens=")
                    continue
                it = iters[h]
                if it[2] >= len(it[0]):
                    exp.append("end|opens=")
                else:
                    loc = it[0][it[2]]
                    it[2] += 1
                    st["lazy"] += 1
                    exp.append(assemble(loc, [loc], it[1]))
            elif p[0] == "nth":
                # Iterator::nth(k) on a (possibly partly consumed) bundle iterator: k locales are assembled and thrown
                # away (their files ARE read), the next one is returned; None as soon as the locales run out
                h, k = int(p[1]), int(p[2])
                if h >= len(iters):
                    exp.append("no-such-iter|opens=")
                    continue
                it = iters[h]
                opened_all, last = [], "end"
                for step in range(k + 1):
                    if it[2] >= len(it[0]):
                        last = "end"
                        break
                    loc = it[0][it[2]]
                    it[2] += 1
                    st["lazy"] += 1
                    r = assemble(loc, [loc], it[1])
                    last, _, op = r.partition("|opens=")
                    opened_all += [x for x in op.split(",") if x]
                exp.append(last + "|opens=" + ",".join(opened_all))
            else:
                exp.append("bad-op")
        return exp, st

    def predicate(self, case, impl_obs):
        bad = super().predicate(case, impl_obs)
        if bad:
            return bad
        exp, _ = self.oracle(case)
        obs = impl_obs.split(";")
        if len(obs) != len(exp):
            return "observation count %d != step count %d (%s)" % (len(obs), len(exp), impl_obs[:60])
        steps = case.split(" ", 3)[3].split(";")
        for k, (e, o, s) in enumerate(zip(exp, obs, steps)):
            if e is None:
                continue
            if o.startswith("panic"):
                return "step %d (%s): panic" % (k, s[:60])
            if o != e:
                eo, ee = o.partition("|"), e.partition("|")
                what = "opened files" if eo[0] == ee[0] else "result"
                return "step %d (%s): %s differ: expected %s got %s" % (k, s[:80], what, e[:200], o[:200])
        return None

    def nontrivial(self, case, impl_obs):
        _, st = self.oracle(case)
        return st["hits"] > 0 and (st["stale"] > 0 or st["errors"] > 0)

    def classify(self, case, impl_obs, dist):
        scheme, _, steps = self.split(case)
        _, st = self.oracle(case)
        bump(dist, "scenarios")
        bump(dist, "scheme:locale-x%d:res_id-x%d" % (min(2, scheme.count("{locale}")), min(2, scheme.count("{res_id}"))))
        bump(dist, "cache-hits", st["hits"])
        bump(dist, "cache-hits-after-file-changed", st["stale"])
        bump(dist, "iterator-items-pulled", st["lazy"])
        for s, o in zip(steps, impl_obs.split(";")):
            k = s.split(":")[0]
            bump(dist, "step:" + k)
            if k in ("bundle", "next", "nth"):
                res, _, op = o.partition("|opens=")
                kind = res.split(":")[0]
                bump(dist, "%s:%s" % (k, kind))
                if kind == "err":
                    for e in set(x.split("=")[0] for x in res[4:].split(",")):
                        bump(dist, "err:" + e)
                if op:
                    bump(dist, "opens", len(op.split(",")))


P = C19()
P.RULE = P.RULE + ' Schemes with non-ASCII literal text; locale lists that repeat a locale (adjacent or not).'
