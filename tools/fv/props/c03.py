"""C03 - junk accounting and per-entry recovery"""
import random
import re
from .base import Base, bump
from . import parsefam
from .. import sexp, ftlgen
from ..core import hx, unhx


def is_boundary(b, i):
    return i == 0 or i == len(b) or (i < len(b) and (b[i] & 0xC0) != 0x80)


ENTRY_START = set(b"abcdefghijklmnopqrstuvwxyzABCDEFGHIJKLMNOPQRSTUVWXYZ-#")

IDENT_RE = re.compile(rb"^[a-zA-Z][a-zA-Z0-9_-]*$")
NUM_RE = re.compile(rb"^-?[0-9]+(\.[0-9]+)?$")
CALLEE_RE = re.compile(rb"^[A-Z][A-Z0-9_-]*$")
STR_RE = re.compile(rb'^(?:[^"\\\n]|\\\\|\\"|\\u[0-9a-fA-F]{4}|\\U[0-9a-fA-F]{6})*$')


def accounting(src, tree, errs):
    """the accounting clauses recomputed on one parser's output; returns None or a reason"""
    junks = [e for e in tree[1:] if isinstance(e, list) and e and e[0] == "junk"]
    if len(junks) != len(errs):
        return "errors (%d) and Junk entries (%d) differ in number" % (len(errs), len(junks))
    prev_end = 0
    for j, e in zip(junks, errs):
        # e = ['e', kind, pos.start, pos.end, slice.start, slice.end]
        if len(e) != 6 or e[4] == "~":
            return "error without slice"
        ps, pe, ss, se = int(e[2]), int(e[3]), int(e[4]), int(e[5])
        content = sexp.unhex(j[1])
        if not (0 <= ss <= se <= len(src)):
            return "slice %d..%d out of range" % (ss, se)
        if src[ss:se] != content:
            return "Junk content differs from the source text of its error's slice %d..%d" % (ss, se)
        if not (is_boundary(src, ss) and is_boundary(src, se)):
            return "slice %d..%d not on character boundaries" % (ss, se)
        if not (ss == 0 or src[ss - 1] == 10):
            return "slice %d..%d does not start at a line start" % (ss, se)
        if not (se == len(src) or (src[se] in ENTRY_START and src[se - 1] == 10)):
            return "slice %d..%d does not end where the next entry begins" % (ss, se)
        if not (ss <= ps <= se):
            return "error position %d outside its slice %d..%d" % (ps, ss, se)
        if ss < prev_end:
            return "Junk slices out of source order"
        prev_end = se
    return None


class Invalid(Exception):
    pass


def check_inline(e, as_selector=False, as_placeable=False):
    k = e[0]
    if k == "s":
        if not STR_RE.match(sexp.unhex(e[1])):
            raise Invalid("string literal with bad escape / raw newline: %r" % sexp.unhex(e[1]))
    elif k == "n":
        if not NUM_RE.match(sexp.unhex(e[1])):
            raise Invalid("ill-shaped number literal")
    elif k == "var":
        if not IDENT_RE.match(sexp.unhex(e[1])):
            raise Invalid("ill-shaped variable name")
    elif k == "m":
        if as_selector:
            raise Invalid("message reference as selector")
        if not IDENT_RE.match(sexp.unhex(e[1])) or (e[2] != "~" and not IDENT_RE.match(sexp.unhex(e[2]))):
            raise Invalid("ill-shaped message reference")
    elif k == "tm":
        if as_selector and e[2] == "~":
            raise Invalid("term reference without attribute as selector")
        if as_placeable and e[2] != "~":
            raise Invalid("term attribute as placeable")
        if e[3] != "~":
            check_args(e[3][1], e[3][2])
    elif k == "f":
        if not CALLEE_RE.match(sexp.unhex(e[1])):
            raise Invalid("lower-case callee")
        check_args(e[2], e[3])
    elif k == "pl":
        if as_selector:
            raise Invalid("nested placeable as selector")
        check_expr(e[1])
    else:
        raise Invalid("unknown inline " + str(k))


def check_args(pos, named):
    for p in pos[1:]:
        check_inline(p)
    names = []
    for na in named[1:]:
        nm = sexp.unhex(na[1])
        if nm in names:
            raise Invalid("duplicate named argument")
        names.append(nm)
        if not IDENT_RE.match(nm):
            raise Invalid("ill-shaped argument name")
        check_inline(na[2])


def check_expr(x):
    if x[0] == "sel":
        check_inline(x[1], as_selector=True)
        variants = x[2:]
        if not variants:
            raise Invalid("select without variants")
        if sum(1 for v in variants if v[1] == "1") != 1:
            raise Invalid("select without exactly one default variant")
        for v in variants:
            key = v[2]
            kb = sexp.unhex(key[1])
            if key[0] == "ki" and not IDENT_RE.match(kb):
                raise Invalid("ill-shaped variant key")
            if key[0] == "kn" and not NUM_RE.match(kb):
                raise Invalid("ill-shaped numeric variant key")
            check_pattern(v[3])
    else:
        check_inline(x, as_placeable=True)


def check_pattern(p):
    els = p[1:]
    if not els:
        raise Invalid("empty pattern")
    for el in els:
        if el[0] == "t":
            t = sexp.unhex(el[1])
            if b"{" in t or b"}" in t:
                raise Invalid("brace in text element")
        else:
            check_expr(el[1])


def check_entry(e):
    """documented rules visible in the AST for an admitted message/term; raises Invalid"""
    if e[0] == "msg":
        if e[2] == "~" and len(e[3]) == 1:
            raise Invalid("message without value and attributes")
    if not IDENT_RE.match(sexp.unhex(e[1])):
        raise Invalid("ill-shaped entry id")
    if e[2] != "~":
        check_pattern(e[2])
    for a in e[3][1:]:
        if not IDENT_RE.match(sexp.unhex(a[1])):
            raise Invalid("ill-shaped attribute id")
        check_pattern(a[2])


def admitted_valid(tree):
    for e in tree[1:]:
        if isinstance(e, list) and e and e[0] in ("msg", "term"):
            try:
                check_entry(e)
            except Invalid as x:
                return "admitted %s %r breaks a syntax rule: %s" % (e[0], sexp.unhex(e[1]), x)
    return None


# ---------------------------------------------------------------------------------------------------
# damage generator: (violation kind) x (placement)

BAD_EXPR = {
    "no-default": "$x ->\n        [one] 1\n        [other] 2\n    ",
    "dup-default": "$x ->\n       *[one] 1\n       *[other] 2\n    ",
    "dup-default-separated": "$x ->\n       *[zero] 0\n        [one] 1\n       *[other] 2\n    ",
    "dup-default-far": "$x ->\n       *[zero] 0\n        [one] 1\n        [two] 2\n        [few] 3\n       *[other] 4\n    ",
    # the select that lacks a default (or has two) HOLDS a well-formed nested select with its own default: whether a
    # default was seen is a fact about ONE select, not about the innermost or the latest one
    "no-default-nested": "$x ->\n        [one] { $y ->\n           *[a] A\n        }\n        [other] 2\n    ",
    "no-default-nested-last": "$x ->\n        [one] 1\n        [other] { $y ->\n            [a] A\n           *[b] B\n        }\n    ",
    "dup-default-nested-between": "$x ->\n       *[one] { $y ->\n           *[a] A\n        }\n       *[other] 2\n    ",
    "msgref-selector": "msg ->\n       *[other] 2\n    ",
    "msgattr-selector": "msg.attr ->\n       *[other] 2\n    ",
    "termref-selector": "-term ->\n       *[other] 2\n    ",
    "placeable-selector": "{ $x } ->\n       *[other] 2\n    ",
    "term-attr-placeable": "-term.attr",
    "positional-after-named": "FOO(x: 1, 2)",
    "positional-msgref-after-named": "FOO(x: 1, msg)",
    "positional-var-after-named": "FOO(x: 1, $v)",
    "positional-after-named-term": "-term(x: 1, msg)",
    "dup-named": "FOO(x: 1, x: 2)",
    "dup-named-unsorted": "FOO(b: 1, a: 2, b: 3)",
    "dup-named-far": "FOO(style: 1, minimumFractionDigits: 2, a: 3, style: 4)",
    "dup-named-term": "-term(z: 1, k: \"v\", a: 2, z: 3)",
    "lowercase-callee": "foo()",
    "lowercase-callee2": "Foo(1)",
    # only the FIRST / only the LAST character is lower-case; one-letter name; lower-case + digit
    "lowercase-callee-first": "fOO()",
    "lowercase-callee-last": "FOo($x)",
    "lowercase-callee-one": "f($x)",
    "lowercase-callee-digit": "c1()",
    "lowercase-callee-selector": "nUMBER($n) ->\n       *[other] o\n    ",
    "bad-escape": "\"\\x\"",
    "bad-escape-brace": "\"\\{\"",
    "bad-unicode-escape": "\"\\u00zz\"",
    "bad-unicode-escape6": "\"\\U0001F\"",
    "unterminated-string": "\"abc",
    "missing-variant-value": "$x ->\n       *[other]\n    ",
    "empty-placeable": "",
    "unclosed-call": "FOO(1",
}

PLACEMENTS = ["first-line", "continuation", "nested-placeable", "call-argument", "variant-value", "term-value",
              "attribute"]


def damaged_entry(ident, kind, placement, is_term=False):
    """returns text of a damaged entry with id `ident` (or None when the combination makes no sense)"""
    head = ("-" if is_term else "") + ident + " ="
    if kind in BAD_EXPR:
        x = BAD_EXPR[kind]
        pl = "{ " + x + " }"
        is_select = "->" in x
        if placement == "first-line":
            return head + " before " + pl + " after\n"
        if placement == "continuation":
            return head + " first line\n    second " + pl + "\n    third\n"
        if placement == "nested-placeable":
            return head + " { " + pl + " }\n"
        if placement == "call-argument":
            if is_select or kind in ("empty-placeable", "term-attr-placeable"):
                return head + " { FOO(" + pl + ") }\n"
            return head + " { FOO(" + x + ") }\n"
        if placement == "variant-value":
            return head + " { $v ->\n        [a] ok\n       *[b] " + pl + "\n    }\n"
        if placement == "term-value":
            return "-" + ident + " = " + pl + "\n"
        if placement == "attribute":
            return head + " v\n    .at = ok\n    .bad = " + pl + "\n    .later = x\n"
    if kind == "unbalanced-close":
        t = {"first-line": head + " text } more\n", "continuation": head + " a\n    b } c\n",
             "variant-value": head + " { $v ->\n       *[b] x } y\n    }\n",
             "attribute": head + " v\n    .bad = x } y\n", "term-value": "-" + ident + " = x } y\n"}
        return t.get(placement)
    if kind == "unbalanced-open":
        t = {"first-line": head + " text { $x more\n", "continuation": head + " a\n    b { $x c\n",
             "attribute": head + " v\n    .bad = x { y\n", "term-value": "-" + ident + " = x { y\n"}
        return t.get(placement)
    if kind == "unclosed-at-eol":
        # the placeable is still open at the end of the line: the error is found on a LATER line (the next entry's)
        t = {"first-line": head + " A {\n", "continuation": head + " a\n    b {\n",
             "attribute": head + " v\n    .bad = x {\n", "term-value": "-" + ident + " = x {\n"}
        return t.get(placement)
    if kind == "unclosed-call-at-eol":
        t = {"first-line": head + " { NUMBER(\n", "continuation": head + " a\n    { NUMBER($x,\n",
             "attribute": head + " v\n    .bad = { FOO(\n", "term-value": "-" + ident + " = { -t(\n"}
        return t.get(placement)
    if kind == "unclosed-select-at-eol":
        t = {"first-line": head + " { $x ->\n", "continuation": head + " a\n    { $x ->\n        [one] v\n",
             "attribute": head + " v\n    .bad = { $x ->\n", "term-value": "-" + ident + " = { $x ->\n       *[o] v\n"}
        return t.get(placement)
    if kind == "missing-value":
        t = {"first-line": head + "\n", "term-value": "-" + ident + " =\n", "attribute": head + " v\n    .bad =\n",
             "continuation": head + "   \n\n"}
        return t.get(placement)
    if kind == "missing-equals":
        t = {"first-line": ident + " value\n", "term-value": "-" + ident + " value\n",
             "attribute": head + " v\n    .bad x\n"}
        return t.get(placement)
    return None


KINDS = list(BAD_EXPR) + ["unbalanced-close", "unbalanced-open", "unclosed-at-eol", "unclosed-call-at-eol", "unclosed-select-at-eol", "missing-value", "missing-equals"]


def damage_cases(rng, n):
    """yields ('A|B|id|placement' payload pieces) as case lines 'parse A|B' plus meta kept in a comment-free way:
    the damaged id and placement travel as extra '|'-fields in hex that the drivers treat as sources too (harmless)."""
    for _ in range(n):
        g = ftlgen.G2(rng, depth=rng.choice([1, 2]))
        res = g.resource(rng.randint(2, 5))
        # unique ids
        res2 = []
        for i, e in enumerate(res):
            if e[0] in ("msg", "term"):
                e = (e[0], "e%d%s" % (i, e[1])) + tuple(e[2:])
            res2.append(e)
        L = ftlgen.Layout(rng, plain=rng.random() < 0.5)
        L.final_newline = True
        texts = []
        for e in res2:
            t, _ = ftlgen.render_entry(e, L)
            texts.append(t)
        cands = [i for i, e in enumerate(res2) if e[0] in ("msg", "term")]
        if not cands:
            continue
        i = rng.choice(cands)
        kind = rng.choice(KINDS)
        placement = rng.choice(PLACEMENTS)
        ident = res2[i][1]
        dmg = damaged_entry(ident, kind, placement, is_term=(res2[i][0] == "term"))
        if dmg is None:
            continue
        if L.eol == "\r\n":
            dmg = dmg.replace("\n", "\r\n")
        sep = L.eol
        # standalone comments need a blank line after them so they neither attach nor merge
        def join(ts):
            out = ""
            for j, t in enumerate(ts):
                out += t
                if j + 1 < len(ts):
                    out += sep
                    if res2[j][0] == "comment":
                        out += sep
            return out
        a = join(texts)
        tb = list(texts)
        tb[i] = dmg
        b = join(tb)
        meta = "%s:%s:%s" % (ident, kind, placement)
        yield "parse %s|%s|%s" % (hx(a), hx(b), hx("#META " + meta))


class C03(Base):
    ID = "C03"
    AREA = "parse"
    LEMMA_FILES = ["FluentProofs/ParserLoops.lean", "FluentProofs/ParserLines.lean", "FluentProofs/ParserBasics.lean", "FluentProofs/ParserHoareEntry.lean", "FluentProofs/ParserValid.lean", "FluentProofs/ParserValidLeaf.lean", "FluentProofs/ParserValidExpr.lean", "FluentProofs/ParserValidEntry.lean", "FluentProofs/ConstTieSyntax.lean", "FluentProofs/ParserLocalDefs.lean", "FluentProofs/ParserLocalLoop.lean", "FluentProofs/ParserLocalShiftLeaf.lean", "FluentProofs/ParserLocalShiftExpr.lean", "FluentProofs/ParserLocalShiftPat.lean", "FluentProofs/ParserLocalShiftEntry.lean", "FluentProofs/ParserLocalBarLeaf.lean", "FluentProofs/ParserLocalBarExpr.lean", "FluentProofs/ParserLocalBarEntry.lean", "FluentProofs/ParserLocalPreLeaf.lean", "FluentProofs/ParserLocalPreLeaf2.lean", "FluentProofs/ParserLocalPreExpr.lean", "FluentProofs/ParserLocalPreExpr2.lean", "FluentProofs/ParserLocalPreEntry.lean", "FluentProofs/ParserLocalPreLoop.lean", "FluentProofs/ParserLocalTop.lean"]
    RULE = ("the C01 generator mix (accounting clauses and the admission predicate recomputed on every output of both "
            "parsers) plus the damage generator: random well-formed resource x entry index x 34 violation kinds (the "
            "documented ones) x 7 placements (first line, continuation line, nested placeable, call argument, variant "
            "value, term value, attribute), original and damaged text parsed side by side. Non-trivial = the output has "
            ">=1 Junk AND >=1 admitted message/term, or it is a damage pair; distinct = distinct case line.")
    EXPLANATION = ("Theorems: errors and Junk correspond one-to-one in order with slice = Junk span (valid slice, ends at an "
                   "entry start or EOF, position clamped inside) for both entry loops; tie as C01; predicates evaluated on "
                   "the implementation: accounting, admitted entries satisfy the documented rules visible in the AST, "
                   "containment (all other messages/terms parse exactly as before; the damaged entry is not admitted).")

    def generate(self, rng, tier):
        n = 3000 if tier == "quick" else 150000
        for c in damage_cases(rng, n):
            yield c
        for c in parsefam.gen_mix(rng, tier):
            yield c

    def predicate(self, case, impl_obs):
        bad = super().predicate(case, impl_obs)
        if bad:
            return bad
        parts = case.split(" ", 1)[1].split("|")
        obs = impl_obs.split(" | ")
        if len(obs) != len(parts):
            return "observation count mismatch"
        parsed = []
        for h, o in zip(parts, obs):
            src = unhx(h)
            if src.startswith(b"#META "):
                parsed.append(None)
                continue
            po = sexp.parse_obs(o)
            if po is None:
                return "unparseable observation " + o[:80]
            for tree, errs, name in ((po["full"], po["full_errs"], "full"), (po["rt"], po["rt_errs"], "runtime")):
                why = accounting(src, tree, errs)
                if why:
                    return "%s parser: %s" % (name, why)
                why = admitted_valid(tree)
                if why:
                    return "%s parser: %s" % (name, why)
            parsed.append(po)
        if len(parts) == 3 and unhx(parts[2]).startswith(b"#META "):
            ident, kind, placement = unhx(parts[2])[6:].decode().split(":")
            idh = hx(ident)
            for which in ("full", "rt"):
                A = [e for e in parsed[0][which][1:] if e[0] in ("msg", "term")]
                B = [e for e in parsed[1][which][1:] if e[0] in ("msg", "term")]
                if any(e[0] == "junk" for e in parsed[0][which][1:]):
                    return "generator bug: original resource is not well-formed (%s)" % which
                Ao = [e for e in A if e[1] != idh]
                Bo = [e for e in B if e[1] != idh]
                if Ao != Bo:
                    return "%s parser: damaging entry %s (%s at %s) changed another message/term" % (which, ident, kind, placement)
                dm = [e for e in B if e[1] == idh]
                if placement == "attribute":
                    for e in dm:
                        names = [sexp.unhex(a[1]) for a in e[3][1:]]
                        if b"bad" in names or b"later" in names:
                            return "%s parser: broken attribute admitted (%s)" % (which, kind)
                elif dm:
                    return "%s parser: damaged entry %s (%s at %s) was admitted" % (which, ident, kind, placement)
        return None

    def nontrivial(self, case, impl_obs):
        return "|" in case or ("(junk" in impl_obs and ("(msg " in impl_obs or "(term " in impl_obs))

    def classify(self, case, impl_obs, dist):
        parts = case.split(" ", 1)[1].split("|")
        if len(parts) == 3:
            try:
                ident, kind, placement = unhx(parts[2])[6:].decode().split(":")
                bump(dist, "damage:" + kind)
                bump(dist, "placement:" + placement)
            except Exception:
                pass
        else:
            bump(dist, "junk-count:%d" % min(impl_obs.split(" R ")[0].count("(junk"), 5))

    def failure_class(self, case, impl_obs, why):
        return re.sub(r"[0-9]+|b'[^']*'|e\d+\S*", "#", why)[:70]

    def shrink(self, case, fails):
        if "|" in case:
            return case
        from .c01 import P as P1
        return P1.shrink(case, fails)

    def mutate(self, case, rng, n):
        if "|" in case:
            return []
        from .c01 import P as P1
        return P1.mutate(case, rng, n)


P = C03()
