"""Generators of FTL source text shared by the parser-family properties (C01-C05) and, as glue, by the
resolver-family ones.  Every random choice derives from the `rng` argument.

G1 corpus       : all .ftl files in /repo (fixtures, benches, test resources) + YAML resolver fixture sources
G2 unparser     : random well-formed ASTs rendered under random layouts (expected tree known by construction)
G3 mutation     : byte/char-level edits of G1/G2 with a multi-byte/CR/tab alphabet; every char-boundary prefix
G4 token soup   : concatenations of ~40 syntax tokens
G5 neighbourhood: (token) x (follower in {é, €, 😀, EOF, \\r, \\r\\n, tab}) x (context)
G6 depth        : deep placeable / call / select nesting
"""
import glob
import os
import re

REPO = "/repo"

TOKENS = ["#", "##", "###", "####", " ", "  ", "    ", "\n", "\r\n", "\r", "\t", "a", "b = c", "-t = v", "=", "{", "}",
          "\"", ".", ".at = v", "[", "]", "*", "->", "$v", "(", ")", ":", ",", "\\u00", "\\U0", "\\\\", "\\\"", "\\",
          "é", "😀", "€", "1", "-1", "1.5", "{ $x ->", "*[other]", "[one]", "FOO", "# c", "x", "-", "_", " ",
          "a =", "{\"", "\"}", "{ -t", "{ a.b }", "(x: 1)"]

FOLLOWERS = ["é", "€", "😀", "", "\r", "\r\n", "\t", "\n", " "]

_corpus_cache = None


def corpus_files():
    global _corpus_cache
    if _corpus_cache is not None:
        return _corpus_cache
    out = []
    pats = ["fluent-syntax/tests/fixtures/**/*.ftl", "fluent-syntax/benches/**/*.ftl", "fluent-bundle/benches/**/*.ftl",
            "fluent-bundle/tests/**/*.ftl", "fluent-fallback/tests/**/*.ftl", "fluent-resmgr/tests/**/*.ftl",
            "fluent-testing/resources/**/*.ftl", "fluent-bundle/examples/**/*.ftl", "fluent-resmgr/examples/**/*.ftl"]
    seen = set()
    for p in pats:
        for f in sorted(glob.glob(os.path.join(REPO, p), recursive=True)):
            try:
                b = open(f, "rb").read()
                b.decode("utf-8")
            except Exception:
                continue
            if b in seen:
                continue
            seen.add(b)
            out.append((os.path.relpath(f, REPO), b.decode("utf-8")))
    # FTL snippets embedded in the YAML resolver fixtures (block scalars after `source: |`)
    for f in sorted(glob.glob(os.path.join(REPO, "fluent-bundle/tests/fixtures/**/*.yaml"), recursive=True)):
        try:
            txt = open(f, encoding="utf-8").read()
        except Exception:
            continue
        for m in re.finditer(r"^(\s*)(?:-\s+)?source:\s*\|[-+]?\s*\n((?:\1\s+.*\n|\s*\n)+)", txt, re.M):
            block = m.group(2)
            lines = block.split("\n")
            ind = min((len(l) - len(l.lstrip(" ")) for l in lines if l.strip()), default=0)
            src = "\n".join(l[ind:] for l in lines)
            if src not in seen:
                seen.add(src)
                out.append((os.path.relpath(f, REPO) + "#src", src))
    _corpus_cache = out
    return out


def g1_corpus(max_len=None):
    for name, src in corpus_files():
        if max_len is None or len(src) <= max_len:
            yield src


def split_entries(src):
    """rough split of a corpus file into entry-sized chunks (for small cases)"""
    chunks = re.split(r"\n(?=[a-zA-Z#-])", src)
    return [c + "\n" for c in chunks if c.strip()]


# ----------------------------------------------------------------------------------------------
# G2: grammar-directed unparser.  AST nodes are tuples; `expected` trees use the same S-expression
# shape as the harness prints (built by sexp_* below).

IDENTS = ["a", "b", "msg", "foo-bar", "x_1", "Key", "m2", "long-identifier-name"]
VARS = ["x", "n", "user-name", "v1"]
FUNCS = ["FOO", "NUMBER", "F-1", "A_B"]
TEXT_WORDS = ["hello", "world", "x", "é", "日本", "😀", "a.b", "1 2", "\"q\"", "it's", "-dash", "#hash", "=eq", "tab\there",
              "[br", "*st", ".dot", "\\n", "$v", "(p)", ":", ","]
STR_CONTENTS = ["", "a", "é", "x y", "\\\\", "\\\"", "\\u0041", "\\U01F600", "{", "}", "{}", "  ", "#", "->", "😀",
                # lower-case and mixed-case hex digits, escapes next to each other and next to text
                "\\u00e9", "\\U01f602", "\\u00Ff", "\\uabcd", "\\U00aBcD", "a\\u00e9b", "\\u00e9\\u00E9",
                # four / six hex digits are all the GRAMMAR asks for: values that are no scalar value (surrogates, beyond
                # U+10FFFF) and U+0000 are well-formed literals (decoding them is the resolver's business)
                # an escaped backslash directly followed by an escaped quote (3 or 5 backslashes before a quote)
                "\\\\\\\"", "a\\\\\\\"b", "\\\\\\\\\\\"", "\\\"\\\\",
                "\\uD800", "\\udfff", "\\U110000", "\\UFFFFFF", "\\U00d800", "\\U10FFFF", "\\u0000", "\\U7fffff x"]
NUMS = ["0", "1", "-1", "1.5", "-0.0", "007", "12345678901234567890", "3.14159"]


class G2:
    def __init__(self, rng, depth=3, allow_select=True):
        self.r = rng
        self.depth = depth
        self.allow_select = allow_select
        # one dimension of the tree is occasionally LARGE (9..40 positional or named arguments, variants, elements on a
        # line, lines of a pattern, comment lines, attributes, entries): more than any small fixed-size buffer,
        # inline vector or bit mask holds.  Used once per generator so that nested structures do not explode.
        self.bigdim = rng.choice(["pos", "named", "variants", "els", "lines", "clines", "attrs", "entries"]) \
            if rng.random() < 0.05 else None

    def cnt(self, dim, small):
        if self.bigdim == dim:
            self.bigdim = None
            return self.r.choice([9, 10, 16, 17, 24, 33, 40])
        return small

    # ---- expressions: returns (text_renderer(layout)->str, sexp)
    def ident(self):
        return self.r.choice(IDENTS)

    def inline(self, d, in_args=False):
        r = self.r
        k = r.random()
        if d <= 0:
            k = k * 0.5
        if k < 0.15:
            s = r.choice(STR_CONTENTS)
            return ("str", s)
        if k < 0.27:
            return ("num", r.choice(NUMS))
        if k < 0.40:
            return ("var", r.choice(VARS))
        if k < 0.50:
            return ("msg", self.ident(), r.choice([None, None, self.ident()]))
        if k < 0.62:
            args = None
            if r.random() < 0.6:
                args = self.call_args(d - 1, term=True)
            # a term ATTRIBUTE may be referenced wherever the value is not written into a pattern: as a call argument
            # (positional or of a term call), not as a placeable of its own
            return ("term", self.ident(), self.ident() if (in_args and r.random() < 0.4) else None, args)
        if k < 0.80:
            return ("fn", r.choice(FUNCS), self.call_args(d - 1))
        return ("pl", self.expression(d - 1))

    def call_args(self, d, term=False):
        r = self.r
        pos = [self.inline(d, True) for _ in range(self.cnt("pos", r.choice([0, 0, 1, 1, 2, 3])))]
        # a bare message reference positional followed by ':' would read as a named argument: fine, we never emit ':' after it
        named = []
        nn = self.cnt("named", r.choice([0, 0, 1, 2]))
        names = r.sample(["x", "opt", "minimumFractionDigits", "type", "k-1"] + (["n%d" % i for i in range(40)] if nn > 5 else []), nn)
        for nme in names:
            if r.random() < 0.5:
                named.append((nme, ("str", r.choice(STR_CONTENTS))))
            else:
                named.append((nme, ("num", r.choice(NUMS))))
        return (pos, named)

    def expression(self, d):
        r = self.r
        if self.allow_select and d > 0 and r.random() < 0.3:
            k = r.random()
            if k < 0.4:
                sel = ("var", r.choice(VARS))
            elif k < 0.55:
                sel = ("num", r.choice(NUMS))
            elif k < 0.7:
                sel = ("str", r.choice(STR_CONTENTS))
            elif k < 0.85:
                sel = ("fn", r.choice(FUNCS), self.call_args(d - 1))
            else:
                sel = ("term", self.ident(), self.ident(), self.call_args(d - 1, True) if r.random() < 0.5 else None)
            n = self.cnt("variants", r.randint(1, 4))
            dflt = r.randrange(n)
            keys = r.sample(["one", "other", "few", "many", "zero", "two", "1", "0", "-1", "1.0", "a", "masculine"]
                            + (["k%d" % i for i in range(20)] + [str(i) for i in range(2, 22)] if n > 12 else []), n)
            variants = []
            for i in range(n):
                key = keys[i]
                variants.append((key, self.pattern(d - 1, in_variant=True), i == dflt))
            return ("sel", sel, variants)
        return ("inl", self.inline(d))

    # ---- patterns: a list of lines; each line = (rel_indent, [elements]); element = ("t", text) | ("p", expr)
    def text_chunk(self, first_on_line, block_line):
        r = self.r
        n = r.randint(1, 3)
        words = [r.choice(TEXT_WORDS) for _ in range(n)]
        s = " ".join(words)
        if first_on_line and block_line:
            # a continuation line may not start with [ * . (or } {)
            while s and s[0] in "[*.":
                s = s[1:]
            if not s:
                s = "w"
        return s

    def line(self, d, block_line, allow_placeable_first=True):
        r = self.r
        els = []
        n = self.cnt("els", r.randint(1, 3))
        for i in range(n):
            if r.random() < 0.35 and d > 0 and (i > 0 or allow_placeable_first):
                els.append(("p", self.expression(d - 1)))
            else:
                t = self.text_chunk(i == 0, block_line)
                if els and els[-1][0] == "t":
                    els[-1] = ("t", els[-1][1] + " " + t)
                else:
                    if i > 0 and r.random() < 0.5:
                        t = " " + t
                    els.append(("t", t))
        if r.random() < 0.15 and els[-1][0] == "t":
            els[-1] = ("t", els[-1][1] + " " * r.randint(1, 3))  # trailing spaces
        return els

    def pattern(self, d, in_variant=False):
        r = self.r
        nlines = self.cnt("lines", r.choice([1, 1, 1, 2, 2, 3, 4]))
        lines = []
        for i in range(nlines):
            rel = 0 if i == 0 else r.choice([0, 0, 0, 2, 4, 1])
            blank_before = 0 if i == 0 else r.choice([0, 0, 0, 1, 2])
            lines.append({"rel": rel, "blank_before": blank_before, "els": self.line(d, block_line=True)})
        # the first line may be inline (same line as '=') or start on the next line
        start_inline = r.random() < 0.6
        if nlines > 1 and not any(l["rel"] == 0 for l in (lines if not start_inline else lines[1:])):
            (lines if not start_inline else lines[1:])[0]["rel"] = 0
        if not start_inline and lines[0]["rel"] != 0 and nlines == 1:
            lines[0]["rel"] = 0
        return {"inline": start_inline, "lines": lines}

    # ---- entries
    def entry(self):
        r = self.r
        k = r.random()
        if k < 0.2:
            lvl = r.choice([1, 1, 2, 3])
            lines = [r.choice(["", "c", "comment é", " leading", "x  ", "#", "a = b", "cr\r", "a\rb"]) for _ in range(self.cnt("clines", r.randint(1, 3)))]
            return ("comment", lvl, lines)
        comment = None
        if r.random() < 0.25:
            comment = [r.choice(["c", "doc", "", "é 😀", "d\r"]) for _ in range(r.randint(1, 2))]
        attrs = [(self.r.choice(["at", "title", "aria-label", "x"]) + str(i), self.pattern(self.depth - 1)) for i in
                 range(self.cnt("attrs", r.choice([0, 0, 0, 1, 2])))]
        if k < 0.75:
            value = self.pattern(self.depth) if (r.random() < 0.9 or not attrs) else None
            return ("msg", self.ident() + str(r.randint(0, 99)), value, attrs, comment)
        return ("term", self.ident() + str(r.randint(0, 99)), self.pattern(self.depth), attrs, comment)

    def resource(self, n=None):
        r = self.r
        n = n or self.cnt("entries", r.randint(1, 6))
        return [self.entry() for _ in range(n)]


class Layout:
    """layout choices the grammar declares insignificant"""

    @property
    def eol(self):
        if self.mixed:
            return self.r.choice(["\n", "\r\n"])
        return self._eol

    def __init__(self, rng, plain=False):
        self.r = rng
        self.plain = plain
        self._eol = "\n" if plain or rng.random() < 0.8 else "\r\n"
        # MIXED line ends: every line break of the file picks LF or CRLF on its own (a comment block, a multi-line
        # pattern or a variant list whose lines do not end alike)
        self.mixed = (not plain) and rng.random() < 0.06
        self.base_indent = 4 if plain else rng.choice([1, 2, 4, 4, 7])
        self.final_newline = True if plain else rng.random() < 0.85

    def sp(self, lo=0, hi=2):
        if self.plain:
            return " " if lo == 0 and hi >= 1 else " " * lo
        return " " * self.r.randint(lo, hi)

    def keyblank(self):
        """blank between a variant key and its brackets"""
        if self.plain or self.r.random() < 0.85:
            return self.sp(0, 1)
        return self.r.choice([self.eol + "    ", self.eol + self.eol + "    ", " " + self.eol + " " + self.eol, self.eol])

    def blank(self):
        """`blank`: inline spaces and line ends (inside placeables, call arguments)"""
        if self.plain or self.r.random() < 0.7:
            return self.sp(0, 1)
        return self.r.choice([" ", self.eol + "  ", "  " + self.eol + " ", self.eol])


def hexs(s):
    b = s.encode("utf-8")
    return b.hex() if b else "-"


def render_inline(e, L, ind):
    k = e[0]
    if k == "str":
        return '"' + e[1] + '"', "(s %s)" % hexs(e[1])
    if k == "num":
        return e[1], "(n %s)" % hexs(e[1])
    if k == "var":
        return "$" + e[1], "(var %s)" % hexs(e[1])
    if k == "msg":
        t = e[1] + ("." + e[2] if e[2] else "")
        return t, "(m %s %s)" % (hexs(e[1]), hexs(e[2]) if e[2] else "~")
    if k == "term":
        t = "-" + e[1] + ("." + e[2] if e[2] else "")
        sx = "(tm %s %s " % (hexs(e[1]), hexs(e[2]) if e[2] else "~")
        if e[3] is not None:
            at, asx = render_args(e[3], L, ind)
            return t + at, sx + "(args " + asx + "))"
        return t, sx + "~)"
    if k == "fn":
        at, asx = render_args(e[2], L, ind)
        return e[1] + at, "(f %s %s)" % (hexs(e[1]), asx)
    if k == "pl":
        t, sx = render_expr(e[1], L, ind)
        return "{" + L.blank() + t + L.blank() + "}", "(pl %s)" % sx
    raise ValueError(k)


def render_args(a, L, ind):
    pos, named = a
    parts = []
    sp = []
    sn = []
    for p in pos:
        t, sx = render_inline(p, L, ind)
        parts.append(t)
        sp.append(" " + sx)
    for (n, v) in named:
        t, sx = render_inline(v, L, ind)
        parts.append(n + L.sp(0, 1) + ":" + L.sp(0, 1) + t)
        sn.append(" (na %s %s)" % (hexs(n), sx))
    sep = "," + (" " if L.plain else L.blank())
    txt = L.sp(0, 0 if L.plain else 1) + "(" + L.blank().replace(" ", "", 1 if L.plain else 0) + sep.join(parts)
    if parts and not L.plain and L.r.random() < 0.2:
        txt += ","   # trailing comma is allowed
    txt += L.sp(0, 0 if L.plain else 1) + ")"
    return txt, "(pos%s) (named%s)" % ("".join(sp), "".join(sn))


def render_expr(x, L, ind):
    if x[0] == "inl":
        return render_inline(x[1], L, ind)
    _, sel, variants = x
    st, ssx = render_inline(sel, L, ind)
    vind = ind + L.base_indent
    out = st + L.sp(1, 1) + "->" + L.sp(0, 1)
    sx = "(sel " + ssx
    for (key, pat, dflt) in variants:
        out += L.eol
        if not L.plain and L.r.random() < 0.15:
            out += L.eol
        is_num = re.fullmatch(r"-?[0-9]+(\.[0-9]+)?", key) is not None
        # `[` blank? key blank? `]`: blank is any run of spaces AND line ends (also empty lines)
        out += " " * vind + ("*" if dflt else "") + "[" + L.keyblank() + key + L.keyblank() + "]"
        pt, psx = render_pattern(pat, L, vind + L.base_indent, after_eq=False)
        out += pt
        sx += " (v %s (%s %s) %s)" % ("1" if dflt else "0", "kn" if is_num else "ki", hexs(key), psx)
    out += L.eol + " " * ind
    return out, sx + ")"


def render_pattern(pat, L, ind, after_eq=True):
    """returns (text following '=' or ']', sexp of the expected pattern)"""
    lines = pat["lines"]
    out = ""
    # expected value is built as a list of elements with adjacent text joined
    exp = []   # list of ("t", str) | ("p", sexp)

    def add_text(t):
        if not t:
            return
        if exp and exp[-1][0] == "t":
            exp[-1] = ("t", exp[-1][1] + t)
        else:
            exp.append(("t", t))

    for i, ln in enumerate(lines):
        if i == 0 and pat["inline"]:
            out += L.sp(1, 3) if not L.plain else " "
        else:
            # line break(s) then indentation
            nblank = ln["blank_before"] if i > 0 else (0 if L.plain else L.r.choice([0, 0, 1]))
            out += L.eol
            for _ in range(nblank):
                out += (" " * L.r.choice([0, 0, ind, ind + 3]) if not L.plain else "") + L.eol
            out += " " * (ind + ln["rel"])
            if i > 0:
                add_text("\n" * (1 + ln["blank_before"]))
            add_text(" " * ln["rel"])
        for el in ln["els"]:
            if el[0] == "t":
                out += el[1]
                add_text(el[1])
            else:
                t, sx = render_expr(el[1], L, ind)
                out += "{" + L.blank() + t + L.blank() + "}"
                exp.append(("p", sx))
    # trim: leading blank lines never appear (we add none before the first line); trailing spaces of last text
    if exp and exp[-1][0] == "t":
        t = exp[-1][1].rstrip(" ")
        if t:
            exp[-1] = ("t", t)
        else:
            exp.pop()
    sx = "(pat" + "".join(" (t %s)" % hexs(e[1]) if e[0] == "t" else " (p %s)" % e[1] for e in exp) + ")"
    return out, sx


def ceol(line, L):
    """line end of a comment line: a line whose content ENDS in a lone CR must be followed by CRLF (before a bare LF the CR
    would be part of the line end)"""
    return "\r\n" if line.endswith("\r") else L.eol


def render_entry(e, L):
    k = e[0]
    if k == "comment":
        _, lvl, lines = e
        txt = "".join("#" * lvl + (" " + l if l else "") + ceol(l, L) for l in lines)
        tag = {1: "c", 2: "gc", 3: "rc"}[lvl]
        return txt, "(%s%s)" % (tag, "".join(" " + hexs(l) for l in lines))
    _, ident, value, attrs, comment = e
    txt = ""
    csx = "~"
    if comment is not None:
        txt += "".join("#" + (" " + l if l else "") + ceol(l, L) for l in comment)
        csx = "(c%s)" % "".join(" " + hexs(l) for l in comment)
    txt += ("-" if k == "term" else "") + ident + L.sp(0, 2) + "="
    vsx = "~"
    ind = L.base_indent
    if value is not None:
        vt, vsx = render_pattern(value, L, ind)
        txt += vt
    asx = ""
    for (an, ap) in attrs:
        txt += L.eol
        if not L.plain and L.r.random() < 0.1:
            txt += L.eol
        txt += " " * ind + "." + an + L.sp(0, 2) + "="
        at, apsx = render_pattern(ap, L, ind + L.base_indent)
        txt += at
        asx += " (a %s %s)" % (hexs(an), apsx)
    txt += L.eol
    return txt, "(%s %s %s (attrs%s) %s)" % ("msg" if k == "msg" else "term", hexs(ident), vsx, asx, csx)


def render_resource(res, L):
    """returns (source text, expected S-expression).  Comments are separated from what follows by a blank
    line unless they are an attached message comment (those are part of the entry)."""
    out = ""
    sx = []
    for i, e in enumerate(res):
        t, s = render_entry(e, L)
        out += t
        sx.append(s)
        if i + 1 < len(res):
            # standalone comments must not merge with a following comment of the same level or attach
            need_blank = e[0] == "comment"
            nb = (1 if need_blank else 0) if L.plain else L.r.choice([1, 1, 2, 3] if need_blank else [0, 0, 1, 2])
            if e[0] == "comment" and e[1] == 1 and res[i + 1][0] != "comment":
                nb = max(nb, 2)   # a '#' comment attaches unless two blank lines... (one blank line is enough per grammar)
            for _ in range(nb):
                # a blank line may carry spaces (still a blank line: comments must not attach across it)
                out += ("" if L.plain else " " * L.r.choice([0, 0, 0, 1, 3])) + L.eol
    if not L.final_newline and out.endswith("\n") and not (res and res[-1][0] == "comment" and res[-1][2][-1] == ""):
        out = out[:-2] if out.endswith("\r\n") else out[:-1]
    return out, "(res%s)" % "".join(" " + s for s in sx)


def g2_case(rng, depth=3, nlayouts=1, plain_first=True):
    """one random AST, `nlayouts` renderings: yields (source, expected_sexp)"""
    g = G2(rng, depth=depth)
    res = g.resource()
    for i in range(nlayouts):
        L = Layout(rng, plain=(plain_first and i == 0))
        yield render_resource(res, L)


# ----------------------------------------------------------------------------------------------
# G3: mutation

MUT_ALPHABET = ["é", "€", "😀", "\r", "\r\n", "\t", "{", "}", "\"", "\\", "\n", " ", "#", "-", ".", "[", "*", "=", "(", ")",
                "\\u", "\\U", "$", ":", ",", "->", "a", "0", "\ufeff"]


def g3_mutate(rng, src, n=1):
    chars = list(src)
    for _ in range(n):
        k = rng.random()
        i = rng.randrange(len(chars) + 1)
        if k < 0.4:
            chars.insert(i, rng.choice(MUT_ALPHABET))
        elif k < 0.7 and chars:
            del chars[min(i, len(chars) - 1)]
        elif k < 0.9 and chars:
            chars[min(i, len(chars) - 1)] = rng.choice(MUT_ALPHABET)
        elif chars:
            j = rng.randrange(len(chars) + 1)
            a, b = min(i, j), max(i, j)
            seg = chars[a:b]
            chars[i:i] = seg[:8]
    return "".join(chars)


def g3_prefixes(src):
    """every char-boundary prefix"""
    for i in range(len(src) + 1):
        yield src[:i]


# ----------------------------------------------------------------------------------------------
# G7: width - very many ITEMS of one kind next to each other (a loop written as recursion, a counter of a narrow
# type, quadratic behaviour show up only at such sizes); judged on the implementation only

def g7_wide(n=400000):
    yield "# c\n" * n
    yield ("#\n##\n### x\n# y\n") * (n // 4)
    yield "\n" * n + "k = v\n"
    yield "# c\n" * (n // 2) + "k = v\n" + "# d\n" * (n // 2)
    yield "".join("k%d = v\n" % i for i in range(n // 8))
    yield "k = v\n" + "".join("    .a%d = w\n" % i for i in range(n // 8))
    yield "k =\n" + "    line\n" * (n // 4)
    yield "k = " + "{\"a\"}" * (n // 8) + "\n"
    yield "k = { $x ->\n" + "".join("    [v%d] w\n" % i for i in range(n // 8)) + "   *[o] z\n    }\n"
    yield "k = { F(" + ", ".join(["1"] * (n // 8)) + ") }\n"
    yield "junk line\n" * (n // 8)


# ----------------------------------------------------------------------------------------------
# G4: token soup

def g4_soup(rng, maxlen=14):
    n = rng.randint(1, maxlen)
    return "".join(rng.choice(TOKENS) for _ in range(n))


def g4_exhaustive(tokens, length):
    import itertools
    for t in itertools.product(tokens, repeat=length):
        yield "".join(t)


# ----------------------------------------------------------------------------------------------
# G5: token x follower x context

CONTEXTS = [
    ("top", "%s"),
    ("ident", "ab%s = v\n"),
    ("text", "a = text %s more\n"),
    ("text2", "a =\n    l1\n    %s l2\n"),
    ("placeable", "a = { %s }\n"),
    ("string", "a = { \"x%s\" }\n"),
    ("call", "a = { FOO(%s) }\n"),
    ("named", "a = { FOO(x: %s) }\n"),
    ("variantkey", "a = { $x ->\n  [%s] v\n *[o] w\n }\n"),
    ("variantval", "a = { $x ->\n  *[o] %s\n }\n"),
    ("comment", "# c %s\nx = y\n"),
    ("attr", "a = v\n    .%s = w\n"),
    ("term", "-t%s = v\n"),
    ("after", "a = v\n%s"),
]


def g5_neighbourhood():
    for tok in TOKENS:
        for fol in FOLLOWERS:
            for name, ctx in CONTEXTS:
                yield ctx.replace("%s", tok + fol)
                if fol == "":
                    # truncated at EOF right after the token
                    i = ctx.index("%s")
                    yield ctx[:i] + tok


# ----------------------------------------------------------------------------------------------
# G6: depth

def g6_depth(n):
    yield "a = " + "{" * n + " x " + "}" * n + "\n"
    yield "a = " + "{ FOO(" * n + "1" + ") }" * n + "\n"
    yield "a = " + "{ -t(" * min(n, 10 ** 9) + "1" + ") }" * n + "\n"
    yield "a = " + "{ $x ->\n *[o] " * n + "v" + "\n }" * n + "\n"
    yield "a = " + "{" * n
