"""Core of the /verif check runner (python3 stdlib only).

check(Cxx, tier):
  S0 extract constants from /repo source -> lean/FluentModel/Generated.lean
  S1 lake build FluentProofs.Props.Cxx + the model driver       (proof obligations)
  S2 audit: no sorry/admit/axiom/native_decide...; `#print axioms` of every property theorem
  S3 cargo build the harness against /repo's working tree
  S4 corpus + generated cases -> implementation observations, model observations
       (a) property predicate on the implementation   -> F
       (b) implementation-vs-model diff               -> D
  S5 shrink, attribute to known findings, failing-input search, VIOLATION lines
  S6 evidence
"""
import hashlib
import json
import os
import random
import re
import subprocess
import sys
import time

VERIF = os.path.dirname(os.path.dirname(os.path.dirname(os.path.abspath(__file__))))
LEAN = os.path.join(VERIF, "lean")
HARNESS = os.path.join(VERIF, "harness")
WORK = os.path.join(VERIF, ".work")


def fvh_bin(area):
    return os.path.join(HARNESS, "target", "debug", "fvh_" + area)


def fvm_bin(area):
    return os.path.join(LEAN, ".lake", "build", "bin", "fvm_" + area)

ALLOWED_AXIOMS = {"propext", "Classical.choice", "Quot.sound"}
NCPU = os.cpu_count() or 4

TRUSTED_BASE = [
    "Lean 4.33.0 kernel (leanchecker re-check in thorough tier)",
    "axioms allowed: propext, Classical.choice, Quot.sound (audited with #print axioms on every run)",
    "statement of the property theorems in lean/FluentProofs/Props/<id>.lean",
    "hand-written executable model lean/FluentModel/* tied to /repo by differential execution "
    "(harness/ with path dependencies on /repo, tools/fv generators, canonicalisation)",
    "tools/extract_consts.py (constants/tables re-extracted from /repo source on every run)",
    "Rust std, rustc, and the external crates named in DESIGN.md section 9 are modelled by contract, not verified",
]


def hx(s):
    """str/bytes -> protocol hex token"""
    if isinstance(s, str):
        s = s.encode("utf-8")
    return s.hex() if s else "-"


def unhx(t):
    return b"" if t == "-" else bytes.fromhex(t)


def sh(cmd, cwd=None, timeout=None, env=None):
    e = dict(os.environ)
    e["CARGO_NET_OFFLINE"] = "true"
    if env:
        e.update(env)
    p = subprocess.run(cmd, cwd=cwd, shell=isinstance(cmd, str), stdout=subprocess.PIPE,
                       stderr=subprocess.STDOUT, timeout=timeout, env=e)
    return p.returncode, p.stdout.decode("utf-8", "replace")


# ---------------------------------------------------------------------------------------------
# S0-S3: builds and audit

def extract_consts():
    rc, out = sh([sys.executable, os.path.join(VERIF, "tools", "extract_consts.py")], cwd=VERIF)
    return rc == 0, out


def lake_build(targets):
    rc, out = sh(["lake", "build"] + targets, cwd=LEAN, timeout=3600)
    return rc == 0, out


def theorem_names(lean_file):
    """(namespace-qualified) names of the theorems declared in a Props file"""
    src = open(lean_file, encoding="utf-8").read()
    src_nc = strip_lean_comments(src)
    ns = []
    names = []
    for line in src_nc.splitlines():
        m = re.match(r"\s*namespace\s+(\S+)", line)
        if m:
            ns.append(m.group(1))
            continue
        m = re.match(r"\s*end\s+(\S+)", line)
        if m and ns and ns[-1] == m.group(1):
            ns.pop()
            continue
        m = re.match(r"\s*(?:@\[[^\]]*\]\s*)?(?:private\s+|protected\s+)?theorem\s+(\S+)", line)
        if m:
            names.append(".".join(ns + [m.group(1)]))
    return names


def strip_lean_comments(src):
    out = []
    i = 0
    depth = 0
    n = len(src)
    while i < n:
        if src.startswith("/-", i):
            depth += 1
            i += 2
        elif depth and src.startswith("-/", i):
            depth -= 1
            i += 2
        elif depth:
            if src[i] == "\n":
                out.append("\n")
            i += 1
        elif src.startswith("--", i):
            while i < n and src[i] != "\n":
                i += 1
        elif src[i] == '"':
            j = i + 1
            while j < n and src[j] != '"':
                j += 2 if src[j] == "\\" else 1
            out.append('""')
            i = j + 1
        else:
            out.append(src[i])
            i += 1
    return "".join(out)


FORBIDDEN = re.compile(r"\b(sorry|admit|native_decide|bv_decide|implemented_by|unsafe)\b|^\s*axiom\s|maxHeartbeats\s+0\b",
                       re.M)


def import_closure(module):
    """Lean files under lean/ that `module` imports, transitively (modules outside lean/ are toolchain)"""
    seen = {}
    todo = [module]
    while todo:
        m = todo.pop()
        if m in seen:
            continue
        f = os.path.join(LEAN, *m.split(".")) + ".lean"
        if not os.path.exists(f):
            continue
        seen[m] = f
        for line in open(f, encoding="utf-8"):
            mm = re.match(r"\s*(?:public\s+)?import\s+(\S+)", line)
            if mm:
                todo.append(mm.group(1))
    return seen


def source_audit(modules):
    """no sorry/admit/axiom/native_decide/... in any Lean source the property's theorems and the model
    driver depend on (comments and strings stripped)"""
    bad = []
    files = {}
    for m in modules:
        files.update(import_closure(m))
    for m, p in sorted(files.items()):
        s = strip_lean_comments(open(p, encoding="utf-8").read())
        for mm in FORBIDDEN.finditer(s):
            bad.append("%s: %s" % (os.path.relpath(p, VERIF), mm.group(0).strip()))
    return bad, sorted(files)


def axiom_audit(prop_id, module, names):
    """#print axioms for every property theorem; returns {name: [axioms]} and raw output"""
    os.makedirs(WORK, exist_ok=True)
    f = os.path.join(WORK, "Audit_%s.lean" % prop_id)
    with open(f, "w") as fh:
        for m in ([module] if isinstance(module, str) else module):
            fh.write("import %s\n" % m)
        for n in names:
            fh.write("#print axioms %s\n" % n)
    rc, out = sh(["lake", "env", "lean", f], cwd=LEAN, timeout=1800)
    res = {}
    # output: "'name' depends on axioms: [a, b]" or "'name' does not depend on any axioms"
    for m in re.finditer(r"'([^']+)' depends on axioms: \[([^\]]*)\]", out, re.S):
        res[m.group(1)] = [a.strip() for a in m.group(2).replace("\n", " ").split(",") if a.strip()]
    for m in re.finditer(r"'([^']+)' does not depend on any axioms", out):
        res[m.group(1)] = []
    return rc == 0, res, out


def cargo_build(area):
    # only this area's binary: an API change that breaks another area's harness must not break this tie
    rc, out = sh(["cargo", "build", "--offline", "--bin", "fvh_" + area], cwd=HARNESS, timeout=3600)
    return rc == 0, out


# ---------------------------------------------------------------------------------------------
# S4: running the two sides

MAX_FATAL = 12
MAX_TIMEOUTS_TOTAL = 8   # hangs are expensive (stall_s each): after this many in one check, stop exploring
# hang budget per SIDE (implementation / model): after this many hangs the rest of that side's streams is not run.
# The sides must not share the counter: a hanging implementation would otherwise silence the model stream, and a
# case whose model observation is missing would be dropped instead of being judged by the predicate.
_timeouts_seen = {"impl": 0, "model": 0}


def _run_stream(binary, lines, tag, stall_s=10.0):
    """Feed `lines` to `binary`; returns one observation per line.  A crash or a hang is attributed
    to the first case without an output line (the harness flushes after every case).  A hang is
    detected by lack of progress: no new output line for `stall_s` seconds."""
    os.makedirs(WORK, exist_ok=True)
    obs = []
    start = 0
    n = len(lines)
    fatal = 0
    while start < n:
        side = "model" if tag.startswith("model") else "impl"
        if fatal >= MAX_FATAL or _timeouts_seen[side] >= MAX_TIMEOUTS_TOTAL:
            obs.extend(["SKIPPED-AFTER-FATAL"] * (n - start))
            break
        chunk = lines[start:]
        inp = os.path.join(WORK, "in_%s_%d" % (tag, os.getpid()))
        outp = os.path.join(WORK, "out_%s_%d" % (tag, os.getpid()))
        with open(inp, "w", encoding="utf-8") as fh:
            fh.write("\n".join(chunk) + "\n")
        status = "ok"
        with open(inp, "rb") as fi, open(outp, "wb") as fo:
            p = subprocess.Popen([binary], stdin=fi, stdout=fo, stderr=subprocess.DEVNULL)
            last_size = -1
            last_change = time.time()
            while True:
                try:
                    p.wait(timeout=0.5)
                    break
                except subprocess.TimeoutExpired:
                    pass
                try:
                    sz = os.path.getsize(outp)
                except OSError:
                    sz = 0
                now = time.time()
                if sz != last_size:
                    last_size = sz
                    last_change = now
                elif now - last_change > stall_s:
                    p.kill()
                    p.wait()
                    status = "TIMEOUT"
                    _timeouts_seen[side] += 1
                    break
        got = open(outp, encoding="utf-8", errors="replace").read().split("\n")
        if got and got[-1] == "":
            got.pop()
        elif got and status != "ok":
            got.pop()     # a partial last line of a killed process
        complete = got[:len(chunk)]
        if status == "ok" and p.returncode == 0 and len(complete) == len(chunk):
            obs.extend(complete)
            start = n
        else:
            k = len(complete)
            if status != "TIMEOUT" and p.returncode == 0 and k < len(chunk):
                status = "SHORT-OUTPUT"
            elif status != "TIMEOUT":
                status = "ABORT rc=%s" % p.returncode
            if k >= len(chunk):
                obs.extend(complete)
                start = n
            else:
                obs.extend(complete[:k])
                obs.append(status)
                start += k + 1
                fatal += 1
        for f in (inp, outp):
            try:
                os.remove(f)
            except OSError:
                pass
    return obs


def run_sharded(binary, lines, tag, shards=None, **kw):
    from concurrent.futures import ThreadPoolExecutor
    if shards is None:
        shards = 1 if len(lines) < 2000 else min(NCPU, max(1, len(lines) // 1000))
    if shards <= 1:
        return _run_stream(binary, lines, tag, **kw)
    size = (len(lines) + shards - 1) // shards
    parts = [lines[i:i + size] for i in range(0, len(lines), size)]
    with ThreadPoolExecutor(max_workers=shards) as ex:
        futs = [ex.submit(_run_stream, binary, part, "%s%d" % (tag, i), **kw) for i, part in enumerate(parts)]
        out = []
        for f in futs:
            out.extend(f.result())
    return out


def run_impl(area, lines, **kw):
    return run_sharded(fvh_bin(area), lines, "impl_" + area, **kw)


def run_model(area, lines, **kw):
    return run_sharded(fvm_bin(area), lines, "model_" + area, **kw)


# ---------------------------------------------------------------------------------------------
# shrinking (ddmin over a list of pieces)

def ddmin(pieces, fails, max_rounds=200):
    """classic ddmin; `fails(list_of_candidate_piece_lists) -> list[bool]` is batched"""
    n = 2
    rounds = 0
    # bounded effort: at most ~4000 candidate evaluations and ~400 MB of candidate text per shrink (a failing case of
    # several hundred kilobytes must not turn the report into an hour of shrinking)
    evals = 0
    volume = 0
    while len(pieces) >= 2 and rounds < max_rounds and evals < 4000 and volume < 400_000_000:
        rounds += 1
        size = max(1, len(pieces) // n)
        subsets = [pieces[i:i + size] for i in range(0, len(pieces), size)]
        cands = []
        for i in range(len(subsets)):
            comp = [x for j, s in enumerate(subsets) if j != i for x in s]
            cands.append(comp)
        cands = [c for c in cands if c]
        evals += len(cands)
        volume += sum(sum(len(x) if hasattr(x, "__len__") else 1 for x in c) for c in cands[:1]) * len(cands)
        res = fails(cands) if cands else []
        hit = None
        for c, r in zip(cands, res):
            if r:
                hit = c
                break
        if hit is not None:
            pieces = hit
            n = max(n - 1, 2)
        else:
            if n >= len(pieces):
                break
            n = min(len(pieces), n * 2)
    return pieces


# ---------------------------------------------------------------------------------------------
# known findings

def load_known():
    p = os.path.join(VERIF, "known_findings.json")
    if not os.path.exists(p):
        return []
    return json.load(open(p))


# ---------------------------------------------------------------------------------------------
# the generic check driver

class Result:
    def __init__(self):
        self.violations = []     # (replay_path, summary, no_input_found)
        self.known = []
        self.notes = []


def write_replay(prop_id, payload):
    os.makedirs(os.path.join(VERIF, "replays"), exist_ok=True)
    h = hashlib.sha1(json.dumps(payload, sort_keys=True).encode()).hexdigest()[:12]
    path = os.path.join(VERIF, "replays", "%s-%s.json" % (prop_id, h))
    with open(path, "w") as fh:
        json.dump(payload, fh, indent=1)
    return os.path.relpath(path, VERIF)


def run_check(P, tier, seed, replay=None):
    """P: property module (see tools/fv/props/*.py)"""
    t0 = time.time()
    pid = P.ID
    res = Result()
    ev_cov = {}
    proof_broken = []
    tie_broken = []
    log = []

    def say(*a):
        print(*a, flush=True)

    # S0
    ok, out = extract_consts()
    if not ok:
        tie_broken.append("extract_consts failed: " + out[-2000:])
    # S1
    module = "FluentProofs.Props.%s" % pid
    # further theorem modules audited with this property (e.g. composition theorems that import it)
    extra_modules = list(getattr(P, "EXTRA_MODULES", []))
    ok_proof, out = lake_build([module] + extra_modules)
    if not ok_proof:
        errs = re.findall(r"error: ([^\n]*)", out)
        proof_broken.append("lake build %s failed: %s" % (module, "; ".join(errs[:8])))
    ok_exe, out2 = lake_build(["fvm_" + P.AREA])
    if not ok_exe:
        errs = re.findall(r"error: ([^\n]*)", out2)
        tie_broken.append("model driver does not build: " + "; ".join(errs[:8]))
    # S2
    names = theorem_names(os.path.join(LEAN, "FluentProofs", "Props", "%s.lean" % pid))
    for em in extra_modules:
        names += theorem_names(os.path.join(LEAN, *em.split(".")) + ".lean")
    lemma_count = 0
    for lm in getattr(P, "LEMMA_FILES", []):
        lemma_count += len(theorem_names(os.path.join(LEAN, lm)))
    area_main = "Main." + P.AREA[0].upper() + P.AREA[1:]
    bad_src, audited = source_audit([module, area_main] + extra_modules)
    if bad_src:
        proof_broken.append("forbidden construct in Lean sources: " + "; ".join(bad_src[:10]))
    discharged = 0
    axioms = {}
    if ok_proof:
        ok_a, axioms, aout = axiom_audit(pid, [module] + extra_modules, names)
        for n in names:
            if n in axioms and set(axioms[n]) <= ALLOWED_AXIOMS:
                discharged += 1
            else:
                proof_broken.append("axiom audit: %s -> %s" % (n, axioms.get(n, "not found")))
    # S3
    ok_h, hout = cargo_build(P.AREA)
    if not ok_h:
        errs = re.findall(r"error[^\n]*\n[^\n]*", hout)
        tie_broken.append("harness does not build against /repo: " + " | ".join(errs[:5]))

    evaluations = 0
    nontrivial = set()
    samples = []
    dist = {}
    F = []   # (case, impl_obs, why)
    D = []   # (case, impl_obs, model_obs)
    impl_only = not ok_exe
    skipped = [0]
    model_unavailable = [0]

    def evaluate(cases):
        """run both sides, return list of (case, impl, model, pred_failure|None, disagree:bool)"""
        io = run_impl(P.AREA, cases) if ok_h else ["NO-HARNESS"] * len(cases)
        mo = run_model(P.AREA, cases) if ok_exe else [None] * len(cases)
        out = []
        for c, i, m in zip(cases, io, mo):
            if i == "SKIPPED-AFTER-FATAL":
                out.append((c, i, m, None, False))
                continue
            if m == "SKIPPED-AFTER-FATAL":
                m = None          # no model observation for this case: the predicate alone judges it
            elif m is not None and (m.startswith("TIMEOUT") or m.startswith("ABORT rc=") or m == "SHORT-OUTPUT"):
                # the MODEL executable hung or crashed on this case: that says nothing about /repo (no change of the
                # code can influence it); the case is judged by the predicate alone and counted, and a check whose
                # model fails on more than a handful of cases reports a broken correspondence below
                model_unavailable[0] += 1
                m = None
            try:
                why = P.predicate(c, i)
                if not why and m is not None:
                    # optional second predicate that may also look at what the model side printed (e.g. the
                    # verdict of an executable specification that only exists in Lean)
                    why = P.predicate2(c, i, m)
            except Exception as exc:       # noqa: BLE001
                # an observation the oracle cannot even read (never happens on the unchanged tree: every generated case is
                # read there on every run): the implementation produced something outside the observation format
                why = "the implementation's observation cannot be interpreted by the property predicate (%s: %s): %s" % (
                    type(exc).__name__, str(exc)[:80], str(i)[:120])
            dis = False
            if m is not None and P.model_skips(c, m):
                skipped[0] += 1
            if m is not None and not P.model_skips(c, m):
                dis = P.project(c, i) != P.project(c, m)
            out.append((c, i, m, why, dis))
        return out

    if ok_h:
        if replay:
            rp = json.load(open(replay))
            cases = rp.get("cases", [])
        else:
            rng = random.Random(seed)
            cases = list(P.corpus()) + list(P.generate(rng, tier))
        results = evaluate(cases)
        evaluations += len(results)
        for (c, i, m, why, dis) in results:
            try:
                P.classify(c, i, dist)        # statistics only: an observation it cannot read (PANIC …) is not its business
            except Exception:
                bump_unreadable = dist.setdefault("unreadable-observations", 0)
                dist["unreadable-observations"] = bump_unreadable + 1
            try:
                if P.nontrivial(c, i):
                    nontrivial.add(c)
            except Exception:          # noqa: BLE001  (statistics only)
                pass
            if why:
                F.append((c, i, why))
            elif dis:
                D.append((c, i, m))
        for c, i, m, _, _ in results[:: max(1, len(results) // 5)][:5]:
            samples.append({"case": c[:400], "impl": (i or "")[:400], "model": (m or "")[:400] if m else None})

        # failing-input search when a proof or the tie is broken and no predicate failure is known yet
        if (D or proof_broken or tie_broken) and not F and not replay:
            rng2 = random.Random(seed ^ 0x5EED)
            extra = []
            for (c, _, _) in D[:50]:
                extra.extend(P.mutate(c, rng2, 40))
            budget = getattr(P, "SEARCH_FACTOR", 10)
            for k in range(budget):
                extra.extend(P.generate(random.Random(seed * 1000003 + k + 1), tier))
            r2 = evaluate(extra)
            evaluations += len(r2)
            for (c, i, m, why, dis) in r2:
                if why:
                    F.append((c, i, why))
                elif dis:
                    D.append((c, i, m))

    if model_unavailable[0] > max(20, evaluations // 100):
        tie_broken.append("the model executable hung or crashed on %d of %d cases" % (model_unavailable[0], evaluations))

    # S5
    known = [k for k in load_known() if k.get("property") == pid and k.get("status") == "known"]
    reported = set()

    def fails_pred(cands):
        rs = evaluate(cands)
        return [bool(r[3]) for r in rs]

    def differs(cands):
        rs = evaluate(cands)
        return [bool(r[4]) for r in rs]

    # group failures by "why" class so that each distinct kind is shrunk and reported once
    by_class = {}
    for (c, i, why) in F:
        by_class.setdefault(P.failure_class(c, i, why), []).append((c, i, why))
    for cls, items in sorted(by_class.items())[:6]:
        # a listed finding suppresses only the failures it explains: walk the class from the shortest case and report
        # the first failure that no listed finding matches (another violation must not hide behind a known one that
        # happens to fall into the same class)
        reported_here = False
        seen_known = set()
        for (c, i, why) in sorted(items, key=lambda t: len(t[0]))[:12]:
            # a hang costs `stall_s` per attempt: report the shortest hanging case as it is
            small = c if str(i).startswith("TIMEOUT") else P.shrink(c, fails_pred)
            r = (c, i, None, why, False) if str(i).startswith("TIMEOUT") else evaluate([small])[0]
            # the matchers judge SHRUNK cases (their signatures are written for minimal inputs); the walk over the class
            # is what keeps an unexplained failure from hiding behind explained ones
            P.current_model_obs = r[2]
            kf = next((k for k in known if P.matches_known(k, small, r[1], r[3] or why)), None)
            P.current_model_obs = None
            unexplained = "shrunk case"
            if kf is not None:
                if kf["id"] not in seen_known:
                    seen_known.add(kf["id"])
                    say("KNOWN-FINDING: property=%s %s [%s]" % (pid, kf["what"], kf["id"]))
                    res.known.append(kf["id"])
                continue
            path = write_replay(pid, {"property": pid, "kind": "property-predicate-fails-on-implementation",
                                      "why": r[3] or why, "cases": [small], "impl_observation": r[1],
                                      "model_observation": r[2], "original_case": c, "count_in_class": len(items)})
            say("VIOLATION property=%s replay=%s" % (pid, path))
            say("  implementation fails the property: %s" % (r[3] or why))
            if known:
                say("  (the %s is not explained by a listed finding)" % unexplained)
            res.violations.append(path)
            reported_here = True
            break

    if not res.violations and (D or proof_broken or tie_broken):
        # a known finding may also explain model-vs-impl disagreement (model describes intended behaviour)
        Dleft = []
        for (c, i, m) in D:
            P.current_model_obs = m
            hit = any(P.matches_known(k, c, i, "disagreement") for k in known)
            P.current_model_obs = None
            if hit:
                continue
            Dleft.append((c, i, m))
        if Dleft or proof_broken or tie_broken:
            payload = {"property": pid, "kind": "proof-or-correspondence-broken",
                       "proof_broken": proof_broken, "tie_broken": tie_broken, "cases": []}
            if Dleft:
                c, i, m = min(Dleft, key=lambda t: len(t[0]))
                small = P.shrink(c, differs)
                r = evaluate([small])[0]
                payload["correspondence_stream"] = "area %s: implementation (fvh) vs model (fvmodel)" % P.AREA
                payload["cases"] = [small]
                payload["impl_observation"] = r[1]
                payload["model_observation"] = r[2]
                payload["disagreeing_cases"] = len(Dleft)
            path = write_replay(pid, payload)
            say("VIOLATION property=%s replay=%s no-failing-input-found" % (pid, path))
            for x in proof_broken + tie_broken:
                say("  " + x[:500])
            if Dleft:
                say("  model and implementation disagree on %d case(s); minimal: %s" % (len(Dleft), payload["cases"][0][:300]))
            res.violations.append(path)

    # S6 evidence
    wall = time.time() - t0
    cov = {
        "obligations": len(names),
        "discharged": discharged,
        "lemmas_in_support": lemma_count,
        "theorems": names,
        "axioms_used": sorted({a for n in names for a in axioms.get(n, [])}),
        "lean_modules_audited": audited,
        "constants_not_reextracted": (json.load(open(os.path.join(LEAN, "FluentModel", "Generated.notes.json")))
                                      if os.path.exists(os.path.join(LEAN, "FluentModel", "Generated.notes.json")) else []),
        "checker_cmd": "cd lean && lake build %s && lake env lean .work/Audit_%s.lean (#print axioms)" % (module, pid),
        "trusted_base": TRUSTED_BASE + list(getattr(P, "TRUSTED", [])),
        "evaluations": evaluations,
        "distinct_nontrivial": len(nontrivial),
        "rule": P.RULE,
        "samples": samples,
        "disagreements_checked": evaluations,
        "model_vs_impl_disagreements": len(D),
        "cases_outside_model_domain": skipped[0],
        "cases_where_the_model_executable_failed": model_unavailable[0],
        "impl_property_failures": len(F),
        "known_findings_seen": res.known,
        "input_distribution": dist,
        "explanation": P.EXPLANATION,
    }
    if tier == "thorough" and ok_proof and not replay:
        rc, out = sh(["lake", "env", "leanchecker", module], cwd=LEAN, timeout=3600)
        cov["leanchecker"] = "rc=%d" % rc
        if rc != 0:
            say("VIOLATION property=%s replay=%s no-failing-input-found" % (pid, write_replay(pid, {"property": pid, "kind": "leanchecker", "out": out[-2000:]})))
            res.violations.append("leanchecker")
    ev = {"property_id": pid, "tier": tier, "seed": seed, "level": "proof", "coverage": cov,
          "assumptions": list(getattr(P, "ASSUMPTIONS", [])), "wall_s": round(wall, 2),
          "violations": len(res.violations)}
    if not replay:
        # seeded-change runs (tools/run_seed.py, tools/rerun_seeds.py) redirect their evidence so that the committed
        # evidence always describes a run on the unchanged tree
        evdir = os.environ.get("FV_EVIDENCE_DIR") or os.path.join(VERIF, "evidence")
        os.makedirs(evdir, exist_ok=True)
        with open(os.path.join(evdir, "%s.json" % pid), "w") as fh:
            json.dump(ev, fh, indent=1)
    say("%s tier=%s seed=%d theorems=%d/%d cases=%d nontrivial=%d impl-failures=%d disagreements=%d known=%d violations=%d wall=%.1fs" % (
        pid, tier, seed, discharged, len(names), evaluations, len(nontrivial), len(F), len(D), len(res.known),
        len(res.violations), wall))
    return 1 if res.violations else 0
