#!/usr/bin/env python3
"""Writes /verif/MANIFEST.json from the table below (one place to edit)."""
import json
import os

V = os.path.dirname(os.path.dirname(os.path.abspath(__file__)))

NOTE_COMMON = ("Trusted: Lean 4.33 kernel; axioms propext/Classical.choice/Quot.sound only (audited each run); the "
               "theorem statements; the hand-written executable model and the differential tie (Rust harness with path "
               "deps on /repo, python generators, canonicalisation); std/external crates by contract (DESIGN section 9).")

CLAIMED = {}
for f in sorted(os.listdir(os.path.join(V, "tools", "claims"))):
    if f.endswith(".json"):
        CLAIMED[f[:-5]] = json.load(open(os.path.join(V, "tools", "claims", f)))

PENDING_REASON = "not claimed yet: model/theorems for this property are still being built (see DESIGN.md section 10 order of work)"


def main():
    ids = [json.loads(l)["id"] for l in open(os.path.join(V, "properties.jsonl"))]
    checks = []
    na = []
    for i in ids:
        if i in CLAIMED:
            c = CLAIMED[i]
            checks.append({
                "property_id": i,
                "quick_cmd": "./check %s --tier quick" % i,
                "thorough_cmd": "./check %s --tier thorough" % i,
                "evidence_file": "evidence/%s.json" % i,
                "replay_cmd_template": "./check %s --replay {path}" % i,
                "engine": "lean4-proof+correspondence",
                "level_claimed": {"category": "proof", "text": c["text"], "design_ref": c["design"]},
                "level_note": c.get("note", NOTE_COMMON),
                "technique": c["technique"],
            })
        else:
            na.append({"property_id": i, "reason": PENDING_REASON})
    m = {
        "version": 1,
        "setup_cmd": "./setup.sh",
        "hooks": {"guard": "--cfg fluent_rs_verif", "enable": "no hooks are needed: every observation goes through public APIs (harness crate with path dependencies on /repo)",
                  "baseline_off_cmd": "cd /repo && cargo test --workspace --no-fail-fast --offline",
                  "source_commits": [], "add_only": True},
        "engines": [{"name": "lean4-proof+correspondence", "path": "check",
                     "serves_properties": [c["property_id"] for c in checks],
                     "kind_free_text": "Lean 4 theorems about hand-written executable models (lean/), tied to /repo by a differential harness (harness/, tools/fv)"}],
        "checks": checks,
        "not_applicable": na,
        "notes": "See DESIGN.md. known_findings.json lists genuine defects (fixed or known).",
    }
    with open(os.path.join(V, "MANIFEST.json"), "w") as fh:
        json.dump(m, fh, indent=1)


if __name__ == "__main__":
    main()
