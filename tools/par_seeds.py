#!/usr/bin/env python3
"""Regression over the seeded changes, K at a time, WITHOUT touching /repo: every worker gets its own git worktree of
/repo (/tmp/fv_par/repo<i>) and its own copy of /verif (/tmp/fv_par/verif<i>, path dependencies and source paths
rewritten to the worker's worktree), applies a seeded patch there, runs the quick check of the change's own property
(or the given ones) in its copy, and reverts.  /repo and /verif/evidence stay as they are, so this can run next to
ordinary checks.

usage: tools/par_seeds.py [-j K] [--checks C06,C07 | --checks-from-meta] [--update] <Cxx-n ...|all|round=N|prop=Cxx|clean>
  --update   write the outcome back into seeded/<id>/meta.json (caught_by is extended, never shortened)
exit 1 when a change recorded as caught by its own property's check is no longer caught."""
import glob
import json
import os
import queue
import re
import shutil
import subprocess
import sys
import threading
import time

V = os.path.dirname(os.path.dirname(os.path.abspath(__file__)))
ROOT = "/tmp/fv_par/%d" % os.getpid()     # one directory per invocation: several may run at once
REWRITE = ["harness/Cargo.toml", "tools/extract_consts.py", "tools/fv/ftlgen.py", "tools/fv/props/c20.py",
           "tools/fv/props/c02.py"]


def sh(cmd, cwd=None, timeout=None, env=None):
    p = subprocess.run(cmd, shell=True, cwd=cwd, stdout=subprocess.PIPE, stderr=subprocess.STDOUT, timeout=timeout, env=env)
    return p.returncode, p.stdout.decode("utf-8", "replace")


def key(name):
    m = re.match(r"C(\d+)-(\d+)", name)
    return (int(m.group(1)), int(m.group(2)))


def setup_worker(i):
    repo = "%s/repo%d" % (ROOT, i)
    ver = "%s/verif%d" % (ROOT, i)
    sh("git -C /repo worktree remove --force %s" % repo)
    shutil.rmtree(repo, ignore_errors=True)
    shutil.rmtree(ver, ignore_errors=True)
    rc, out = sh("git -C /repo worktree add --detach %s" % repo)
    if rc != 0:
        raise RuntimeError(out)
    rc, out = sh("rsync -a --exclude .git --exclude seeded --exclude replays --exclude 'harness/target' %s/ %s/" % (V, ver))
    if rc != 0:
        raise RuntimeError(out)
    for f in REWRITE:
        p = os.path.join(ver, f)
        s = open(p).read().replace("/repo", repo)
        open(p, "w").write(s)
    os.makedirs(os.path.join(ver, "replays"), exist_ok=True)
    return repo, ver


def teardown_worker(i):
    sh("git -C /repo worktree remove --force %s/repo%d" % (ROOT, i))
    shutil.rmtree("%s/verif%d" % (ROOT, i), ignore_errors=True)
    shutil.rmtree("%s/repo%d" % (ROOT, i), ignore_errors=True)


def main():
    args = sys.argv[1:]
    k, checks, update, sel = 4, None, False, []
    while args:
        a = args.pop(0)
        if a == "-j":
            k = int(args.pop(0))
        elif a == "--checks":
            checks = args.pop(0).split(",")
        elif a == "--update":
            update = True
        elif a == "--checks-from-meta":
            checks = "meta"
        else:
            sel.append(a)
    names = sorted((os.path.basename(d) for d in glob.glob(os.path.join(V, "seeded", "C*-*"))), key=key)
    todo = []
    for n in names:
        meta = json.load(open(os.path.join(V, "seeded", n, "meta.json")))
        for s in sel:
            if s == "all" or s == n or (s.startswith("round=") and str(meta.get("round")) == s[6:]) \
                    or (s.startswith("prop=") and meta["property"] == s[5:]):
                todo.append((n, meta))
                break
    if "harmless" in sel:
        # behaviour-preserving rewrites kept under /verif/harmless: no check may report anything
        for d in sorted(glob.glob(os.path.join(V, "harmless", "H*"))):
            hm = json.load(open(os.path.join(d, "meta.json")))
            for c in hm["checks"]:
                todo.append(("%s-%s" % (os.path.basename(d), c),
                             {"property": c, "caught_by": [], "clean": True, "patch": os.path.join(d, "patch.diff")}))
    if "clean" in sel:
        # the unchanged tree through the same machinery (must come out NOT-CAUGHT for every check)
        for c in (checks or []):
            todo.append(("clean-" + c, {"property": c, "caught_by": [], "clean": True}))
    os.makedirs(ROOT, exist_ok=True)
    q = queue.Queue()
    for t in todo:
        q.put(t)
    results = {}
    lock = threading.Lock()

    def worker(i):
        try:
            repo, ver = setup_worker(i)
        except Exception as e:
            print("worker %d: setup failed: %s" % (i, e), flush=True)
            return
        env = dict(os.environ, FV_EVIDENCE_DIR="%s/evidence%d" % (ROOT, i), CARGO_NET_OFFLINE="true")
        try:
            while True:
                try:
                    n, meta = q.get_nowait()
                except queue.Empty:
                    break
                patch = os.path.join(V, "seeded", n, "patch.diff")
                t0 = time.time()
                if meta.get("patch"):
                    patch = meta["patch"]
                rc, out = (0, "") if (meta.get("clean") and not meta.get("patch")) else sh("git -C %s apply --whitespace=nowarn %s" % (repo, patch))
                if rc != 0:
                    with lock:
                        results[n] = {"error": "patch does not apply: " + out[-200:]}
                        print("%s: PATCH DOES NOT APPLY" % n, flush=True)
                    continue
                res = {}
                try:
                    cl = [meta["property"]] if meta.get("clean") else \
                        ((meta.get("checks_run") or [meta["property"]]) if checks == "meta" else (checks or [meta["property"]]))
                    for c in cl:
                        try:
                            rc, out = sh("./check %s --tier quick" % c, cwd=ver, timeout=3600, env=env)
                        except subprocess.TimeoutExpired:
                            rc, out = 1, "VIOLATION property=%s (check timed out)" % c
                        lines = [l.strip()[:300] for l in out.splitlines() if l.startswith("VIOLATION") or l.startswith("  ")]
                        crashed = (" tier=" not in out)      # no summary line: the check itself died (traceback, kill)
                        if crashed:
                            lines = ["CHECK CRASHED: " + " | ".join(out.strip().splitlines()[-3:])[:280]] + lines
                        res[c] = {"rc": rc, "caught": (not crashed) and rc != 0 and ("VIOLATION property=%s" % c) in out,
                                  "crashed": crashed, "lines": lines[:3]}
                finally:
                    sh("git -C %s checkout -- . && git -C %s clean -fdq" % (repo, repo))
                    sh("rm -f %s/replays/*.json" % ver)
                with lock:
                    results[n] = res
                    own = meta["property"]
                    print("%s: %s (%.0fs)" % (n, " ".join("%s=%s" % (c, "CHECK-CRASHED" if r.get("crashed") else "caught" if r["caught"] else "NOT-CAUGHT") for c, r in res.items()),
                                              time.time() - t0), flush=True)
                    if os.environ.get("PAR_VERBOSE"):
                        for c, r in res.items():
                            for l in r["lines"][:2]:
                                print("      %s: %s" % (c, l[:220]), flush=True)
        finally:
            teardown_worker(i)

    ths = [threading.Thread(target=worker, args=(i,)) for i in range(min(k, max(1, len(todo))))]
    for t in ths:
        t.start()
    for t in ths:
        t.join()
    regress = []
    for n, meta in todo:
        r = results.get(n, {})
        own = meta["property"]
        if own in meta.get("caught_by", []) and own in r and not r[own]["caught"]:
            regress.append(n)
        if update and "error" not in r and not meta.get("clean"):
            caught = [c for c, x in r.items() if x["caught"]]
            if "caught_at_first" not in meta:
                meta["caught_at_first"] = list(meta.get("caught_by", []))
            meta["caught_by"] = sorted(set(meta.get("caught_by", [])) | set(caught))
            meta["checks_run"] = sorted(set(meta.get("checks_run", [])) | set(r))
            how = meta.get("how", {})
            for c, x in r.items():
                if x["caught"]:
                    how[c] = x["lines"]
            meta["how"] = how
            json.dump(meta, open(os.path.join(V, "seeded", n, "meta.json"), "w"), indent=1, ensure_ascii=False)
    shutil.rmtree(ROOT, ignore_errors=True)
    false_alarms = [n for n, m in todo if m.get("clean") and any(x.get("caught") or x.get("rc") for x in results.get(n, {}).values() if isinstance(x, dict))]
    if false_alarms:
        print("FALSE ALARMS (a check reported something on the unchanged tree or on a behaviour-preserving rewrite): " + " ".join(false_alarms))
        regress = regress + false_alarms
    print("checked %d change(s); no longer caught by their own property's check: %s" % (len(todo), " ".join(regress) or "none"))
    sys.exit(1 if regress else 0)


if __name__ == "__main__":
    main()
