import FluentProofs.Props.C11
