import FluentModel.Parser
import FluentModel.Serializer
/-! driver for area `ser`: `ser <0|1 with_junk> <hex src>` →
`S <hex serialize(parse src)> T <tree> T2 <tree of reparse> S2 <hex second serialisation>` -/
namespace FluentModel.Drv.SerDrv
open FluentModel FluentModel.Syntax

def treeOf (s : Src) : Option (Resource Bytes) :=
  match parse s with
  | .done (r, _) => some (resolve s r)
  | _ => none

def run (payload : String) : String :=
  match payload.splitOn " " with
  | [wj, h] =>
    match hexDecode h with
    | none => "bad-case"
    | some bs =>
      let withJunk := wj == "1"
      match treeOf bs.toArray with
      | none => "MODEL-PARSE-FAILED"
      | some t =>
        match Ser.serialize withJunk t with
        | none => "PANIC(dedent)"
        | some out =>
          match treeOf out.toArray with
          | none => "MODEL-PARSE-FAILED"
          | some t2 =>
            match Ser.serialize withJunk t2 with
            | none => "PANIC(dedent)"
            | some out2 =>
              "S " ++ hexEnc out ++ " T " ++ Resource.sexp t ++ " T2 " ++ Resource.sexp t2 ++ " S2 " ++ hexEnc out2
  | _ => "bad-case"

end FluentModel.Drv.SerDrv
