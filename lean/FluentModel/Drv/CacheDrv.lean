import FluentModel.Cache
/-!
# Driver for area `cache` (C17)

payload = `<mode>:<k>:<needs>/<endNeed>[:j];op;op;…`
* `mode` = `a` (async: `Bundles::format_*` futures over `AsyncCache`) or `s` (sync: `format_*_sync` over `Cache`)
* `k` = number of consumers (tasks `0 … k-1`), `needs` = `,`-separated `need` of item 0, 1, … (`-` = no items)
* `:j` = consumers `2i` and `2i+1` are two requests joined in ONE task and share the waker of `2i`
  (`grp c = c - c % 2`); the wake ids printed after `!` are then waker (group) ids
* ops: `start:<c>:<depth>:<api>` (api ∈ v|s|m|n|e is only the shape of the Rust call; `e` = a batch key whose message formats with a resolver error, `z` = a batch with a key that formats to the empty string, `w` = a batch with a key that is value-less in every earlier bundle), `poll:<c>`, `fire`, `pf` (prefetch)

observation per piece: `hdr` | `s` | `busy` | `idle` | `P#<polls>.<pulls>!<wakes>` |
`R<item>/<got>#…!…` | `RN/<got>#…!…` | `f#…!…`; `got` and `wakes` are `.`-separated (`-` = empty);
`wakes` = the `Waker::wake` calls made during the op, in call order.
-/
namespace FluentModel.Drv.CacheDrv
open FluentModel.Cache

abbrev S := St Nat

def dots (l : List Nat) : String :=
  if l.isEmpty then "-" else ".".intercalate (l.map toString)

def counts (s : S) : String := "#" ++ toString s.src.polls ++ "." ++ toString s.src.pulls

/-- wake calls made between `s0` and `s1`, in call order -/
def newWakes (s0 s1 : S) : String :=
  "!" ++ dots ((s1.wakeLog.take (s1.wakeLog.length - s0.wakeLog.length)).reverse)

def showRes (s0 s1 : S) (c : Nat) (g : List Nat) : TaskRes Nat → String
  | .idle => "idle"
  | .pending => "P" ++ counts s1 ++ newWakes s0 s1
  | .done (some it) => "R" ++ toString it ++ "/" ++ dots g ++ counts s1 ++ newWakes s0 s1
  | .done none => "RN/" ++ dots g ++ counts s1 ++ newWakes s0 s1
  | .outOfFuel => "outOfFuel" ++ toString c

def parseOp (k : Nat) (op : String) : Option Op :=
  match op.splitOn ":" with
  | ["start", c, d, api] =>
    match c.toNat?, d.toNat? with
    | some c, some d => if c < k ∧ (api == "v" || api == "s" || api == "m" || api == "n" || api == "e" || api == "z" || api == "w") then some (.start c (max d 1)) else none
    | _, _ => none
  | ["poll", c] =>
    match c.toNat? with
    | some c => if c < k then some (.poll c) else none
    | none => none
  | ["fire"] => some .fire
  | _ => none

def stepObs (sync : Bool) (s : S) : Op → S × String
  | .start c d =>
    if (s.cons c).active then (s, "busy") else (startReq s c d, "s")
  | .poll c =>
    let (s', r) := if sync then syncTask s c else pollTask s c
    (s', showRes s s' c (s'.cons c).got r)
  | .fire =>
    let s' := if sync then s else fireSrc s
    (s', "f" ++ counts s' ++ newWakes s s')

def parseNeeds (t : String) : Option (List Nat) :=
  if t == "-" then some [] else (t.splitOn ",").mapM (·.toNat?)

/-- waker sharing of a `:j` header: consumers `2i` and `2i+1` live in one task, whose waker is `2i` -/
def joined (c : Task) : Task := c - c % 2

def parseBody (mode k src : String) (grp : Task → Task) : Option (Bool × Nat × S) :=
  match src.splitOn "/" with
  | [needs, e] =>
    match k.toNat?, parseNeeds needs, e.toNat? with
    | some k, some ns, some e =>
      -- upper-case modes: the harness gives bundles 2i and 2i+1 the same locale; the cache does not look at locales
      if mode == "a" || mode == "A" then some (false, k, init (ns.zipIdx) e grp)
      else if mode == "s" || mode == "S" then some (true, k, init ((ns.map fun _ => 0).zipIdx) 0 grp)
      else none
    | _, _, _ => none
  | _ => none

def parseHeader (h : String) : Option (Bool × Nat × S) :=
  match h.splitOn ":" with
  | [mode, k, src] => parseBody mode k src id
  | [mode, k, src, "j"] => parseBody mode k src joined
  | _ => none

def run (payload : String) : String :=
  match payload.splitOn ";" with
  | [] => "bad-case"
  | h :: ops =>
    -- CANCELLATION (`cancel:<c>`: a pending future is dropped) is outside the model's contract (a request that waits is
    -- never dropped): such histories are judged on the implementation by the check's oracle only
    if ops.any (fun o => o.startsWith "cancel:") then "unsupported" else
    match parseHeader h with
    | none => "bad-case"
    | some (sync, k, s0) =>
      let (_, outs) := ops.foldl (fun (acc : S × List String) op =>
        -- `pf`: `Bundles::prefetch_sync` / `prefetch_async` driven to completion (the source's hook is ready at once)
        -- `sx`: a `format_value_sync` call on an ASYNCHRONOUS set is refused (`SyncRequestInAsyncMode`) before anything
        -- is touched: identity on the state (only generated for asynchronous sets)
        if op == "sx" then
          (if sync then (acc.1, "unsupported" :: acc.2)
           else (acc.1, ("sx:refused" ++ counts acc.1 ++ newWakes acc.1 acc.1) :: acc.2))
        else
        if op == "pf" then
          let s' := prefetch acc.1
          (s', ("pf" ++ counts s' ++ newWakes acc.1 s') :: acc.2)
        else
        match parseOp k op with
        | none => (acc.1, "bad-op" :: acc.2)
        | some o => let (s', t) := stepObs sync acc.1 o; (s', t :: acc.2)) (s0, ["hdr"])
      ";".intercalate outs.reverse

end FluentModel.Drv.CacheDrv
