import FluentModel.Parser
/-! driver for area `parse`: `parse <hex src>` → `F <tree> <errors> R <tree> <errors>` -/
namespace FluentModel.Drv.ParseDrv
open FluentModel FluentModel.Syntax

def rangeName : Nat → String
  | 0 => "a-zA-Z"
  | 1 => "0-9"
  | _ => "\n | \r\n"

def ekStr (s : Src) : EK → String
  | .expectedToken b => "ExpectedToken:" ++ toString b.toNat
  | .expectedCharRange r => "ExpectedCharRange:" ++ hexEnc (strBytes (rangeName r))
  | .expectedMessageField id => "ExpectedMessageField:" ++ hexEnc (spanBytes s id)
  | .expectedTermField id => "ExpectedTermField:" ++ hexEnc (spanBytes s id)
  | .forbiddenCallee => "ForbiddenCallee"
  | .missingDefaultVariant => "MissingDefaultVariant"
  | .missingValue => "MissingValue"
  | .multipleDefaultVariants => "MultipleDefaultVariants"
  | .messageReferenceAsSelector => "MessageReferenceAsSelector"
  | .termReferenceAsSelector => "TermReferenceAsSelector"
  | .messageAttributeAsSelector => "MessageAttributeAsSelector"
  | .termAttributeAsPlaceable => "TermAttributeAsPlaceable"
  | .unterminatedStringLiteral => "UnterminatedStringLiteral"
  | .positionalArgumentFollowsNamed => "PositionalArgumentFollowsNamed"
  | .duplicatedNamedArgument n => "DuplicatedNamedArgument:" ++ hexEnc (spanBytes s n)
  | .unknownEscapeSequence b => "UnknownEscapeSequence:" ++ hexEnc (strBytes (toString (b.getD 32).toNat))
  | .invalidUnicodeEscapeSequence seq => "InvalidUnicodeEscapeSequence:" ++ hexEnc (spanBytes s seq)
  | .unbalancedClosingBrace => "UnbalancedClosingBrace"
  | .expectedInlineExpression => "ExpectedInlineExpression"
  | .expectedSimpleExpressionAsSelector => "ExpectedSimpleExpressionAsSelector"
  | .expectedLiteral => "ExpectedLiteral"

def errStr (s : Src) (e : PErr) : String :=
  "(e " ++ ekStr s e.kind ++ " " ++ toString e.posStart ++ " " ++ toString e.posEnd ++ " " ++
    (match e.slice with | some (a, b) => toString a ++ " " ++ toString b | none => "~") ++ ")"

def outcomeStr (s : Src) : Outcome (Resource Span × List PErr) → String
  | .done (r, errs) => Resource.sexp (resolve s r) ++ " [" ++ " ".intercalate (errs.map (errStr s)) ++ "]"
  | .panic m => "PANIC(" ++ m ++ ")"
  | .outOfFuel => "OUT-OF-FUEL"

def runOne (h : String) : String :=
  match hexDecode h with
  | none => "bad-case"
  | some bs =>
    -- the boundary-size inputs (hundreds of thousands of lines) are judged on the implementation only
    if bs.length > 100000 then "unsupported" else
    let s : Src := bs.toArray
    "F " ++ outcomeStr s (parse s) ++ " R " ++ outcomeStr s (parseRuntime s)

/-- payload = one hex source, or several separated by `|` (observations joined by ` | `) -/
def run (payload : String) : String :=
  " | ".intercalate ((payload.splitOn "|").map runOne)

end FluentModel.Drv.ParseDrv
