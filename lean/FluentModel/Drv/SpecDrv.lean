import FluentModel.Parser
import FluentModel.SpecGrammar
import FluentModel.JoinText
/-! driver for area `spec`: `spec <hex src>[|<hex src>…] [~ <hex expected>]` →
per source `W <0|1> G <spec tree> M <joinText (parser model tree)> E <error count> R <joinText (runtime model tree)>`,
joined by ` | `.  `W` = the grammar assigns a tree without Junk; `G` = that tree. -/
namespace FluentModel.Drv.SpecDrv
open FluentModel FluentModel.Syntax

def outcomeStr (s : Src) : Outcome (Resource Span × List PErr) → String × String
  | .done (r, errs) => (Resource.sexp (Resource.joinText (resolve s r)), toString errs.length)
  | .panic m => ("PANIC(" ++ m ++ ")", "~")
  | .outOfFuel => ("OUT-OF-FUEL", "~")

def runOne (h : String) : String :=
  match hexDecode h with
  | none => "bad-case"
  | some bs =>
    let s : Src := bs.toArray
    let g := match SpecGrammar.parse bs with
      | some r => Resource.sexp r
      | none => "OUT-OF-FUEL"
    let w := if SpecGrammar.wellFormed bs then "1" else "0"
    let (m, e) := outcomeStr s (parse s)
    let (r, _) := outcomeStr s (parseRuntime s)
    "W " ++ w ++ " G " ++ g ++ " M " ++ m ++ " E " ++ e ++ " R " ++ r

def run (payload : String) : String :=
  let srcs := (payload.splitOn " ").headD ""
  " | ".intercalate ((srcs.splitOn "|").map runOne)

end FluentModel.Drv.SpecDrv
