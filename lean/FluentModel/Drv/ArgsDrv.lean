import FluentModel.Args
import FluentModel.Drv.Common
namespace FluentModel.Drv.ArgsDrv
open FluentModel FluentModel.Args FluentModel.Drv

abbrev St := List (Bytes × String)   -- value = canonical form

def showIter (s : St) : String :=
  "[" ++ ",".intercalate (s.map fun (k, v) => hexEnc k ++ "=" ++ v) ++ "]"

def parsePairs (s : String) : Option (List (Bytes × String)) :=
  if s == "" then some [] else
  (s.splitOn ",").mapM fun kv =>
    match kv.splitOn "=" with
    | [k, v] => (hexDecode k).map fun kb => (kb, canonVal v)
    | _ => none

def step (s : St) (op : String) : St × String :=
  match op.splitOn ":" with
  | ["set", k, _, v] =>
    match hexDecode k with
    | some kb => (setL bytesLt s kb (canonVal v), "ok")
    | none => (s, "bad-op")
  | ["get", k, _] =>
    match hexDecode k with
    | some kb => (s, match getL bytesLt s kb with | some v => "some=" ++ v | none => "none")
    | none => (s, "bad-op")
  | ["iter"] => (s, showIter s)
  | ["into"] => ([], showIter s)
  | ["fromiter", ps] | ["macro", ps] =>
    match parsePairs ps with
    | some l => (fromPairs bytesLt l, "ok")
    | none => (s, "bad-op")
  | _ => (s, "bad-op")

def run (payload : String) : String :=
  let ops := payload.splitOn ";"
  let (_, outs) := ops.foldl (fun (acc : St × List String) op =>
    let (s', o) := step acc.1 op; (s', o :: acc.2)) ([], [])
  ";".intercalate outs.reverse

end FluentModel.Drv.ArgsDrv
