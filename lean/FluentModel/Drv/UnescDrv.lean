import FluentModel.Unescape
/-! Driver for area `unesc` (C13): payload = hex of the input (`-` = empty).
Observation: `s:ok:<hex out>:<b|o>;w:ok:<hex writer content>` (the writer starts with the bytes of `[`);
`s:panic` / `w:panic` / `…:outOfFuel` when the model predicts that outcome. -/
namespace FluentModel.Drv.UnescDrv
open FluentModel FluentModel.Unescape

def writerPrefix : Bytes := [0x5B]

def run (payload : String) : String :=
  match hexDecode payload with
  | none => "bad-input"
  | some bs =>
    if !(ByteArray.mk bs.toArray).validateUTF8 then "bad-input" else
    -- the executable model appends to a `List` (quadratic): very long inputs are judged by the reference decoder of
    -- the check only (the theorems cover them all the same)
    if bs.length > 8192 then "unsupported" else
    let s : Src := bs.toArray
    let a := match unescapeUnicodeToString s with
      | .done (o, owned) => "s:ok:" ++ hexEnc o ++ ":" ++ (if owned then "o" else "b")
      | .panic => "s:panic"
      | .outOfFuel => "s:outOfFuel"
    let b := match unescapeUnicode writerPrefix s with
      | .done o => "w:ok:" ++ hexEnc o
      | .panic => "w:panic"
      | .outOfFuel => "w:outOfFuel"
    a ++ ";" ++ b

end FluentModel.Drv.UnescDrv
