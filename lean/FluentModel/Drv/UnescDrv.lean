import FluentModel.UnescapeFast
/-! Driver for area `unesc` (C13): payload = hex of the input (`-` = empty).
Observation: `s:ok:<hex out>:<b|o>;w:ok:<hex writer content>` (the writer starts with the bytes of `[`);
`s:panic` / `w:panic` / `…:outOfFuel` when the model predicts that outcome. -/
namespace FluentModel.Drv.UnescDrv
open FluentModel FluentModel.Unescape

def writerPrefix : Bytes := [0x5B]

def run (payload : String) : String :=
  match hexDecodeFast payload with
  | none => "bad-input"
  | some bs =>
    if !(ByteArray.mk bs.toArray).validateUTF8 then "bad-input" else
    -- linear-time variants (`FluentModel.UnescapeFast`), proved equal to `unescapeUnicodeToString` /
    -- `unescapeUnicode` on all inputs in `FluentProofs.UnescapeFast`: no length limit
    let s : Src := bs.toArray
    let a := match unescapeUnicodeToStringFast s with
      | .done (o, owned) => "s:ok:" ++ hexEncFast o ++ ":" ++ (if owned then "o" else "b")
      | .panic => "s:panic"
      | .outOfFuel => "s:outOfFuel"
    let b := match unescapeUnicodeFast writerPrefix s with
      | .done o => "w:ok:" ++ hexEncFast o
      | .panic => "w:panic"
      | .outOfFuel => "w:outOfFuel"
    a ++ ";" ++ b

end FluentModel.Drv.UnescDrv
