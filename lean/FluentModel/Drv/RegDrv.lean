import FluentModel.Registry
/-!
# Driver for area `reg` (C10): histories of registry operations

payload  := op (`;` op)*
op       := `add:`res | `addov:`res | `fn:`id | `has:`id | `msg:`id | `attr:`id`:`name | `term:`id | `call:`id | `ref:`id
res      := desc (`,` desc)*   (empty = empty file)
desc     := `m/`id`/`(val|`~`)`/`attrs | `t/`id`/`val`/`attrs | `e/`id | `j` | `c`
attrs    := (name`=`val (`+` name`=`val)*)?
ids, names, values are hex tokens.

Resources travel as structured descriptions; the harness renders a description to FTL text and parses
it with the real `FluentResource::try_new`.  `bodyOf` states what the runtime parser yields for the
rendered text (contract of the parser on this family of texts, checked on every case through the
`shape` part of the observation): comments are skipped, a `!!!` line is Junk and is swallowed by a
Junk directly before it, a field-less message `id =` is Junk that starts at its own line.
-/
namespace FluentModel.Drv.RegDrv
open FluentModel FluentModel.Registry

inductive Desc where
  | msg (id : Id) (v : Option Text) (attrs : List Attr)
  | term (id : Id) (v : Text) (attrs : List Attr)
  | empty (id : Id)      -- `id =` : no value, no attributes → parse error → Junk
  | junk                 -- `!!!`
  | comment              -- `# c`

/-- body of `parse_runtime (render ds)`; `prevJunk` = the previous body entry is a Junk that is still
scanning for the next entry start -/
def bodyAux : Bool → List Desc → List AstEntry
  | _, [] => []
  | _, .msg id v a :: rest => .message id v a :: bodyAux false rest
  | _, .term id v a :: rest => .term id v a :: bodyAux false rest
  | _, .empty _ :: rest => .other :: bodyAux true rest
  | true, .junk :: rest => bodyAux true rest
  | false, .junk :: rest => .other :: bodyAux true rest
  | _, .comment :: rest => bodyAux false rest

def bodyOf (ds : List Desc) : Resource := bodyAux false ds

def parseAttrs (s : String) : Option (List Attr) :=
  if s == "" then some [] else
  (s.splitOn "+").mapM fun nv =>
    match nv.splitOn "=" with
    | [n, v] =>
      match hexDecode n, hexDecode v with
      | some nb, some vb => some ⟨nb, vb⟩
      | _, _ => none
    | _ => none

def parseDesc (s : String) : Option Desc :=
  match s.splitOn "/" with
  | ["j"] => some .junk
  | ["c"] => some .comment
  | ["e", id] => (hexDecode id).map .empty
  | ["m", id, v, attrs] =>
    match hexDecode id, parseAttrs attrs with
    | some idb, some as =>
      if v == "~" then
        (if as.isEmpty then some (.empty idb) else some (.msg idb none as))
      else (hexDecode v).map fun vb => .msg idb (some vb) as
    | _, _ => none
  | ["t", id, v, attrs] =>
    match hexDecode id, hexDecode v, parseAttrs attrs with
    | some idb, some vb, some as => some (.term idb vb as)
    | _, _, _ => none
  | _ => none

def parseRes (s : String) : Option (List Desc) :=
  if s == "" then some [] else (s.splitOn ",").mapM parseDesc

def shape (r : Resource) : String :=
  if r.isEmpty then "-" else
  String.ofList (r.map fun
    | .message .. => 'M'
    | .term .. => 'T'
    | .other => 'J')

def showErr (e : Overriding) : String :=
  (match e.kind with | .message => "M=" | .term => "T=" | .function => "F=") ++ hexEnc e.id

def showErrs (es : List Overriding) : String :=
  if es.isEmpty then "ok" else ",".intercalate (es.map showErr)

def showAttrs (as : List Attr) : String :=
  "+".intercalate (as.map fun a => hexEnc a.name ++ "=" ++ hexEnc a.value)

def showVal : Option Text → String
  | none => "~"
  | some v => hexEnc v

/-- one op at history position `idx` (function tags are op positions) -/
def stepOp (b : Bundle) (idx : Nat) (op : String) : Bundle × String :=
  match op.splitOn ":" with
  | ["add", r] =>
    match parseRes r with
    | some ds =>
      let body := bodyOf ds
      let res := addResource b body
      (res.1, shape body ++ "|" ++ showErrs res.2)
    | none => (b, "bad-op")
  -- `addh` / `addovh`: the resource is handed over as a SHARED handle (`Rc<FluentResource>`); an identical
  -- description later in the history is the very same handle again.  Sharing is invisible to the registry.
  | ["addh", r] =>
    match parseRes r with
    | some ds =>
      let body := bodyOf ds
      let res := addResource b body
      (res.1, shape body ++ "|" ++ showErrs res.2)
    | none => (b, "bad-op")
  | ["addovh", r] =>
    match parseRes r with
    | some ds =>
      let body := bodyOf ds
      (addResourceOverriding b body, shape body ++ "|ok")
    | none => (b, "bad-op")
  | ["addov", r] =>
    match parseRes r with
    | some ds =>
      let body := bodyOf ds
      (addResourceOverriding b body, shape body ++ "|ok")
    | none => (b, "bad-op")
  | ["fn", id] =>
    match hexDecode id with
    | some idb =>
      let res := addFunction b idb idx
      (res.1, match res.2 with | none => "ok" | some e => showErr e)
    | none => (b, "bad-op")
  | ["has", id] =>
    match hexDecode id with
    | some idb => (b, if hasMessage b idb then "1" else "0")
    | none => (b, "bad-op")
  | ["msg", id] =>
    match hexDecode id with
    | some idb =>
      (b, match getMessage b idb with
          | none => "none"
          | some m => "some:" ++ showVal m.value ++ ":" ++ showAttrs m.attrs)
    | none => (b, "bad-op")
  | ["attr", id, name] =>
    match hexDecode id, hexDecode name with
    | some idb, some nb =>
      (b, match getMessage b idb with
          | none => "nomsg"
          | some m => match m.getAttribute nb with
            | none => "none"
            | some a => "some=" ++ hexEnc a.value)
    | _, _ => (b, "bad-op")
  | ["term", id] =>
    match hexDecode id with
    | some idb =>
      (b, match getEntryTerm b idb with
          | none => "none"
          | some t => "some=" ++ hexEnc t.value)
    | none => (b, "bad-op")
  | ["ref", id] =>
    match hexDecode id with
    | some idb =>
      (b, match getEntryMessage b idb with
          | none => "none"
          | some m => match m.value with
            | none => "noval"
            | some v => "some=" ++ hexEnc v)
    | none => (b, "bad-op")
  | ["call", id] =>
    match hexDecode id with
    | some idb =>
      (b, match getEntryFunction b idb with
          | none => "none"
          | some tag => "some=" ++ toString tag)
    | none => (b, "bad-op")
  | _ => (b, "bad-op")

def run (payload : String) : String :=
  -- the boundary-size histories (tens of thousands of entries) are judged on the implementation only
  if payload.length > 200000 then "unsupported" else
  let ops := payload.splitOn ";"
  let (_, _, outs) := ops.foldl (fun (acc : Bundle × Nat × List String) op =>
    let (b', o) := stepOp acc.1 acc.2.1 op; (b', acc.2.1 + 1, o :: acc.2.2)) (Bundle.empty, 0, [])
  ";".intercalate outs.reverse

end FluentModel.Drv.RegDrv
