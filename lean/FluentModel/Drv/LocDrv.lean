import FluentModel.Util
import FluentModel.Localization
import FluentModel.Drv.FbDrv
/-!
# Driver for area `loc` (C18): one `Localization`, a history of operations

payload = `init:<s|a>:<locales>:<ids>;<op>;…` — locales `,`-separated (`-` = none); ids `,`-separated
`<name><R|O>` (`-` = none).

ops: `add:<id>` `addm:<ids>` `rm:<id>` `rmm:<ids>` `loc:<locales>` (mutate the provider, no
notification) `chg` (`on_change`) `async` `pfs` `pfa` (prefetch) `bun` (`bundles()`) `req:<key>`
`hold` `ask:<n>:<key>` `beg:<n>:<key>` `fin`.

observation per op: `<obs>|L[<generator log entries added by this op>]`; log entries
`I(<locales '+'>/<sorted ids '+'>)` = `bundles_iter`, `S(…)` = `bundles_stream`, `P<n>` = prefetch reached
the iterator/stream of bundle set `n`.

Resource content (what the harness generator puts into the resource `r` of locale `l`, type `ty`):
`t-<r> = <l>:<r>:<ty>` always, and `<r> = <l>:<r>` iff `(index l + index r) % 3 ≠ 0` (indices in the pools
below).  So answers identify the locale order, the id set and the id types of the state a bundle set was
built from.
-/
namespace FluentModel.Drv.LocDrv
open FluentModel FluentModel.Fallback FluentModel.Localization FluentModel.Drv.FbDrv

def locPool : List String := ["en", "pl", "de", "fr"]
def idPool : List String := ["a", "b", "c", "d", "e", "A", "B"]

def idxOf (pool : List String) (x : String) : Nat := pool.findIdx (· == x)

def avail (l r : String) : Bool := (idxOf locPool l + idxOf idPool r) % 3 != 0

def tyStr (r : ResId String) : String := if r.optional then "O" else "R"

def entriesOf (l : String) (r : ResId String) : List (String × M) :=
  ("t-" ++ r.value, { value := some (plain (l ++ ":" ++ r.value ++ ":" ++ tyStr r)), attrs := [] }) ::
    (if avail l r.value then [(r.value, { value := some (plain (l ++ ":" ++ r.value)), attrs := [] })] else [])

def mkBundle (ids : List (ResId String)) (l : String) : BR :=
  .ok { locales := [l], getMessage := lookupMsg (ids.flatMap (entriesOf l)) }

/-- what a bundle set built from `b` answers to `format_value(key, None)`: printed result and errors -/
def answer (b : Built String String) (key : String) : String :=
  match formatValueFromInner (b.locales.map (mkBundle b.ids)) key 0 [] with
  | .done (r, es, _) => showVal r ++ ":E" ++ showList showErr es
  | .panic site => "PANIC " ++ site

def parseList (s : String) : List String := if s == "-" || s == "" then [] else s.splitOn ","

def parseId (s : String) : Option (ResId String) :=
  match s.toList.reverse with
  | 'R' :: r => some { value := String.ofList r.reverse, optional := false }
  | 'O' :: r => some { value := String.ofList r.reverse, optional := true }
  | _ => none

def parseIds (s : String) : Option (List (ResId String)) := (parseList s).mapM parseId

def parseOp (op : String) : Option (Op String String String) :=
  match op.splitOn ":" with
  | ["add", r] => (parseId r).map .add
  | ["addm", rs] => (parseIds rs).map .addMany
  | ["rm", r] => (parseId r).map .remove
  | ["rmm", rs] => (parseIds rs).map .removeMany
  -- `remove_resource_id` with a matcher equal to every listed id: same effect as the bulk removal
  | ["rmp", rs] => (parseIds rs).map .removeMany
  | ["loc", ls] => some (.setLocales (parseList ls))
  | ["chg"] => some .onChange
  | ["async"] => some .setAsync
  | ["pfs"] => some .prefetchSync
  | ["pfa"] => some .prefetchAsync
  | ["bun"] => some .bundles
  | ["req", k] => some (.req k)
  | ["hold"] => some .hold
  | ["ask", n, k] => n.toNat?.map fun n => .askHeld n k
  | ["beg", n, k] => n.toNat?.map fun n => .begin n k
  | ["fin"] => some .finish
  | _ => none

def insertSorted (x : String) : List String → List String
  | [] => [x]
  | y :: ys => if x < y then x :: y :: ys else y :: insertSorted x ys

def sortStrs (l : List String) : List String := l.foldr insertSorted []

def showEvent : GenEvent String String → String
  | .call b =>
    (if b.sync then "I(" else "S(") ++ "+".intercalate b.locales ++ "/" ++
      "+".intercalate (sortStrs (b.ids.map fun r => r.value ++ tyStr r)) ++ ")"
  | .prefetch n => "P" ++ toString n

def showObs : Obs String String String → String
  | .unit => "ok"
  | .len n => "len=" ++ toString n
  | .handle id sync => "h" ++ toString id ++ ":" ++ (if sync then "s" else "a")
  | .answer id r => "h" ++ toString id ++ ":" ++ r
  | .begun => "begun"
  | .badOp => "bad-op"

def showTrace : List (St String String String × Obs String String String) → Nat → List String
  | [], _ => []
  | (s, o) :: rest, nLog =>
    (showObs o ++ "|L" ++ showList showEvent (s.log.drop nLog)) :: showTrace rest s.log.length

def run (payload : String) : String :=
  match payload.splitOn ";" with
  | ini :: ops =>
    match ini.splitOn ":", ops.mapM parseOp with
    | ["init", mode, ls, ids], some ops =>
      match (if mode == "s" then some true else if mode == "a" then some false else none), parseIds ids with
      | some sync, some ids =>
        match Localization.run answer (St.init ids sync (parseList ls)) ops with
        | .done trace => ";".intercalate (showTrace trace 0)
        | .panic site => "PANIC " ++ site
      | _, _ => "bad-case"
    | _, _ => "bad-case"
  | [] => "bad-case"

end FluentModel.Drv.LocDrv
