import FluentModel.Parser
import FluentModel.Resolver
import FluentModel.ResolverSpec
import FluentModel.Builtins
import FluentModel.Plural
import FluentModel.Pseudo
import FluentModel.Unescape
import FluentModel.Drv.Common
import FluentModel.BundleLocale
/-!
driver for area `fmt`:

`fmt <cfg> <resources> <fns> <reqs>`
* cfg       `iso=0|1;tr=none|upper|pseudo|bracket;fm=none|numbr|strwrap;fl=st|conc;loc=<locale>`
* resources `a:<hex ftl>` (add_resource) / `o:<hex ftl>` (add_resource_overriding), comma separated, `-` = none
* fns       names of library functions to register (`-` = none); `NUMBER` = `add_builtins`
* reqs      `<hex id>:<hex attr|~>:<args>` comma separated; args = `~` (None) or `k=tok&k=tok…` (`.` = empty FluentArgs)

observation per request: `T <hex> [errs] W <hex> [errs]` (format_pattern, write_pattern), or `nomsg` / `noattr` / `novalue`
-/
namespace FluentModel.Drv.FmtDrv
open FluentModel FluentModel.Syntax FluentModel.Resolver FluentModel.Num

inductive Ent where
  | message (m : Message Bytes)
  | term (t : Term Bytes)
  | function (f : Fn)

abbrev Reg := List (Bytes × Ent)

def Reg.get (r : Reg) (id : Bytes) : Option Ent := (r.find? (·.1 == id)).map (·.2)
def Reg.set (r : Reg) (id : Bytes) (e : Ent) : Reg :=
  if r.any (·.1 == id) then r.map (fun kv => if kv.1 == id then (id, e) else kv) else r ++ [(id, e)]

/-- `add_resource` (first wins) / `add_resource_overriding` (last wins); one id namespace for
messages, terms (keyed without `-`) and functions -/
def addResource (r : Reg) (overriding : Bool) (res : Resource Bytes) : Reg :=
  res.foldl (fun r e =>
    match e with
    | .message m => if overriding || (r.get m.id).isNone then r.set m.id (.message m) else r
    | .term t => if overriding || (r.get t.id).isNone then r.set t.id (.term t) else r
    | _ => r) r

def errStr : RErr → String
  | .reference (.function id) => "Ref:fn:" ++ hexEnc id
  | .reference (.message id a) => "Ref:msg:" ++ hexEnc id ++ ":" ++ (match a with | some x => hexEnc x | none => "~")
  | .reference (.term id a) => "Ref:term:" ++ hexEnc id ++ ":" ++ (match a with | some x => hexEnc x | none => "~")
  | .reference (.variable id) => "Ref:var:" ++ hexEnc id
  | .noValue id => "NoValue:" ++ hexEnc id
  | .missingDefault => "MissingDefault"
  | .cyclic => "Cyclic"
  | .tooManyPlaceables => "TooMany"

def resStr : RR (Bytes × List RErr) → String
  | .ok (w, errs) => hexEnc w ++ " [" ++ " ".intercalate (errs.map errStr) ++ "]"
  | .panic m => if m == "unsupported-number" then "unsupported" else "PANIC(" ++ m ++ ")"
  | .fuel => "OUT-OF-FUEL"

def specStr : ResolverSpec.Out Bytes → String
  | .val w _ errs => hexEnc w ++ " [" ++ " ".intercalate (errs.map errStr) ++ "]"
  | .limit errs => "limit [" ++ " ".intercalate (errs.map errStr) ++ "]"
  | .panic m => "PANIC(" ++ m ++ ")"
  | .fuel => "OUT-OF-FUEL"

/-- value token → model value (`none` = unsupported / bad token) -/
def tokValue (tok : String) : Option Value :=
  match tok.toList with
  | 's' :: r | 'o' :: r => (hexDecode (String.ofList r)).map Value.str
  | 'c' :: r => (hexDecode (String.ofList r)).map Value.custom
  | 'm' :: r => (hexDecode (String.ofList r)).map fun b => Value.custom (strBytes "memo:" ++ b)
  | ['z'] => some .none
  | 'i' :: r | 'u' :: r | 'f' :: r =>
    (parseDec (strBytes (String.ofList r))).bind fun d =>
      if sigDigits d > 15 then none else some (.num ⟨d, {}⟩)
  | 'n' :: r =>
    match (String.ofList r).splitOn "/" with
    | [v, m] =>
      (parseDec (strBytes v)).bind fun d =>
        if sigDigits d > 15 then none else
        if m == "-" then some (.num ⟨d, {}⟩) else m.toNat?.map fun k => .num ⟨d, { minimumFractionDigits := some k }⟩
    | _ => none
  | 't' :: r => (hexDecode (String.ofList r)).bind tryNumberValue
  | _ => none

def parseArgs (s : String) : Option (Option ArgList) :=
  if s == "~" then some none
  else if s == "." then some (some [])
  else
    let ps := (s.splitOn "&").mapM fun kv =>
      match kv.splitOn "=" with
      | [k, v] => match hexDecode k, tokValue v with
        | some kb, some val => some (kb, val)
        | _, _ => none
      | _ => none
    ps.map fun l => some (ArgList.ofPairs l)

def kvOf (cfg : String) (key : String) : String :=
  match (cfg.splitOn ";").filterMap (fun p => match p.splitOn "=" with | [k, v] => if k == key then some v else none | _ => none) with
  | v :: _ => v
  | [] => ""

/-- text transform `pseudo`: `fluent_pseudo::transform(s, false, true)` (accented, elongated) -/
def pseudoTransform (b : Bytes) : Bytes :=
  match String.fromUTF8? ⟨b.toArray⟩ with
  | none => b
  | some str =>
    match Pseudo.transform Pseudo.generatedTables false true str.toList with
    | .done cs => strBytes (String.ofList cs)
    | .panic _ => strBytes "<<pseudo-panic>>"

def unescapeTotal (b : Bytes) : Bytes :=
  match Unescape.unescapeUnicode [] b.toArray with
  | .done o => o
  | _ => strBytes "<<unescape-panic>>"

/-! every number literal of the resources must be inside the exact-decimal domain of the model -/
mutual
def inlineNumsOk : Inline Bytes → Bool
  | .num v => (tryNumberValue v).isSome
  | .fn _ p n => inlinesNumsOk p && namedNumsOk n
  | .term _ _ (some (p, n)) => inlinesNumsOk p && namedNumsOk n
  | .placeable e => exprNumsOk e
  | _ => true
def inlinesNumsOk : List (Inline Bytes) → Bool
  | [] => true
  | x :: xs => inlineNumsOk x && inlinesNumsOk xs
def namedNumsOk : List (Bytes × Inline Bytes) → Bool
  | [] => true
  | (_, x) :: xs => inlineNumsOk x && namedNumsOk xs
def exprNumsOk : Expr Bytes → Bool
  | .inline e => inlineNumsOk e
  | .select s vs => inlineNumsOk s && variantsNumsOk vs
def variantsNumsOk : List (Variant Bytes) → Bool
  | [] => true
  | .mk k val _ :: vs => (match k with | .num v => (tryNumberValue v).isSome | _ => true) && patNumsOk val && variantsNumsOk vs
def patNumsOk : List (PatElem Bytes) → Bool
  | [] => true
  | .text _ :: es => patNumsOk es
  | .placeable e :: es => exprNumsOk e && patNumsOk es
end

def entryNumsOk : Entry Bytes → Bool
  | .message m => (m.value.map patNumsOk).getD true && m.attributes.all (fun a => patNumsOk a.value)
  | .term t => patNumsOk t.value && t.attributes.all (fun a => patNumsOk a.value)
  | _ => true

/-- fuel for the resolver: every placeable costs a bounded number of nested calls; the bound of
`Props/C06` is `resolverFuel size` with `size` the total AST size of the bundle -/
def resolverFuel : Nat := 100000

def runOne (payload : String) : String :=
  match payload.splitOn " " with
  | [cfg, ress, fns, reqs] =>
    let iso := kvOf cfg "iso" == "1"
    let tr := kvOf cfg "tr"
    let fm := kvOf cfg "fm"
    -- `loc=a+b+c` is the bundle's locale chain; formatters and plural rules are bound to the FIRST locale only
    let loc := memoizerLocale (parseLocaleChain (kvOf cfg "loc"))
    -- locales whose language the plural model knows (others fall back to `en` in the crate's negotiation,
    -- which the model also does, but only the listed ones are validated)
    if !(["en", "en-US", "pl", "ru", "ar", "fr", "cs", "lt", "ja", "pl-PL", "fr-CA", "xx", "und", "pt", "pt-PT", "pt-BR", "pt-AO", "de", "uk", "sl", "cy", "ro", "sv"].contains loc) then "unsupported" else
    -- functions first, then resources in order
    let reg0 : Reg := if fns == "-" then [] else
      (fns.splitOn ",").foldl (fun r name =>
        match Builtins.library name with
        | some f => if (r.get (strBytes name)).isNone then r.set (strBytes name) (.function f) else r
        | none => r) []
    let regR : Option Reg := if ress == "-" then some reg0 else
      (ress.splitOn ",").foldlM (fun r item =>
        match item.splitOn ":" with
        | [kind, h] =>
          (hexDecode h).bind fun src =>
            match parseRuntime src.toArray with
            | .done (res, _) =>
              let rb := resolve src.toArray res
              if rb.all entryNumsOk then some (addResource r (kind == "o") rb) else none
            | _ => none
        | _ => none) reg0
    match regR with
    | none => "unsupported"
    | some reg =>
      let mkEnv (args : Option ArgList) : Env :=
        { msg := fun id => match reg.get id with | some (.message m) => some m | _ => none
          term := fun id => match reg.get id with | some (.term t) => some t | _ => none
          fn := fun id => match reg.get id with | some (.function f) => some f | _ => none
          useIsolating := iso
          transform := if tr == "upper" then some Builtins.upperAscii
                       else if tr == "pseudo" then some pseudoTransform
                       else if tr == "bracket" then some Builtins.bracketText else none
          formatter := if fm == "numbr" then some Builtins.formatterNumBr
                       else if fm == "strwrap" then some Builtins.formatterStrWrap else none
          category := fun n => (Plural.pluralCategory loc n).map fun c =>
            match c with
            | .zero => Category.zero | .one => .one | .two => .two | .few => .few | .many => .many | .other => .other
          tryNumber := fun b => (tryNumberValue b).getD (.str b)
          unescape := unescapeTotal
          customStr := Builtins.customStr
          args := args }
      let outs := (reqs.splitOn ",").map fun rq =>
        match rq.splitOn ":" with
        | [idh, attrh, argss] =>
          (match hexDecode idh, parseArgs argss with
           | some id, some args =>
             let env := mkEnv args
             (match env.msg id with
              | none => "nomsg"
              | some m =>
                let pat : Option (Option (Pattern Bytes)) :=
                  if attrh == "~" then some m.value
                  else (hexDecode attrh).map fun a => findAttr m.attributes a
                (match pat with
                 | none => "bad-req"
                 | some none => if attrh == "~" then "novalue" else "noattr"
                 | some (some p) =>
                   "T " ++ resStr (formatPattern env resolverFuel p) ++ " W " ++ resStr (writePatternTop env resolverFuel p) ++
                     " S " ++ specStr (ResolverSpec.format env resolverFuel p)))
           | _, _ => "unsupported")
        | _ => "bad-req"
      if outs.any (fun o => (o.splitOn "unsupported").length > 1) then "unsupported" else ";".intercalate outs
  | _ => "bad-case"

/-- payload = one bundle case, or several separated by ` | ` (observations joined by ` | `) -/
def run (payload : String) : String :=
  " | ".intercalate ((payload.splitOn " | ").map runOne)

end FluentModel.Drv.FmtDrv
