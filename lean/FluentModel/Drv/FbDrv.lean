import FluentModel.Util
import FluentModel.Fallback
/-!
# Driver for area `fb` (C16): one `Bundles` instance, a history of requests

payload = `cfg:<s|a|p>; (p = async over a stream that answers Pending once before every item; q = p plus a second identical request in flight at the same time)
b:<locale|_>:<brk>:<id>=<state>,…;…;<op>;…`

* `b:` one bundle of the generator's sequence, in order.  `brk`: 0 `Ok(bundle)`, 1 duplicate id `dup`
  (carried `Overriding`), 2 junk in the resource (carried `ParserError`), 3 both (parser error first),
  4 `Err((bundle, vec![]))`.  States (what the harness writes into the FTL resource):
  `p` value; `a` value + attribute; `n` attribute only; `x` value with `{ $x }`; `e` value with
  `{ -nope }`; `z` value with `{ $x }` + attribute `{ $x }` + attribute `{ -nope }`; `y` attribute only
  with `{ $x }`; `m` absent.
* ops: `v:<key>` `vs:<key>` `vv:<keys>` `vvs:<keys>` `mm:<keys>` `mms:<keys>` (`s` = the `_sync` API), `clr`
  (`errors.clear()`); key = `<id>` | `<id>+` (args `x = "ARG"`) | `<id>~` (empty args); keys `,`-separated, `-` = none.
* observation per request: `<result>|E[<errors pushed by this request>]|g<bundles generated so far>`.
-/
namespace FluentModel.Drv.FbDrv
open FluentModel FluentModel.Fallback

/-- args: 0 = `None`, 1 = `Some({x: "ARG"})`, 2 = `Some({})` -/
abbrev A := Nat
abbrev F := Fmt String String
abbrev M := Msg A String String String
abbrev B := Bundle String String A String String String
abbrev BR := BundleResult String String A String String String String
abbrev E := LocErr String String String String
abbrev Bs := Bundles String String A String String String String

def plain (s : String) : A → F := fun _ => { text := s, errs := [] }
/-- `<s> { $x }` with isolation off -/
def withVar (s : String) : A → F := fun a =>
  if a == 1 then { text := s ++ " ARG", errs := [] } else { text := s ++ " {$x}", errs := ["Var.x"] }
def withTerm (s : String) : A → F := fun _ => { text := s ++ " {-nope}", errs := ["Term.nope"] }

def mkMsg (st : Char) (loc id : String) : Option M :=
  let sfx := " " ++ loc ++ " " ++ id
  match st with
  | 'p' => some { value := some (plain ("P" ++ sfx)), attrs := [] }
  | 'a' => some { value := some (plain ("A" ++ sfx)), attrs := [("t", plain ("AT" ++ sfx))] }
  | 'n' => some { value := none, attrs := [("t", plain ("NT" ++ sfx))] }
  | 'x' => some { value := some (withVar ("X" ++ sfx)), attrs := [] }
  | 'e' => some { value := some (withTerm ("E" ++ sfx)), attrs := [] }
  | 'z' => some { value := some (withVar ("Z" ++ sfx)), attrs := [("t", withVar "ZT"), ("u", withTerm "ZU")] }
  | 'y' => some { value := none, attrs := [("t", withVar ("YT" ++ sfx))] }
  | 'r' => some { value := some (plain ("R" ++ sfx)), attrs := [("t", plain ("RT" ++ sfx)), ("u", withVar "RU"), ("t", withTerm "RV")] }
  | _ => none

def lookupMsg : List (String × M) → String → Option M
  | [], _ => none
  | (k, m) :: rest, id => if k == id then some m else lookupMsg rest id

def parseEntries (loc : String) (s : String) : Option (List (String × M)) :=
  if s == "-" || s == "" then some [] else
  (s.splitOn ",").foldr (fun kv acc =>
    match acc, kv.splitOn "=" with
    | some l, [id, st] =>
      (match st.toList with
       | ['m'] => some l
       | [c] => (mkMsg c loc id).map fun m => (id, m) :: l
       | _ => none)
    | _, _ => none) (some [])

def parseBundle (seg : String) : Option BR :=
  match seg.splitOn ":" with
  | ["b", loc, brk, ents] =>
    (parseEntries loc ents).bind fun es =>
      let dup := brk == "1" || brk == "3"
      let es := if dup then es ++ [("dup", { value := some (plain ("P " ++ loc ++ " dup")), attrs := [] })] else es
      let b : B := { locales := if loc == "_" then [] else loc.splitOn "+", getMessage := lookupMsg es }
      match brk with
      | "0" => some (.ok b)
      | "1" => some (.broken b ["Overriding.message.dup"])
      | "2" => some (.broken b ["Parser"])
      | "3" => some (.broken b ["Parser", "Overriding.message.dup"])
      | "4" => some (.broken b [])
      | _ => none
  | _ => none

def parseKey (s : String) : Option (Key String A) :=
  match s.toList.reverse with
  | '+' :: r => some { id := String.ofList r.reverse, args := 1 }
  | '~' :: r => some { id := String.ofList r.reverse, args := 2 }
  | [] => none
  | _ => some { id := s, args := 0 }

def parseKeys (s : String) : Option (List (Key String A)) :=
  if s == "-" then some [] else (s.splitOn ",").mapM parseKey

def hexS (s : String) : String := hexEnc (strBytes s)

def showLoc : Option String → String
  | some l => l
  | none => "-"

def showErr : E → String
  | .bundle e => "B(" ++ e ++ ")"
  | .resolver id l es => "R(" ++ id ++ "@" ++ l ++ ":" ++ "+".intercalate es ++ ")"
  | .missingMessage id l => "MM(" ++ id ++ "@" ++ showLoc l ++ ")"
  | .missingValue id l => "MV(" ++ id ++ "@" ++ showLoc l ++ ")"
  | .syncRequestInAsyncMode => "Sync"

def showVal : Option String → String
  | some t => "some=" ++ hexS t
  | none => "none"

def showMsg : Option (L10nMessage String String) → String
  | none => "none"
  | some m =>
    "msg(" ++ "/".intercalate ((match m.value with | some v => hexS v | none => "~") ::
      m.attributes.map fun (n, v) => n ++ "=" ++ hexS v) ++ ")"

def showList {α : Type} (f : α → String) (l : List α) : String := "[" ++ ",".intercalate (l.map f) ++ "]"

def showExc {α : Type} (f : α → String) : Except E α → String
  | .ok a => "ok:" ++ f a
  | .error e => "err:" ++ showErr e

def parseReq (op : String) : Option (Request String A) :=
  match op.splitOn ":" with
  | ["clr"] => some .clear
  | ["v", k] => (parseKey k).map .value
  | ["vs", k] => (parseKey k).map .valueSync
  | ["vv", ks] => (parseKeys ks).map .values
  | ["vvs", ks] => (parseKeys ks).map .valuesSync
  | ["mm", ks] => (parseKeys ks).map .messages
  | ["mms", ks] => (parseKeys ks).map .messagesSync
  -- `x…`: the same request was first started, polled once and dropped.  The model's state is the cached prefix and the
  -- error list; an abandoned request that was polled once leaves both as a completed or a not yet started request would,
  -- so the request that follows answers as the plain one
  | ["xv", k] => (parseKey k).map .value
  | ["xvv", ks] => (parseKeys ks).map .values
  | ["xmm", ks] => (parseKeys ks).map .messages
  | _ => none

def showResp : Response String String String String String String → String
  | .value r => showVal r
  | .valueSync r => showExc showVal r
  | .values r => showList showVal r
  | .valuesSync r => showExc (showList showVal) r
  | .messages r => showList showMsg r
  | .messagesSync r => showExc (showList showMsg) r
  | .cleared => "ok"

/-- print the trace of `Bundles.run`: per request the response, the errors it pushed, the number of
bundles generated so far -/
def showTrace : List (Response String String String String String String × List E × Bs) → Nat → List String
  | [], _ => []
  | (r, es, b) :: rest, nBefore =>
    (match r with
     | .cleared => "ok"
     | r => showResp r ++ "|E" ++ showList showErr (es.drop nBefore) ++ "|g" ++ toString b.cache.pulled)
      :: showTrace rest es.length

/-- put `ok` back at the positions of the `pf` ops -/
def weave : List String → List String → List String
  | [], outs => outs
  | op :: ops, outs =>
    if op == "pf" then "ok" :: weave ops outs
    else match outs with
      | o :: rest => o :: weave ops rest
      | [] => []

def run (payload : String) : String :=
  match payload.splitOn ";" with
  | cfg :: rest =>
    let sync? := if cfg == "cfg:s" then some true else if cfg == "cfg:a" || cfg == "cfg:p" || cfg == "cfg:q" then some false else none
    let bsegs := rest.takeWhile (·.startsWith "b:")
    let ops := rest.dropWhile (·.startsWith "b:")
    -- `pf` (prefetch with the default, empty source hook) is the identity on the model's state and answers `ok`: the
    -- history is run without these ops and `ok` is put back at their positions
    let real := ops.filter (· != "pf")
    match sync?, bsegs.mapM parseBundle, real.mapM parseReq with
    | some sync, some brs, some reqs =>
      match (Bundles.new sync brs).run [] reqs with
      | .done trace => ";".intercalate (weave ops (showTrace trace 0))
      | .panic site => "PANIC " ++ site
    | _, _, _ => "bad-case"
  | [] => "bad-case"

end FluentModel.Drv.FbDrv
