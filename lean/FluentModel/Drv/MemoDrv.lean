import FluentModel.Util
import FluentModel.Memo
import FluentModel.DriverLoop
/-!
Driver for area `memo` (C14).  Case payloads

* `seq  <op>;<op>;…`  history on an `IntlMemoizer` + `Rc<IntlLangMemoizer>` handles (lib.rs)
* `cseq <op>;<op>;…`  history on `Arc<concurrent::IntlLangMemoizer>` handles used from one thread
  ops: `lang:<l>` (get_for_lang; `seq` only) | `new:<l>` | `drop:<h>` | `get:<h>:<ty>:<arg>:<x>:<d|k>`
* `conc <lang> <sched> <prog>|<prog>|…`  one cold `concurrent::IntlLangMemoizer`, one thread per program
  (`prog` = `,`-separated `<ty>:<arg>:<x>:<d|k>` or `-`), `sched` = string of thread digits (or `-`): the schedule
  the *model* runs (followed by round-robin until everybody finished).  The real threads pick their own schedule.

Observations: `lang`/`new` → `h<handle>=m<allocation class>/s<strong count>`; `drop` → `ok` | `dead`; `get` →
`<construct event or nothing>><ok:serial/ty/lang/arg/x | err:ty/lang/arg/attempt>` | `dead`; `conc` →
`<results of thread 0>|<thread 1>|…#<construct events in order>#ovl=<overlapping critical sections>`.

`get` with `x = 777` (`seq`, handles from `lang:` only – anything else is `bad-op`, as in the harness): the callback
calls `get_for_lang` for its own language while the lookup is active; run as `MOp.lookupReenter`, the callback
result gets the suffix `+same` / `+OTHER-MEMOIZER` from the observation's flag (`FluentProofs/MemoReenter.lean`
proves it is `+same` on these handles).

The concrete instance of the external world (the harness implements the same in Rust): formatter types `A`, `B`
(never fail) and `F` (argument `<hex>.<n>`: fails while fewer than `n` constructions of this (lang, args) were
attempted; `n = 9`: always fails).  Instances carry a serial number handed out by successful constructions.
-/
namespace FluentModel.Drv.MemoDrv
open FluentModel FluentModel.Memo

structure Inst where
  serial : Nat
  ty : String
  lang : String
  arg : String

structure World where
  serial : Nat
  attempts : List ((String × String × String) × Nat)

def World.init : World := { serial := 0, attempts := [] }

/-- number of leading failures encoded in an `F` argument `<hex>.<n>` -/
def failN (ty arg : String) : Nat :=
  if ty == "F" then
    match arg.splitOn "." with
    | [_, n] => n.toNat?.getD 0
    | _ => 0
  else 0

def construct (w : World) (lang ty arg : String) : Except String Inst × World :=
  let key := (ty, lang, arg)
  let k := match aget w.attempts key with
    | some n => n
    | none => 0
  let w1 : World := { w with attempts := aset w.attempts key (k + 1) }
  let n := failN ty arg
  if n == 9 || k < n then (.error (ty ++ "/" ++ lang ++ "/" ++ arg ++ "/" ++ toString k), w1)
  else (.ok { serial := w.serial, ty := ty, lang := lang, arg := arg }, { w1 with serial := w.serial + 1 })

def ext : Ext World String String String Inst String := { construct := construct }

abbrev DOp := Op World String String Inst String

/-- `x = 666`: the callback panics; the caller catches the panic and prints `CBPANIC` (the formatter constructed for
this lookup was inserted BEFORE the callback ran, so it stays cached).
`x = 777`: the callback calls `get_for_lang` for its own language while the lookup is active and reports
`+same` / `+OTHER-MEMOIZER`.  That part of the callback is not in `cb` (a callback cannot reach the per-language
table): `seq` histories run such a lookup as `MOp.lookupReenter` and `showObs` appends what the model observed.
`noCtx`: lookups of the `conc` payload run on threads that have no `IntlMemoizer` to ask (the harness callback
finds no context there and says so). -/
def mkOp (ty arg x : String) (noCtx : Bool := false) : DOp :=
  { ty := ty, args := arg
    cb := fun i w => (if x == "666" then "CBPANIC"
                      else toString i.serial ++ "/" ++ i.ty ++ "/" ++ i.lang ++ "/" ++ i.arg ++ "/" ++ x
                           ++ (if noCtx && x == "777" then "+no-context" else ""), w) }

def isHexTok (s : String) : Bool := (hexDecode s).isSome

def validArg (ty arg : String) : Bool :=
  if ty == "A" || ty == "B" || ty == "C" then isHexTok arg
  else if ty == "F" then
    match arg.splitOn "." with
    | [h, n] => isHexTok h && n.length == 1 && n.all Char.isDigit
    | _ => false
  else false

def canonNat (s : String) : Option Nat :=
  match s.toNat? with
  | some n => if toString n == s && n < 4294967296 then some n else none
  | none => none

def validLang (l : String) : Bool :=
  ["en", "en-US", "pl", "fr-CA", "de", "und", "ca", "ca-valencia", "de-1901", "de-1996", "aa", "ab", "af", "ak", "am", "an", "ar", "as", "az", "be", "bg", "bm", "bn", "bo", "br", "bs", "cs", "cy", "da", "dz", "ee", "el", "eo", "es", "et", "eu", "fa", "ff", "fi", "fo"].contains l

def parseLookup (ty arg x via : String) (noCtx : Bool := false) : Option DOp :=
  if validArg ty arg && (canonNat x).isSome && (via == "d" || via == "k") then some (mkOp ty arg x noCtx) else none

def showEvent (e : Event String String String Inst String) : String :=
  e.ty ++ "/" ++ e.lang ++ "/" ++ e.args ++ "=" ++
    (match e.res with
     | .ok i => toString i.serial
     | .error er => "!" ++ er)

def showOutcome : Outcome String String → String
  | .ok r => "ok:" ++ r
  | .err e => "err:" ++ e

def showObs : MObs String String String Inst String String → String
  | .handle h oid => "h" ++ toString h ++ "=m" ++ toString oid
  | .dropped => "ok"
  | .dead => "dead"
  | .dangling => "dangling"
  | .res out ev => (match ev with | some e => showEvent e | none => "") ++ ">" ++ showOutcome out
  -- the re-entrant callback's verdict is part of the callback result (nothing when the callback never ran)
  | .resReenter out ev same => (match ev with | some e => showEvent e | none => "") ++ ">" ++ showOutcome out ++
      (match same with
       | some true => "+same"
       | some false => "+OTHER-MEMOIZER"
       | none => "")

abbrev DMOp := MOp World String String String Inst String

def parseMOp (conc : Bool) (op : String) : Option DMOp :=
  match op.splitOn ":" with
  | ["lang", l] => if !conc && validLang l then some (.getForLang l) else none
  | ["new", l] => if validLang l then some (.newLang l) else none
  | ["drop", h] => (canonNat h).map fun n => .drop n
  | ["get", h, ty, arg, x, via] =>
    if conc && x == "666" then none else     -- a panicking callback would poison the concurrent memoizer's mutex
    if conc && x == "777" then none else     -- the re-entrant callback is defined for `Rc` handles only
    match canonNat h, parseLookup ty arg x via with
    | some n, some o => some (if x == "777" then .lookupReenter n o else .lookup n o)
    | _, _ => none
  | _ => none

/-- handles handed out by `lang:` (get_for_lang), by index: only those may run the re-entrant callback `x = 777`
(the harness knows the language to ask for only for those; the model itself – `MOp.lookupReenter` – is defined for
every handle, and for a `new:` handle it would report `+OTHER-MEMOIZER`) -/
def originOf (ops : List String) : List Bool :=
  ops.filterMap fun op =>
    match op.splitOn ":" with
    | ["lang", _] => some true
    | ["new", _] => some false
    | _ => none

def reenterOk (conc : Bool) (origin : List Bool) (op : String) : Bool :=
  match op.splitOn ":" with
  | ["get", h, _, _, x, _] =>
    if x == "777" then !conc && (match h.toNat? with | some n => origin.getD n false | none => false) else true
  | _ => true

/-- `x = 778`: the callback of a lookup on handle `h` does a lookup of the fixed key `C "7a7a"` on ANOTHER memoizer —
the live handle with the largest index below `h` that refers to a different allocation — and appends that lookup's outcome to its own result.  Memoizers are
independent objects, so this is the outer lookup followed by the inner one (the inner one runs after the outer
construction, inside the outer callback); nothing else changes.  `none` = not such an op / no partner (printed `bad-op`). -/
def nestedLookup (s : MState World String String String Inst String) (op : String) :
    Option (MState World String String String Inst String × String) :=
  match op.splitOn ":" with
  | ["get", h, ty, arg, "778", via] =>
    match canonNat h, parseLookup ty arg "778" via with
    | some n, some o =>
      -- (a DIFFERENT memoizer: two handles of one language share the allocation, and re-entering the same memoizer
      -- is outside the property: `RefCell` / `Mutex`)
      let own := match s.handles[n]? with
        | some (some oid) => some oid
        | _ => none
      let partner := (List.range n).reverse.find? fun j =>
        match s.handles[j]? with
        | some (some oid) => own != some oid
        | _ => false
      (match partner with
       | none => none
       | some j =>
         let r1 := mstep ext s (.lookup n o)
         (match r1.2 with
          | .res (.ok out) ev1 =>
            let r2 := mstep ext r1.1 (.lookup j (mkOp "C" "7a7a" "0"))
            (match r2.2 with
             | .res out2 ev2 =>
               let evs := ([ev1, ev2].filterMap id).map showEvent
               some (r2.1, ",".intercalate evs ++ ">ok:" ++ out ++ "+inner=" ++ showOutcome out2)
             | _ => none)
          | other => some (r1.1, showObs other)))
    | _, _ => none
  | _ => none

def isNested (op : String) : Bool :=
  match op.splitOn ":" with
  | ["get", _, _, _, "778", _] => true
  | _ => false

def runSeq (conc : Bool) (body : String) : String :=
  let ops := body.splitOn ";"
  -- `lang:`/`new:` ops that are rejected (bad language, `lang:` on the concurrent flavour) hand out no handle
  let origin := originOf (ops.filter fun op => (parseMOp conc op).isSome)
  let (_, outs) := ops.foldl (fun (acc : MState World String String String Inst String × List String) op =>
    if isNested op then
      (match nestedLookup acc.1 op with
       | some (s', t) => (s', t :: acc.2)
       | none => (acc.1, "bad-op" :: acc.2))
    else
    match (if reenterOk conc origin op then parseMOp conc op else none) with
    | some o =>
      let r := mstep ext acc.1 o
      -- a new handle also reports `Rc::strong_count` of its allocation
      let extra := match r.2 with
        | .handle _ oid => (match aget r.1.heap oid with
            | some ob => "/s" ++ toString ob.strong
            | none => "/s?")
        | _ => ""
      (r.1, (showObs r.2 ++ extra) :: acc.2)
    | none => (acc.1, "bad-op" :: acc.2)) (MState.init World.init, [])
  ";".intercalate outs.reverse

def parseProg (p : String) : Option (List DOp) :=
  if p == "-" then some [] else
  (p.splitOn ",").mapM fun o =>
    match o.splitOn ":" with
    | [ty, arg, x, via] => parseLookup ty arg x via true
    | _ => none

def parseSched (s : String) : Option (List Nat) :=
  if s == "-" then some [] else
  s.toList.mapM fun c => if c.isDigit then some (c.toNat - 48) else none

def runConc (lang sched progs : String) : String :=
  match (progs.splitOn "|").mapM parseProg, parseSched sched with
  | some ps, some sc =>
    if !validLang lang || ps.length > 8 then "bad-case" else
    let n := ps.length
    let total := (ps.map List.length).sum
    let s0 : CState World String String String Inst String String := CState.init lang World.init ps
    let s := crun ext (sc ++ roundRobin n (3 * total)) s0
    if (List.range n).all (finishedB s) then
      let ts := (List.range n).map fun t => ",".intercalate ((s.threads t).results.reverse.map showOutcome)
      "|".intercalate ts ++ "#" ++ ",".intercalate (s.memo.log.reverse.map showEvent) ++ "#ovl=0"
    else "unfinished"
  | _, _ => "bad-case"

def run (payload : String) : String :=
  let (mode, body) := splitFirst payload
  if mode == "seq" then runSeq false body
  else if mode == "cseq" then runSeq true body
  else if mode == "conc" then
    match body.splitOn " " with
    | [lang, sched, progs] => runConc lang sched progs
    | _ => "bad-case"
  else "bad-case"

end FluentModel.Drv.MemoDrv
