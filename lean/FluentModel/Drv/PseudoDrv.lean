import FluentModel.Util
namespace FluentModel.Drv.PseudoDrv
def run (_payload : String) : String := "unsupported"
end FluentModel.Drv.PseudoDrv
