import FluentModel.Pseudo
/-! Driver for area `pseudo` (C20): payload = `<dom|plain> <flipped><elongate><markers> <hex>`.
Observation: `ok:<hex>` / `panic`; `unsupported` when the input has a non-ASCII character whose `\w`/`\s`
class the model does not know (only matters for `dom`); `regex-changed` when the source's regexes are no
longer the ones this model implements. -/
namespace FluentModel.Drv.PseudoDrv
open FluentModel FluentModel.Pseudo

def flag (c : Char) : Option Bool :=
  if c == '1' then some true else if c == '0' then some false else none

def showOut : Outcome (List Char) → String
  | .done cs => "ok:" ++ hexEnc (String.ofList cs).toUTF8.data.toList
  | .panic _ => "panic"

def run (payload : String) : String :=
  match payload.splitOn " " with
  | [kind, flags, hex] =>
    match flags.toList, hexDecode hex with
    | [f, e, m], some bs =>
      match flag f, flag e, flag m, String.fromUTF8? (ByteArray.mk bs.toArray) with
      | some f, some e, some m, some str =>
        let s := str.toList
        if Generated.pseudoExcludedRegex != modelledExcludedRegex || Generated.pseudoAzRegex != modelledAzRegex then
          "regex-changed"
        else if kind == "plain" then showOut (transform generatedTables f e s)
        else if kind == "dom" then
          if supported s then showOut (transformDom generatedTables s f e m) else "unsupported"
        else "bad-input"
      | _, _, _, _ => "bad-input"
    | _, _ => "bad-input"
  | _ => "bad-input"

end FluentModel.Drv.PseudoDrv
