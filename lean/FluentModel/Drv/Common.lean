import FluentModel.Util
import FluentModel.Num
/-! Value tokens of the line protocol and their canonical observation form. -/
namespace FluentModel.Drv
open FluentModel FluentModel.Num

/-- bytes that can only occur in something `f64::from_str` rejects: a letter outside
`einfatyEINFATY`, a space, `_`, or any non-ASCII byte -/
def surelyNotFloat (bs : Bytes) : Bool :=
  bs.isEmpty || bs.any fun b =>
    b ≥ 128 || b == 32 || b == 95 ||
    ((65 ≤ b && b ≤ 90 || 97 ≤ b && b ≤ 122) &&
      !(strBytes "einfatyEINFATY").contains b)

/-- canonical form of a number: `N<display>/<mfd|->/<c|o>` -/
def canonNum (d : Dec) (mfd : Option Nat) (ordinal : Bool := false) : String :=
  if sigDigits d > 15 then "unsupported" else
  "N" ++ display d ++ "/" ++ (match mfd with | some n => toString n | none => "-") ++ "/" ++
    (if ordinal then "o" else "c")

/-- value token → canonical observation of the `FluentValue` it denotes -/
def canonVal (tok : String) : String :=
  match tok.toList with
  | 's' :: r => match hexDecode (String.ofList r) with
    | some b => "Sb" ++ hexEnc b | none => "bad-token"
  | 'o' :: r => match hexDecode (String.ofList r) with
    | some b => "So" ++ hexEnc b | none => "bad-token"
  | 'c' :: r => match hexDecode (String.ofList r) with
    | some b => "C" ++ hexEnc b | none => "bad-token"
  | ['z'] => "Z"
  | 'i' :: r | 'u' :: r | 'f' :: r =>
    match parseDec (strBytes (String.ofList r)) with
    | some d => canonNum d none
    | none => "bad-token"
  | 'n' :: r =>
    match (String.ofList r).splitOn "/" with
    | [v, m] =>
      match parseDec (strBytes v), (if m == "-" then some none else m.toNat?.map some) with
      | some d, some mfd => canonNum d mfd
      | _, _ => "bad-token"
    | _ => "bad-token"
  | 't' :: r =>
    match hexDecode (String.ofList r) with
    | some b =>
      match parseDec b with
      | some d => canonNum d (mfdOfSource b)
      | none => if surelyNotFloat b then "Sb" ++ hexEnc b else "unsupported"
    | none => "bad-token"
  | _ => "bad-token"

end FluentModel.Drv
