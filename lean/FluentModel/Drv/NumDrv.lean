import FluentModel.Plural
import FluentModel.Generated
import FluentModel.BundleLocale
/-! Driver of area `num` (C12): see `harness/src/bin/fvh_num.rs` for the case-line format. -/
namespace FluentModel.Drv.NumDrv
open FluentModel FluentModel.Num FluentModel.Plural

inductive In (α : Type) where
  | ok (a : α)
  | bad            -- the harness answers `bad-case`
  | unsupported    -- outside the exact-decimal domain of the model

def bytesToString (b : Bytes) : String := String.ofList (b.map fun x => Char.ofNat x.toNat)

def intTypes : List String :=
  ["i8", "i16", "i32", "i64", "i128", "isize", "u8", "u16", "u32", "u64", "u128", "usize"]

/-- `-?digits` as an integer of a Rust integer type converted with `as f64` -/
def intValue (text : String) : In Val :=
  match parseDec (strBytes text) with
  | some d =>
    if (splitAtDot (strBytes text)).2.isSome then .bad
    else if sigDigits d > 15 then .unsupported
    else .ok (.num ⟨{ d with neg := d.neg && !d.isZero }, {}⟩)
  | none => .bad

/-- an `f64` written as a plain decimal -/
def f64Value (text : String) (mfd : Option Nat := none) (ty : NumType := .cardinal) : In Val :=
  match parseDec (strBytes text) with
  | some d => if sigDigits d > 15 then .unsupported else .ok (.num ⟨d, { minimumFractionDigits := mfd, type := ty }⟩)
  | none => .unsupported

/-- an `f32` is in the domain when it is a small dyadic rational (then `as f64` and printing are exact) -/
def f32Value (text : String) : In Val :=
  match parseDec (strBytes text) with
  | some d =>
    let k := d.frac.length
    if sigDigits d ≤ 15 && k ≤ 6 && digitsToNat d.int < 131072 && (digitsToNat d.frac * 64) % (10 ^ k) == 0
    then .ok (.num ⟨d, {}⟩) else .unsupported
  | none => .unsupported

def tryValue (b : Bytes) : In Val :=
  match tryNumber b with
  | .number n => .ok (.num n)
  | .notNumber => .ok (.str b)
  | .unsupported => .unsupported

def parseVal (tok : String) : In Val :=
  match tok.toList with
  | 'L' :: r =>
    match hexDecode (String.ofList r) with
    | some b => (match parseDec b with | some _ => tryValue b | none => .bad)
    | none => .bad
  | 'R' :: r =>
    match (String.ofList r).splitOn ":" with
    | [ty, text] =>
      if intTypes.contains ty then intValue text
      else if ty == "f64" then f64Value text
      else if ty == "f32" then f32Value text
      else .bad
    | _ => .bad
  | 's' :: r | 'o' :: r =>
    match hexDecode (String.ofList r) with
    | some b => .ok (.str b)
    | none => .bad
  | 'i' :: r | 'u' :: r => intValue (String.ofList r)
  | 'f' :: r => f64Value (String.ofList r)
  | 't' :: r =>
    match hexDecode (String.ofList r) with
    | some b => tryValue b
    | none => .bad
  | 'n' :: r =>
    match (String.ofList r).splitOn "/" with
    | [v, m] =>
      if m == "-" then f64Value v none
      else match m.toNat? with
        | some k => f64Value v (some k)
        | none => .bad
    | [v, m, "o"] =>          -- the caller's number already carries type = ordinal
      if m == "-" then f64Value v none .ordinal
      else match m.toNat? with
        | some k => f64Value v (some k) .ordinal
        | none => .bad
    | _ => .bad
  | _ => .unsupported

def parseOpts (s : String) : In (Option (List (String × Val))) :=
  if s == "-" then .ok none
  else if s == "+" then .ok (some [])
  else
    (s.splitOn ",").foldl (fun (acc : In (Option (List (String × Val)))) o =>
      match acc with
      | .ok (some l) =>
        match o.splitOn "=" with
        | [name, v] =>
          match v.toList with
          | 'Q' :: h =>
            match hexDecode (String.ofList h) with
            | some b => .ok (some (l ++ [(name, .str b)]))
            | none => .bad
          | 'D' :: d =>
            match tryValue (strBytes (String.ofList d)) with
            | .ok x => .ok (some (l ++ [(name, x)]))
            | .bad => .bad
            | .unsupported => .unsupported
          | _ => .bad
        | _ => .bad
      | other => other) (.ok (some []))

def parseKeys (s : String) : Option (List (Key × Bool)) :=
  (s.splitOn ",").mapM fun k =>
    let (d, body) := match k.toList with
      | '*' :: r => (true, r)
      | r => (false, r)
    match body with
    | 'I' :: id => some (Key.ident (strBytes (String.ofList id)), d)
    | 'D' :: lit => some (Key.numLit (strBytes (String.ofList lit)), d)
    | _ => none

def showOperands (o : Operands) : String :=
  display o.n ++ "," ++ toString o.i ++ "," ++ toString o.v ++ "," ++ toString o.w ++ "," ++
    toString o.f ++ "," ++ toString o.t

/-- what `PROBE` reports about its first argument -/
def probe : Val → String
  | .str s => "S" ++ hexEnc s
  | .error => "E"
  | .num n =>
    let g := getOption n.options
    "N" ++ display n.value ++ "|ty=" ++ g "type" ++ "|style=" ++ g "style" ++ "|cur=" ++ g "currency" ++
    "|cd=" ++ g "currencyDisplay" ++ "|ug=" ++ (if g "useGrouping" == "true" then "1" else "0") ++
    "|minid=" ++ g "minimumIntegerDigits" ++ "|minfd=" ++ g "minimumFractionDigits" ++
    "|maxfd=" ++ g "maximumFractionDigits" ++ "|minsd=" ++ g "minimumSignificantDigits" ++
    "|maxsd=" ++ g "maximumSignificantDigits" ++ "|ops=" ++
    (match operandsOf n with
     | some o => showOperands o
     | none => "PANIC")

def run (payload : String) : String :=
  if Generated.maxFractionDigits != Num.maxFractionDigits then "const-mismatch MAX_FRACTION_DIGITS" else
  match payload.splitOn " " with
  | [loc0, valTok, optTok, keyTok] =>
    -- a locale CHAIN `a+b+c`: the plural rules are those of the first locale (`FluentBundle::new`: `locales.first()`)
    let loc := memoizerLocale (parseLocaleChain loc0)
    if (localeShape loc).isNone then "unsupported" else
    match parseVal valTok, parseOpts optTok, parseKeys keyTok with
    | .bad, _, _ | _, .bad, _ | _, _, none => "bad-case"
    | .unsupported, _, _ | _, .unsupported, _ => "unsupported"
    | .ok v, .ok opts, some keys =>
      let p := hexEnc (valText v) ++ ":0"
      -- named arguments reach `merge` through a `FluentArgs` (sorted by name)
      let sel := match opts with
        | none => v
        | some named => fnNUMBER [v] (named.mergeSort (fun a b => decide (a.1 ≤ b.1)))
      let q := match opts with
        | none => "~"
        | some _ =>
          (match sel with
           | .error => hexEnc (strBytes "NUMBER()")
           | x => hexEnc (valText x)) ++ ":0"
      let s := match selectVariant (pluralCategory loc) sel keys with
        | .idx i => hexEnc (strBytes (toString i)) ++ ":0"
        | .noDefault => "-:1"
        | .panic => "PANIC"
        | .unsupported => "unsupported"
      "p=" ++ p ++ ";q=" ++ q ++ ";s=" ++ s ++ ";r=" ++ probe sel
  | _ => "bad-case"

end FluentModel.Drv.NumDrv
