import FluentModel.ResMgr
import FluentModel.Drv.RegDrv
/-!
# Driver for area `rm` (C19): file-system mutation steps and ResourceManager requests

payload := scheme ` ` probes ` ` step (`;` step)*
scheme  := hex of the path scheme, relative to the case's temp directory
probes  := hex ids (`,`-separated) looked up in every bundle that is returned
step    := `w:`path`:`res | `bad:`path | `dir:`path | `rm:`path            (file-system mutations)
         | `bundle:`locales`:`ids | `iter:`locales`:`ids | `next:`n         (requests)
res     := structured resource description (see `RegDrv`); the harness renders it into a real file.

The driver keeps the current file-system snapshot and answers every request with the model run against
the world that is constantly that snapshot (the model consults the world only at the ticks of the reads
of that request).  File content is represented by the description text itself; `parse` decodes it with
`RegDrv.bodyOf` (the same contract about the runtime parser as in area `reg`).
-/
namespace FluentModel.Drv.RmDrv
open FluentModel FluentModel.Registry FluentModel.ResMgr FluentModel.Drv.RegDrv

inductive FileState where
  | file (content : Bytes)
  | bad
  | dir

abbrev Snapshot := List (Path × FileState)

def under (p q : Path) : Bool := (p ++ [47]).isPrefixOf q    -- q is below directory p

def Snapshot.remove (s : Snapshot) (p : Path) : Snapshot :=
  s.filter fun (q, _) => !(q == p) && !under p q

def Snapshot.set (s : Snapshot) (p : Path) (f : FileState) : Snapshot :=
  (s.remove p) ++ [(p, f)]

def Snapshot.read (s : Snapshot) (p : Path) : ReadResult :=
  match s.find? (fun (q, _) => q == p) with
  | some (_, .file c) => .ok c
  | some (_, .bad) => .err .invalidData
  | some (_, .dir) => .err .isDir
  | none => .err .notFound

def parseContent (content : Bytes) : Resource :=
  match String.fromUTF8? (ByteArray.mk content.toArray) with
  | some s => match parseRes s with
    | some ds => bodyOf ds
    | none => []
  | none => []

def parseList (s : String) : Option (List Bytes) :=
  if s == "" then some [] else (s.splitOn ",").mapM hexDecode

def showIo : IoErr → String
  | .notFound => "io.nf"
  | .isDir => "io.dir"
  | .invalidData => "io.utf8"
  | .other _ => "io.other"

def showMgrErr : MgrError → String
  | .io e => showIo e
  | .fluent e => showErr e

def dump (probes : List Bytes) (b : Bundle) : String :=
  ",".intercalate (probes.map fun id =>
    hexEnc id ++ "=" ++
    (match getMessage b id with
      | none => "n"
      | some m => "m." ++ showVal m.value ++ "." ++ showAttrs m.attrs) ++ "/" ++
    (match getEntryTerm b id with
      | none => "n"
      | some t => "t." ++ hexEnc t.value))

def showResult (probes : List Bytes) : BundleResult → String
  | .ok fb => "ok:" ++ ",".intercalate (fb.locales.map hexEnc) ++ ":" ++ dump probes fb.reg
  | .error es => "err:" ++ ",".intercalate (es.map showMgrErr)

/-- regular files opened since the log had length `n` -/
def opens (m : Mgr) (n : Nat) : String :=
  "opens=" ++ ",".intercalate ((m.log.drop n).filterMap fun e =>
    match e.result with
    | .ok _ => some (hexEnc e.path)
    | .err .invalidData => some (hexEnc e.path)
    | .err _ => none)

structure St where
  snap : Snapshot
  sys : Sys

def request (probes : List Bytes) (st : St) (r : Req) : St × String :=
  let w : World := fun _ p => st.snap.read p
  let n := st.sys.mgr.log.length
  let res := stepReq w parseContent st.sys r
  let o := match res.2 with
    | .bundle (.done br) => showResult probes br
    | .bundle .panic => "panic"
    | .opened => "ok"
    | .item none => "end"
    | .item (some br) => showResult probes br
    | .noSuchIter => "no-such-iter"
  (⟨st.snap, res.1⟩, o ++ "|" ++ opens res.1.mgr n)

def stepOp (probes : List Bytes) (st : St) (op : String) : St × String :=
  match op.splitOn ":" with
  | ["w", p, res] =>
    match hexDecode p with
    | some pb => (⟨st.snap.set pb (.file (strBytes res)), st.sys⟩, "ok")
    | none => (st, "bad-op")
  | ["bad", p] =>
    match hexDecode p with
    | some pb => (⟨st.snap.set pb .bad, st.sys⟩, "ok")
    | none => (st, "bad-op")
  | ["dir", p] =>
    match hexDecode p with
    | some pb => (⟨st.snap.set pb .dir, st.sys⟩, "ok")
    | none => (st, "bad-op")
  | ["rm", p] =>
    match hexDecode p with
    | some pb => (⟨st.snap.remove pb, st.sys⟩, "ok")
    | none => (st, "bad-op")
  | ["bundle", ls, ids] =>
    match parseList ls, parseList ids with
    | some l, some i => request probes st (.bundle l i)
    | _, _ => (st, "bad-op")
  | ["iter", ls, ids] =>
    match parseList ls, parseList ids with
    | some l, some i => request probes st (.openIter l i)
    | _, _ => (st, "bad-op")
  | ["next", h] =>
    match h.toNat? with
    | some n => request probes st (.next n)
    | none => (st, "bad-op")
  -- `Iterator::nth(k)` (the default method): `next()` k times, stopping at the first `None`, then `next()` once more;
  -- the skipped bundles are assembled (their files are read) and dropped
  | ["nth", h, k] =>
    match h.toNat?, k.toNat? with
    | some n, some k =>
      if k > 8 then (st, "bad-op") else
      let rec go (fuel : Nat) (st : St) (opens : List String) : St × String :=
        let (st', o) := request probes st (.next n)
        let parts := o.splitOn "|opens="
        let res := parts.headD ""
        let ops := ((parts.getD 1 "").splitOn ",").filter (· != "")
        match fuel with
        | 0 => (st', res ++ "|opens=" ++ ",".intercalate (opens ++ ops))
        | f + 1 =>
          if res == "end" || res == "no-such-iter" then (st', res ++ "|opens=" ++ ",".intercalate (opens ++ ops))
          else go f st' (opens ++ ops)
      go k st []
    | _, _ => (st, "bad-op")
  | _ => (st, "bad-op")

def run (payload : String) : String :=
  match payload.splitOn " " with
  | [scheme, probes, steps] =>
    match hexDecode scheme, parseList probes with
    | some sch, some pr =>
      let ops := steps.splitOn ";"
      let (_, outs) := ops.foldl (fun (acc : St × List String) op =>
        let (s', o) := stepOp pr acc.1 op; (s', o :: acc.2)) (⟨[], Sys.new sch⟩, [])
      ";".intercalate outs.reverse
    | _, _ => "bad-case"
  | _ => "bad-case"

end FluentModel.Drv.RmDrv
