import FluentModel.Util
import FluentModel.Generated
/-!
# Model of `fluent-syntax/src/unicode.rs` (string-literal escapes)

Transcribed, statement by statement, from `/repo/fluent-syntax/src/unicode.rs`:

* `unescape`            ← `fn unescape<W>(w, input) -> Result<bool, fmt::Error>` (the byte-cursor loop
                          with `start`/`ptr`, `bytes.get(ptr)`, the panicking `&input[start..ptr]`,
                          `input.get(seq_start..seq_start + len)`, the boundary-skip loop)
* `encodeUnicode`       ← `fn encode_unicode(s: Option<&str>) -> char` (hex-digit filter,
                          `u32::from_str_radix(_, 16)`, `char::from_u32`, `UNKNOWN_CHAR`)
* `unescapeUnicode`     ← `pub fn unescape_unicode<W>(w, input)`
* `unescapeUnicodeToString` ← `pub fn unescape_unicode_to_string(input) -> Cow<str>`

Text is UTF-8 **bytes** (`Array UInt8`, O(1) `bytes.get`).  A `&str` slice is the list of its bytes.
`str` primitives are transcribed from the Rust standard library:

* `isCharBoundary`  = `str::is_char_boundary` (`index == 0`, `index >= len ⇒ index == len`,
                       otherwise `(b as i8) >= -0x40`, i.e. `b < 128 ∨ b ≥ 192`);
* `strGet`          = `str::get(a..b)` (`a ≤ b` and both ends on a char boundary, else `None`);
* `strIndex`        = `&s[a..b]` (panics exactly when `get` answers `None`) – an explicit `panic` outcome.

Modelled by contract (external code, not transcribed):
`u32::from_str_radix(s, 16)` (optional leading `+`, then ≥ 1 hex digits, overflow ⇒ `Err`),
`char::from_u32` (`Some` exactly for Unicode scalar values), `String::push`/`fmt::Write::write_char`
(append the UTF-8 encoding, which is Lean core's `String.utf8EncodeChar`), `String::push_str`.
The writer is a byte accumulator that never fails (`String`); `usize` additions (`ptr + len`) cannot
overflow for any allocatable input and are modelled in `Nat`.

Loops take fuel (`outOfFuel` is a distinct outcome); `FluentProofs.Unescape` proves that the fuel
the entry points pass (`s.size + 1`) is always sufficient.
-/
namespace FluentModel.Unescape
open FluentModel

abbrev Src := Array UInt8

inductive Outcome (α : Type) where
  | done (a : α)
  | panic
  | outOfFuel
  deriving Repr, DecidableEq

/-- `const UNKNOWN_CHAR: char = '�'` (code point re-extracted from the source on every run) -/
def unknownChar : Char := Char.ofNat Generated.unknownCharCode

/-- `u8::is_utf8_char_boundary`: `(self as i8) >= -0x40` -/
def byteIsCharBoundary (b : UInt8) : Bool := b < 128 || 192 ≤ b

/-- `str::is_char_boundary` -/
def isCharBoundary (s : Src) (i : Nat) : Bool :=
  i == 0 ||
    (match s[i]? with
     | some b => byteIsCharBoundary b
     | none => i == s.size)

/-- `str::get(a..b)` -/
def strGet (s : Src) (a b : Nat) : Option Bytes :=
  if a ≤ b && isCharBoundary s a && isCharBoundary s b then some (s.extract a b).toList else none

/-- `&s[a..b]` -/
def strIndex (s : Src) (a b : Nat) : Outcome Bytes :=
  match strGet s a b with
  | some x => .done x
  | none => .panic

/-- `u8::is_ascii_hexdigit` -/
def isAsciiHexDigit (b : UInt8) : Bool :=
  (48 ≤ b && b ≤ 57) || (65 ≤ b && b ≤ 70) || (97 ≤ b && b ≤ 102)

/-- `(b as char).to_digit(16)` -/
def hexDigitValue (b : UInt8) : Option Nat :=
  if 48 ≤ b && b ≤ 57 then some (b.toNat - 48)
  else if 65 ≤ b && b ≤ 70 then some (b.toNat - 55)
  else if 97 ≤ b && b ≤ 102 then some (b.toNat - 87)
  else none

def radix16Digits : Bytes → Nat → Option Nat
  | [], acc => some acc
  | b :: rest, acc =>
    match hexDigitValue b with
    | some d => if acc * 16 + d < 4294967296 then radix16Digits rest (acc * 16 + d) else none
    | none => none

/-- contract of `u32::from_str_radix(s, 16)` -/
def fromStrRadix16 (bs : Bytes) : Option Nat :=
  match bs with
  | [] => none
  | [43] => none
  | 43 :: rest => radix16Digits rest 0
  | _ => radix16Digits bs 0

/-- contract of `char::from_u32` -/
def charFromU32 (n : Nat) : Option Char :=
  if n < 0xD800 || (0xDFFF < n && n < 0x110000) then some (Char.ofNat n) else none

/-- `fn encode_unicode(s: Option<&str>) -> char` -/
def encodeUnicode (s : Option Bytes) : Char :=
  match s.filter (fun bs => bs.all isAsciiHexDigit) with
  | some bs =>
    match (fromStrRadix16 bs).bind charFromU32 with
    | some c => c
    | none => unknownChar
  | none => unknownChar

/-- The `match bytes.get(ptr)` after the backslash, together with the `ptr += 1` that follows it.
`ptr` is the index just after the backslash; the result is `(new_char, ptr)`. -/
def escape (s : Src) (ptr : Nat) : Char × Nat :=
  match s[ptr]? with
  | some b =>
    if b == 0x5C then ('\\', ptr + 1)
    else if b == 0x22 then ('"', ptr + 1)
    else if b == 0x75 || b == 0x55 then
      let seqStart := ptr + 1
      let len := if b == 0x75 then 4 else 6
      (encodeUnicode (strGet s seqStart (seqStart + len)), ptr + len + 1)
    else (unknownChar, ptr + 1)
  | none => (unknownChar, ptr + 1)

/-- `while ptr < bytes.len() && !input.is_char_boundary(ptr) { ptr += 1; }` -/
def skipToBoundary (s : Src) : Nat → Nat → Outcome Nat
  | 0, _ => .outOfFuel
  | fuel + 1, ptr =>
    if ptr < s.size && !isCharBoundary s ptr then skipToBoundary s fuel (ptr + 1) else .done ptr

/-- `while let Some(b) = bytes.get(ptr) { … }`; state `(start, ptr)`, `out` = what was written to `w`.
Result: the state at loop exit. -/
def loop (s : Src) : Nat → Nat → Nat → Bytes → Outcome (Nat × Nat × Bytes)
  | 0, _, _, _ => .outOfFuel
  | fuel + 1, start, ptr, out =>
    match s[ptr]? with
    | none => .done (start, ptr, out)
    | some b =>
      if b != 0x5C then loop s fuel start (ptr + 1) out
      else
        match (if start != ptr then strIndex s start ptr else .done []) with
        | .panic => .panic
        | .outOfFuel => .outOfFuel
        | .done chunk =>
          let e := escape s (ptr + 1)
          match skipToBoundary s (s.size + 1) e.2 with
          | .panic => .panic
          | .outOfFuel => .outOfFuel
          | .done p => loop s fuel p p (out ++ chunk ++ String.utf8EncodeChar e.1)

/-- the code after the loop: `if start == 0 { return Ok(false) }`, the trailing `write_str`, `Ok(true)` -/
def finish (s : Src) : Outcome (Nat × Nat × Bytes) → Outcome (Bytes × Bool)
  | .panic => .panic
  | .outOfFuel => .outOfFuel
  | .done (start, ptr, out) =>
    if start == 0 then .done (out, false)
    else if start != ptr then
      match strIndex s start ptr with
      | .done chunk => .done (out ++ chunk, true)
      | .panic => .panic
      | .outOfFuel => .outOfFuel
    else .done (out, true)

/-- `fn unescape(w, input) -> Result<bool, fmt::Error>`: (bytes written to `w`, returned flag) -/
def unescape (s : Src) : Outcome (Bytes × Bool) :=
  finish s (loop s (s.size + 1) 0 0 [])

/-- `pub fn unescape_unicode(w, input)`: the writer's content afterwards (`w` = content before) -/
def unescapeUnicode (w : Bytes) (s : Src) : Outcome Bytes :=
  match unescape s with
  | .done (o, true) => .done (w ++ o)
  | .done (o, false) => .done (w ++ o ++ s.toList)
  | .panic => .panic
  | .outOfFuel => .outOfFuel

/-- `pub fn unescape_unicode_to_string(input) -> Cow<str>`: (bytes, `true` = `Cow::Owned`) -/
def unescapeUnicodeToString (s : Src) : Outcome (Bytes × Bool) :=
  match unescape s with
  | .done (o, true) => .done (o, true)
  | .done (_, false) => .done (s.toList, false)
  | .panic => .panic
  | .outOfFuel => .outOfFuel

end FluentModel.Unescape
