/-!
# Shared utilities for the executable models (import-free: core Lean only)

Text travels through the line protocol as lower-case hex of UTF-8 bytes.
-/
namespace FluentModel

abbrev Bytes := List UInt8

def hexDigit (n : Nat) : Char :=
  if n < 10 then Char.ofNat (48 + n) else Char.ofNat (87 + n)

def hexVal (c : Char) : Option Nat :=
  if '0' ≤ c ∧ c ≤ '9' then some (c.toNat - 48)
  else if 'a' ≤ c ∧ c ≤ 'f' then some (c.toNat - 87)
  else none

def hexEncode (bs : Bytes) : String :=
  String.ofList (bs.flatMap fun b => [hexDigit (b.toNat / 16), hexDigit (b.toNat % 16)])

def hexDecodeAux : List Char → Option Bytes
  | [] => some []
  | [_] => none
  | a :: b :: rest =>
    match hexVal a, hexVal b, hexDecodeAux rest with
    | some x, some y, some r => some (UInt8.ofNat (x * 16 + y) :: r)
    | _, _, _ => none

/-- `-` stands for the empty string so that tokens are never empty. -/
def hexDecode (s : String) : Option Bytes :=
  if s == "-" then some [] else hexDecodeAux s.toList

def hexEnc (bs : Bytes) : String :=
  if bs.isEmpty then "-" else hexEncode bs

/-- Lexicographic order on bytes = Rust's `str`/`[u8]` `Ord`. -/
def bytesLt : Bytes → Bytes → Bool
  | [], [] => false
  | [], _ :: _ => true
  | _ :: _, [] => false
  | a :: as, b :: bs => if a < b then true else if b < a then false else bytesLt as bs

def splitOnChar (s : String) (c : Char) : List String :=
  (s.splitOn (String.singleton c))

def strBytes (s : String) : Bytes := s.toUTF8.data.toList

end FluentModel
