import FluentModel.Ast
/-!
# `joinText`: merge adjacent text elements of every pattern of a tree

The Rust parser emits one `TextElement` per source line segment; the grammar's abstract syntax
(and the reference fixtures) has one text element per maximal run.  `joinText` is the canonical
map from the former to the latter; it is applied to the parser's trees (model and implementation)
before they are compared with `SpecGrammar.parse`.
-/
namespace FluentModel.Syntax

mutual
def Inline.joinText : Inline Bytes → Inline Bytes
  | .str v => .str v
  | .num v => .num v
  | .fn id pos named => .fn id (joinInl pos) (joinNamed named)
  | .msg id attr => .msg id attr
  | .term id attr none => .term id attr none
  | .term id attr (some (pos, named)) => .term id attr (some (joinInl pos, joinNamed named))
  | .var id => .var id
  | .placeable e => .placeable e.joinText
def joinInl : List (Inline Bytes) → List (Inline Bytes)
  | [] => []
  | x :: xs => x.joinText :: joinInl xs
def joinNamed : List (Bytes × Inline Bytes) → List (Bytes × Inline Bytes)
  | [] => []
  | (n, x) :: xs => (n, x.joinText) :: joinNamed xs
def Expr.joinText : Expr Bytes → Expr Bytes
  | .inline e => .inline e.joinText
  | .select sel vs => .select sel.joinText (joinVariants vs)
def joinVariants : List (Variant Bytes) → List (Variant Bytes)
  | [] => []
  | v :: vs => v.joinText :: joinVariants vs
def Variant.joinText : Variant Bytes → Variant Bytes
  | .mk k val d => .mk k (joinPat val) d
/-- join adjacent text elements (after joining inside the placeables) -/
def joinPat : List (PatElem Bytes) → List (PatElem Bytes)
  | [] => []
  | .text a :: rest =>
    (match joinPat rest with
     | .text b :: rest' => .text (a ++ b) :: rest'
     | rest' => .text a :: rest')
  | .placeable e :: rest => .placeable e.joinText :: joinPat rest
end

def Attribute.joinText (a : Attribute Bytes) : Attribute Bytes := ⟨a.id, joinPat a.value⟩

def Entry.joinText : Entry Bytes → Entry Bytes
  | .message m => .message ⟨m.id, m.value.map joinPat, m.attributes.map Attribute.joinText, m.comment⟩
  | .term t => .term ⟨t.id, joinPat t.value, t.attributes.map Attribute.joinText, t.comment⟩
  | e => e

def Resource.joinText (r : Resource Bytes) : Resource Bytes := r.map Entry.joinText

end FluentModel.Syntax
