import FluentModel.Parser
import FluentModel.Resolver
/-!
# The pipeline "load FTL text into a bundle, then format a message" as ONE model object

`Bundle.ofSources` = `FluentResource::try_new` (runtime parser, `parseRuntime` + `resolve`) for every
source, then `FluentBundle::add_resource` / `add_resource_overriding` in order;
`Bundle.env` = the bundle as the resolver sees it; `Bundle.format` / `Bundle.write` =
`get_message` + `value()` / `get_attribute` + `format_pattern` / `write_pattern`.

`Ent`, `Reg`, `Reg.get`, `Reg.set`, `addResource` are copied verbatim from `FluentModel/Drv/FmtDrv.lean`
(the `fmt` driver builds its registry and its `Env` in exactly this way; the driver file is left
untouched).  Everything the bundle is configured with is a field of `BundleCfg` (total functions:
contracts, as in `Resolver.Env`).
-/
namespace FluentModel.Bundle
open FluentModel FluentModel.Syntax FluentModel.Resolver FluentModel.Num

inductive Ent where
  | message (m : Message Bytes)
  | term (t : Term Bytes)
  | function (f : Fn)

abbrev Reg := List (Bytes × Ent)

def Reg.get (r : Reg) (id : Bytes) : Option Ent := (r.find? (·.1 == id)).map (·.2)
def Reg.set (r : Reg) (id : Bytes) (e : Ent) : Reg :=
  if r.any (·.1 == id) then r.map (fun kv => if kv.1 == id then (id, e) else kv) else r ++ [(id, e)]

/-- `add_resource` (first wins) / `add_resource_overriding` (last wins); one id namespace for
messages, terms (keyed without `-`) and functions -/
def addResource (r : Reg) (overriding : Bool) (res : Resource Bytes) : Reg :=
  res.foldl (fun r e =>
    match e with
    | .message m => if overriding || (r.get m.id).isNone then r.set m.id (.message m) else r
    | .term t => if overriding || (r.get t.id).isNone then r.set t.id (.term t) else r
    | _ => r) r

/-- what a bundle is configured with besides its resources -/
structure BundleCfg where
  useIsolating : Bool
  transform : Option (Bytes → Bytes)
  formatter : Option (Value → Option Bytes)
  /-- `add_function` calls, in order (a second registration under a taken id is refused) -/
  functions : List (Bytes × Fn)
  /-- plural category under the bundle's first locale; `none` = the Rust code panics -/
  category : FluentNumber → Option Category
  unescape : Bytes → Bytes
  tryNumber : Bytes → Value
  customStr : Bytes → Bytes

structure Bundle where
  cfg : BundleCfg
  reg : Reg

/-- `add_function` for every configured function (first wins), before any resource -/
def addFunctions (r : Reg) (fns : List (Bytes × Fn)) : Reg :=
  fns.foldl (fun r nf => if (r.get nf.1).isNone then r.set nf.1 (.function nf.2) else r) r

/-- the bytes the parser sees -/
def srcOf (s : String) : Src := s.toUTF8.data

/-- one `FluentResource::try_new(source)` + `add_resource[_overriding]`; `none` = the parser model
panicked or ran out of fuel (never: `FluentProofs.E2E.bundle_of_sources_total`) -/
def loadSource (r : Reg) (s : Bool × String) : Option Reg :=
  match parseRuntime (srcOf s.2) with
  | .done (res, _) => some (addResource r s.1 (resolve (srcOf s.2) res))
  | _ => none

def loadSources : Reg → List (Bool × String) → Option Reg
  | r, [] => some r
  | r, s :: rest =>
    match loadSource r s with
    | some r1 => loadSources r1 rest
    | none => none

/-- the bundle holding the configured functions and the given sources
(`true` = `add_resource_overriding`), added in order -/
def Bundle.ofSources (cfg : BundleCfg) (srcs : List (Bool × String)) : Option Bundle :=
  (loadSources (addFunctions [] cfg.functions) srcs).map fun r => ⟨cfg, r⟩

/-- the bundle as the resolver sees it, for one call with arguments `args` -/
def Bundle.env (b : Bundle) (args : Option ArgList) : Env where
  msg := fun id => match b.reg.get id with | some (.message m) => some m | _ => none
  term := fun id => match b.reg.get id with | some (.term t) => some t | _ => none
  fn := fun id => match b.reg.get id with | some (.function f) => some f | _ => none
  useIsolating := b.cfg.useIsolating
  transform := b.cfg.transform
  formatter := b.cfg.formatter
  category := b.cfg.category
  tryNumber := b.cfg.tryNumber
  unescape := b.cfg.unescape
  customStr := b.cfg.customStr
  args := args

/-- `bundle.get_message(id)` then `.value()` (`attr = none`) or `.get_attribute(attr)`:
`none` = no such message / no value / no such attribute -/
def Bundle.pattern (b : Bundle) (id : Bytes) (attr : Option Bytes) : Option (Pattern Bytes) :=
  match (b.env none).msg id with
  | none => none
  | some m =>
    match attr with
    | none => m.value
    | some a => findAttr m.attributes a

/-- the fuel the `fmt` driver passes (`FmtDrv.resolverFuel`) -/
def resolverFuel : Nat := 100000

/-- `format_pattern` on the chosen pattern (`none` = nothing to format) -/
def Bundle.format (b : Bundle) (id : Bytes) (attr : Option Bytes) (args : Option ArgList)
    (fuel : Nat := resolverFuel) : Option (RR (Bytes × List RErr)) :=
  (b.pattern id attr).map (formatPattern (b.env args) fuel)

/-- `write_pattern` on the chosen pattern -/
def Bundle.write (b : Bundle) (id : Bytes) (attr : Option Bytes) (args : Option ArgList)
    (fuel : Nat := resolverFuel) : Option (RR (Bytes × List RErr)) :=
  (b.pattern id attr).map (writePatternTop (b.env args) fuel)

end FluentModel.Bundle
