import FluentModel.Num
/-!
# Plural operands, CLDR plural rules, plural-category matching, NUMBER option merge (C12)

Transcribed from
* `intl_pluralrules-7.0.2/src/operands.rs` (`TryFrom<&str> for PluralOperands`, reached through
  `TryFrom<f64>`: `input.to_string()` then the `&str` parser)                        → `operandsOfStr`
* `fluent-bundle/src/types/number.rs` `From<&FluentNumber> for PluralOperands` (the
  `minimum_fraction_digits` adjustment: clamp to `MAX_FRACTION_DIGITS`, `checked_pow`,
  `saturating_mul`)                                                                 → `operandsOf`
* `fluent-bundle/src/types/number.rs` `FluentNumberOptions::merge`, `builtins.rs` `NUMBER`
                                                                                    → `mergeOption`, `merge`, `fnNUMBER`
* `fluent-bundle/src/types/mod.rs` `FluentValue::matches`                            → `keyMatches`
* `fluent-bundle/src/resolver/expression.rs` (`Select`: first matching variant, else the default)
                                                                                    → `selectVariant`
* `fluent-bundle/src/types/plural.rs` (negotiation of the rule locale, default `en`) → `ruleLocale`

**Independent specification** (written by hand from the CLDR 37 plural rule definitions, *not*
from the crate): `cldrRule`.  `crateRule` is what `intl_pluralrules` 7.0.2 really computes: its
generator translates a CLDR condition on `n % m` into one on `i % m` (wrong for non-integers) and
drops the modulus altogether when the right-hand side is a range (`n % 100 = 3..10` became
`(3..=10).contains(&po.i)`); it differs from `cldrRule` for `ar`, `lt` (cardinal) and for the
ordinal rules of `en`, `uk`, `sv` on non-integers.  The driver predicts the implementation with
`crateRule`; the theorems are parametric in the rule function.

Contracts (external code that is not transcribed): `f64::to_string` = `Num.display` on the
≤ 15-significant-digit domain; `u64::from_str`; fluent-langneg `Lookup` negotiation against the
crate's locale tables (modelled for locales of the shape `lang[-REGION]` whose language is in
`knownLanguages` or absent from the crate's tables; the tables' only region-specific entry is
cardinal `pt-PT`).
-/
namespace FluentModel.Plural
open FluentModel FluentModel.Num

def u64Max : Nat := 18446744073709551615

def digitsToNat (l : List Nat) : Nat := l.foldl (fun acc x => acc * 10 + x) 0

inductive Category where
  | zero | one | two | few | many | other
  deriving Repr, DecidableEq

def Category.name : Category → String
  | .zero => "zero" | .one => "one" | .two => "two" | .few => "few" | .many => "many" | .other => "other"

/-- the `match a.as_ref() { "zero" => …, _ => return false }` of `FluentValue::matches` -/
def categoryOfKeyword (b : Bytes) : Option Category :=
  if b == [122, 101, 114, 111] then some .zero          -- "zero"
  else if b == [111, 110, 101] then some .one           -- "one"
  else if b == [116, 119, 111] then some .two           -- "two"
  else if b == [102, 101, 119] then some .few           -- "few"
  else if b == [109, 97, 110, 121] then some .many      -- "many"
  else if b == [111, 116, 104, 101, 114] then some .other -- "other"
  else none

/-! ## operands -/

/-- `PluralOperands`; `n` (an `f64` in Rust) is the exact decimal of the absolute value -/
structure Operands where
  n : Dec
  i : Nat
  v : Nat
  w : Nat
  f : Nat
  t : Nat
  deriving Repr, DecidableEq

/-- `str::trim_end_matches('0')` -/
def trimEndZeros (bs : Bytes) : Bytes := (bs.reverse.dropWhile (· == 48)).reverse

/-- `if input.starts_with('-') { &input[1..] } else { &input }` -/
def stripMinus : Bytes → Bytes
  | 45 :: r => r
  | bs => bs

/-- the optional `+` sign integer parsing accepts -/
def stripPlus : Bytes → Bytes
  | 43 :: r => r
  | bs => bs

/-- `u64::from_str`: ASCII digits (an optional leading `+`), value ≤ `u64::MAX` -/
def u64FromStr (bs : Bytes) : Option Nat :=
  match digitsOf (stripPlus bs) with
  | some ds => if digitsToNat ds ≤ u64Max then some (digitsToNat ds) else none
  | none => none

/-- `TryFrom<&str> for PluralOperands`; `none` = `Err(_)` (which `From<&FluentNumber>` turns into a
panic by `expect`).  `f64::from_str(abs_str)` is modelled on decimal syntax only (`parseDec`); the
function is only ever applied to `display d`. -/
def operandsOfStr (input : Bytes) : Option Operands :=
  let absStr := stripMinus input
  match parseDec absStr with
  | none => none
  | some absVal =>
    match splitAtDot absStr with
    | (intStr, some decStr) =>
      match u64FromStr intStr with
      | none => none
      | some i =>
        let backtrace := trimEndZeros decStr
        match u64FromStr decStr with
        | none => none
        | some f =>
          some ⟨absVal, i, decStr.length, backtrace.length, f, (u64FromStr backtrace).getD 0⟩
    | (_, none) =>
      -- `absolute_value as u64`: saturating float→int cast
      some ⟨absVal, min (digitsToNat absVal.int) u64Max, 0, 0, 0, 0⟩

/-- `10_u64.checked_pow(k).unwrap_or(u64::MAX)` -/
def pow10Checked (k : Nat) : Nat := if 10 ^ k ≤ u64Max then 10 ^ k else u64Max

/-- `u64::saturating_mul` -/
def satMul (a b : Nat) : Nat := min (a * b) u64Max

/-- `From<&FluentNumber> for PluralOperands`; `none` = the `expect` panics -/
def operandsOf (n : FluentNumber) : Option Operands :=
  match operandsOfStr (strBytes (display n.value)) with
  | none => none
  | some ops =>
    match n.options.minimumFractionDigits with
    | none => some ops
    | some mfd =>
      let mfd := min mfd maxFractionDigits
      if mfd > ops.v then
        some { ops with f := satMul ops.f (pow10Checked (mfd - ops.v)), v := mfd }
      else some ops

/-! ## CLDR operands of a printed decimal string (specification side) -/

/-- CLDR operands `n i v w f t` of a decimal string `-?int(.frac)?` as the user sees it (TR35
"Operands"): `none` when the text is not of that form.  (`1.` is read as `1` with no fraction.) -/
def cldrOperands (printed : Bytes) : Option Operands :=
  let absStr := stripMinus printed
  let fb := (splitAtDot absStr).2.getD []
  match digitsOf (splitAtDot absStr).1, (if fb.isEmpty then some [] else digitsOf fb) with
  | some id, some fd =>
    some ⟨⟨false, id, fd⟩, digitsToNat id, fd.length, (stripTrailingZeros fd).length,
          digitsToNat fd, digitsToNat (stripTrailingZeros fd)⟩
  | _, _ => none

/-! ## rules -/

def inRange (x lo hi : Nat) : Bool := lo ≤ x && x ≤ hi

/-- the integer `n` is, when the number has no non-zero fraction digit (CLDR: conditions on `n`
with an integer right-hand side hold only for integral values) -/
def Operands.nInt (o : Operands) : Option Nat :=
  if (stripTrailingZeros o.n.frac).isEmpty then some (digitsToNat o.n.int) else none

/-- CLDR `n = c` -/
def nEq (o : Operands) (c : Nat) : Bool := o.nInt == some c
/-- CLDR `n % m = c` -/
def nModEq (o : Operands) (m c : Nat) : Bool :=
  match o.nInt with | some k => k % m == c | none => false
/-- CLDR `n % m = lo..hi` -/
def nModIn (o : Operands) (m lo hi : Nat) : Bool :=
  match o.nInt with | some k => inRange (k % m) lo hi | none => false

abbrev Rule := Operands → Category

/-! ### CLDR 37 cardinal rules (hand-transcribed from the CLDR definitions) -/

/-- en, de: one: i = 1 and v = 0 -/
def cardEn : Rule := fun o => if o.i == 1 && o.v == 0 then .one else .other

/-- pl: one: i = 1 and v = 0; few: v = 0 and i % 10 = 2..4 and i % 100 != 12..14;
many: v = 0 and i != 1 and i % 10 = 0..1 or v = 0 and i % 10 = 5..9 or v = 0 and i % 100 = 12..14 -/
def cardPl : Rule := fun o =>
  if o.i == 1 && o.v == 0 then .one
  else if o.v == 0 && inRange (o.i % 10) 2 4 && !inRange (o.i % 100) 12 14 then .few
  else if (o.v == 0 && o.i != 1 && inRange (o.i % 10) 0 1) || (o.v == 0 && inRange (o.i % 10) 5 9)
       || (o.v == 0 && inRange (o.i % 100) 12 14) then .many
  else .other

/-- ru, uk: one: v = 0 and i % 10 = 1 and i % 100 != 11; few: v = 0 and i % 10 = 2..4 and
i % 100 != 12..14; many: v = 0 and i % 10 = 0 or v = 0 and i % 10 = 5..9 or v = 0 and i % 100 = 11..14 -/
def cardRu : Rule := fun o =>
  if o.v == 0 && o.i % 10 == 1 && o.i % 100 != 11 then .one
  else if o.v == 0 && inRange (o.i % 10) 2 4 && !inRange (o.i % 100) 12 14 then .few
  else if (o.v == 0 && o.i % 10 == 0) || (o.v == 0 && inRange (o.i % 10) 5 9)
       || (o.v == 0 && inRange (o.i % 100) 11 14) then .many
  else .other

/-- ar: zero: n = 0; one: n = 1; two: n = 2; few: n % 100 = 3..10; many: n % 100 = 11..99 -/
def cardAr : Rule := fun o =>
  if nEq o 0 then .zero
  else if nEq o 1 then .one
  else if nEq o 2 then .two
  else if nModIn o 100 3 10 then .few
  else if nModIn o 100 11 99 then .many
  else .other

/-- fr (CLDR 37): one: i = 0,1 -/
def cardFr : Rule := fun o => if o.i == 0 || o.i == 1 then .one else .other

/-- cs: one: i = 1 and v = 0; few: i = 2..4 and v = 0; many: v != 0 -/
def cardCs : Rule := fun o =>
  if o.i == 1 && o.v == 0 then .one
  else if inRange o.i 2 4 && o.v == 0 then .few
  else if o.v != 0 then .many
  else .other

/-- lt: one: n % 10 = 1 and n % 100 != 11..19; few: n % 10 = 2..9 and n % 100 != 11..19; many: f != 0 -/
def cardLt : Rule := fun o =>
  if nModEq o 10 1 && !nModIn o 100 11 19 then .one
  else if nModIn o 10 2 9 && !nModIn o 100 11 19 then .few
  else if o.f != 0 then .many
  else .other

/-- pt (CLDR 37): one: i = 0..1 -/
def cardPt : Rule := fun o => if inRange o.i 0 1 then .one else .other

/-- pt-PT (CLDR 37, the only region-specific entry of the crate's tables): one: i = 1 and v = 0 -/
def cardPtPT : Rule := fun o => if o.i == 1 && o.v == 0 then .one else .other

/-- ja: no categories -/
def cardJa : Rule := fun _ => .other

/-- sl: one: v = 0 and i % 100 = 1; two: v = 0 and i % 100 = 2; few: v = 0 and i % 100 = 3..4 or v != 0 -/
def cardSl : Rule := fun o =>
  if o.v == 0 && o.i % 100 == 1 then .one
  else if o.v == 0 && o.i % 100 == 2 then .two
  else if (o.v == 0 && inRange (o.i % 100) 3 4) || o.v != 0 then .few
  else .other

/-- cy: zero: n = 0; one: n = 1; two: n = 2; few: n = 3; many: n = 6 -/
def cardCy : Rule := fun o =>
  if nEq o 0 then .zero
  else if nEq o 1 then .one
  else if nEq o 2 then .two
  else if nEq o 3 then .few
  else if nEq o 6 then .many
  else .other

/-- ro (CLDR 37): one: i = 1 and v = 0; few: v != 0 or n = 0 or n % 100 = 2..19 -/
def cardRo : Rule := fun o =>
  if o.i == 1 && o.v == 0 then .one
  else if o.v != 0 || nEq o 0 || nModIn o 100 2 19 then .few
  else .other

/-! ### CLDR 37 ordinal rules -/

/-- en: one: n % 10 = 1 and n % 100 != 11; two: n % 10 = 2 and n % 100 != 12;
few: n % 10 = 3 and n % 100 != 13 -/
def ordEn : Rule := fun o =>
  if nModEq o 10 1 && !nModEq o 100 11 then .one
  else if nModEq o 10 2 && !nModEq o 100 12 then .two
  else if nModEq o 10 3 && !nModEq o 100 13 then .few
  else .other

/-- fr, ro: one: n = 1 -/
def ordFr : Rule := fun o => if nEq o 1 then .one else .other

/-- uk: few: n % 10 = 3 and n % 100 != 13 -/
def ordUk : Rule := fun o => if nModEq o 10 3 && !nModEq o 100 13 then .few else .other

/-- cy: zero: n = 0,7,8,9; one: n = 1; two: n = 2; few: n = 3,4; many: n = 5,6 -/
def ordCy : Rule := fun o =>
  if nEq o 0 || nEq o 7 || nEq o 8 || nEq o 9 then .zero
  else if nEq o 1 then .one
  else if nEq o 2 then .two
  else if nEq o 3 || nEq o 4 then .few
  else if nEq o 5 || nEq o 6 then .many
  else .other

/-- sv: one: n % 10 = 1,2 and n % 100 != 11,12 -/
def ordSv : Rule := fun o =>
  if (nModEq o 10 1 || nModEq o 10 2) && !nModEq o 100 11 && !nModEq o 100 12 then .one else .other

/-- the rest of the table (ar, cs, de, ja, lt, pl, ru, sl): no ordinal categories -/
def ordOther : Rule := fun _ => .other

/-- languages the model has rules for (all of them are in both of the crate's tables) -/
def knownLanguages : List String :=
  ["en", "pl", "ru", "ar", "fr", "cs", "lt", "ja", "de", "uk", "sl", "cy", "ro", "sv", "pt"]

/-- the CLDR rule of a (negotiated) language -/
def cldrRule (lang : String) (ty : NumType) : Rule :=
  match ty with
  | .cardinal =>
    match lang with
    | "pl" => cardPl | "ru" => cardRu | "uk" => cardRu | "ar" => cardAr | "fr" => cardFr
    | "cs" => cardCs | "lt" => cardLt | "ja" => cardJa | "sl" => cardSl | "cy" => cardCy
    | "ro" => cardRo | "pt" => cardPt | "pt-PT" => cardPtPT
    | _ => cardEn                   -- en, de, sv
  | .ordinal =>
    match lang with
    | "en" => ordEn | "fr" => ordFr | "ro" => ordFr | "uk" => ordUk | "cy" => ordCy | "sv" => ordSv
    | _ => ordOther

/-! ### what `intl_pluralrules` 7.0.2 computes where it deviates from CLDR -/

/-- crate `ar`: `(3..=10).contains(&po.i)` → few, `(11..=99).contains(&po.i)` → many, then `n == 1/2/0` -/
def crateCardAr : Rule := fun o =>
  if inRange o.i 3 10 then .few
  else if inRange o.i 11 99 then .many
  else if nEq o 1 then .one
  else if nEq o 2 then .two
  else if nEq o 0 then .zero
  else .other

/-- crate `lt`: few `(2..=9).contains(&po.i) && !(11..=19).contains(&po.i)`, many `f != 0`,
one `po.i % 10 == 1 && !(11..=19).contains(&po.i)` -/
def crateCardLt : Rule := fun o =>
  if inRange o.i 2 9 && !inRange o.i 11 19 then .few
  else if o.f != 0 then .many
  else if o.i % 10 == 1 && !inRange o.i 11 19 then .one
  else .other

/-- crate `ro`: few `v != 0 || n == 0 || (2..=19).contains(&po.i)`, one `i == 1 && v == 0` -/
def crateCardRo : Rule := fun o =>
  if o.v != 0 || nEq o 0 || inRange o.i 2 19 then .few
  else if o.i == 1 && o.v == 0 then .one
  else .other

/-- crate `en` ordinal: the CLDR conditions on `n % 10`, `n % 100` evaluated on `i` -/
def crateOrdEn : Rule := fun o =>
  if o.i % 10 == 3 && o.i % 100 != 13 then .few
  else if o.i % 10 == 1 && o.i % 100 != 11 then .one
  else if o.i % 10 == 2 && o.i % 100 != 12 then .two
  else .other

def crateOrdUk : Rule := fun o => if o.i % 10 == 3 && o.i % 100 != 13 then .few else .other

def crateOrdSv : Rule := fun o =>
  if (o.i % 10 == 1 || o.i % 10 == 2) && o.i % 100 != 11 && o.i % 100 != 12 then .one else .other

/-- the rule closure `intl_pluralrules` 7.0.2 has for the language -/
def crateRule (lang : String) (ty : NumType) : Rule :=
  match ty, lang with
  | .cardinal, "ar" => crateCardAr
  | .cardinal, "lt" => crateCardLt
  | .cardinal, "ro" => crateCardRo
  | .ordinal, "en" => crateOrdEn
  | .ordinal, "uk" => crateOrdUk
  | .ordinal, "sv" => crateOrdSv
  | _, _ => cldrRule lang ty

/-- shape of a bundle locale the negotiation is modelled for: `lang` (2–3 lower-case letters) optionally
followed by `-REGION` (2 upper-case letters or 3 digits), in canonical case.  `none` = anything else
(script, variants, other case): outside the model, the driver answers `unsupported`. -/
def localeShape (locale : String) : Option (Bytes × Option Bytes) :=
  let bs := strBytes locale
  let lang := bs.takeWhile (· != 45)
  let rest := bs.dropWhile (· != 45)
  let lower := fun (b : UInt8) => 97 ≤ b && b ≤ 122
  let upper := fun (b : UInt8) => 65 ≤ b && b ≤ 90
  if !((lang.length == 2 || lang.length == 3) && lang.all lower) then none
  else match rest with
    | [] => some (lang, none)
    | _ :: region =>
      if (region.length == 2 && region.all upper) || (region.length == 3 && region.all isDigit)
      then some (lang, some region) else none

/-- `types/plural.rs` `construct`: `negotiate_languages(&[lang], get_locales(type), Some("en"), Lookup)[0]`
(fluent-langneg 0.13 `filter_matches`): 1) an exact entry wins — the crate's tables have exactly one
region-specific entry, cardinal `pt-PT`; 2) otherwise the entry of the bare language matches every
region (available locales are ranges): `pt-BR`, `pt-AO`, ordinal `pt-PT` → `pt`, `en-US` → `en`;
the later steps never change the language, so a language without an entry yields the default `en`. -/
def ruleLocale (locale : String) (ty : NumType) : String :=
  match localeShape locale with
  | none => "en"
  | some (lang, region) =>
    if ty == .cardinal && lang == [112, 116] && region == some [80, 84] then "pt-PT"
    else match knownLanguages.find? (fun l => strBytes l == lang) with
      | some l => l
      | none => "en"

/-- `pr.0.select(b)`: operands, then the rule closure; `none` = the Rust code panics -/
def pluralCategoryWith (rule : NumType → Rule) (n : FluentNumber) : Option Category :=
  (operandsOf n).map (rule n.options.type)

/-- plural category of a number for a bundle whose first locale is `locale`, as the code computes it -/
def pluralCategory (locale : String) (n : FluentNumber) : Option Category :=
  pluralCategoryWith (fun ty => crateRule (ruleLocale locale ty) ty) n

/-! ## values, `matches`, select -/

/-- the `FluentValue`s reachable in this area -/
inductive Val where
  | str (b : Bytes)
  | num (n : FluentNumber)
  | error
  deriving Repr, DecidableEq

/-- `FluentValue::matches` (`self` = the variant key, `other` = the selector); `cat` is the plural
category function of the bundle (`none` = panic in `select`/`unwrap`) -/
def keyMatches (cat : FluentNumber → Option Category) (key sel : Val) : Option Bool :=
  match key, sel with
  | .str a, .str b => some (a == b)
  | .num a, .num b => some (a.eq b)
  | .str a, .num b =>
    match categoryOfKeyword a with
    | none => some false
    | some c => (cat b).map (· == c)
  | _, _ => some false

/-- a variant key as written -/
inductive Key where
  | ident (name : Bytes)
  | numLit (src : Bytes)
  deriving Repr, DecidableEq

inductive KeyVal where
  | val (v : Val)
  | unsupported

/-- `ast::VariantKey::Identifier { name } => name.into()`, `NumberLiteral { value } => try_number(value)` -/
def keyValue : Key → KeyVal
  | .ident n => .val (.str n)
  | .numLit s =>
    match tryNumber s with
    | .number n => .val (.num n)
    | .notNumber => .val (.str s)
    | .unsupported => .unsupported

inductive Chosen where
  | idx (i : Nat)        -- index of the variant whose value is written
  | noDefault            -- `ResolverError::MissingDefault`
  | panic
  | unsupported          -- a key literal outside the exact-decimal domain
  deriving Repr, DecidableEq

/-- the loop `for variant in variants { if key.matches(&selector, scope) { return … } }`;
`some (.idx i)` = matched, `none` = fell through -/
def firstMatch (cat : FluentNumber → Option Category) (sel : Val) : List (Key × Bool) → Nat → Option Chosen
  | [], _ => none
  | (k, _) :: rest, i =>
    match keyValue k with
    | .unsupported => some .unsupported
    | .val kv =>
      match keyMatches cat kv sel with
      | none => some .panic
      | some true => some (.idx i)
      | some false => firstMatch cat sel rest (i + 1)

/-- `for variant in variants { if variant.default { return … } }` -/
def firstDefault : List (Key × Bool) → Nat → Option Nat
  | [], _ => none
  | (_, d) :: rest, i => if d then some i else firstDefault rest (i + 1)

/-- `Expression::Select` in `resolver/expression.rs` -/
def selectVariant (cat : FluentNumber → Option Category) (sel : Val) (variants : List (Key × Bool)) : Chosen :=
  let dflt := match firstDefault variants 0 with
    | some i => Chosen.idx i
    | none => Chosen.noDefault
  match sel with
  | .error => dflt
  | _ =>
    match firstMatch cat sel variants 0 with
    | some c => c
    | none => dflt

/-! ## `FluentNumberOptions::merge`, `NUMBER` -/

def restGet (r : List (String × String)) (name : String) : Option String :=
  match r with
  | [] => none
  | (k, v) :: rest => if k == name then some v else restGet rest name

def restInsert (name v : String) : List (String × String) → List (String × String)
  | [] => [(name, v)]
  | (k, x) :: rest => if name < k then (name, v) :: (k, x) :: rest else (k, x) :: restInsert name v rest

/-- set (or, with `none`, reset to its default) one of the options that live in `NumOptions.rest`;
`rest` stays sorted by option name and never records a default value, so that the derived equality
of `NumOptions` is the derived `PartialEq` of `FluentNumberOptions` -/
def restSet (r : List (String × String)) (name : String) (v : Option String) : List (String × String) :=
  let r' := r.filter (fun kv => kv.1 != name)
  match v with
  | none => r'
  | some x => restInsert name x r'

/-- `input.value as usize`: saturating float→int cast (negative → 0, fraction truncated) -/
def decToUsize (d : Dec) : Nat :=
  if d.neg then 0 else min (digitsToNat d.int) u64Max

/-- one arm of the `match (key, value)` in `merge`; pairs with another name or value kind are ignored -/
def mergeOption (o : NumOptions) (name : String) (v : Val) : NumOptions :=
  match name, v with
  | "type", .str s =>
    -- `FluentNumberType::from(&str)`: "ordinal" → Ordinal, anything else → the default (Cardinal)
    { o with type := if s == [111, 114, 100, 105, 110, 97, 108] then .ordinal else .cardinal }
  | "style", .str s =>
    let x := if s == strBytes "currency" then some "currency"
             else if s == strBytes "percent" then some "percent" else none
    { o with rest := restSet o.rest "style" x }
  | "currency", .str s => { o with rest := restSet o.rest "currency" (some ("x" ++ hexEnc s)) }
  | "currencyDisplay", .str s =>
    let x := if s == strBytes "code" then some "code" else if s == strBytes "name" then some "name" else none
    { o with rest := restSet o.rest "currencyDisplay" x }
  | "useGrouping", .str s =>
    { o with rest := restSet o.rest "useGrouping" (if s == strBytes "false" then some "false" else none) }
  | "minimumIntegerDigits", .num n =>
    { o with rest := restSet o.rest "minimumIntegerDigits" (some (toString (decToUsize n.value))) }
  | "minimumFractionDigits", .num n => { o with minimumFractionDigits := some (decToUsize n.value) }
  | "maximumFractionDigits", .num n =>
    { o with rest := restSet o.rest "maximumFractionDigits" (some (toString (decToUsize n.value))) }
  | "minimumSignificantDigits", .num n =>
    { o with rest := restSet o.rest "minimumSignificantDigits" (some (toString (decToUsize n.value))) }
  | "maximumSignificantDigits", .num n =>
    { o with rest := restSet o.rest "maximumSignificantDigits" (some (toString (decToUsize n.value))) }
  | _, _ => o

/-- `FluentNumberOptions::merge`: `for (key, value) in opts.iter()` -/
def merge (o : NumOptions) (named : List (String × Val)) : NumOptions :=
  named.foldl (fun o kv => mergeOption o kv.1 kv.2) o

/-- `builtins::NUMBER` -/
def fnNUMBER (positional : List Val) (named : List (String × Val)) : Val :=
  match positional with
  | .num n :: _ => .num { n with options := merge n.options named }
  | _ => .error

/-- a uniform, printable view of the ten options (defaults made explicit) -/
def getOption (o : NumOptions) (name : String) : String :=
  match name with
  | "type" => (match o.type with | .cardinal => "cardinal" | .ordinal => "ordinal")
  | "minimumFractionDigits" => (match o.minimumFractionDigits with | some n => toString n | none => "-")
  | "style" => (restGet o.rest "style").getD "decimal"
  | "currency" => (restGet o.rest "currency").getD "-"
  | "currencyDisplay" => (restGet o.rest "currencyDisplay").getD "symbol"
  | "useGrouping" => (restGet o.rest "useGrouping").getD "true"
  | "minimumIntegerDigits" => (restGet o.rest "minimumIntegerDigits").getD "-"
  | "maximumFractionDigits" => (restGet o.rest "maximumFractionDigits").getD "-"
  | "minimumSignificantDigits" => (restGet o.rest "minimumSignificantDigits").getD "-"
  | "maximumSignificantDigits" => (restGet o.rest "maximumSignificantDigits").getD "-"
  | _ => ""

/-- what `merge` assigns to option `name` when it meets the pair `(name, v)`; `none` = pair ignored -/
def optionOf (name : String) (v : Val) : Option String :=
  match name, v with
  | "type", .str s => some (if s == [111, 114, 100, 105, 110, 97, 108] then "ordinal" else "cardinal")
  | "style", .str s =>
    some (if s == strBytes "currency" then "currency" else if s == strBytes "percent" then "percent" else "decimal")
  | "currency", .str s => some ("x" ++ hexEnc s)
  | "currencyDisplay", .str s =>
    some (if s == strBytes "code" then "code" else if s == strBytes "name" then "name" else "symbol")
  | "useGrouping", .str s => some (if s == strBytes "false" then "false" else "true")
  | "minimumIntegerDigits", .num n => some (toString (decToUsize n.value))
  | "minimumFractionDigits", .num n => some (toString (decToUsize n.value))
  | "maximumFractionDigits", .num n => some (toString (decToUsize n.value))
  | "minimumSignificantDigits", .num n => some (toString (decToUsize n.value))
  | "maximumSignificantDigits", .num n => some (toString (decToUsize n.value))
  | _, _ => none

/-! ## printing -/

/-- `FluentValue::write` for the values of this area -/
def valText : Val → Bytes
  | .str s => s
  | .num n => asString n
  | .error => []

end FluentModel.Plural
