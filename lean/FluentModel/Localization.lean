import FluentModel.Fallback
/-!
# Model of `fluent-fallback/src/localization.rs` (C18)

Transcribed: `Localization::{with_env, is_sync, add_resource_id, add_resource_ids, remove_resource_id,
remove_resource_ids, set_async, on_change, prefetch_sync, prefetch_async, bundles}`,
`Bundles::new` (the one generator call, `bundles_iter` or `bundles_stream` according to `sync`, with
`provider.locales()` and a clone of `res_ids`), `Bundles::{prefetch_sync, prefetch_async}` (panic on the
wrong mode), `types.rs` `ResourceId` (`Eq`/`Hash` by `value` only, so the set keeps the *first* type
seen for a value: `HashSet::insert`/`extend` never replace an equal element).

State components and what they stand for:
* `resIds` — `FxHashSet<ResourceId>` as a list without two entries of the same value (iteration order
  of a hash set is not observable; the driver prints it sorted).
* `locales` — what the `LocalesProvider` returns *now* (the provider is user code holding a
  `Rc<RefCell<Vec<_>>>`; op `setLocales` mutates it behind the `Localization`'s back).
* `sync` — the flag.
* `bundles` — `OnceCell<Rc<Bundles<G>>>`; a `Handle` is the `Rc`: its identity `id` (allocation
  counter = number of builds so far, so `Rc::ptr_eq` is equality of `id`) and the arguments the
  generator was given when it was built (`built`) — the `Rc<Bundles>` is immutable apart from its
  cache, so everything it can answer is a function of `built` (C16, C17).
* `log` — what the `BundleGenerator` has been asked so far (`GenEvent.call`) and `prefetch` calls
  reaching the iterator/stream of a bundle set.
* `held` — `Rc` clones kept by the caller (`loc.bundles().clone()`); `inflight` — requests started on a
  held handle and not yet finished.
* ghost: `dirty` — the provider was mutated since the cached bundle set was built and `on_change` has
  not been called yet; `epochBuilds` — generator calls since the last change.

Contract (parameter): what a bundle set answers is `answer built key`; the driver instantiates it
with C16's `formatValueFromInner` over bundles synthesised from `(locale, resource id, type)`.
-/
namespace FluentModel.Localization
open FluentModel.Fallback

/-- `types.rs`: `ResourceId { value, resource_type }`; `optional = true` is `ResourceType::Optional` -/
structure ResId (V : Type) where
  value : V
  optional : Bool
  deriving Repr, DecidableEq

/-- arguments of the generator call a bundle set was built with -/
structure Built (V L : Type) where
  sync : Bool
  locales : List L
  ids : List (ResId V)
  deriving Repr, DecidableEq

/-- an `Rc<Bundles<G>>` -/
structure Handle (V L : Type) where
  id : Nat
  built : Built V L
  deriving Repr, DecidableEq

inductive GenEvent (V L : Type) where
  /-- `bundles_iter(locales, res_ids)` (`sync`) / `bundles_stream(locales, res_ids)` -/
  | call (b : Built V L)
  /-- `prefetch_sync` / `prefetch_async` reached the iterator / stream of bundle set `id` -/
  | prefetch (id : Nat)
  deriving Repr, DecidableEq

structure St (V L K : Type) where
  resIds : List (ResId V)
  locales : List L
  sync : Bool
  bundles : Option (Handle V L)
  nextId : Nat
  log : List (GenEvent V L)
  held : List (Handle V L)
  inflight : List (Handle V L × K)
  dirty : Bool
  epochBuilds : Nat

inductive Op (V L K : Type) where
  | add (r : ResId V)
  | addMany (rs : List (ResId V))
  | remove (r : ResId V)
  | removeMany (rs : List (ResId V))
  | setLocales (ls : List L)
  | onChange
  | setAsync
  | prefetchSync
  | prefetchAsync
  | bundles
  | req (key : K)
  | hold
  | askHeld (n : Nat) (key : K)
  | begin (n : Nat) (key : K)
  | finish

inductive Obs (V L R : Type) where
  | unit
  /-- `remove_resource_id(s)` returns `res_ids.len()` -/
  | len (n : Nat)
  /-- `bundles()`: identity of the `Rc`, `is_sync()` -/
  | handle (id : Nat) (sync : Bool)
  /-- a request: identity of the bundle set that answered, and its answer -/
  | answer (id : Nat) (r : R)
  | begun
  /-- index out of range in the case line (never generated) -/
  | badOp
  deriving Repr, DecidableEq

section
variable {V L K R : Type} [DecidableEq V]

/-- `HashSet::insert`: an element equal (by `value`) to an existing one is dropped -/
def insertId (ids : List (ResId V)) (r : ResId V) : List (ResId V) :=
  if ids.any (fun x => x.value = r.value) then ids else ids ++ [r]

/-- `HashSet::extend` / `FxHashSet::from_iter` -/
def extendIds (ids : List (ResId V)) (rs : List (ResId V)) : List (ResId V) :=
  rs.foldl insertId ids

/-- `retain(|x| !res_id.eq(x))` -/
def removeId (ids : List (ResId V)) (r : ResId V) : List (ResId V) :=
  ids.filter fun x => !(x.value = r.value)

/-- `retain(|x| !res_ids.contains(x))` -/
def removeIds (ids : List (ResId V)) (rs : List (ResId V)) : List (ResId V) :=
  ids.filter fun x => !(rs.any fun r => r.value = x.value)

/-- `Localization::with_env(res_ids, sync, provider, generator)` -/
def St.init (resIds : List (ResId V)) (sync : Bool) (locales : List L) : St V L K :=
  { resIds := extendIds [] resIds, locales := locales, sync := sync, bundles := none, nextId := 0,
    log := [], held := [], inflight := [], dirty := false, epochBuilds := 0 }

/-- `on_change`: `self.bundles.take()` -/
def St.onChange (s : St V L K) : St V L K :=
  { s with bundles := none, dirty := false, epochBuilds := 0 }

/-- `bundles()`: `get_or_init(|| Rc::new(Bundles::new(self.sync, self.res_ids.clone(), &self.generator, &self.provider)))` -/
def St.getOrInit (s : St V L K) : St V L K × Handle V L :=
  match s.bundles with
  | some h => (s, h)
  | none =>
    let built : Built V L := { sync := s.sync, locales := s.locales, ids := s.resIds }
    let h : Handle V L := { id := s.nextId, built := built }
    ({ s with bundles := some h, nextId := s.nextId + 1, log := s.log ++ [.call built],
              epochBuilds := s.epochBuilds + 1 }, h)

variable (answer : Built V L → K → R)

def step (s : St V L K) : Op V L K → Outcome (St V L K × Obs V L R)
  | .add r => .done (({ s with resIds := insertId s.resIds r } : St V L K).onChange, .unit)
  | .addMany rs => .done (({ s with resIds := extendIds s.resIds rs } : St V L K).onChange, .unit)
  | .remove r =>
    let ids := removeId s.resIds r
    .done (({ s with resIds := ids } : St V L K).onChange, .len ids.length)
  | .removeMany rs =>
    let ids := removeIds s.resIds rs
    .done (({ s with resIds := ids } : St V L K).onChange, .len ids.length)
  | .setLocales ls => .done ({ s with locales := ls, dirty := s.dirty || s.bundles.isSome }, .unit)
  | .onChange => .done (s.onChange, .unit)
  | .setAsync =>
    if s.sync then .done (({ s with sync := false } : St V L K).onChange, .unit) else .done (s, .unit)
  | .prefetchSync =>
    let (s, h) := s.getOrInit
    if h.built.sync then .done ({ s with log := s.log ++ [.prefetch h.id] }, .unit)
    else .panic "Can't prefetch a sync bundle set asynchronously"
  | .prefetchAsync =>
    let (s, h) := s.getOrInit
    if h.built.sync then .panic "Can't prefetch a async bundle set synchronously"
    else .done ({ s with log := s.log ++ [.prefetch h.id] }, .unit)
  | .bundles =>
    let (s, h) := s.getOrInit
    .done (s, .handle h.id s.sync)
  | .req key =>
    let (s, h) := s.getOrInit
    .done (s, .answer h.id (answer h.built key))
  | .hold =>
    let (s, h) := s.getOrInit
    .done ({ s with held := s.held ++ [h] }, .handle h.id s.sync)
  | .askHeld n key =>
    match s.held[n]? with
    | some h => .done (s, .answer h.id (answer h.built key))
    | none => .done (s, .badOp)
  | .begin n key =>
    match s.held[n]? with
    | some h => .done ({ s with inflight := s.inflight ++ [(h, key)] }, .begun)
    | none => .done (s, .badOp)
  | .finish =>
    match s.inflight with
    | (h, key) :: rest => .done ({ s with inflight := rest }, .answer h.id (answer h.built key))
    | [] => .done (s, .badOp)

/-- a history: the state and observation after every operation (what the driver prints) -/
def run (s : St V L K) : List (Op V L K) → Outcome (List (St V L K × Obs V L R))
  | [] => .done []
  | op :: ops =>
    (step answer s op).bind fun (s', o) =>
      (run s' ops).bind fun rest => .done ((s', o) :: rest)

/-- the state after a history -/
def exec (s : St V L K) : List (Op V L K) → Outcome (St V L K)
  | [] => .done s
  | op :: ops => (step answer s op).bind fun (s', _) => exec s' ops

end
end FluentModel.Localization
