import FluentModel.Util
/-!
# Model of the bundle registry (`fluent-bundle/src/{bundle,entry,message,resource}.rs`)

Transcribed:

* `FluentBundle.resources : Vec<R>` — append-only list of resources; a resource is seen through
  `FluentResource::entries()` / `get_entry(idx)`, i.e. as the `body: Vec<ast::Entry<&str>>` of the
  parsed file.  Only what the registry inspects is kept of an `ast::Entry`: the constructor, the
  `id.name` (for a term this is the name *without* the leading `-`: `bundle.rs` keys both messages and
  terms by `id.name`, so `foo` and `-foo` share one key), `value` and `attributes` (id name + pattern).
  `Junk`, `Comment`, `GroupComment`, `ResourceComment` are one constructor `other`: the code treats
  them alike (`_ => continue`) but they DO occupy a position in `enumerate()`.
* `FluentBundle.entries : FxHashMap<String, Entry>` with `Entry = Message((res,entry)) | Term((res,entry))
  | Function(Box<dyn Fn>)`.  `FxHashMap` is external; it is modelled as a finite map (association list
  `EMap` with `get`/`insert`; the map law `get (insert m k v) k' = if k' = k then some v else get m k'` is
  proved in `FluentProofs/Registry.lean` and is the only thing the theorems use).  The boxed closure of
  `Entry::Function` is represented by a tag (its identity).
* `add_resource` (`bundle.rs:192-238`): `res_pos = resources.len()`; for every `(entry_pos, entry)` of
  `enumerate()`: messages/terms → `entries.entry(id)`: `Vacant` → insert, `Occupied` → push
  `FluentError::Overriding{kind,id}`; others skipped; then `resources.push(r)`; `Ok(())` iff no errors.
* `add_resource_overriding` (`bundle.rs:297-318`): same walk with unconditional `entries.insert`.
* `add_function`: `Vacant` → insert `Entry::Function`, `Occupied` → `Err(Overriding{Function,id})`.
* `get_entry_message` / `get_entry_term` / `get_entry_function` (`entry.rs:39-73`) incl. the `?` on
  `resources.get(res_idx)` and `get_entry(entry_idx)` and the kind check on the AST entry.
* `has_message`, `get_message` (`bundle.rs`), `FluentMessage::{value,attributes,get_attribute}`
  (`message.rs`).

Patterns are opaque to the registry (it hands out `&ast::Pattern` unchanged); they are `Text` here.
-/
namespace FluentModel.Registry

abbrev Id := Bytes
abbrev Text := Bytes

/-- `ast::Attribute`: `id.name` and `value` -/
structure Attr where
  name : Id
  value : Text
deriving DecidableEq, Repr

/-- `ast::Entry<&str>` as far as the registry looks at it -/
inductive AstEntry where
  | message (id : Id) (value : Option Text) (attrs : List Attr)
  | term (id : Id) (value : Text) (attrs : List Attr)
  | other
deriving DecidableEq, Repr

/-- `FluentResource` seen through `entries()` / `get_entry()` -/
abbrev Resource := List AstEntry

/-- `errors::EntryKind` -/
inductive Kind where
  | message | term | function
deriving DecidableEq, Repr

/-- `entry::Entry` -/
inductive Entry where
  | message (ri ei : Nat)
  | term (ri ei : Nat)
  | function (tag : Nat)
deriving DecidableEq, Repr

/-- `FluentError::Overriding { kind, id }` (the only error the registry produces) -/
structure Overriding where
  kind : Kind
  id : Id
deriving DecidableEq, Repr

/-! ## `FxHashMap<String, Entry>` as a finite map -/

abbrev EMap := List (Id × Entry)

def EMap.get : EMap → Id → Option Entry
  | [], _ => none
  | (k, v) :: rest, id => if k = id then some v else EMap.get rest id

def EMap.insert : EMap → Id → Entry → EMap
  | [], id, e => [(id, e)]
  | (k, v) :: rest, id, e => if k = id then (id, e) :: rest else (k, v) :: EMap.insert rest id e

/-! ## the bundle -/

structure Bundle where
  resources : List Resource
  entries : EMap

def Bundle.empty : Bundle := ⟨[], []⟩

/-- the `match entry { Message{id,..} => (id.name, Entry::Message(..)), Term{..} => …, _ => continue }`
head of both loops: key, kind, and the `Entry` to store for position `(rp, pos)` -/
def keyOf (rp pos : Nat) : AstEntry → Option (Id × Kind × Entry)
  | .message id _ _ => some (id, .message, .message rp pos)
  | .term id _ _ => some (id, .term, .term rp pos)
  | .other => none

/-- loop of `add_resource` over `res.entries().enumerate()` starting at position `pos` -/
def addEntries (rp : Nat) : Nat → List AstEntry → EMap → EMap × List Overriding
  | _, [], es => (es, [])
  | pos, e :: rest, es =>
    match keyOf rp pos e with
    | none => addEntries rp (pos + 1) rest es
    | some (id, kind, ent) =>
      match es.get id with
      | none => addEntries rp (pos + 1) rest (es.insert id ent)           -- Vacant
      | some _ =>                                                          -- Occupied
        let r := addEntries rp (pos + 1) rest es
        (r.1, ⟨kind, id⟩ :: r.2)

/-- `add_resource`: new bundle and the error vector (`Ok(())` iff it is empty) -/
def addResource (b : Bundle) (r : Resource) : Bundle × List Overriding :=
  let res := addEntries b.resources.length 0 r b.entries
  (⟨b.resources ++ [r], res.1⟩, res.2)

/-- loop of `add_resource_overriding` -/
def addEntriesOverriding (rp : Nat) : Nat → List AstEntry → EMap → EMap
  | _, [], es => es
  | pos, e :: rest, es =>
    match keyOf rp pos e with
    | none => addEntriesOverriding rp (pos + 1) rest es
    | some (id, _, ent) => addEntriesOverriding rp (pos + 1) rest (es.insert id ent)

def addResourceOverriding (b : Bundle) (r : Resource) : Bundle :=
  ⟨b.resources ++ [r], addEntriesOverriding b.resources.length 0 r b.entries⟩

/-- `add_function(id, f)`; `tag` identifies the closure -/
def addFunction (b : Bundle) (id : Id) (tag : Nat) : Bundle × Option Overriding :=
  match b.entries.get id with
  | none => (⟨b.resources, b.entries.insert id (.function tag)⟩, none)
  | some _ => (b, some ⟨.function, id⟩)

/-- `&ast::Message` handed out by a lookup -/
structure MsgNode where
  id : Id
  value : Option Text
  attrs : List Attr
deriving DecidableEq, Repr

structure TermNode where
  id : Id
  value : Text
  attrs : List Attr
deriving DecidableEq, Repr

/-- `self.resources.get(ri)?.borrow().get_entry(ei)?` -/
def entryAt (rs : List Resource) (ri ei : Nat) : Option AstEntry :=
  match rs[ri]? with
  | none => none
  | some res => res[ei]?

/-- `GetEntry::get_entry_message` -/
def getEntryMessage (b : Bundle) (id : Id) : Option MsgNode :=
  match b.entries.get id with
  | some (.message ri ei) =>
    match entryAt b.resources ri ei with
    | some (.message i v a) => some ⟨i, v, a⟩
    | _ => none
  | _ => none

/-- `GetEntry::get_entry_term` -/
def getEntryTerm (b : Bundle) (id : Id) : Option TermNode :=
  match b.entries.get id with
  | some (.term ri ei) =>
    match entryAt b.resources ri ei with
    | some (.term i v a) => some ⟨i, v, a⟩
    | _ => none
  | _ => none

/-- `GetEntry::get_entry_function` (the tag of the stored closure) -/
def getEntryFunction (b : Bundle) (id : Id) : Option Nat :=
  match b.entries.get id with
  | some (.function tag) => some tag
  | _ => none

def hasMessage (b : Bundle) (id : Id) : Bool := (getEntryMessage b id).isSome

/-- `get_message` (`FluentMessage { node }`) -/
def getMessage (b : Bundle) (id : Id) : Option MsgNode := getEntryMessage b id

/-- `FluentMessage::get_attribute`: `attributes.iter().find(|a| a.id.name == key)` -/
def MsgNode.getAttribute (m : MsgNode) (key : Id) : Option Attr :=
  m.attrs.find? (fun a => a.name = key)

/-! ## histories -/

inductive Op where
  | add (r : Resource)
  | addOverriding (r : Resource)
  | addFn (id : Id) (tag : Nat)

/-- one mutating call: new state and the errors it returned -/
def step (b : Bundle) : Op → Bundle × List Overriding
  | .add r => addResource b r
  | .addOverriding r => (addResourceOverriding b r, [])
  | .addFn id tag => let r := addFunction b id tag; (r.1, r.2.toList)

/-- the bundle after a history of additions, starting from `FluentBundle::new` -/
def run (ops : List Op) : Bundle := ops.foldl (fun b op => (step b op).1) Bundle.empty

end FluentModel.Registry
