import FluentModel.Drv.ArgsDrv
/-!
# Model driver: one case line in, one observation line out

`fvmodel` reads case lines `<area> <payload>` on stdin and prints, for each, the observation
the model predicts for the implementation.  The Rust harness (`fvh`) prints the observation of the
real code for the same line; `check` diffs the two streams.
-/
namespace FluentModel.Driver
open FluentModel

def dispatch (area payload : String) : String :=
  match area with
  | "args" => Drv.ArgsDrv.run payload
  | _ => "bad-area"

def splitFirst (line : String) : String × String :=
  let cs := line.toList
  let a := cs.takeWhile (· != ' ')
  let r := (cs.dropWhile (· != ' ')).drop 1
  (String.ofList a, String.ofList r)

partial def loop (h : IO.FS.Stream) (out : IO.FS.Stream) : IO Unit := do
  let line ← h.getLine
  if line.isEmpty then return ()
  let l := if line.back == '\n' then (line.dropEnd 1).toString else line
  let (area, payload) := splitFirst l
  out.putStrLn (dispatch area payload)
  loop h out

def main (_args : List String) : IO UInt32 := do
  let stdin ← IO.getStdin
  let stdout ← IO.getStdout
  loop stdin stdout
  return 0

end FluentModel.Driver
