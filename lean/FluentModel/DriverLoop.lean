/-!
# Model driver loop: one case line in, one observation line out

Each area has its own executable `fvm_<area>` (`lean/Main/<Area>.lean`) so that a broken model of
one area never breaks the tie of another.  It reads case lines `<area> <payload>` on stdin and
prints, for each, the observation the model predicts for the implementation.  The Rust harness
(`fvh_<area>`) prints the observation of the real code for the same line; `check` diffs the two.
-/
namespace FluentModel

def splitFirst (line : String) : String × String :=
  let cs := line.toList
  let a := cs.takeWhile (· != ' ')
  let r := (cs.dropWhile (· != ' ')).drop 1
  (String.ofList a, String.ofList r)

partial def driverLoop (run : String → String) (h out : IO.FS.Stream) : IO Unit := do
  let line ← h.getLine
  if line.isEmpty then return ()
  let l := if line.back == '\n' then (line.dropEnd 1).toString else line
  let (_, payload) := splitFirst l
  out.putStrLn (run payload)
  driverLoop run h out

def driverMain (run : String → String) : IO UInt32 := do
  driverLoop run (← IO.getStdin) (← IO.getStdout)
  return 0

end FluentModel
