import FluentModel.Util
import FluentModel.Generated
/-!
# Numbers (model of `fluent-bundle/src/types/number.rs`)

`FluentNumber.value` is an `f64`.  The model represents values by *exact decimals*
(`Dec`): sign, integer digits, fraction digits.  The correspondence is restricted to the
domain where `f64` parsing/printing provably agrees with exact decimals for this purpose
(at most 15 significant digits; see DESIGN §4.5); outside it the driver answers `unsupported`.
-/
namespace FluentModel.Num

/-- exact decimal as written: `-?[0-9]+(\.[0-9]+)?` -/
structure Dec where
  neg : Bool
  int : List Nat      -- digits, most significant first, non-empty
  frac : List Nat     -- digits after the point (possibly empty; `hasPoint` tells "1." from "1")
  deriving Repr, DecidableEq

def isDigit (b : UInt8) : Bool := 48 ≤ b && b ≤ 57

def digitsOf (bs : Bytes) : Option (List Nat) :=
  if bs.isEmpty then none
  else if bs.all isDigit then some (bs.map fun b => b.toNat - 48) else none

def splitAtDot : Bytes → Bytes × Option Bytes
  | [] => ([], none)
  | b :: rest =>
    if b == 46 then ([], some rest)
    else let (a, r) := splitAtDot rest; (b :: a, r)

/-- strict decimal syntax `-?digits(.digits)?` (Fluent `NumberLiteral`) -/
def parseDec (bs : Bytes) : Option Dec :=
  let (neg, body) := match bs with
    | 45 :: rest => (true, rest)
    | _ => (false, bs)
  let (i, f) := splitAtDot body
  match digitsOf i, f with
  | some id, none => some ⟨neg, id, []⟩
  | some id, some fb =>
    match digitsOf fb with
    | some fd => some ⟨neg, id, fd⟩
    | none => none
  | none, _ => none

def stripLeadingZeros : List Nat → List Nat
  | 0 :: (d :: rest) => stripLeadingZeros (d :: rest)
  | l => l

def stripTrailingZeros (l : List Nat) : List Nat :=
  (l.reverse.dropWhile (· == 0)).reverse

def digitChars (l : List Nat) : String := String.ofList (l.map fun d => Char.ofNat (48 + d))

/-- number of significant digits (used for the ≤ 15 domain restriction) -/
def sigDigits (d : Dec) : Nat :=
  (stripLeadingZeros (d.int ++ d.frac)).length

/-- what Rust's `f64::to_string` prints for the value of `d` (shortest round-trip form; for
decimals with ≤ 15 significant digits that is the decimal itself without superfluous zeros;
Rust never uses exponent notation in `Display`). -/
def display (d : Dec) : String :=
  let i := stripLeadingZeros d.int
  let f := stripTrailingZeros d.frac
  (if d.neg then "-" else "") ++ digitChars i ++ (if f.isEmpty then "" else "." ++ digitChars f)

/-- `FluentNumber::from_str`: `minimum_fraction_digits = input.find('.').map(|p| len - p - 1)` -/
def mfdOfSource (bs : Bytes) : Option Nat :=
  match splitAtDot bs with
  | (_, some f) => some f.length
  | (_, none) => none

end FluentModel.Num

namespace FluentModel.Num

/-! ## `FluentNumber`, options, `FromStr`, `as_string`, `NUMBER` option merge

Values are exact decimals (`Dec`).  `f64` parsing accepts more than `parseDec` (exponents, `inf`,
`nan`, `.5`, `5.`, `+1`); such sources are outside the model's domain: `tryNumber` answers
`unsupported` for them and the correspondence check skips the case (the implementation is still
run against the property predicates). -/

inductive NumType where
  | cardinal | ordinal
  deriving Repr, DecidableEq

/-- the options the model tracks (`FluentNumberOptions`); the others (`style`, `currency`, …) do not
influence formatting or selection in this code base and are carried only for equality of exact keys -/
structure NumOptions where
  type : NumType := .cardinal
  minimumFractionDigits : Option Nat := none
  /-- all remaining options in a canonical textual form (for `PartialEq` of exact number keys) -/
  rest : List (String × String) := []
  deriving Repr, DecidableEq

structure FluentNumber where
  value : Dec
  options : NumOptions := {}
  deriving Repr, DecidableEq

/-- upper bound for `minimumFractionDigits` (`MAX_FRACTION_DIGITS` in number.rs; re-extracted into
`Generated.maxFractionDigits` and compared by the driver) -/
def maxFractionDigits : Nat := Generated.maxFractionDigits

/-- numeric equality of two exact decimals (`f64 ==` on the domain): same sign unless both zero,
same digits after normalisation -/
def Dec.isZero (d : Dec) : Bool := (d.int ++ d.frac).all (· == 0)
def Dec.valueEq (a b : Dec) : Bool :=
  let na := (stripLeadingZeros a.int, stripTrailingZeros a.frac)
  let nb := (stripLeadingZeros b.int, stripTrailingZeros b.frac)
  na == nb && (a.neg == b.neg || (a.isZero && b.isZero))

/-- `FluentNumber::eq` (derived `PartialEq`: value and all options) -/
def FluentNumber.eq (a b : FluentNumber) : Bool := a.value.valueEq b.value && a.options == b.options

inductive TryNum where
  | number (n : FluentNumber)
  | notNumber            -- `f64::from_str` fails: the value stays a string
  | unsupported          -- `f64::from_str` may succeed but the value is outside the exact-decimal domain

/-- does `f64::from_str` certainly reject these bytes?  (anything that is not made of the characters
a float literal can contain) -/
def surelyNotFloat (bs : Bytes) : Bool :=
  bs.isEmpty || bs.any fun b =>
    !(isDigit b || b == 43 || b == 45 || b == 46 ||
      (strBytes "einfatyEINFATY").contains b)

/-- `FluentValue::try_number` = `FluentNumber::from_str`:
`minimum_fraction_digits = input.find('.').map(|pos| input.len() - pos - 1)` -/
def tryNumber (bs : Bytes) : TryNum :=
  match parseDec bs with
  | some d => if sigDigits d > 15 then .unsupported else .number ⟨d, { minimumFractionDigits := mfdOfSource bs }⟩
  | none => if surelyNotFloat bs then .notNumber else .unsupported

/-- `FluentNumber::as_string`: `value.to_string()` padded with zeros up to
`min(minimum_fraction_digits, 100)` fraction digits -/
def asString (n : FluentNumber) : Bytes :=
  let v := strBytes (display n.value)
  match n.options.minimumFractionDigits with
  | none => v
  | some minfd =>
    let minfd := min minfd maxFractionDigits
    match splitAtDot v with
    | (_, some frac) => v ++ List.replicate (minfd - frac.length) 48
    | (_, none) => v ++ [46] ++ List.replicate minfd 48

end FluentModel.Num
