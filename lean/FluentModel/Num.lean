import FluentModel.Util
/-!
# Numbers (model of `fluent-bundle/src/types/number.rs`)

`FluentNumber.value` is an `f64`.  The model represents values by *exact decimals*
(`Dec`): sign, integer digits, fraction digits.  The correspondence is restricted to the
domain where `f64` parsing/printing provably agrees with exact decimals for this purpose
(at most 15 significant digits; see DESIGN §4.5); outside it the driver answers `unsupported`.
-/
namespace FluentModel.Num

/-- exact decimal as written: `-?[0-9]+(\.[0-9]+)?` -/
structure Dec where
  neg : Bool
  int : List Nat      -- digits, most significant first, non-empty
  frac : List Nat     -- digits after the point (possibly empty; `hasPoint` tells "1." from "1")
  deriving Repr, DecidableEq

def isDigit (b : UInt8) : Bool := 48 ≤ b && b ≤ 57

def digitsOf (bs : Bytes) : Option (List Nat) :=
  if bs.isEmpty then none
  else if bs.all isDigit then some (bs.map fun b => b.toNat - 48) else none

def splitAtDot : Bytes → Bytes × Option Bytes
  | [] => ([], none)
  | b :: rest =>
    if b == 46 then ([], some rest)
    else let (a, r) := splitAtDot rest; (b :: a, r)

/-- strict decimal syntax `-?digits(.digits)?` (Fluent `NumberLiteral`) -/
def parseDec (bs : Bytes) : Option Dec :=
  let (neg, body) := match bs with
    | 45 :: rest => (true, rest)
    | _ => (false, bs)
  let (i, f) := splitAtDot body
  match digitsOf i, f with
  | some id, none => some ⟨neg, id, []⟩
  | some id, some fb =>
    match digitsOf fb with
    | some fd => some ⟨neg, id, fd⟩
    | none => none
  | none, _ => none

def stripLeadingZeros : List Nat → List Nat
  | 0 :: (d :: rest) => stripLeadingZeros (d :: rest)
  | l => l

def stripTrailingZeros (l : List Nat) : List Nat :=
  (l.reverse.dropWhile (· == 0)).reverse

def digitChars (l : List Nat) : String := String.ofList (l.map fun d => Char.ofNat (48 + d))

/-- number of significant digits (used for the ≤ 15 domain restriction) -/
def sigDigits (d : Dec) : Nat :=
  (stripLeadingZeros (d.int ++ d.frac)).length

/-- what Rust's `f64::to_string` prints for the value of `d` (shortest round-trip form; for
decimals with ≤ 15 significant digits that is the decimal itself without superfluous zeros;
Rust never uses exponent notation in `Display`). -/
def display (d : Dec) : String :=
  let i := stripLeadingZeros d.int
  let f := stripTrailingZeros d.frac
  (if d.neg then "-" else "") ++ digitChars i ++ (if f.isEmpty then "" else "." ++ digitChars f)

/-- `FluentNumber::from_str`: `minimum_fraction_digits = input.find('.').map(|p| len - p - 1)` -/
def mfdOfSource (bs : Bytes) : Option Nat :=
  match splitAtDot bs with
  | (_, some f) => some f.length
  | (_, none) => none

end FluentModel.Num
