import FluentModel.Resolver
/-!
# ResolverSpec — reference big-step semantics of Fluent resolution, written from the property text (C07)

Differences from the transcribed `Resolver` model (which follows the Rust code):
* the arguments of the current term call are a *parameter* (`locals`), so they are trivially back in
  force when a nested call returns (the code saves and restores a mutable field);
* the resolution stack used for cycle detection is a *parameter* (`stack`);
* exceeding the placeable limit is an *outcome* (`limit`) that aborts the evaluation with the error log
  so far (plus `TooManyPlaceables`, logged once); what text the code still produces on that path is not
  specified here (the property only says: reported once, the call returns);
* the placeable count and the error log are threaded functionally.

Clauses pinned by the property text are marked (P); where the text is silent the spec follows the code (C).
-/
namespace FluentModel.ResolverSpec
open FluentModel FluentModel.Syntax FluentModel.Num FluentModel.Resolver

inductive Out (α : Type) where
  | val (a : α) (count : Nat) (log : List RErr)
  | limit (log : List RErr)            -- the placeable limit was exceeded; `log` ends with `tooManyPlaceables`
  | panic (site : String)
  | fuel

/-- immutable context of an evaluation -/
structure Ctx where
  env : Env
  locals : Option ArgList              -- arguments of the enclosing term call (P)
  stack : List (Pattern Bytes)         -- patterns being resolved (cycle detection)

mutual

/-- elements of a pattern, left to right; `n` = number of elements of the whole pattern -/
def evalElems (c : Ctx) : Nat → Nat → List (PatElem Bytes) → Nat → List RErr → Out Bytes
  | 0, _, _, _, _ => .fuel
  | _ + 1, _, [], count, log => .val [] count log
  | f + 1, n, .text v :: rest, count, log =>
    -- (P) text verbatim, after the bundle's transform
    let t := match c.env.transform with | some tr => tr v | none => v
    (match evalElems c f n rest count log with
     | .val r count' log' => .val (t ++ r) count' log'
     | o => o)
  | f + 1, n, .placeable e :: rest, count, log =>
    -- (P) at most `maxPlaceables` placeables per call; exceeding it is reported once
    if count + 1 > Generated.maxPlaceables then .limit (log ++ [.tooManyPlaceables])
    else
      match evalExpr c f e (count + 1) log with
      | .val s count' log' =>
        -- (P, C09) a pair of marks around each placeable of a multi-element pattern whose expression is
        -- not a message/term reference or a string literal
        let s' := if c.env.useIsolating && n > 1 && isolatable e then fsi ++ s ++ pdi else s
        (match evalElems c f n rest count' log' with
         | .val r count'' log'' => .val (s' ++ r) count'' log''
         | o => o)
      | .limit l => .limit l
      | .panic m => .panic m
      | .fuel => .fuel

/-- a pattern reached through a reference: cycle check, then its elements (P) -/
def evalRef (c : Ctx) : Nat → Pattern Bytes → Inline Bytes → Nat → List RErr → Out Bytes
  | 0, _, _, _, _ => .fuel
  | f + 1, p, src, count, log =>
    if travelledContains c.stack p then
      -- (P) a cycle is reported once where it occurs and renders the reference's source form in braces
      .val (braced (inlineWriteError src)) count (log ++ [.cyclic])
    else evalElems { c with stack := c.stack ++ [p] } f p.length p count log

def evalExpr (c : Ctx) : Nat → Expr Bytes → Nat → List RErr → Out Bytes
  | 0, _, _, _ => .fuel
  | f + 1, .inline e, count, log => evalInline c f e count log
  | f + 1, .select sel variants, count, log =>
    match evalValue c f sel count log with
    | .val selector count' log' =>
      -- (P) first variant whose key equals the selector (exact string, exact number, or the selector
      -- number's plural category), otherwise the default
      let chosen : Resolver.RR (Option (Pattern Bytes)) :=
        match selector with
        | .str _ | .num _ => selectVariant c.env variants selector
        | _ => .ok none
      (match chosen with
       | .ok (some v) => evalElems c f v.length v count' log'
       | .ok none =>
         (match defaultVariant variants with
          | some v => evalElems c f v.length v count' log'
          | none => .val [] count' (log' ++ [.missingDefault]))     -- (C) cannot occur for parsed resources
       | .panic m => .panic m
       | .fuel => .fuel)
    | .limit l => .limit l
    | .panic m => .panic m
    | .fuel => .fuel

/-- print mode -/
def evalInline (c : Ctx) : Nat → Inline Bytes → Nat → List RErr → Out Bytes
  | 0, _, _, _ => .fuel
  | _ + 1, .str v, count, log => .val (c.env.unescape v) count log
  | _ + 1, .num v, count, log => .val (valueString c.env (c.env.tryNumber v)) count log
  | f + 1, .msg id attr, count, log =>
    let src : Inline Bytes := .msg id attr
    (match c.env.msg id with
     | none => .val (braced (inlineWriteError src)) count (log ++ [.reference (.message id attr)])   -- (P)
     | some m =>
       (match attr with
        | some a =>
          (match findAttr m.attributes a with
           | some p => evalRef c f p src count log            -- (C) a message sees the arguments in force
           | none => .val (braced (inlineWriteError src)) count (log ++ [.reference (.message id attr)]))  -- (P)
        | none =>
          (match m.value with
           | some p => evalRef c f p src count log
           | none => .val (braced (inlineWriteError src)) count (log ++ [.noValue id]))))   -- (P) value-less message
  | f + 1, .term id attr args, count, log =>
    let src : Inline Bytes := .term id attr args
    -- (P) the arguments are evaluated in the caller's scope …
    (match evalArgs c f args count log with
     | .val (_, named) count' log' =>
       let target : Option (Pattern Bytes) :=
         match c.env.term id with
         | some t => (match attr with | some a => findAttr t.attributes a | none => some t.value)
         | none => none
       (match target with
        -- … and the term sees only them (P); `c` itself is untouched, so the caller's arguments are in
        -- force again afterwards
        | some p => evalRef { c with locals := some named } f p src count' log'
        | none => .val (braced (inlineWriteError src)) count' (log' ++ [.reference (.term id attr)]))   -- (P)
     | .limit l => .limit l
     | .panic m => .panic m
     | .fuel => .fuel)
  | f + 1, .fn id pos named, count, log =>
    (match evalArgs c f (some (pos, named)) count log with
     | .val (rp, rn) count' log' =>
       (match c.env.fn id with
        | some fn =>
          (match fn rp rn with
           | .error => .val (inlineWriteError (.fn id pos named)) count' log'     -- (C)
           | r => .val (valueString c.env r) count' log')                          -- (P) applied to resolved arguments
        | none => .val (braced (inlineWriteError (.fn id pos named))) count' (log' ++ [.reference (.function id)]))  -- (P)
     | .limit l => .limit l
     | .panic m => .panic m
     | .fuel => .fuel)
  | _ + 1, .var id, count, log =>
    (match c.locals with
     | some l =>
       (match l.get id with
        | some v => .val (valueString c.env v) count log
        -- (P) a parameter the term was not given renders the same way but is not an error
        | none => .val (braced (inlineWriteError (.var id))) count log)
     | none =>
       (match c.env.args.bind (·.get id) with
        | some v => .val (valueString c.env v) count log
        | none => .val (braced (inlineWriteError (.var id))) count (log ++ [.reference (.variable id)])))   -- (P)
  | f + 1, .placeable e, count, log => evalExpr c f e count log

/-- value mode (selectors, call arguments) -/
def evalValue (c : Ctx) : Nat → Inline Bytes → Nat → List RErr → Out Value
  | 0, _, _, _ => .fuel
  | _ + 1, .str v, count, log => .val (.str (c.env.unescape v)) count log
  | _ + 1, .num v, count, log => .val (c.env.tryNumber v) count log
  | _ + 1, .var id, count, log =>
    (match c.locals with
     | some l => .val ((l.get id).getD .error) count log
     | none =>
       (match c.env.args.bind (·.get id) with
        | some v => .val v count log
        | none => .val .error count (log ++ [.reference (.variable id)])))
  | f + 1, .fn id pos named, count, log =>
    (match evalArgs c f (some (pos, named)) count log with
     | .val (rp, rn) count' log' =>
       (match c.env.fn id with
        | some fn => .val (fn rp rn) count' log'
        | none => .val .error count' (log' ++ [.reference (.function id)]))    -- (P) reported exactly once
     | .limit l => .limit l
     | .panic m => .panic m
     | .fuel => .fuel)
  | f + 1, e, count, log =>
    -- anything else is printed and used as a string (C)
    (match evalInline c f e count log with
     | .val s count' log' => .val (.str s) count' log'
     | .limit l => .limit l
     | .panic m => .panic m
     | .fuel => .fuel)

/-- positional then named arguments, left to right (P) -/
def evalArgs (c : Ctx) : Nat → Option (List (Inline Bytes) × List (Bytes × Inline Bytes)) → Nat → List RErr →
    Out (List Value × ArgList)
  | 0, _, _, _ => .fuel
  | _ + 1, none, count, log => .val ([], []) count log
  | f + 1, some (pos, named), count, log =>
    match evalList c f pos count log with
    | .val vs count' log' =>
      (match evalNamed c f named count' log' with
       | .val ns count'' log'' => .val (vs, ArgList.ofPairs ns) count'' log''
       | .limit l => .limit l
       | .panic m => .panic m
       | .fuel => .fuel)
    | .limit l => .limit l
    | .panic m => .panic m
    | .fuel => .fuel

def evalList (c : Ctx) : Nat → List (Inline Bytes) → Nat → List RErr → Out (List Value)
  | 0, _, _, _ => .fuel
  | _ + 1, [], count, log => .val [] count log
  | f + 1, e :: es, count, log =>
    match evalValue c f e count log with
    | .val v count' log' =>
      (match evalList c f es count' log' with
       | .val vs count'' log'' => .val (v :: vs) count'' log''
       | o => o)
    | .limit l => .limit l
    | .panic m => .panic m
    | .fuel => .fuel

def evalNamed (c : Ctx) : Nat → List (Bytes × Inline Bytes) → Nat → List RErr → Out (List (Bytes × Value))
  | 0, _, _, _ => .fuel
  | _ + 1, [], count, log => .val [] count log
  | f + 1, (k, e) :: es, count, log =>
    match evalValue c f e count log with
    | .val v count' log' =>
      (match evalNamed c f es count' log' with
       | .val vs count'' log'' => .val ((k, v) :: vs) count'' log''
       | o => o)
    | .limit l => .limit l
    | .panic m => .panic m
    | .fuel => .fuel

end

/-- the meaning of formatting pattern `p` of a bundle with the caller's arguments `env.args` -/
def format (env : Env) (fuel : Nat) (p : Pattern Bytes) : Out Bytes :=
  evalElems ⟨env, none, [p]⟩ fuel p.length p 0 []

end FluentModel.ResolverSpec
