import FluentModel.Util
/-!
# AST (mirror of `fluent_syntax::ast`, constructor for constructor), generic in the string type `S`

The parser model produces `Resource Span` (every string is a byte range of the source, exactly
as the Rust parser slices its input); `Resource Bytes` is obtained by `mapS (resolve src)`.
-/
namespace FluentModel.Syntax

/-- byte range `start..stop` of the source -/
structure Span where
  start : Nat
  stop : Nat
  deriving Repr, DecidableEq, Inhabited

inductive VKey (S : Type) where
  | ident (name : S)
  | num (value : S)
  deriving Repr

mutual
/-- `ast::InlineExpression` (`CallArguments` inlined as positional list × named list) -/
inductive Inline (S : Type) where
  | str (v : S)
  | num (v : S)
  | fn (id : S) (pos : List (Inline S)) (named : List (S × Inline S))
  | msg (id : S) (attr : Option S)
  | term (id : S) (attr : Option S) (args : Option (List (Inline S) × List (S × Inline S)))
  | var (id : S)
  | placeable (e : Expr S)
/-- `ast::Expression` -/
inductive Expr (S : Type) where
  | inline (e : Inline S)
  | select (sel : Inline S) (variants : List (Variant S))
/-- `ast::Variant` -/
inductive Variant (S : Type) where
  | mk (key : VKey S) (value : List (PatElem S)) (default : Bool)
/-- `ast::PatternElement` -/
inductive PatElem (S : Type) where
  | text (v : S)
  | placeable (e : Expr S)
end

abbrev Pattern (S : Type) := List (PatElem S)

structure Attribute (S : Type) where
  id : S
  value : Pattern S

structure Message (S : Type) where
  id : S
  value : Option (Pattern S)
  attributes : List (Attribute S)
  comment : Option (List S)

structure Term (S : Type) where
  id : S
  value : Pattern S
  attributes : List (Attribute S)
  comment : Option (List S)

inductive Entry (S : Type) where
  | message (m : Message S)
  | term (t : Term S)
  | comment (c : List S)
  | groupComment (c : List S)
  | resourceComment (c : List S)
  | junk (content : S)

abbrev Resource (S : Type) := List (Entry S)

/-! ## map over the string type -/
section map
variable {S T : Type} (f : S → T)

def VKey.mapS : VKey S → VKey T
  | .ident n => .ident (f n)
  | .num v => .num (f v)

mutual
def Inline.mapS : Inline S → Inline T
  | .str v => .str (f v)
  | .num v => .num (f v)
  | .fn id pos named => .fn (f id) (mapInl pos) (mapNamed named)
  | .msg id attr => .msg (f id) (attr.map f)
  | .term id attr none => .term (f id) (attr.map f) none
  | .term id attr (some (pos, named)) => .term (f id) (attr.map f) (some (mapInl pos, mapNamed named))
  | .var id => .var (f id)
  | .placeable e => .placeable e.mapS
def mapInl : List (Inline S) → List (Inline T)
  | [] => []
  | x :: xs => x.mapS :: mapInl xs
def mapNamed : List (S × Inline S) → List (T × Inline T)
  | [] => []
  | (n, x) :: xs => (f n, x.mapS) :: mapNamed xs
def Expr.mapS : Expr S → Expr T
  | .inline e => .inline e.mapS
  | .select sel vs => .select sel.mapS (mapVariants vs)
def mapVariants : List (Variant S) → List (Variant T)
  | [] => []
  | v :: vs => v.mapS :: mapVariants vs
def Variant.mapS : Variant S → Variant T
  | .mk k val d => .mk (k.mapS f) (mapPat val) d
def mapPat : List (PatElem S) → List (PatElem T)
  | [] => []
  | e :: es => e.mapS :: mapPat es
def PatElem.mapS : PatElem S → PatElem T
  | .text v => .text (f v)
  | .placeable e => .placeable e.mapS
end

def Attribute.mapS (a : Attribute S) : Attribute T := ⟨f a.id, mapPat f a.value⟩

def Entry.mapS : Entry S → Entry T
  | .message m => .message ⟨f m.id, m.value.map (mapPat f), m.attributes.map (Attribute.mapS f), m.comment.map (List.map f)⟩
  | .term t => .term ⟨f t.id, mapPat f t.value, t.attributes.map (Attribute.mapS f), t.comment.map (List.map f)⟩
  | .comment c => .comment (c.map f)
  | .groupComment c => .groupComment (c.map f)
  | .resourceComment c => .resourceComment (c.map f)
  | .junk c => .junk (f c)

end map

/-! ## canonical S-expression printing (strings as hex) — the observation format of the tie -/
section print

def hS (b : Bytes) : String := hexEnc b
def optS (o : Option Bytes) : String := match o with | some b => hS b | none => "~"

def VKey.sexp : VKey Bytes → String
  | .ident n => "(ki " ++ hS n ++ ")"
  | .num v => "(kn " ++ hS v ++ ")"

mutual
def Inline.sexp : Inline Bytes → String
  | .str v => "(s " ++ hS v ++ ")"
  | .num v => "(n " ++ hS v ++ ")"
  | .fn id pos named => "(f " ++ hS id ++ " (pos" ++ sexpInl pos ++ ") (named" ++ sexpNamed named ++ "))"
  | .msg id attr => "(m " ++ hS id ++ " " ++ optS attr ++ ")"
  | .term id attr none => "(tm " ++ hS id ++ " " ++ optS attr ++ " ~)"
  | .term id attr (some (pos, named)) =>
    "(tm " ++ hS id ++ " " ++ optS attr ++ " (args (pos" ++ sexpInl pos ++ ") (named" ++ sexpNamed named ++ ")))"
  | .var id => "(var " ++ hS id ++ ")"
  | .placeable e => "(pl " ++ e.sexp ++ ")"
def sexpInl : List (Inline Bytes) → String
  | [] => ""
  | x :: xs => " " ++ x.sexp ++ sexpInl xs
def sexpNamed : List (Bytes × Inline Bytes) → String
  | [] => ""
  | (n, x) :: xs => " (na " ++ hS n ++ " " ++ x.sexp ++ ")" ++ sexpNamed xs
def Expr.sexp : Expr Bytes → String
  | .inline e => e.sexp
  | .select sel vs => "(sel " ++ sel.sexp ++ sexpVariants vs ++ ")"
def sexpVariants : List (Variant Bytes) → String
  | [] => ""
  | v :: vs => " " ++ v.sexp ++ sexpVariants vs
def Variant.sexp : Variant Bytes → String
  | .mk k val d => "(v " ++ (if d then "1" else "0") ++ " " ++ k.sexp ++ " (pat" ++ sexpPat val ++ "))"
def sexpPat : List (PatElem Bytes) → String
  | [] => ""
  | e :: es => " " ++ e.sexp ++ sexpPat es
def PatElem.sexp : PatElem Bytes → String
  | .text v => "(t " ++ hS v ++ ")"
  | .placeable e => "(p " ++ e.sexp ++ ")"
end

def Pattern.sexp (p : Pattern Bytes) : String := "(pat" ++ sexpPat p ++ ")"

def sexpAttrs (as : List (Attribute Bytes)) : String :=
  "(attrs" ++ String.join (as.map fun a => " (a " ++ hS a.id ++ " " ++ Pattern.sexp a.value ++ ")") ++ ")"

def sexpComment (c : Option (List Bytes)) : String :=
  match c with
  | none => "~"
  | some ls => "(c" ++ String.join (ls.map fun l => " " ++ hS l) ++ ")"

def Entry.sexp : Entry Bytes → String
  | .message m => "(msg " ++ hS m.id ++ " " ++ (match m.value with | some p => Pattern.sexp p | none => "~") ++ " " ++
      sexpAttrs m.attributes ++ " " ++ sexpComment m.comment ++ ")"
  | .term t => "(term " ++ hS t.id ++ " " ++ Pattern.sexp t.value ++ " " ++ sexpAttrs t.attributes ++ " " ++
      sexpComment t.comment ++ ")"
  | .comment c => sexpComment (some c)
  | .groupComment c => "(gc" ++ String.join (c.map fun l => " " ++ hS l) ++ ")"
  | .resourceComment c => "(rc" ++ String.join (c.map fun l => " " ++ hS l) ++ ")"
  | .junk c => "(junk " ++ hS c ++ ")"

def Resource.sexp (r : Resource Bytes) : String :=
  "(res" ++ String.join (r.map fun e => " " ++ e.sexp) ++ ")"

end print

end FluentModel.Syntax
