/-!
# Model of `fluent-fallback/src/bundles.rs` (locale fallback, C16)

Transcribed (statement for statement, in the order the Rust code pushes onto `errors`):

* `format_value_from_inner!`    → `valueLoop` / `formatValueFromInner`
* `format_values_from_inner!`   → `valuesStep` / `valuesRound` / `valuesLoop` / `valuesFinish` / `formatValuesFromInner`
* `format_messages_from_inner!` → `messagesStep` / `messagesRound` / `messagesLoop` / `messagesFinish` /
  `formatMessagesFromInner`
* `format_message_from_bundle`  → `formatMessageFromBundle`
* `Bundles::{format_value, format_values, format_messages}` (usable in both modes) and
  `Bundles::{format_value_sync, format_values_sync, format_messages_sync}` (refuse in async mode with
  `SyncRequestInAsyncMode`, touching neither `errors` nor the cache) → `Bundles.formatValue` … below.
* `errors.rs` `LocalizationError` → `LocErr` (constructor for constructor).
* `bundle.locales[0]` / `bundle.locales.get(0).cloned().unwrap()` are Rust panic sites (a bundle built
  with an empty locale list); they are explicit `Outcome.panic` results here.  Note that the index is
  only evaluated on the paths that push an error.

Parameters / contracts (external code, DESIGN 4.4):

* A `FluentBundle` is a finite map `get_message : id → Option message` (C10's subject) together with
  its `locales` vector; a message is `value : Option pattern` and `attributes` in source order.
* `FluentBundle::format_pattern(pattern, args, &mut errs)` (C06/C07's subject) is a pure function of
  `(pattern, args)` that returns a text and *appends* a list of resolver errors: a pattern is
  therefore represented by its denotation `A → Fmt` (`A` = the `Option<FluentArgs>` of the key).
* `$step` — `CacheIter::next` for the sync cache and `AsyncCacheStream::next().await` for the async
  one — delivers, for every fresh cursor, the items of the generator's sequence in order (that is C17;
  here it is the list `source`).  The model records in `pulled` how many items the cache holds, i.e.
  how many bundles the generator has been asked to produce so far.
-/
namespace FluentModel.Fallback

/-- result of a model function: a value, or a Rust panic at a named site -/
inductive Outcome (α : Type) where
  | done (a : α)
  | panic (site : String)
  deriving Repr, DecidableEq

namespace Outcome
@[inline] def bind {α β : Type} (x : Outcome α) (f : α → Outcome β) : Outcome β :=
  match x with
  | .done a => f a
  | .panic s => .panic s

@[inline] def map {α β : Type} (f : α → β) (x : Outcome α) : Outcome β :=
  match x with
  | .done a => .done (f a)
  | .panic s => .panic s
end Outcome

/-- what `format_pattern` yields: the text, and the resolver errors it appended -/
structure Fmt (T RE : Type) where
  text : T
  errs : List RE

/-- `FluentMessage`: `value()` and `attributes()` (name, pattern) in source order;
patterns are given by their denotation under `format_pattern` -/
structure Msg (A N T RE : Type) where
  value : Option (A → Fmt T RE)
  attrs : List (N × (A → Fmt T RE))

/-- `FluentBundle`: `locales` and `get_message` -/
structure Bundle (I L A N T RE : Type) where
  locales : List L
  getMessage : I → Option (Msg A N T RE)

/-- `FluentBundleResult`: `Ok(bundle)` or `Err((bundle, errors))` -/
inductive BundleResult (I L A N T RE BE : Type) where
  | ok (b : Bundle I L A N T RE)
  | broken (b : Bundle I L A N T RE) (errs : List BE)

/-- `errors.rs`: `LocalizationError` -/
inductive LocErr (I L RE BE : Type) where
  | bundle (error : BE)
  | resolver (id : I) (locale : L) (errors : List RE)
  | missingMessage (id : I) (locale : Option L)
  | missingValue (id : I) (locale : Option L)
  | syncRequestInAsyncMode
  deriving Repr, DecidableEq

/-- `types.rs`: `L10nKey` -/
structure Key (I A : Type) where
  id : I
  args : A

/-- `types.rs`: `L10nMessage` (attributes as `(name, value)`) -/
structure L10nMessage (N T : Type) where
  value : Option T
  attributes : List (N × T)
  deriving Repr, DecidableEq

section
variable {I L A N T RE BE : Type}

def BundleResult.bundleOf : BundleResult I L A N T RE BE → Bundle I L A N T RE
  | .ok b => b
  | .broken b _ => b

def BundleResult.carried : BundleResult I L A N T RE BE → List BE
  | .ok _ => []
  | .broken _ es => es

/-- `bundle.as_ref().unwrap_or_else(|(bundle, err)| { $errors.extend(err.iter().cloned().map(Into::into)); bundle })` -/
def unwrapBundle (br : BundleResult I L A N T RE BE) (errors : List (LocErr I L RE BE)) :
    Bundle I L A N T RE × List (LocErr I L RE BE) :=
  match br with
  | .ok b => (b, errors)
  | .broken b es => (b, errors ++ es.map LocErr.bundle)

/-- `bundle.locales[0].clone()` -/
def locale0 (b : Bundle I L A N T RE) : Outcome L :=
  match b.locales with
  | l :: _ => .done l
  | [] => .panic "index out of bounds: the len is 0 but the index is 0"

/-! ## `format_value_from_inner!` -/

/-- the `while let Some(bundle) = $step` loop with the trailing `if found_message`;
`used` counts the items `$step` has delivered -/
def valueLoop (id : I) (args : A) :
    List (BundleResult I L A N T RE BE) → Bool → List (LocErr I L RE BE) → Nat →
    Outcome (Option T × List (LocErr I L RE BE) × Nat)
  | [], foundMessage, errors, used =>
    if foundMessage then
      .done (none, errors ++ [.missingValue id none], used)
    else
      .done (none, errors ++ [.missingMessage id none], used)
  | br :: rest, foundMessage, errors, used =>
    let (bundle, errors) := unwrapBundle br errors
    match bundle.getMessage id with
    | some msg =>
      -- found_message = true
      match msg.value with
      | some value =>
        let r := value args
        if !r.errs.isEmpty then
          (locale0 bundle).bind fun l =>
            .done (some r.text, errors ++ [.resolver id l r.errs], used + 1)
        else
          .done (some r.text, errors, used + 1)
      | none =>
        (locale0 bundle).bind fun l =>
          valueLoop id args rest true (errors ++ [.missingValue id (some l)]) (used + 1)
    | none =>
      (locale0 bundle).bind fun l =>
        valueLoop id args rest foundMessage (errors ++ [.missingMessage id (some l)]) (used + 1)

def formatValueFromInner (bundles : List (BundleResult I L A N T RE BE)) (id : I) (args : A)
    (errors : List (LocErr I L RE BE)) : Outcome (Option T × List (LocErr I L RE BE) × Nat) :=
  valueLoop id args bundles false errors 0

/-! ## `format_values_from_inner!` -/

/-- `enum Value<'l> { Present(Cow<str>), Missing, None }` -/
inductive Cell (T : Type) where
  | present (t : T)
  | missing
  | none
  deriving Repr, DecidableEq

def Cell.isPresent : Cell T → Bool
  | .present _ => true
  | _ => false

/-- body of the `for (key, cell) in …` loop for one key that passed the filter -/
def valuesStep (bundle : Bundle I L A N T RE) (key : Key I A) (cell : Cell T) (hasMissing : Bool)
    (errors : List (LocErr I L RE BE)) : Outcome (Cell T × Bool × List (LocErr I L RE BE)) :=
  match bundle.getMessage key.id with
  | some msg =>
    match msg.value with
    | some value =>
      let r := value key.args
      if !r.errs.isEmpty then
        (locale0 bundle).bind fun l =>
          .done (.present r.text, hasMissing, errors ++ [.resolver key.id l r.errs])
      else
        .done (.present r.text, hasMissing, errors)
    | none =>
      (locale0 bundle).bind fun l =>
        .done (.missing, true, errors ++ [.missingValue key.id (some l)])
  | none =>
    (locale0 bundle).bind fun l =>
      .done (cell, true, errors ++ [.missingMessage key.id (some l)])

/-- `for (key, cell) in $keys.iter().zip(&mut cells).filter(|(_, cell)| !matches!(cell, Value::Present(_)))` -/
def valuesRound (bundle : Bundle I L A N T RE) :
    List (Key I A) → List (Cell T) → Bool → List (LocErr I L RE BE) →
    Outcome (List (Cell T) × Bool × List (LocErr I L RE BE))
  | key :: keys, cell :: cells, hasMissing, errors =>
    if cell.isPresent then
      (valuesRound bundle keys cells hasMissing errors).bind fun (cs, hm, es) =>
        .done (cell :: cs, hm, es)
    else
      (valuesStep bundle key cell hasMissing errors).bind fun (c, hm, es) =>
        (valuesRound bundle keys cells hm es).bind fun (cs, hm, es) =>
          .done (c :: cs, hm, es)
  | [], cells, hasMissing, errors => .done (cells, hasMissing, errors)
  | _ :: _, [], hasMissing, errors => .done ([], hasMissing, errors)

/-- `while let Some(bundle) = $step { …; if !has_missing { break; } }` -/
def valuesLoop (keys : List (Key I A)) :
    List (BundleResult I L A N T RE BE) → List (Cell T) → List (LocErr I L RE BE) → Nat →
    Outcome (List (Cell T) × List (LocErr I L RE BE) × Nat)
  | [], cells, errors, used => .done (cells, errors, used)
  | br :: rest, cells, errors, used =>
    let (bundle, errors) := unwrapBundle br errors
    (valuesRound bundle keys cells false errors).bind fun (cells, hasMissing, errors) =>
      if !hasMissing then
        .done (cells, errors, used + 1)
      else
        valuesLoop keys rest cells errors (used + 1)

/-- `$keys.iter().zip(cells).map(|(key, value)| match value { … }).collect()` -/
def valuesFinish : List (Key I A) → List (Cell T) → List (LocErr I L RE BE) →
    List (Option T) × List (LocErr I L RE BE)
  | key :: keys, cell :: cells, errors =>
    match cell with
    | .present v =>
      let (rs, es) := valuesFinish keys cells errors
      (some v :: rs, es)
    | .missing =>
      let (rs, es) := valuesFinish keys cells (errors ++ [.missingValue key.id none])
      (none :: rs, es)
    | .none =>
      let (rs, es) := valuesFinish keys cells (errors ++ [.missingMessage key.id none])
      (none :: rs, es)
  | _, _, errors => ([], errors)

def formatValuesFromInner (bundles : List (BundleResult I L A N T RE BE)) (keys : List (Key I A))
    (errors : List (LocErr I L RE BE)) :
    Outcome (List (Option T) × List (LocErr I L RE BE) × Nat) :=
  (valuesLoop keys bundles (List.replicate keys.length Cell.none) errors 0).bind
    fun (cells, errors, used) =>
      let (rs, errors) := valuesFinish keys cells errors
      .done (rs, errors, used)

/-! ## `format_message_from_bundle` and `format_messages_from_inner!` -/

/-- `msg.attributes().map(|attr| { let value = bundle.format_pattern(attr.value(), args, format_errors); … }).collect()` -/
def formatAttrs (args : A) : List (N × (A → Fmt T RE)) → List RE → List (N × T) × List RE
  | [], formatErrors => ([], formatErrors)
  | (name, pat) :: rest, formatErrors =>
    let r := pat args
    let (as, es) := formatAttrs args rest (formatErrors ++ r.errs)
    ((name, r.text) :: as, es)

def formatMessageFromBundle (bundle : Bundle I L A N T RE) (key : Key I A) (formatErrors : List RE) :
    Option (L10nMessage N T) × List RE :=
  match bundle.getMessage key.id with
  | none => (none, formatErrors)            -- `?`
  | some msg =>
    let (value, formatErrors) :=
      match msg.value with
      | some pattern =>
        let r := pattern key.args
        (some r.text, formatErrors ++ r.errs)
      | none => (none, formatErrors)
    let (attributes, formatErrors) := formatAttrs key.args msg.attrs formatErrors
    (some { value := value, attributes := attributes }, formatErrors)

/-- body of the `for (key, cell) in …filter(|(_, cell)| cell.is_none())` loop -/
def messagesStep (bundle : Bundle I L A N T RE) (key : Key I A) (hasMissing : Bool)
    (errors : List (LocErr I L RE BE)) :
    Outcome (Option (L10nMessage N T) × Bool × List (LocErr I L RE BE)) :=
  let (msg, formatErrors) := formatMessageFromBundle bundle key []
  if msg.isNone then
    (locale0 bundle).bind fun l =>
      .done (msg, true, errors ++ [.missingMessage key.id (some l)])
  else if !formatErrors.isEmpty then
    (locale0 bundle).bind fun l =>
      .done (msg, hasMissing, errors ++ [.resolver key.id l formatErrors])
  else
    .done (msg, hasMissing, errors)

def messagesRound (bundle : Bundle I L A N T RE) :
    List (Key I A) → List (Option (L10nMessage N T)) → Bool → List (LocErr I L RE BE) →
    Outcome (List (Option (L10nMessage N T)) × Bool × List (LocErr I L RE BE))
  | key :: keys, cell :: cells, hasMissing, errors =>
    if cell.isNone then
      (messagesStep bundle key hasMissing errors).bind fun (c, hm, es) =>
        (messagesRound bundle keys cells hm es).bind fun (cs, hm, es) =>
          .done (c :: cs, hm, es)
    else
      (messagesRound bundle keys cells hasMissing errors).bind fun (cs, hm, es) =>
        .done (cell :: cs, hm, es)
  | [], cells, hasMissing, errors => .done (cells, hasMissing, errors)
  | _ :: _, [], hasMissing, errors => .done ([], hasMissing, errors)

/-- the `while let` loop; the `Bool` is `is_complete` -/
def messagesLoop (keys : List (Key I A)) :
    List (BundleResult I L A N T RE BE) → List (Option (L10nMessage N T)) →
    List (LocErr I L RE BE) → Nat →
    Outcome (List (Option (L10nMessage N T)) × Bool × List (LocErr I L RE BE) × Nat)
  | [], result, errors, used => .done (result, false, errors, used)
  | br :: rest, result, errors, used =>
    let (bundle, errors) := unwrapBundle br errors
    (messagesRound bundle keys result false errors).bind fun (result, hasMissing, errors) =>
      if !hasMissing then
        .done (result, true, errors, used + 1)
      else
        messagesLoop keys rest result errors (used + 1)

/-- `for (key, _) in $keys.iter().zip(&mut result).filter(|(_, cell)| cell.is_none()) { push MissingMessage{None} }` -/
def messagesFinish : List (Key I A) → List (Option (L10nMessage N T)) → List (LocErr I L RE BE) →
    List (LocErr I L RE BE)
  | key :: keys, cell :: cells, errors =>
    if cell.isNone then messagesFinish keys cells (errors ++ [.missingMessage key.id none])
    else messagesFinish keys cells errors
  | _, _, errors => errors

def formatMessagesFromInner (bundles : List (BundleResult I L A N T RE BE)) (keys : List (Key I A))
    (errors : List (LocErr I L RE BE)) :
    Outcome (List (Option (L10nMessage N T)) × List (LocErr I L RE BE) × Nat) :=
  (messagesLoop keys bundles (List.replicate keys.length none) errors 0).bind
    fun (result, isComplete, errors, used) =>
      if !isComplete then .done (result, messagesFinish keys result errors, used)
      else .done (result, errors, used)

/-! ## `Bundles<G>`: the two modes and the six request APIs -/

/-- `Cache` / `AsyncCache`: the generator's sequence and how many items have been pulled into `items` -/
structure CacheSt (I L A N T RE BE : Type) where
  source : List (BundleResult I L A N T RE BE)
  pulled : Nat

/-- `BundlesInner::{Iter, Stream}` -/
inductive Bundles (I L A N T RE BE : Type) where
  | iter (cache : CacheSt I L A N T RE BE)
  | stream (cache : CacheSt I L A N T RE BE)

/-- a fresh cursor that was advanced `used` times leaves `max pulled used` items in the cache -/
def CacheSt.advance (c : CacheSt I L A N T RE BE) (used : Nat) : CacheSt I L A N T RE BE :=
  { c with pulled := max c.pulled used }

def Bundles.cache : Bundles I L A N T RE BE → CacheSt I L A N T RE BE
  | .iter c => c
  | .stream c => c

def Bundles.isSync : Bundles I L A N T RE BE → Bool
  | .iter _ => true
  | .stream _ => false

def Bundles.advance (b : Bundles I L A N T RE BE) (used : Nat) : Bundles I L A N T RE BE :=
  match b with
  | .iter c => .iter (c.advance used)
  | .stream c => .stream (c.advance used)

/-- `Bundles::new(sync, …)` -/
def Bundles.new (sync : Bool) (source : List (BundleResult I L A N T RE BE)) : Bundles I L A N T RE BE :=
  if sync then .iter { source := source, pulled := 0 } else .stream { source := source, pulled := 0 }

abbrev Errs (I L RE BE : Type) := List (LocErr I L RE BE)

/-- `format_value_from_iter`: `let mut bundle_iter = cache.into_iter(); format_value_from_inner!(bundle_iter.next(), …)` -/
def formatValueFromIter (c : CacheSt I L A N T RE BE) (id : I) (args : A) (errors : Errs I L RE BE) :=
  formatValueFromInner (T := T) c.source id args errors
/-- `format_value_from_stream`: `let mut bundle_stream = stream.stream(); format_value_from_inner!(bundle_stream.next().await, …)` -/
def formatValueFromStream (c : CacheSt I L A N T RE BE) (id : I) (args : A) (errors : Errs I L RE BE) :=
  formatValueFromInner (T := T) c.source id args errors
def formatValuesFromIter (c : CacheSt I L A N T RE BE) (keys : List (Key I A)) (errors : Errs I L RE BE) :=
  formatValuesFromInner (T := T) c.source keys errors
def formatValuesFromStream (c : CacheSt I L A N T RE BE) (keys : List (Key I A)) (errors : Errs I L RE BE) :=
  formatValuesFromInner (T := T) c.source keys errors
def formatMessagesFromIter (c : CacheSt I L A N T RE BE) (keys : List (Key I A)) (errors : Errs I L RE BE) :=
  formatMessagesFromInner (N := N) (T := T) c.source keys errors
def formatMessagesFromStream (c : CacheSt I L A N T RE BE) (keys : List (Key I A)) (errors : Errs I L RE BE) :=
  formatMessagesFromInner (N := N) (T := T) c.source keys errors

/-- result of a request: the returned value, the `errors` vector afterwards, the instance afterwards -/
abbrev Reply (ρ I L A N T RE BE : Type) := Outcome (ρ × Errs I L RE BE × Bundles I L A N T RE BE)

def reply {ρ : Type} (b : Bundles I L A N T RE BE) (o : Outcome (ρ × Errs I L RE BE × Nat)) :
    Reply ρ I L A N T RE BE :=
  o.bind fun (r, errors, used) => .done (r, errors, b.advance used)

/-- `Bundles::format_value` (async fn; both modes) -/
def Bundles.formatValue (b : Bundles I L A N T RE BE) (id : I) (args : A) (errors : Errs I L RE BE) :
    Reply (Option T) I L A N T RE BE :=
  match b with
  | .iter c => reply b (formatValueFromIter c id args errors)
  | .stream c => reply b (formatValueFromStream c id args errors)

/-- `Bundles::format_values` -/
def Bundles.formatValues (b : Bundles I L A N T RE BE) (keys : List (Key I A)) (errors : Errs I L RE BE) :
    Reply (List (Option T)) I L A N T RE BE :=
  match b with
  | .iter c => reply b (formatValuesFromIter c keys errors)
  | .stream c => reply b (formatValuesFromStream c keys errors)

/-- `Bundles::format_messages` -/
def Bundles.formatMessages (b : Bundles I L A N T RE BE) (keys : List (Key I A)) (errors : Errs I L RE BE) :
    Reply (List (Option (L10nMessage N T))) I L A N T RE BE :=
  match b with
  | .iter c => reply b (formatMessagesFromIter c keys errors)
  | .stream c => reply b (formatMessagesFromStream c keys errors)

/-- `Bundles::format_value_sync`: `Err(SyncRequestInAsyncMode)` in stream mode -/
def Bundles.formatValueSync (b : Bundles I L A N T RE BE) (id : I) (args : A) (errors : Errs I L RE BE) :
    Reply (Except (LocErr I L RE BE) (Option T)) I L A N T RE BE :=
  match b with
  | .iter c =>
    reply b ((formatValueFromIter c id args errors).map fun (r, es, u) => (Except.ok r, es, u))
  | .stream _ => .done (.error .syncRequestInAsyncMode, errors, b)

/-- `Bundles::format_values_sync` -/
def Bundles.formatValuesSync (b : Bundles I L A N T RE BE) (keys : List (Key I A)) (errors : Errs I L RE BE) :
    Reply (Except (LocErr I L RE BE) (List (Option T))) I L A N T RE BE :=
  match b with
  | .iter c =>
    reply b ((formatValuesFromIter c keys errors).map fun (r, es, u) => (Except.ok r, es, u))
  | .stream _ => .done (.error .syncRequestInAsyncMode, errors, b)

/-- `Bundles::format_messages_sync` -/
def Bundles.formatMessagesSync (b : Bundles I L A N T RE BE) (keys : List (Key I A)) (errors : Errs I L RE BE) :
    Reply (Except (LocErr I L RE BE) (List (Option (L10nMessage N T)))) I L A N T RE BE :=
  match b with
  | .iter c =>
    reply b ((formatMessagesFromIter c keys errors).map fun (r, es, u) => (Except.ok r, es, u))
  | .stream _ => .done (.error .syncRequestInAsyncMode, errors, b)

/-! ## histories of requests on one instance (what the driver and the harness run) -/

/-- one operation of a history: the six request APIs, and `errors.clear()` by the caller -/
inductive Request (I A : Type) where
  | value (key : Key I A)
  | valueSync (key : Key I A)
  | values (keys : List (Key I A))
  | valuesSync (keys : List (Key I A))
  | messages (keys : List (Key I A))
  | messagesSync (keys : List (Key I A))
  | clear

inductive Response (I L N T RE BE : Type) where
  | value (r : Option T)
  | valueSync (r : Except (LocErr I L RE BE) (Option T))
  | values (r : List (Option T))
  | valuesSync (r : Except (LocErr I L RE BE) (List (Option T)))
  | messages (r : List (Option (L10nMessage N T)))
  | messagesSync (r : Except (LocErr I L RE BE) (List (Option (L10nMessage N T))))
  | cleared

def Bundles.handle (b : Bundles I L A N T RE BE) (req : Request I A) (errors : Errs I L RE BE) :
    Reply (Response I L N T RE BE) I L A N T RE BE :=
  match req with
  | .value k => (b.formatValue k.id k.args errors).map fun (r, es, b) => (.value r, es, b)
  | .valueSync k => (b.formatValueSync k.id k.args errors).map fun (r, es, b) => (.valueSync r, es, b)
  | .values ks => (b.formatValues ks errors).map fun (r, es, b) => (.values r, es, b)
  | .valuesSync ks => (b.formatValuesSync ks errors).map fun (r, es, b) => (.valuesSync r, es, b)
  | .messages ks => (b.formatMessages ks errors).map fun (r, es, b) => (.messages r, es, b)
  | .messagesSync ks => (b.formatMessagesSync ks errors).map fun (r, es, b) => (.messagesSync r, es, b)
  | .clear => .done (.cleared, [], b)

/-- a whole history: after every operation, the response, the `errors` vector and the instance -/
def Bundles.run (b : Bundles I L A N T RE BE) (errors : Errs I L RE BE) :
    List (Request I A) →
    Outcome (List (Response I L N T RE BE × Errs I L RE BE × Bundles I L A N T RE BE))
  | [] => .done []
  | req :: reqs =>
    (b.handle req errors).bind fun (r, errors', b') =>
      (b'.run errors' reqs).bind fun rest => .done ((r, errors', b') :: rest)

end
end FluentModel.Fallback
