import FluentModel.Resolver
/-!
# Builtins and the harness's function library (the same functions are implemented in
`harness/src/bin/fvh_fmt.rs`), text transforms, value formatters, English plural rules

* `NUMBER` is `fluent-bundle/src/builtins.rs` + `FluentNumberOptions::merge`.
* `ARGS`, `IDENT`, `FAIL`, `CUSTOM`, `NONE` are test functions of the correspondence harness: they make
  the resolved positional and named arguments observable through the formatted text.
-/
namespace FluentModel.Builtins
open FluentModel FluentModel.Num FluentModel.Resolver

/-- `n.value as usize` (saturating float→int cast: negative → 0, fraction truncated) -/
def decToUsize (d : Dec) : Nat :=
  if d.neg then 0 else (stripLeadingZeros d.int).foldl (fun acc x => acc * 10 + x) 0

/-- `FluentNumberOptions::merge(opts)`: iterate the named arguments in key order -/
def mergeOptions (o : NumOptions) (named : ArgList) : NumOptions :=
  (fun (r : NumOptions) => { r with rest := r.rest.mergeSort (fun a b => decide (a.1 ≤ b.1)) }) <|
  named.foldl (fun o (kv : Bytes × Value) =>
    let k := String.fromUTF8! ⟨kv.1.toArray⟩
    match k, kv.2 with
    | "type", .str s =>
      { o with type := if s == strBytes "ordinal" then .ordinal else .cardinal }
    | "minimumFractionDigits", .num n => { o with minimumFractionDigits := some (decToUsize n.value) }
    | "style", .str s =>
      -- `FluentNumberStyle::from`: unknown names are the default (`decimal`), which is not recorded
      let v := if s == strBytes "currency" then some "currency" else if s == strBytes "percent" then some "percent" else none
      { o with rest := o.rest.filter (·.1 != "style") ++ (match v with | some x => [("style", x)] | none => []) }
    | "currency", .str s => { o with rest := o.rest.filter (·.1 != "currency") ++ [("currency", hexEnc s)] }
    | "currencyDisplay", .str s =>
      let v := if s == strBytes "code" then some "code" else if s == strBytes "name" then some "name" else none
      { o with rest := o.rest.filter (·.1 != "currencyDisplay") ++ (match v with | some x => [("currencyDisplay", x)] | none => []) }
    | "useGrouping", .str s =>
      { o with rest := o.rest.filter (·.1 != "useGrouping") ++ (if s == strBytes "false" then [("useGrouping", "false")] else []) }
    | "minimumIntegerDigits", .num n => { o with rest := o.rest.filter (·.1 != "minimumIntegerDigits") ++ [("minimumIntegerDigits", toString (decToUsize n.value))] }
    | "maximumFractionDigits", .num n => { o with rest := o.rest.filter (·.1 != "maximumFractionDigits") ++ [("maximumFractionDigits", toString (decToUsize n.value))] }
    | "minimumSignificantDigits", .num n => { o with rest := o.rest.filter (·.1 != "minimumSignificantDigits") ++ [("minimumSignificantDigits", toString (decToUsize n.value))] }
    | "maximumSignificantDigits", .num n => { o with rest := o.rest.filter (·.1 != "maximumSignificantDigits") ++ [("maximumSignificantDigits", toString (decToUsize n.value))] }
    | _, _ => o) o

/-- `builtins::NUMBER` -/
def fnNUMBER : Fn := fun pos named =>
  match pos with
  | .num n :: _ => .num { n with options := mergeOptions n.options named }
  | _ => .error

def canonValue : Value → Bytes
  | .str s => strBytes "s:" ++ s
  | .num n => strBytes "n:" ++ asString n ++ strBytes "/" ++
      strBytes (match n.options.minimumFractionDigits with | some m => toString m | none => "-") ++
      strBytes (match n.options.type with | .ordinal => "/o" | .cardinal => "/c")
  | .custom t => strBytes "c:" ++ t
  | .none => strBytes "z"
  | .error => strBytes "e"

def joinBytes (sep : Bytes) : List Bytes → Bytes
  | [] => []
  | [x] => x
  | x :: xs => x ++ sep ++ joinBytes sep xs

/-- `ARGS(...)`: a string listing exactly what the function received -/
def fnARGS : Fn := fun pos named =>
  .str (strBytes "(" ++ joinBytes (strBytes ",") (pos.map canonValue) ++ strBytes ";" ++
    joinBytes (strBytes ",") (named.map fun kv => kv.1 ++ strBytes "=" ++ canonValue kv.2) ++ strBytes ")")

def fnIDENT : Fn := fun pos _ => match pos with | v :: _ => v | [] => .error
def fnFAIL : Fn := fun _ _ => .error
def fnNONE : Fn := fun _ _ => .none
def fnCUSTOM : Fn := fun pos _ => match pos with | .str s :: _ => .custom s | _ => .custom (strBytes "c")

def library (name : String) : Option Fn :=
  match name with
  | "NUMBER" => some fnNUMBER
  | "ARGS" => some fnARGS
  | "IDENT" => some fnIDENT
  | "FAIL" => some fnFAIL
  | "NONE" => some fnNONE
  | "CUSTOM" => some fnCUSTOM
  | _ => none

/-- text transform `bracket`: every text run is wrapped in `[` `]` (not the identity on any input, in particular
not on the isolation marks, should they ever be handed to the transform) -/
def bracketText (b : Bytes) : Bytes := [91] ++ b ++ [93]

/-- text transform `upper`: ASCII lower-case letters to upper case -/
def upperAscii (b : Bytes) : Bytes := b.map fun c => if 97 ≤ c && c ≤ 122 then c - 32 else c

/-- value formatters of the harness -/
def formatterNumBr : Value → Option Bytes
  | .num n => some (strBytes "[" ++ asString n ++ strBytes "]")
  | _ => none
def formatterStrWrap : Value → Option Bytes
  | .str s => some (strBytes "<" ++ s ++ strBytes ">")
  | _ => none

/-- `Custom::as_string` of the harness's custom value type -/
def customStr (t : Bytes) : Bytes :=
  -- `MemoCustom` (tag `memo:<x>`): stringified through the formatter memoizer by a `Memoizable` whose
  -- construction fails for tags starting with `bad` (fallback `!err`), else `[x]`
  if (strBytes "memo:").isPrefixOf t then
    let x := t.drop 5
    if (strBytes "bad").isPrefixOf x then strBytes "!err" else strBytes "[" ++ x ++ strBytes "]"
  else strBytes "<" ++ t ++ strBytes ">"

/-! ## English plural rules (enough for the resolver tie; other locales: `FluentModel/Plural.lean`, C12) -/

def digitsToNat (l : List Nat) : Nat := l.foldl (fun acc x => acc * 10 + x) 0

/-- visible fraction digits of what `as_string` prints (value digits, then the `minimum_fraction_digits`
padding) -/
def visibleFraction (n : FluentNumber) : List Nat :=
  let f := stripTrailingZeros n.value.frac
  match n.options.minimumFractionDigits with
  | some m => f ++ List.replicate (min m maxFractionDigits - f.length) 0
  | none => f

/-- CLDR `en`: cardinal `one` ⇔ i = 1 ∧ v = 0; ordinal one/two/few by n mod 10 / mod 100 -/
def categoryEn (n : FluentNumber) : Option Category :=
  let i := digitsToNat n.value.int
  let v := (visibleFraction n).length
  let fracZero := (stripTrailingZeros n.value.frac).isEmpty
  match n.options.type with
  | .cardinal => some (if i == 1 && v == 0 then .one else .other)
  | .ordinal =>
    if !fracZero then some .other
    else if i % 10 == 1 && i % 100 != 11 then some .one
    else if i % 10 == 2 && i % 100 != 12 then some .two
    else if i % 10 == 3 && i % 100 != 13 then some .few
    else some .other

end FluentModel.Builtins
