import FluentModel.Util
import FluentModel.Generated
/-!
# Model of `fluent-pseudo/src/lib.rs` (pseudolocalisation)

Transcribed from `/repo/fluent-pseudo/src/lib.rs`:

* `transformChar`, `transform` ← `pub fn transform(s, flipped, elongate)`: the closure body (`ch as u8`,
  the two range tests, `small_map[pos as usize]` / `caps_map[pos as usize]` as *panicking* table lookups, the
  doubling of `a e o u`) applied by `Regex::replace_all` to every match of `[a-zA-Z]`;
* `spliceLoop`, `transformDomWith`, `transformDom` ← `pub fn transform_dom(s, flipped, elongate, with_markers)`:
  the one-character shortcut, the `pos`/`diff` loop over `captures_iter` with every `usize` subtraction an
  explicit possibly-panicking `checkedSub`, `&s[range]` and `String::replace_range` as possibly-panicking
  operations on byte offsets, the final segment, the markers.

Representation.  A Rust `&str`/`String` is the list of its characters; **all offsets are UTF-8 byte
offsets** (`blen` = `str::len`).  `splitAtByte` answers `none` exactly when the offset is not a char
boundary (not the total length of a prefix of characters) or is out of range – which is when `&s[a..b]` and
`replace_range` panic (std contract; for the byte-level `is_char_boundary` this equivalence is proved in
`FluentProofs/Unescape.lean`, `boundary_split` / `not_boundary_inside`).

The four tables are parameters (`Tables`, code points); the driver passes the ones re-extracted from the
source (`FluentModel.Generated`).  Theorems are parametric in tables of length 26.

External code by contract:
* `Regex::replace_all` with `[a-zA-Z]`: the closure is applied to every ASCII letter, everything else is
  copied in place;
* `Regex::captures_iter` with `&[#\w]+;|<\s*.+?\s*>`: yields the leftmost-first, non-overlapping matches in
  order as byte ranges.  `transformDomWith` takes the match list as an argument (theorems hold for *every*
  ordered, non-overlapping, boundary-aligned match list); `findParts` is an executable leftmost-first matcher
  for exactly this regex (alternation order, greedy `\s*` with backtracking, lazy `.+?`, `.` = any character but
  `\n`), with `\w` / `\s` given for ASCII and for an explicit list of non-ASCII characters (`classOf`); the
  driver answers `unsupported` for any other non-ASCII character.
-/
namespace FluentModel.Pseudo
open FluentModel

inductive Outcome (α : Type) where
  | done (a : α)
  | panic (site : String)
  deriving Repr, DecidableEq

def Outcome.bind {α β : Type} (x : Outcome α) (f : α → Outcome β) : Outcome β :=
  match x with
  | .done a => f a
  | .panic s => .panic s

instance : Monad Outcome where
  pure := .done
  bind := Outcome.bind

structure Tables where
  small : List Nat
  caps : List Nat
  flippedSmall : List Nat
  flippedCaps : List Nat

def generatedTables : Tables :=
  ⟨Generated.pseudoSmallMap, Generated.pseudoCapsMap, Generated.pseudoFlippedSmallMap,
   Generated.pseudoFlippedCapsMap⟩

/-- the regexes this model implements (compared with the source's on every run) -/
def modelledExcludedRegex : List Nat := "&[#\\w]+;|<\\s*.+?\\s*>".toList.map Char.toNat
def modelledAzRegex : List Nat := "[a-zA-Z]".toList.map Char.toNat

/-! ## `transform` -/

/-- `[a-zA-Z]` -/
def isAsciiLetter (c : Char) : Bool :=
  (97 ≤ c.toNat && c.toNat ≤ 122) || (65 ≤ c.toNat && c.toNat ≤ 90)

/-- the closure passed to `replace_all`; `ch` = `caps[0].chars().next().unwrap()` -/
def transformChar (small caps : List Nat) (elongate : Bool) (ch : Char) : Outcome (List Char) :=
  let cc := ch.toNat % 256                       -- `ch as u8`
  if 97 ≤ cc && cc ≤ 122 then
    let pos := cc - 97
    match small[pos]? with                       -- `small_map[pos as usize]`
    | none => .panic "small_map index out of bounds"
    | some n =>
      let newChar := Char.ofNat n
      if elongate && (cc == 97 || cc == 101 || cc == 111 || cc == 117) then .done [newChar, newChar]
      else .done [newChar]
  else if 65 ≤ cc && cc ≤ 90 then
    let pos := cc - 65
    match caps[pos]? with                        -- `caps_map[pos as usize]`
    | none => .panic "caps_map index out of bounds"
    | some n => .done [Char.ofNat n]
  else .done [ch]

/-- `re_az.replace_all(s, closure)` -/
def replaceAll (f : Char → Outcome (List Char)) : List Char → Outcome (List Char)
  | [] => .done []
  | c :: cs =>
    if isAsciiLetter c then do
      let r ← f c
      let rest ← replaceAll f cs
      pure (r ++ rest)
    else do
      let rest ← replaceAll f cs
      pure (c :: rest)

/-- `pub fn transform(s: &str, flipped: bool, elongate: bool) -> Cow<str>` -/
def transform (T : Tables) (flipped elongate : Bool) (s : List Char) : Outcome (List Char) :=
  let maps := if flipped then (T.flippedSmall, T.flippedCaps) else (T.small, T.caps)
  replaceAll (transformChar maps.1 maps.2 elongate) s

/-! ## strings with byte offsets -/

/-- `str::len` -/
def blen : List Char → Nat
  | [] => 0
  | c :: cs => c.utf8Size + blen cs

/-- split at a byte offset; `none` = not a char boundary / out of range -/
def splitAtByte : List Char → Nat → Option (List Char × List Char)
  | cs, 0 => some ([], cs)
  | [], _ + 1 => none
  | c :: cs, n + 1 =>
    if c.utf8Size ≤ n + 1 then
      match splitAtByte cs (n + 1 - c.utf8Size) with
      | some (a, b) => some (c :: a, b)
      | none => none
    else none

/-- `&s[a..b]` -/
def strIndex (s : List Char) (a b : Nat) : Outcome (List Char) :=
  if a ≤ b then
    match splitAtByte s a with
    | some (_, r) =>
      match splitAtByte r (b - a) with
      | some (m, _) => .done m
      | none => .panic "str index: end not on a char boundary"
    | none => .panic "str index: start not on a char boundary"
  else .panic "str index: start > end"

/-- `String::replace_range(a..b, w)` -/
def replaceRange (s : List Char) (a b : Nat) (w : List Char) : Outcome (List Char) :=
  if a ≤ b then
    match splitAtByte s a with
    | some (pre, r) =>
      match splitAtByte r (b - a) with
      | some (_, post) => .done (pre ++ w ++ post)
      | none => .panic "replace_range: end not on a char boundary"
    | none => .panic "replace_range: start not on a char boundary"
  else .panic "replace_range: start > end"

/-- `a - b` on `usize` with overflow checks -/
def checkedSub (a b : Nat) : Outcome Nat :=
  if b ≤ a then .done (a - b) else .panic "attempt to subtract with overflow"

/-! ## `transform_dom` -/

/-- the `for cap in re_excluded.captures_iter(s)` loop; state `(result, pos, diff)` -/
def spliceLoop (tr : List Char → Outcome (List Char)) (s : List Char) :
    List (Nat × Nat) → List Char → Nat → Nat → Outcome (List Char × Nat × Nat)
  | [], result, pos, diff => .done (result, pos, diff)
  | (capStart, capEnd) :: ms, result, pos, diff => do
    let subLen ← checkedSub capStart pos                       -- capture.start() - pos
    let sub ← strIndex s pos capStart                          -- &s[pos..capture.start()]
    let transformSub ← tr sub
    let grow ← checkedSub (blen transformSub) subLen           -- transform_sub.len() - sub_len
    let result' ← replaceRange result (pos + diff) (capStart + diff) transformSub
    spliceLoop tr s ms result' capEnd (diff + grow)

/-- `transform_dom` after the regex has produced its matches `ms` (byte ranges) -/
def transformDomWith (T : Tables) (ms : List (Nat × Nat)) (s : List Char)
    (flipped elongate withMarkers : Bool) : Outcome (List Char) :=
  if s.length == 1 then .done s                                -- s.chars().count() == 1
  else do
    let (result, pos, diff) ← spliceLoop (transform T flipped elongate) s ms s 0 0
    let sub ← strIndex s pos (blen s)                          -- &s[pos..s.len()]
    let transformSub ← transform T flipped elongate sub
    let result' ← replaceRange result (pos + diff) (blen result) transformSub
    if withMarkers then pure ('[' :: result' ++ [']']) else pure result'

/-! ## the matcher for `&[#\w]+;|<\s*.+?\s*>` -/

inductive CharClass where
  | word | space | other
  deriving DecidableEq

/-- `\w` / `\s` membership: ASCII exactly; non-ASCII for an explicit list; `none` = not modelled -/
def classOf (c : Char) : Option CharClass :=
  let n := c.toNat
  if n < 128 then
    if (48 ≤ n && n ≤ 57) || (65 ≤ n && n ≤ 90) || (97 ≤ n && n ≤ 122) || n == 95 then some .word
    else if (9 ≤ n && n ≤ 13) || n == 32 then some .space
    else some .other
  else if n == 0xE9 || n == 0xDF || n == 0x416 || n == 0x4E2D || n == 0x663 || n == 0x1E13 || n == 0x250 then
    some .word        -- é ß Ж 中 ٣ ḓ ɐ
  else if n == 0x85 || n == 0xA0 || n == 0x2003 || n == 0x3000 || n == 0x2028 then some .space
  else if n == 0x20AC || n == 0x1F600 || n == 0x2192 || n == 0xAB || n == 0x2200 || n == 0x202A then
    some .other       -- € 😀 → « ∀ U+202A
  else none

def isWord (c : Char) : Bool := classOf c == some .word
def isSpace (c : Char) : Bool := classOf c == some .space

/-- `[#\w]` -/
def isEntityChar (c : Char) : Bool := c == '#' || isWord c

/-- `&[#\w]+;` at the head of the input; answers the rest after the match -/
def matchEntity : List Char → Option (List Char)
  | '&' :: c :: r =>
    if isEntityChar c then
      match (c :: r).dropWhile isEntityChar with
      | ';' :: t => some t
      | _ => none
    else none
  | _ => none

/-- `\s*>` -/
def matchClose (r : List Char) : Option (List Char) :=
  match r.dropWhile isSpace with
  | '>' :: t => some t
  | _ => none

/-- rest of the lazy `.+?` (at least one character already consumed) followed by `\s*>` -/
def matchLazy : List Char → Option (List Char)
  | [] => none
  | c :: r =>
    match matchClose (c :: r) with
    | some t => some t
    | none => if c != '\n' then matchLazy r else none

/-- `.+?\s*>` -/
def matchBody : List Char → Option (List Char)
  | [] => none
  | c :: r => if c != '\n' then matchLazy r else none

/-- `\s*.+?\s*>` with the greedy `\s*` giving back one character at a time -/
def matchAfterLt : List Char → Option (List Char)
  | [] => none
  | c :: r =>
    if isSpace c then
      match matchAfterLt r with
      | some t => some t
      | none => matchBody (c :: r)
    else matchBody (c :: r)

/-- `<\s*.+?\s*>` at the head of the input -/
def matchTag : List Char → Option (List Char)
  | '<' :: r => matchAfterLt r
  | _ => none

/-- the whole regex at the head of the input (alternation: entity first) -/
def matchHere (l : List Char) : Option (List Char) :=
  match matchEntity l with
  | some t => some t
  | none => matchTag l

/-- leftmost-first, non-overlapping matches: the input as `(text, match)` pairs plus the final text.
`acc` = text since the last match, reversed. -/
def findParts : Nat → List Char → List Char → List (List Char × List Char) × List Char
  | 0, acc, l => ([], acc.reverse ++ l)
  | _ + 1, acc, [] => ([], acc.reverse)
  | fuel + 1, acc, c :: r =>
    match matchHere (c :: r) with
    | some t =>
      let tag := (c :: r).take ((c :: r).length - t.length)
      let (ps, last) := findParts fuel [] t
      ((acc.reverse, tag) :: ps, last)
    | none => findParts fuel (c :: acc) r

/-- `capture.start()` / `capture.end()` of every match, as byte offsets -/
def offsets : Nat → List (List Char × List Char) → List (Nat × Nat)
  | _, [] => []
  | off, (seg, tag) :: rest =>
    (off + blen seg, off + blen seg + blen tag) :: offsets (off + blen seg + blen tag) rest

/-- `pub fn transform_dom(s, flipped, elongate, with_markers) -> Cow<str>` -/
def transformDom (T : Tables) (s : List Char) (flipped elongate withMarkers : Bool) : Outcome (List Char) :=
  transformDomWith T (offsets 0 (findParts (s.length + 1) [] s).1) s flipped elongate withMarkers

/-- every character is ASCII or one whose `\w`/`\s` class is modelled -/
def supported (s : List Char) : Bool := s.all fun c => (classOf c).isSome

end FluentModel.Pseudo
