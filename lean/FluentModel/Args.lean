import FluentModel.Util
/-!
# Model of `fluent-bundle/src/args.rs` (`FluentArgs`)

`FluentArgs` is a `Vec<(Cow<str>, FluentValue)>` kept sorted by key.
`set` = `binary_search_by_key` then replace (`Ok idx`) or `insert(idx, …)` (`Err idx`);
`get` = `binary_search_by_key`; `iter`/`into_iter` = the vector in order;
`from_iter` and `fluent_args!` = a fold of `set` over the pairs.

`binary_search_by_key` is external (std).  Its contract on a strictly sorted slice is
"`Ok i` with `v[i].key = k` if present, else `Err i` with `i` the lower bound"; it is modelled
here by a linear scan that *stops at the first key not below `k`* – exactly as blind as a
binary search if the vector were ever unsorted.  The order on keys is a parameter `lt`
(instantiated with byte-lexicographic order, which is Rust's `str` order).
-/
namespace FluentModel.Args

variable {κ V : Type}

/-- `Vec::insert`/replace at the binary-search position. -/
def setL (lt : κ → κ → Bool) : List (κ × V) → κ → V → List (κ × V)
  | [], k, v => [(k, v)]
  | (k', v') :: rest, k, v =>
    if lt k' k then (k', v') :: setL lt rest k v
    else if lt k k' then (k, v) :: (k', v') :: rest
    else (k, v) :: rest

/-- `binary_search_by_key(..).ok().map(|i| &v[i].1)`. -/
def getL (lt : κ → κ → Bool) : List (κ × V) → κ → Option V
  | [], _ => none
  | (k', v') :: rest, k =>
    if lt k' k then getL lt rest k
    else if lt k k' then none
    else some v'

/-- `FluentArgs::new()` followed by `set` for every pair, in order
(`FromIterator::from_iter`, `fluent_args!`). -/
def fromPairs (lt : κ → κ → Bool) (ps : List (κ × V)) : List (κ × V) :=
  ps.foldl (fun a kv => setL lt a kv.1 kv.2) []

def keys (a : List (κ × V)) : List κ := a.map (·.1)

end FluentModel.Args
