import FluentModel.Unescape
/-!
# Linear-time variants of the string-literal escape model (used by the driver `fvm_unesc`)

`FluentModel.Unescape.loop` keeps what was written to `w` in a `List` and appends to it at every
escape (`out ++ chunk ++ …`), which copies `out` each time: quadratic in the input length.  The
variants below are the same functions, statement by statement, with the written bytes kept in an
`Array UInt8` (amortised O(1) push, the accumulator is used linearly) and turned into a list once,
at the end.  Everything else (`strIndex`, `escape`, `skipToBoundary`, `finish`) is shared with the
specification model.

`FluentProofs.UnescapeFast` proves, for all inputs,
`unescapeUnicodeFast w s = unescapeUnicode w s` and
`unescapeUnicodeToStringFast s = unescapeUnicodeToString s`.

The second half holds linear-time hex coding for the driver's line protocol (`hexDecodeFast`,
`hexEncFast`; `FluentProofs.UnescapeFast` proves them equal to `hexDecode` / `hexEnc` as well).
-/
namespace FluentModel.Unescape
open FluentModel

/-- `loop` with the writer's content in an `Array UInt8` -/
def loopFast (s : Src) : Nat → Nat → Nat → Array UInt8 → Outcome (Nat × Nat × Array UInt8)
  | 0, _, _, _ => .outOfFuel
  | fuel + 1, start, ptr, out =>
    match s[ptr]? with
    | none => .done (start, ptr, out)
    | some b =>
      if b != 0x5C then loopFast s fuel start (ptr + 1) out
      else
        match (if start != ptr then strIndex s start ptr else .done []) with
        | .panic => .panic
        | .outOfFuel => .outOfFuel
        | .done chunk =>
          let e := escape s (ptr + 1)
          match skipToBoundary s (s.size + 1) e.2 with
          | .panic => .panic
          | .outOfFuel => .outOfFuel
          | .done p => loopFast s fuel p p (out ++ chunk ++ String.utf8EncodeChar e.1)

/-- the loop's exit state with the writer's content as a list again (one conversion, at the end) -/
def loopResult : Outcome (Nat × Nat × Array UInt8) → Outcome (Nat × Nat × Bytes)
  | .done (start, ptr, out) => .done (start, ptr, out.toList)
  | .panic => .panic
  | .outOfFuel => .outOfFuel

/-- `unescape` over `loopFast` -/
def unescapeFast (s : Src) : Outcome (Bytes × Bool) :=
  finish s (loopResult (loopFast s (s.size + 1) 0 0 #[]))

/-- `unescapeUnicode`, linear time -/
def unescapeUnicodeFast (w : Bytes) (s : Src) : Outcome Bytes :=
  match unescapeFast s with
  | .done (o, true) => .done (w ++ o)
  | .done (o, false) => .done (w ++ o ++ s.toList)
  | .panic => .panic
  | .outOfFuel => .outOfFuel

/-- `unescapeUnicodeToString`, linear time -/
def unescapeUnicodeToStringFast (s : Src) : Outcome (Bytes × Bool) :=
  match unescapeFast s with
  | .done (o, true) => .done (o, true)
  | .done (_, false) => .done (s.toList, false)
  | .panic => .panic
  | .outOfFuel => .outOfFuel

end FluentModel.Unescape

namespace FluentModel

/-- `hexDecodeAux` with an accumulator (tail recursive: constant stack, linear time) -/
def hexDecodeFastAux : List Char → Array UInt8 → Option (Array UInt8)
  | [], acc => some acc
  | [_], _ => none
  | a :: b :: rest, acc =>
    match hexVal a, hexVal b with
    | some x, some y => hexDecodeFastAux rest (acc.push (UInt8.ofNat (x * 16 + y)))
    | _, _ => none

/-- `hexDecode`, tail recursive -/
def hexDecodeFast (s : String) : Option Bytes :=
  if s == "-" then some [] else (hexDecodeFastAux s.toList #[]).map Array.toList

/-- hex digits of `bs` pushed onto `acc` -/
def hexEncodeFastAux : Bytes → String → String
  | [], acc => acc
  | b :: rest, acc =>
    hexEncodeFastAux rest ((acc.push (hexDigit (b.toNat / 16))).push (hexDigit (b.toNat % 16)))

/-- `hexEnc`, pushing onto one string -/
def hexEncFast (bs : Bytes) : String :=
  if bs.isEmpty then "-" else hexEncodeFastAux bs ""

end FluentModel
