import FluentModel.Ast
/-!
# Model of `fluent-syntax/src/serializer.rs`

`Serializer` + `TextWriter` transcribed function for function over `Resource Bytes`.
The writer's buffer is a byte array; `indent_level` is a `Nat`; the only panic site is
`dedent` (`checked_sub(1).expect(..)`), modelled as `none`.
-/
namespace FluentModel.Syntax.Ser

structure Writer where
  buffer : Array UInt8 := #[]
  indentLevel : Nat := 0

def endsWith (w : Writer) (b : UInt8) : Bool := w.buffer.back? == some b

def Writer.pushAll (w : Writer) (bs : Bytes) : Writer := { w with buffer := w.buffer ++ bs.toArray }

/-- `write_indent` -/
def writeIndentGo : Nat → Array UInt8 → Array UInt8
  | 0, b => b
  | n + 1, b => writeIndentGo n (b ++ #[32, 32, 32, 32])
def Writer.writeIndent (w : Writer) : Writer := { w with buffer := writeIndentGo w.indentLevel w.buffer }

/-- `newline` (a trailing `\r` is doubled so that it is not read as part of the line end) -/
def Writer.newline (w : Writer) : Writer :=
  let b := if endsWith w 13 then w.buffer.push 13 else w.buffer
  { w with buffer := b.push 10 }

/-- `write_literal` -/
def Writer.writeLiteral (w : Writer) (item : Bytes) : Writer :=
  let w1 := if endsWith w 10 then w.writeIndent else w
  -- a trailing `\r` must not merge with a text that starts with `\n`
  let w2 := if endsWith w1 13 && item.head? == some 10 then { w1 with buffer := w1.buffer.push 13 } else w1
  w2.pushAll item

/-- `String::pop`: removes the last character (continuation bytes, then its lead byte) -/
def popCharGo : Nat → Array UInt8 → Array UInt8
  | 0, b => b
  | n + 1, b =>
    match b.back? with
    | none => b
    | some x => if (x &&& 0xC0) == 0x80 then popCharGo n b.pop else b.pop
def popChar (b : Array UInt8) : Array UInt8 := popCharGo b.size b

/-- `write_char_into_indent` (only ever called with the ASCII `*`) -/
def Writer.writeCharIntoIndent (w : Writer) (ch : UInt8) : Writer :=
  let w1 := if endsWith w 10 then w.writeIndent else w
  { w1 with buffer := (popChar w1.buffer).push ch }

def Writer.indent (w : Writer) : Writer := { w with indentLevel := w.indentLevel + 1 }

/-- `dedent`: `none` = the `expect` panics -/
def Writer.dedent (w : Writer) : Option Writer :=
  if w.indentLevel ≥ 1 then some { w with indentLevel := w.indentLevel - 1 } else none

/-! ## `Pattern::starts_on_new_line`, `is_multiline`, `has_leading_text_dot` -/

mutual
def isSelectExpr : Expr Bytes → Bool
  | .select _ _ => true
  | .inline i => isSelectInline i
def isSelectInline : Inline Bytes → Bool
  | .placeable e => isSelectExpr e
  | _ => false
end

def isMultiline : Pattern Bytes → Bool
  | [] => false
  | .text v :: rest => v.contains 10 || isMultiline rest
  | .placeable e :: rest => isSelectExpr e || isMultiline rest

/-- first text starts with `.`, `[` or `*` -/
def hasLeadingTextDot : Pattern Bytes → Bool
  | .text (b :: _) :: _ => b == 46 || b == 91 || b == 42
  | _ => false

def startsOnNewLine (p : Pattern Bytes) : Bool := !hasLeadingTextDot p && isMultiline p

/-- `line.trim_matches(matches_fluent_ws).is_empty()` -/
def isBlankLine (l : Bytes) : Bool := l.all fun b => b == 32 || b == 13 || b == 10

/-! ## the serializer proper.  `Option Writer`: `none` = panic in `dedent`. -/

def lit (s : String) : Bytes := strBytes s

/-- `serialize_pattern`, part before the elements: newline or space, then indent if multi-line -/
def patternPre (w : Writer) (p : List (PatElem Bytes)) : Writer :=
  let w1 := if startsOnNewLine p then w.newline else w.writeLiteral (lit " ")
  if isMultiline p then w1.indent else w1

/-- `serialize_pattern`, part after the elements -/
def patternPost (p : List (PatElem Bytes)) (w : Writer) : Option Writer :=
  if isMultiline p then w.dedent else some w

mutual

def serInline (w : Writer) : Inline Bytes → Option Writer
  | .str v => some (((w.writeLiteral (lit "\"")).writeLiteral v).writeLiteral (lit "\""))
  | .num v => some (w.writeLiteral v)
  | .var id => some ((w.writeLiteral (lit "$")).writeLiteral id)
  | .fn id pos named =>
    -- `serialize_call_arguments`
    (match serPositional ((w.writeLiteral id).writeLiteral (lit "(")) false pos with
     | none => none
     | some (w1, written) => (serNamed w1 written named).map fun w2 => w2.writeLiteral (lit ")"))
  | .msg id attr =>
    let w1 := w.writeLiteral id
    some (match attr with
      | some a => (w1.writeLiteral (lit ".")).writeLiteral a
      | none => w1)
  | .term id attr none =>
    let w1 := (w.writeLiteral (lit "-")).writeLiteral id
    some (match attr with
      | some a => (w1.writeLiteral (lit ".")).writeLiteral a
      | none => w1)
  | .term id attr (some (pos, named)) =>
    let w1 := (w.writeLiteral (lit "-")).writeLiteral id
    let w2 := match attr with
      | some a => (w1.writeLiteral (lit ".")).writeLiteral a
      | none => w1
    (match serPositional (w2.writeLiteral (lit "(")) false pos with
     | none => none
     | some (w3, written) => (serNamed w3 written named).map fun w4 => w4.writeLiteral (lit ")"))
  | .placeable e =>
    (serExpr (w.writeLiteral (lit "{")) e).map fun w1 => w1.writeLiteral (lit "}")

def serPositional (w : Writer) (written : Bool) : List (Inline Bytes) → Option (Writer × Bool)
  | [] => some (w, written)
  | x :: xs =>
    let w1 := if written then w.writeLiteral (lit ", ") else w
    match serInline w1 x with
    | none => none
    | some w2 => serPositional w2 true xs

def serNamed (w : Writer) (written : Bool) : List (Bytes × Inline Bytes) → Option Writer
  | [] => some w
  | (n, v) :: xs =>
    let w1 := if written then w.writeLiteral (lit ", ") else w
    let w2 := (w1.writeLiteral n).writeLiteral (lit ": ")
    match serInline w2 v with
    | none => none
    | some w3 => serNamed w3 true xs

/-- `serialize_expression` -/
def serExpr (w : Writer) : Expr Bytes → Option Writer
  | .inline i => serInline w i
  | .select sel variants =>
    match serInline w sel with
    | none => none
    | some w1 =>
      let w2 := ((w1.writeLiteral (lit " ->")).newline).indent
      match serVariants w2 variants with
      | none => none
      | some w3 => w3.dedent

def serVariants (w : Writer) : List (Variant Bytes) → Option Writer
  | [] => some w
  | v :: vs =>
    match serVariant w v with
    | none => none
    | some w1 => serVariants w1.newline vs

/-- `serialize_variant` -/
def serVariant (w : Writer) : Variant Bytes → Option Writer
  | .mk key value dflt =>
    let w1 := if dflt then w.writeCharIntoIndent 42 else w
    let kb := match key with | .ident n => n | .num v => v
    let w2 := ((w1.writeLiteral (lit "[")).writeLiteral kb).writeLiteral (lit "]")
    -- `serialize_pattern`
    match serElements (patternPre w2 value) value with
    | none => none
    | some w3 => patternPost value w3

def serElements (w : Writer) : List (PatElem Bytes) → Option Writer
  | [] => some w
  | e :: es =>
    match serElement w e with
    | none => none
    | some w1 => serElements w1 es

/-- `serialize_element` -/
def serElement (w : Writer) : PatElem Bytes → Option Writer
  | .text v => some (w.writeLiteral v)
  | .placeable (.inline (.placeable e)) =>
    (serExpr (w.writeLiteral (lit "{{ ")) e).map fun w1 => w1.writeLiteral (lit " }}")
  | .placeable (.select sel vs) =>
    (serExpr (w.writeLiteral (lit "{ ")) (.select sel vs)).map fun w1 => w1.writeLiteral (lit "}")
  | .placeable (.inline i) =>
    (serInline (w.writeLiteral (lit "{ ")) i).map fun w1 => w1.writeLiteral (lit " }")

end

/-- `serialize_pattern` -/
def serPattern (w : Writer) (p : List (PatElem Bytes)) : Option Writer :=
  match serElements (patternPre w p) p with
  | none => none
  | some w3 => patternPost p w3

/-- `serialize_comment` -/
def serComment (w : Writer) (prefix_ : Bytes) : List Bytes → Writer
  | [] => w
  | line :: rest =>
    let w1 := w.writeLiteral prefix_
    let w2 := if !isBlankLine line then (w1.writeLiteral (lit " ")).writeLiteral line else w1
    serComment w2.newline prefix_ rest

/-- `serialize_attributes` -/
def serAttributesGo (w : Writer) : List (Attribute Bytes) → Option Writer
  | [] => some w
  | a :: as =>
    let w1 := ((w.newline.writeLiteral (lit ".")).writeLiteral a.id).writeLiteral (lit " =")
    match serPattern w1 a.value with
    | none => none
    | some w2 => serAttributesGo w2 as
def serAttributes (w : Writer) (attrs : List (Attribute Bytes)) : Option Writer :=
  if attrs.isEmpty then some w
  else match serAttributesGo w.indent attrs with
    | none => none
    | some w1 => w1.dedent

/-- `serialize_message` -/
def serMessage (w : Writer) (m : Message Bytes) : Option Writer :=
  let w1 := match m.comment with
    | some c => serComment w (lit "#") c
    | none => w
  let w2 := (w1.writeLiteral m.id).writeLiteral (lit " =")
  let w3 := match m.value with
    | some v => serPattern w2 v
    | none => some w2
  match w3 with
  | none => none
  | some w3 => (serAttributes w3 m.attributes).map Writer.newline

/-- `serialize_term` -/
def serTerm (w : Writer) (t : Term Bytes) : Option Writer :=
  let w1 := match t.comment with
    | some c => serComment w (lit "#") c
    | none => w
  let w2 := ((w1.writeLiteral (lit "-")).writeLiteral t.id).writeLiteral (lit " =")
  match serPattern w2 t.value with
  | none => none
  | some w3 => (serAttributes w3 t.attributes).map Writer.newline

/-- `serialize_free_comment` -/
def serFreeComment (w : Writer) (wroteNonJunk : Bool) (prefix_ : Bytes) (c : List Bytes) : Writer :=
  let w1 := if wroteNonJunk then w.newline else w
  (serComment w1 prefix_ c).newline

/-- `serialize_resource`: the loop over entries with `state.wrote_non_junk_entry` -/
def serResourceGo (withJunk : Bool) (w : Writer) (wroteNonJunk : Bool) : List (Entry Bytes) → Option Writer
  | [] => some w
  | e :: rest =>
    match e with
    | .message m =>
      (match serMessage w m with
       | none => none
       | some w1 => serResourceGo withJunk w1 true rest)
    | .term t =>
      (match serTerm w t with
       | none => none
       | some w1 => serResourceGo withJunk w1 true rest)
    | .comment c => serResourceGo withJunk (serFreeComment w wroteNonJunk (lit "#") c) true rest
    | .groupComment c => serResourceGo withJunk (serFreeComment w wroteNonJunk (lit "##") c) true rest
    | .resourceComment c => serResourceGo withJunk (serFreeComment w wroteNonJunk (lit "###") c) true rest
    | .junk content =>
      if !withJunk then serResourceGo withJunk w wroteNonJunk rest     -- `continue`
      else serResourceGo withJunk (w.writeLiteral content) false rest

/-- `serialize_with_options`: `none` = the serializer panics -/
def serialize (withJunk : Bool) (r : Resource Bytes) : Option Bytes :=
  (serResourceGo withJunk {} false r).map fun w => w.buffer.toList

end FluentModel.Syntax.Ser
