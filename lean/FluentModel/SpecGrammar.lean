import FluentModel.Ast
/-!
# SpecGrammar — an executable specification of Fluent 1.0 syntax, written from the grammar

This file is NOT a model of the Rust parser and shares no code with `Parser.lean`.  It transcribes
the Fluent 1.0 EBNF (reproduced below, as in DESIGN Appendix A) read as a PEG — ordered choice,
greedy repetition, no backtracking into a repetition — together with the abstract-syntax rules of
the reference implementation (`syntax/abstract.js`).  Every function is named after the production
it implements.  `parse` gives the tree the grammar assigns to a source; a source is *well-formed*
when that tree contains no `Junk`.

```
Resource            ::= (Entry | blank_block | Junk)*
Entry               ::= (Message line_end) | (Term line_end) | CommentLine
Message             ::= Identifier blank_inline? "=" blank_inline? ((Pattern Attribute*) | (Attribute+))
Term                ::= "-" Identifier blank_inline? "=" blank_inline? Pattern Attribute*
CommentLine         ::= ("###" | "##" | "#") (" " comment_char*)? line_end
comment_char        ::= any_char - line_end
Junk                ::= junk_line (junk_line - "#" - "-" - [a-zA-Z])*
junk_line           ::= /[^\n]*/ ("\u000A" | EOF)
Attribute           ::= line_end blank? "." Identifier blank_inline? "=" blank_inline? Pattern
Pattern             ::= PatternElement+
PatternElement      ::= inline_text | block_text | inline_placeable | block_placeable
inline_text         ::= text_char+
block_text          ::= blank_block blank_inline indented_char inline_text?
inline_placeable    ::= "{" blank? (SelectExpression | InlineExpression) blank? "}"
block_placeable     ::= blank_block blank_inline? inline_placeable
InlineExpression    ::= StringLiteral | NumberLiteral | FunctionReference | MessageReference
                      | TermReference | VariableReference | inline_placeable
StringLiteral       ::= "\"" quoted_char* "\""
NumberLiteral       ::= "-"? digits ("." digits)?
FunctionReference   ::= Identifier CallArguments
MessageReference    ::= Identifier AttributeAccessor?
TermReference       ::= "-" Identifier AttributeAccessor? CallArguments?
VariableReference   ::= "$" Identifier
AttributeAccessor   ::= "." Identifier
CallArguments       ::= blank? "(" blank? argument_list blank? ")"
argument_list       ::= (Argument blank? "," blank?)* Argument?
Argument            ::= NamedArgument | InlineExpression
NamedArgument       ::= Identifier blank? ":" blank? (StringLiteral | NumberLiteral)
SelectExpression    ::= InlineExpression blank? "->" blank_inline? variant_list
variant_list        ::= Variant* DefaultVariant Variant* line_end
Variant             ::= line_end blank? VariantKey blank_inline? Pattern
DefaultVariant      ::= line_end blank? "*" VariantKey blank_inline? Pattern
VariantKey          ::= "[" blank? (NumberLiteral | Identifier) blank? "]"
Identifier          ::= [a-zA-Z] [a-zA-Z0-9_-]*
any_char            ::= [\u0000-\U0010FFFF]
special_text_char   ::= "{" | "}"
text_char           ::= any_char - special_text_char - line_end
indented_char       ::= text_char - "[" - "*" - "."
special_quoted_char ::= "\"" | "\\"
special_escape      ::= "\\" special_quoted_char
unicode_escape      ::= ("\\u" /[0-9a-fA-F]{4}/) | ("\\U" /[0-9a-fA-F]{6}/)
quoted_char         ::= (any_char - special_quoted_char - line_end) | special_escape | unicode_escape
digits              ::= [0-9]+
blank_inline        ::= " "+
line_end            ::= "\u000D\u000A" | "\u000A" | EOF
blank_block         ::= (blank_inline? line_end)+
blank               ::= (blank_inline | line_end)+
```

Abstract-syntax rules (reference `abstract.js`), implemented in the second half of the file:

* Pattern: a `blank_block` is a text element of one `\n` per line break (CRLF → LF; spaces on the
  blank lines are dropped); the indent of every `block_text` and `block_placeable` (0 for a placeable
  in column 0) takes part in the common indent = the minimum over them; that many spaces are
  removed from each indent, the remainder is text; adjacent text elements are joined; the first
  element loses leading `\n`s, the last loses trailing white space — space, `\n` and `\r`: this
  follows the reference implementation's `trailingWSRe = /[ \n\r]+$/` (the EBNF does not speak
  about trimming; a lone `\r` is a `text_char`, but at the very end of a pattern it is trimmed like
  a space) —; empty text elements are dropped; a pattern left without any element is no pattern
  (the `Pattern` production fails, e.g. `t=\r` is Junk).
* Adjacent comment lines of one level are one comment; a `#` comment directly followed by a
  Message/Term (no blank line between) is attached to it.
* Rejected (the production fails, so the entry ends up as Junk): a term attribute as a placeable's
  expression; a selector that is a message reference, a term reference without attribute or a
  nested placeable; a positional argument after a named one; a duplicate named argument; a callee
  that is not `[A-Z][A-Z0-9_-]*`.  "Exactly one default variant" is `variant_list` itself.
* String and number literal values are kept as written.

Representation.  The input is the UTF-8 encoding of the source (`List UInt8`), assumed valid.
Every terminal of the grammar is ASCII and every byte of a multi-byte UTF-8 sequence is ≥ 0x80, so
"a run of `any_char`s minus some ASCII characters" is the same set of strings whether it is read
char by char or byte by byte; the only place `any_char` occurs is inside such runs (`text_char`,
`quoted_char`, `comment_char`, `junk_line`).  The byte reading makes the produced strings directly
comparable with the parser's slices.

Two PEG choices are left-factored to keep the specification linear-time; both are equivalent to the
literal reading because the rules are deterministic functions of the position:
`(SelectExpression | InlineExpression)` parses the common `InlineExpression` prefix once and decides
on the following `blank? "->"`; `argument_list` parses an `Argument` once and decides on the
following `blank? ","`.

Recursion through Pattern ↔ placeable ↔ expression ↔ arguments ↔ variants is by fuel
(`PR.fuel` = ran out, never reported for the fuel `parse` passes); the lexical rules are structural.
-/
namespace FluentModel.SpecGrammar
open FluentModel FluentModel.Syntax

abbrev Inp := List UInt8

/-! ## character classes -/

def isAlphaC (b : UInt8) : Bool := (65 ≤ b && b ≤ 90) || (97 ≤ b && b ≤ 122)      -- [a-zA-Z]
def isDigitC (b : UInt8) : Bool := 48 ≤ b && b ≤ 57                                 -- [0-9]
def isIdentC (b : UInt8) : Bool := isAlphaC b || isDigitC b || b == 95 || b == 45    -- [a-zA-Z0-9_-]
def isHexC (b : UInt8) : Bool := isDigitC b || (65 ≤ b && b ≤ 70) || (97 ≤ b && b ≤ 102)
def isUpperC (b : UInt8) : Bool := 65 ≤ b && b ≤ 90
def isCalleeC (b : UInt8) : Bool := isUpperC b || isDigitC b || b == 95 || b == 45   -- [A-Z0-9_-]

/-! ## lexical rules (structural) -/

/-- `line_end ::= "\r\n" | "\n" | EOF` -/
def lineEnd : Inp → Option Inp
  | 13 :: 10 :: r => some r
  | 10 :: r => some r
  | [] => some []
  | _ => none

/-- `blank_inline?` (`" "*`) -/
def spaces : Inp → Inp
  | 32 :: r => spaces r
  | i => i

/-- `blank_inline ::= " "+` -/
def blankInline : Inp → Option Inp
  | 32 :: r => some (spaces r)
  | _ => none

/-- `blank?` where `blank ::= (blank_inline | line_end)+` (an `EOF` line end consumes nothing) -/
def blankOpt : Inp → Inp
  | 32 :: r => blankOpt r
  | 10 :: r => blankOpt r
  | 13 :: 10 :: r => blankOpt r
  | i => i

/-- `blank_block ::= (blank_inline? line_end)+`, scanned left to right.  `ls` is the start of the
current line, `c` the number of line breaks taken so far.  Spaces are consumed tentatively: they
belong to the block only if a line end (a line break or `EOF`) follows; otherwise the block ends at
the start of that line.  Result: number of line breaks (the abstract value is that many `\n`) and
the rest; `none` when not even one `blank_inline? line_end` matches. -/
def blankBlockScan : Inp → Inp → Nat → Option (Nat × Inp)
  | 32 :: r, ls, c => blankBlockScan r ls c
  | 10 :: r, _, c => blankBlockScan r r (c + 1)
  | 13 :: 10 :: r, _, c => blankBlockScan r r (c + 1)
  | [], _, c => some (c, [])                      -- `blank_inline? EOF`
  | _ :: _, ls, c => if c == 0 then none else some (c, ls)
def blankBlock (i : Inp) : Option (Nat × Inp) := blankBlockScan i i 0

/-- `Identifier ::= [a-zA-Z] [a-zA-Z0-9_-]*` -/
def identifier : Inp → Option (Bytes × Inp)
  | b :: r =>
    if isAlphaC b then
      some (b :: r.takeWhile isIdentC, r.dropWhile isIdentC)
    else none
  | [] => none

/-- `digits ::= [0-9]+` -/
def digits (i : Inp) : Option (Bytes × Inp) :=
  let d := i.takeWhile isDigitC
  if d.isEmpty then none else some (d, i.dropWhile isDigitC)

/-- `digits ("." digits)?` after an optional sign (`sign` = the bytes of the sign already read) -/
def numberAfterSign (sign : Bytes) (i1 : Inp) : Option (Bytes × Inp) :=
  match digits i1 with
  | none => none
  | some (d, i2) =>
    match i2 with
    | 46 :: r =>
      (match digits r with
       | some (f, i3) => some (sign ++ d ++ 46 :: f, i3)
       | none => some (sign ++ d, i2))
    | _ => some (sign ++ d, i2)

/-- `NumberLiteral ::= "-"? digits ("." digits)?` (value as written) -/
def numberLiteral : Inp → Option (Bytes × Inp)
  | 45 :: r => numberAfterSign [45] r
  | i => numberAfterSign [] i

/-- the next `n` bytes are hex digits -/
def hexRun (n : Nat) (i : Inp) : Bool := (i.take n).length == n && (i.take n).all isHexC

/-- `quoted_char`: the bytes of one quoted char (escapes unprocessed) and the rest -/
def quotedChar : Inp → Option (Bytes × Inp)
  | 92 :: 92 :: r => some ([92, 92], r)                       -- special_escape  \\
  | 92 :: 34 :: r => some ([92, 34], r)                       -- special_escape  \"
  | 92 :: 117 :: r => if hexRun 4 r then some (92 :: 117 :: r.take 4, r.drop 4) else none
  | 92 :: 85 :: r => if hexRun 6 r then some (92 :: 85 :: r.take 6, r.drop 6) else none
  | 92 :: _ => none
  | 34 :: _ => none
  | 10 :: _ => none                                           -- line_end
  | 13 :: 10 :: _ => none                                     -- line_end
  | b :: r => some ([b], r)
  | [] => none

/-- `quoted_char*` -/
def quotedChars : Nat → Inp → Bytes × Inp
  | 0, i => ([], i)
  | n + 1, i =>
    match quotedChar i with
    | some (c, r) => let (cs, r') := quotedChars n r; (c ++ cs, r')
    | none => ([], i)

/-- `StringLiteral ::= "\"" quoted_char* "\""` (value = the raw text between the quotes) -/
def stringLiteral : Inp → Option (Bytes × Inp)
  | 34 :: r =>
    let (cs, r') := quotedChars r.length r
    (match r' with
     | 34 :: r'' => some (cs, r'')
     | _ => none)
  | _ => none

/-- `text_char+` / `inline_text?`: the longest run of `text_char`s
(`text_char ::= any_char - "{" - "}" - line_end`; a `\r` not followed by `\n` is a text char) -/
def textRun : Inp → Bytes × Inp
  | 13 :: 10 :: r => ([], 13 :: 10 :: r)
  | b :: r =>
    if b == 123 || b == 125 || b == 10 then ([], b :: r)
    else let (t, rest) := textRun r; (b :: t, rest)
  | [] => ([], [])

/-- `indented_char ::= text_char - "[" - "*" - "."`: does the input start with one? -/
def startsIndentedChar : Inp → Bool
  | 13 :: 10 :: _ => false
  | b :: _ => !(b == 123 || b == 125 || b == 10 || b == 91 || b == 42 || b == 46)
  | [] => false

/-- `VariantKey ::= "[" blank? (NumberLiteral | Identifier) blank? "]"` -/
def variantKey : Inp → Option (VKey Bytes × Inp)
  | 91 :: r =>
    let r1 := blankOpt r
    let key : Option (VKey Bytes × Inp) :=
      match numberLiteral r1 with
      | some (v, r2) => some (.num v, r2)
      | none =>
        match identifier r1 with
        | some (n, r2) => some (.ident n, r2)
        | none => none
    (match key with
     | some (k, r2) =>
       (match blankOpt r2 with
        | 93 :: r3 => some (k, r3)
        | _ => none)
     | none => none)
  | _ => none

/-- `AttributeAccessor?` -/
def attributeAccessorOpt : Inp → Option Bytes × Inp
  | 46 :: r =>
    (match identifier r with
     | some (n, r') => (some n, r')
     | none => (none, 46 :: r))
  | i => (none, i)

/-- `comment_char*`: up to the next line end -/
def commentChars : Inp → Bytes × Inp
  | 13 :: 10 :: r => ([], 13 :: 10 :: r)
  | 10 :: r => ([], 10 :: r)
  | b :: r => let (t, rest) := commentChars r; (b :: t, rest)
  | [] => ([], [])

/-- `("###" | "##" | "#")` → (level, rest) -/
def commentMarker : Inp → Option (Nat × Inp)
  | 35 :: 35 :: 35 :: r => some (3, r)
  | 35 :: 35 :: r => some (2, r)
  | 35 :: r => some (1, r)
  | _ => none

/-- `(" " comment_char*)?` → (content, rest) -/
def commentBody : Inp → Bytes × Inp
  | 32 :: r' => commentChars r'
  | r => ([], r)

/-- `CommentLine ::= ("###" | "##" | "#") (" " comment_char*)? line_end` → (level, content) -/
def commentLine (i : Inp) : Option ((Nat × Bytes) × Inp) :=
  match commentMarker i with
  | none => none
  | some (l, r) =>
    match lineEnd (commentBody r).2 with
    | some r2 => some ((l, (commentBody r).1), r2)
    | none => none

/-- `junk_line ::= /[^\n]*/ ("\n" | EOF)` -/
def junkLine (i : Inp) : Bytes × Inp :=
  let l := i.takeWhile (· != 10)
  match i.dropWhile (· != 10) with
  | 10 :: r' => (l ++ [10], r')
  | r => (l, r)

/-- `(junk_line - "#" - "-" - [a-zA-Z])*` -/
def junkLines : Nat → Inp → Bytes × Inp
  | 0, i => ([], i)
  | _ + 1, [] => ([], [])
  | n + 1, b :: r =>
    if b == 35 || b == 45 || isAlphaC b then ([], b :: r)
    else
      let (l, r1) := junkLine (b :: r)
      let (ls, r2) := junkLines n r1
      (l ++ ls, r2)

/-- `Junk ::= junk_line (junk_line - "#" - "-" - [a-zA-Z])*` -/
def junk (i : Inp) : Bytes × Inp :=
  let (l, r) := junkLine i
  let (ls, r') := junkLines r.length r
  (l ++ ls, r')

/-! ## validity rules of the abstract syntax -/

/-- callee of a FunctionReference: `[A-Z][A-Z0-9_-]*` -/
def calleeOk : Bytes → Bool
  | b :: r => isUpperC b && r.all isCalleeC
  | [] => false

/-- what may stand before `->` -/
def selectorOk : Inline Bytes → Bool
  | .str _ => true
  | .num _ => true
  | .var _ => true
  | .fn _ _ _ => true
  | .term _ (some _) _ => true
  | .term _ none _ => false
  | .msg _ _ => false
  | .placeable _ => false

/-- a placeable's expression may not be a term attribute -/
def placeableOk : Expr Bytes → Bool
  | .inline (.term _ (some _) _) => false
  | _ => true

inductive Arg where
  | positional (e : Inline Bytes)
  | named (name : Bytes) (value : Inline Bytes)

/-- split the arguments; `none` when a positional one follows a named one or a name repeats -/
def splitArgs : List Arg → List (Inline Bytes) → List (Bytes × Inline Bytes) →
    Option (List (Inline Bytes) × List (Bytes × Inline Bytes))
  | [], pos, named => some (pos, named)
  | .positional e :: rest, pos, named =>
    if named.isEmpty then splitArgs rest (pos ++ [e]) named else none
  | .named n v :: rest, pos, named =>
    if named.any (fun x => x.1 == n) then none else splitArgs rest pos (named ++ [(n, v)])

/-! ## abstract syntax of a Pattern -/

/-- what the pattern productions yield before the abstract-syntax pass -/
inductive RawEl where
  | text (t : Bytes)
  | indent (k : Nat)             -- the `blank_inline` of a block_text / block_placeable: `k` spaces
  | placeable (e : Expr Bytes)

def commonIndent : List RawEl → Option Nat
  | [] => none
  | .indent k :: rest =>
    (match commonIndent rest with
     | some c => some (min k c)
     | none => some k)
  | _ :: rest => commonIndent rest

def dedent (c : Nat) : RawEl → PatElem Bytes
  | .text t => .text t
  | .indent k => .text (List.replicate (k - c) 32)
  | .placeable e => .placeable e

/-- join adjacent text elements -/
def joinAdjacent : List (PatElem Bytes) → List (PatElem Bytes)
  | [] => []
  | .text a :: rest =>
    (match joinAdjacent rest with
     | .text b :: rest' => .text (a ++ b) :: rest'
     | rest' => .text a :: rest')
  | e :: rest => e :: joinAdjacent rest

/-- white space removed at the end of a pattern (reference `trailingWSRe = /[ \n\r]+$/`) -/
def isTrailingWs (b : UInt8) : Bool := b == 32 || b == 10 || b == 13

def dropTrailingWs (t : Bytes) : Bytes := (t.reverse.dropWhile isTrailingWs).reverse

def trimLast : List (PatElem Bytes) → List (PatElem Bytes)
  | [] => []
  | [.text t] => [.text (dropTrailingWs t)]
  | [e] => [e]
  | e :: rest => e :: trimLast rest

def trimFirst : List (PatElem Bytes) → List (PatElem Bytes)
  | .text t :: rest => .text (t.dropWhile (· == 10)) :: rest
  | l => l

def nonEmptyEl : PatElem Bytes → Bool
  | .text t => !t.isEmpty
  | .placeable _ => true

/-- dedent ∘ join ∘ trim at the extremes ∘ drop empty text -/
def finishPattern (els : List RawEl) : Pattern Bytes :=
  let c := (commonIndent els).getD 0
  (trimLast (trimFirst (joinAdjacent (els.map (dedent c))))).filter nonEmptyEl

def newlines (c : Nat) : Bytes := List.replicate c 10

/-- `block_text ::= blank_block blank_inline indented_char inline_text?` → raw elements: the line
breaks, the indent, the text -/
def blockText (i : Inp) : Option (List RawEl × Inp) :=
  match blankBlock i with
  | some (c, r1) =>
    (match blankInline r1 with
     | some r2 =>
       if startsIndentedChar r2 then
         let (t, r3) := textRun r2
         some ([.text (newlines c), .indent (r1.length - r2.length), .text t], r3)
       else none
     | none => none)
  | none => none

/-! ## the recursive productions (fuel) -/

inductive PR (α : Type) where
  | ok (a : α) (rest : Inp)
  | fail
  | fuel

mutual

/-- `Pattern ::= PatternElement+` followed by the abstract-syntax pass -/
def pattern : Nat → Inp → PR (Pattern Bytes)
  | 0, _ => .fuel
  | n + 1, i =>
    match patternElements n i with
    | .ok els r => if (finishPattern els).isEmpty then .fail else .ok (finishPattern els) r
    | .fail => .fail
    | .fuel => .fuel

/-- `PatternElement*` (the raw elements, concatenated) -/
def patternElements : Nat → Inp → PR (List RawEl)
  | 0, _ => .fuel
  | n + 1, i =>
    match patternElement n i with
    | .ok els r =>
      (match patternElements n r with
       | .ok more r' => .ok (els ++ more) r'
       | .fail => .fail
       | .fuel => .fuel)
    | .fail => .ok [] i
    | .fuel => .fuel

/-- `PatternElement ::= inline_text | block_text | inline_placeable | block_placeable` -/
def patternElement : Nat → Inp → PR (List RawEl)
  | 0, _ => .fuel
  | n + 1, i =>
    -- inline_text ::= text_char+
    match textRun i with
    | (b :: t, r) => .ok [.text (b :: t)] r
    | ([], _) =>
      -- block_text
      match blockText i with
      | some (els, r) => .ok els r
      | none =>
        -- inline_placeable
        match inlinePlaceable n i with
        | .ok e r => .ok [.placeable e] r
        | .fuel => .fuel
        | .fail =>
          -- block_placeable ::= blank_block blank_inline? inline_placeable
          match blankBlock i with
          | some (c, r1) =>
            let r2 := spaces r1
            (match inlinePlaceable n r2 with
             | .ok e r => .ok [.text (newlines c), .indent (r1.length - r2.length), .placeable e] r
             | .fail => .fail
             | .fuel => .fuel)
          | none => .fail

/-- `inline_placeable ::= "{" blank? (SelectExpression | InlineExpression) blank? "}"`;
`SelectExpression ::= InlineExpression blank? "->" blank_inline? variant_list` -/
def inlinePlaceable : Nat → Inp → PR (Expr Bytes)
  | 0, _ => .fuel
  | n + 1, i =>
    match i with
    | 123 :: r =>
      (match inlineExpression n (blankOpt r) with
       | .ok e r1 =>
         let body : PR (Expr Bytes) :=
           match blankOpt r1 with
           | 45 :: 62 :: r2 =>
             if selectorOk e then
               match variantList n (spaces r2) with
               | .ok vs r3 => .ok (.select e vs) r3
               | .fail => .fail
               | .fuel => .fuel
             else .fail
           | _ => .ok (.inline e) r1
         (match body with
          | .ok x r4 =>
            (match blankOpt r4 with
             | 125 :: r5 => if placeableOk x then .ok x r5 else .fail
             | _ => .fail)
          | .fail => .fail
          | .fuel => .fuel)
       | .fail => .fail
       | .fuel => .fuel)
    | _ => .fail

/-- `InlineExpression ::= StringLiteral | NumberLiteral | FunctionReference | MessageReference
| TermReference | VariableReference | inline_placeable` -/
def inlineExpression : Nat → Inp → PR (Inline Bytes)
  | 0, _ => .fuel
  | n + 1, i =>
    match stringLiteral i with
    | some (v, r) => .ok (.str v) r
    | none =>
    match numberLiteral i with
    | some (v, r) => .ok (.num v) r
    | none =>
    -- FunctionReference ::= Identifier CallArguments
    let fnRef : PR (Inline Bytes) :=
      match identifier i with
      | some (id, r) =>
        (match callArguments n r with
         | .ok (pos, named) r' => if calleeOk id then .ok (.fn id pos named) r' else .fail
         | .fail => .fail
         | .fuel => .fuel)
      | none => .fail
    match fnRef with
    | .ok e r => .ok e r
    | .fuel => .fuel
    | .fail =>
    -- MessageReference ::= Identifier AttributeAccessor?
    match identifier i with
    | some (id, r) => let (attr, r') := attributeAccessorOpt r; .ok (.msg id attr) r'
    | none =>
    match i with
    -- TermReference ::= "-" Identifier AttributeAccessor? CallArguments?
    | 45 :: r =>
      (match identifier r with
       | some (id, r1) =>
         let (attr, r2) := attributeAccessorOpt r1
         (match callArguments n r2 with
          | .ok args r3 => .ok (.term id attr (some args)) r3
          | .fail => .ok (.term id attr none) r2
          | .fuel => .fuel)
       | none => .fail)
    -- VariableReference ::= "$" Identifier
    | 36 :: r =>
      (match identifier r with
       | some (id, r1) => .ok (.var id) r1
       | none => .fail)
    | _ =>
      match inlinePlaceable n i with
      | .ok e r => .ok (.placeable e) r
      | .fail => .fail
      | .fuel => .fuel

/-- `CallArguments ::= blank? "(" blank? argument_list blank? ")"` -/
def callArguments : Nat → Inp → PR (List (Inline Bytes) × List (Bytes × Inline Bytes))
  | 0, _ => .fuel
  | n + 1, i =>
    match blankOpt i with
    | 40 :: r =>
      (match argumentList n (blankOpt r) with
       | .ok args r1 =>
         (match blankOpt r1 with
          | 41 :: r2 =>
            (match splitArgs args [] [] with
             | some pn => .ok pn r2
             | none => .fail)
          | _ => .fail)
       | .fail => .fail
       | .fuel => .fuel)
    | _ => .fail

/-- `argument_list ::= (Argument blank? "," blank?)* Argument?` -/
def argumentList : Nat → Inp → PR (List Arg)
  | 0, _ => .fuel
  | n + 1, i =>
    match argument n i with
    | .ok a r =>
      (match blankOpt r with
       | 44 :: r1 =>
         (match argumentList n (blankOpt r1) with
          | .ok more r2 => .ok (a :: more) r2
          | .fail => .fail
          | .fuel => .fuel)
       | _ => .ok [a] r)
    | .fail => .ok [] i
    | .fuel => .fuel

/-- `Argument ::= NamedArgument | InlineExpression`;
`NamedArgument ::= Identifier blank? ":" blank? (StringLiteral | NumberLiteral)` -/
def argument : Nat → Inp → PR Arg
  | 0, _ => .fuel
  | n + 1, i =>
    let namedArg : Option (Arg × Inp) :=
      match identifier i with
      | some (name, r) =>
        (match blankOpt r with
         | 58 :: r1 =>
           let r2 := blankOpt r1
           (match stringLiteral r2 with
            | some (v, r3) => some (.named name (.str v), r3)
            | none =>
              match numberLiteral r2 with
              | some (v, r3) => some (.named name (.num v), r3)
              | none => none)
         | _ => none)
      | none => none
    match namedArg with
    | some (a, r) => .ok a r
    | none =>
      match inlineExpression n i with
      | .ok e r => .ok (.positional e) r
      | .fail => .fail
      | .fuel => .fuel

/-- `variant_list ::= Variant* DefaultVariant Variant* line_end` -/
def variantList : Nat → Inp → PR (List (Variant Bytes))
  | 0, _ => .fuel
  | n + 1, i =>
    match variants n i with
    | .ok vs1 r1 =>
      (match variant n true r1 with
       | .ok d r2 =>
         (match variants n r2 with
          | .ok vs2 r3 =>
            (match lineEnd r3 with
             | some r4 => .ok (vs1 ++ d :: vs2) r4
             | none => .fail)
          | .fail => .fail
          | .fuel => .fuel)
       | .fail => .fail
       | .fuel => .fuel)
    | .fail => .fail
    | .fuel => .fuel

/-- `Variant*` -/
def variants : Nat → Inp → PR (List (Variant Bytes))
  | 0, _ => .fuel
  | n + 1, i =>
    match variant n false i with
    | .ok v r =>
      (match variants n r with
       | .ok more r' => .ok (v :: more) r'
       | .fail => .fail
       | .fuel => .fuel)
    | .fail => .ok [] i
    | .fuel => .fuel

/-- `Variant ::= line_end blank? VariantKey blank_inline? Pattern` (`dflt = false`),
`DefaultVariant ::= line_end blank? "*" VariantKey blank_inline? Pattern` (`dflt = true`) -/
def variant : Nat → Bool → Inp → PR (Variant Bytes)
  | 0, _, _ => .fuel
  | n + 1, dflt, i =>
    match lineEnd i with
    | none => .fail
    | some r =>
      let r1 := blankOpt r
      let r2 : Option Inp :=
        if dflt then (match r1 with | 42 :: r' => some r' | _ => none) else some r1
      match r2 with
      | none => .fail
      | some r2 =>
        match variantKey r2 with
        | none => .fail
        | some (k, r3) =>
          match pattern n (spaces r3) with
          | .ok p r4 => .ok (.mk k p dflt) r4
          | .fail => .fail
          | .fuel => .fuel

end

/-! ## entries -/

/-- `Attribute ::= line_end blank? "." Identifier blank_inline? "=" blank_inline? Pattern` -/
def attributeP (fuel : Nat) (i : Inp) : PR (Attribute Bytes) :=
  match lineEnd i with
  | none => .fail
  | some r =>
    match blankOpt r with
    | 46 :: r1 =>
      (match identifier r1 with
       | some (id, r2) =>
         (match spaces r2 with
          | 61 :: r3 =>
            (match pattern fuel (spaces r3) with
             | .ok p r4 => .ok ⟨id, p⟩ r4
             | .fail => .fail
             | .fuel => .fuel)
          | _ => .fail)
       | none => .fail)
    | _ => .fail

/-- `Attribute*` -/
def attributesP (fuel : Nat) : Nat → Inp → PR (List (Attribute Bytes))
  | 0, _ => .fuel
  | n + 1, i =>
    match attributeP fuel i with
    | .ok a r =>
      (match attributesP fuel n r with
       | .ok more r' => .ok (a :: more) r'
       | .fail => .fail
       | .fuel => .fuel)
    | .fail => .ok [] i
    | .fuel => .fuel

/-- `Message ::= Identifier blank_inline? "=" blank_inline? ((Pattern Attribute*) | (Attribute+))` -/
def messageP (fuel : Nat) (i : Inp) : PR (Message Bytes) :=
  match identifier i with
  | none => .fail
  | some (id, r) =>
    match spaces r with
    | 61 :: r1 =>
      let r2 := spaces r1
      (match pattern fuel r2 with
       | .ok p r3 =>
         (match attributesP fuel fuel r3 with
          | .ok as r4 => .ok ⟨id, some p, as, none⟩ r4
          | .fail => .fail
          | .fuel => .fuel)
       | .fuel => .fuel
       | .fail =>
         (match attributesP fuel fuel r2 with
          | .ok [] _ => .fail
          | .ok as r4 => .ok ⟨id, none, as, none⟩ r4
          | .fail => .fail
          | .fuel => .fuel))
    | _ => .fail

/-- `Term ::= "-" Identifier blank_inline? "=" blank_inline? Pattern Attribute*` -/
def termP (fuel : Nat) (i : Inp) : PR (Term Bytes) :=
  match i with
  | 45 :: r0 =>
    (match identifier r0 with
     | none => .fail
     | some (id, r) =>
       match spaces r with
       | 61 :: r1 =>
         (match pattern fuel (spaces r1) with
          | .ok p r3 =>
            (match attributesP fuel fuel r3 with
             | .ok as r4 => .ok ⟨id, p, as, none⟩ r4
             | .fail => .fail
             | .fuel => .fuel)
          | .fail => .fail
          | .fuel => .fuel)
       | _ => .fail)
  | _ => .fail

/-- `Entry ::= (Message line_end) | (Term line_end) | CommentLine`; a comment line is a one-line
comment of its level (lines are joined by the abstract pass below) -/
def entryP (fuel : Nat) (i : Inp) : PR (Entry Bytes) :=
  let msg : PR (Entry Bytes) :=
    match messageP fuel i with
    | .ok m r => (match lineEnd r with | some r' => .ok (.message m) r' | none => .fail)
    | .fail => .fail
    | .fuel => .fuel
  match msg with
  | .ok e r => .ok e r
  | .fuel => .fuel
  | .fail =>
    let trm : PR (Entry Bytes) :=
      match termP fuel i with
      | .ok t r => (match lineEnd r with | some r' => .ok (.term t) r' | none => .fail)
      | .fail => .fail
      | .fuel => .fuel
    match trm with
    | .ok e r => .ok e r
    | .fuel => .fuel
    | .fail =>
      match commentLine i with
      | some ((1, c), r) => .ok (.comment [c]) r
      | some ((2, c), r) => .ok (.groupComment [c]) r
      | some ((_, c), r) => .ok (.resourceComment [c]) r
      | none => .fail

/-- `Resource ::= (Entry | blank_block | Junk)*`: the raw sequence, `none` standing for a
`blank_block`.  Outer `none` = out of fuel. -/
def resourceRaw (fuel : Nat) : Nat → Inp → Option (List (Option (Entry Bytes)))
  | 0, _ => none
  | _ + 1, [] => some []
  | n + 1, i =>
    match entryP fuel i with
    | .ok e r => (resourceRaw fuel n r).map (some e :: ·)
    | .fuel => none
    | .fail =>
      match blankBlock i with
      | some (_, r) => (resourceRaw fuel n r).map (none :: ·)
      | none =>
        let (c, r) := junk i
        (resourceRaw fuel n r).map (some (.junk c) :: ·)

/-! ## abstract syntax of a Resource -/

/-- adjacent comment lines of the same level are one comment -/
def joinComments : List (Option (Entry Bytes)) → List (Option (Entry Bytes))
  | [] => []
  | some (.comment a) :: rest =>
    (match joinComments rest with
     | some (.comment b) :: rest' => some (.comment (a ++ b)) :: rest'
     | rest' => some (.comment a) :: rest')
  | some (.groupComment a) :: rest =>
    (match joinComments rest with
     | some (.groupComment b) :: rest' => some (.groupComment (a ++ b)) :: rest'
     | rest' => some (.groupComment a) :: rest')
  | some (.resourceComment a) :: rest =>
    (match joinComments rest with
     | some (.resourceComment b) :: rest' => some (.resourceComment (a ++ b)) :: rest'
     | rest' => some (.resourceComment a) :: rest')
  | e :: rest => e :: joinComments rest

/-- a `#` comment immediately followed by a Message or Term becomes its comment -/
def attachComments : List (Option (Entry Bytes)) → List (Option (Entry Bytes))
  | some (.comment c) :: some (.message m) :: rest =>
    some (.message { m with comment := some c }) :: attachComments rest
  | some (.comment c) :: some (.term t) :: rest =>
    some (.term { t with comment := some c }) :: attachComments rest
  | e :: rest => e :: attachComments rest
  | [] => []

/-- drop the blank blocks -/
def dropBlanks : List (Option (Entry Bytes)) → Resource Bytes
  | [] => []
  | some e :: rest => e :: dropBlanks rest
  | none :: rest => dropBlanks rest

/-- fuel for the recursive productions: every call on the way down either consumes a byte itself
or is one of a bounded number of calls between two consumed bytes -/
def fuelFor (i : Inp) : Nat := 8 * i.length + 32

/-- the tree the grammar assigns to a source (`none` = out of fuel; never happens with `fuelFor`) -/
def parse (i : Inp) : Option (Resource Bytes) :=
  (resourceRaw (fuelFor i) (i.length + 1) i).map fun raw => dropBlanks (attachComments (joinComments raw))

def isJunk : Entry Bytes → Bool
  | .junk _ => true
  | _ => false

/-- a source is well-formed when the grammar assigns it a tree without Junk -/
def wellFormed (i : Inp) : Bool :=
  match parse i with
  | some r => !r.any isJunk
  | none => false

end FluentModel.SpecGrammar
