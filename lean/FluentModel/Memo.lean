/-!
# Model of the formatter memoizers (C14)

Transcribed from
* `intl-memoizer/src/lib.rs`        – `IntlLangMemoizer::with_try_get` (RefCell + `TypeMap` of per-type
  `HashMap<Args, I>`), `IntlMemoizer::get_for_lang` (`HashMap<LanguageIdentifier, Weak<IntlLangMemoizer>>`);
* `intl-memoizer/src/concurrent.rs` – the same `with_try_get` body under `Mutex::lock`;
* `fluent-bundle/src/memoizer.rs`, `fluent-bundle/src/concurrent.rs`, `fluent-bundle/src/bundle.rs` –
  `MemoizerKind::{new, with_try_get_threadsafe}` which only forward to `new` / `with_try_get`.

What is a parameter / contract (DESIGN 4.4), not transcribed:
* `Memoizable::construct` is the field `Ext.construct : σ → L → τ → α → Except ε ι × σ`: an arbitrary function of an
  abstract external world `σ` (so it may fail, fail-then-succeed, hand out serial numbers …).  Callbacks
  (`FnOnce(&I) -> R`) are arbitrary functions `ι → σ → ρ × σ` carried by the operation.  Neither can touch the
  memoizer: **re-entrancy into the same `IntlLangMemoizer` is outside the model** (sequential:
  `try_borrow_mut().expect(..)` would panic; concurrent: `Mutex::lock` would dead-lock or panic), and so is a panic
  inside `construct`/callback (which would poison the mutex; `lock().unwrap()`).
* One kind of re-entrancy IS modelled: a callback may call `IntlMemoizer::get_for_lang(lang)` for its own
  language while `with_try_get` is active on its memoizer (the per-language table is a different object from the
  memoizer's `RefCell`, so this is legal), compare the returned `Rc` with the one it runs on and drop it before
  returning: `MOp.lookupReenter` (= `lookup`, then – only if the callback ran – `getStep`, `dropStep` of the handle
  just obtained; the client's handle list is restored, so later handles keep their numbers).
* `type_map::TypeMap` and `std::collections::HashMap` are finite maps: association lists `aget`/`aset`/`aerase`
  (first match wins; the laws are proved in `FluentProofs/Memo.lean`).  A type tag `τ` stands for Rust's `TypeId`.
* `Clone` of `LanguageIdentifier` / `Args` yields an equal value (the key stored = the key passed to `construct`).
* `Rc`/`Weak`: an allocation has an identity (`Nat`, never reused) and an explicit strong count; `Weak::upgrade`
  succeeds iff the allocation is still alive (strong > 0); dropping the last `Rc` frees it.
* `Mutex`: mutual exclusion – `lock` is enabled only when the lock is free; the guard is released when
  `with_try_get` returns (on the `?` error path as well).  The scheduler is an arbitrary `List Nat` of thread ids.

Ghost state (does not influence behaviour, printed by the driver, used by the theorems): `LMemo.log` = the construct
events of this memoizer, newest first; `LMemo.calls` = (key, instance) of every callback invocation, newest first;
`CState.acq` = lock acquisition order, newest first.
-/
namespace FluentModel.Memo

/-! ## finite maps (contract of `HashMap` / `TypeMap`) -/
section AList
variable {κ β : Type} [DecidableEq κ]

/-- `map.get(k)` -/
def aget : List (κ × β) → κ → Option β
  | [], _ => none
  | (k', v) :: r, k => if k' = k then some v else aget r k

/-- `map.insert(k, v)` -/
def aset : List (κ × β) → κ → β → List (κ × β)
  | [], k, v => [(k, v)]
  | (k', v') :: r, k, v => if k' = k then (k, v) :: r else (k', v') :: aset r k v

/-- `map.remove(k)` -/
def aerase (m : List (κ × β)) (k : κ) : List (κ × β) :=
  m.filter fun p => decide (p.1 ≠ k)

end AList

/-! ## one language memoizer: `IntlLangMemoizer::with_try_get` -/

/-- one call of `I::construct(lang, args)` and what it returned -/
structure Event (L τ α ι ε : Type) where
  lang : L
  ty : τ
  args : α
  res : Except ε ι

/-- `Result<R, I::Error>` -/
inductive Outcome (ε ρ : Type) where
  | ok (r : ρ)
  | err (e : ε)
  deriving DecidableEq

/-- external code: `Memoizable::construct` for every formatter type, over an abstract world `σ` -/
structure Ext (σ L τ α ι ε : Type) where
  construct : σ → L → τ → α → Except ε ι × σ

/-- `with_try_get::<I, R, U>(args, cb)`: `ty` stands for `I` -/
structure Op (σ τ α ι ρ : Type) where
  ty : τ
  args : α
  cb : ι → σ → ρ × σ

/-- `IntlLangMemoizer.map` (+ ghost logs).  `lang` is kept next to it by the owner. -/
structure LMemo (L τ α ι ε : Type) where
  map : List (τ × List (α × ι))
  log : List (Event L τ α ι ε)
  calls : List (τ × α × ι)

def LMemo.empty {L τ α ι ε : Type} : LMemo L τ α ι ε := { map := [], log := [], calls := [] }

/-- what one `with_try_get` did -/
structure Step (σ L τ α ι ε ρ : Type) where
  out : Outcome ε ρ
  ev : Option (Event L τ α ι ε)
  memo : LMemo L τ α ι ε
  world : σ

section Lang
variable {σ L τ α ι ε ρ : Type} [DecidableEq τ] [DecidableEq α]

/-- `map.entry::<HashMap<I::Args, I>>().or_insert_with(HashMap::new)`: the per-type cache (empty if absent) -/
def cacheOf (m : List (τ × List (α × ι))) (t : τ) : List (α × ι) :=
  match aget m t with
  | some c => c
  | none => []

/-- the instance cached for key `(t, a)`, if any -/
def find (m : List (τ × List (α × ι))) (t : τ) (a : α) : Option ι :=
  aget (cacheOf m t) a

/-- is `e` a successful construction for key `(t, a)` -/
def Event.okFor (e : Event L τ α ι ε) (t : τ) (a : α) : Bool :=
  decide (e.ty = t) && decide (e.args = a) &&
    (match e.res with | .ok _ => true | .error _ => false)

/-- is `e` a construction (successful or not) for key `(t, a)` -/
def Event.isFor (e : Event L τ α ι ε) (t : τ) (a : α) : Bool :=
  decide (e.ty = t) && decide (e.args = a)

/-- `with_try_get` (lib.rs:208-230, concurrent.rs:25-45 between `lock` and the guard's drop) -/
def withTryGet (X : Ext σ L τ α ι ε) (lang : L) (m : LMemo L τ α ι ε) (w : σ) (op : Op σ τ α ι ρ) :
    Step σ L τ α ι ε ρ :=
  -- `map.entry::<HashMap<I::Args, I>>().or_insert_with(HashMap::new)`
  let cache : List (α × ι) := cacheOf m.map op.ty
  -- `cache.entry(args.clone())`
  match aget cache op.args with
  | some i =>
    -- `Entry::Occupied(entry) => entry.into_mut()`, then `Ok(callback(e))`
    let rw := op.cb i w
    { out := .ok rw.1, ev := none, world := rw.2,
      memo := { map := aset m.map op.ty cache, log := m.log, calls := (op.ty, op.args, i) :: m.calls } }
  | none =>
    -- `Entry::Vacant(entry) => { let val = I::construct(self.lang.clone(), args)?; entry.insert(val) }`
    let cw := X.construct w lang op.ty op.args
    match cw.1 with
    | .error e =>
      let ev : Event L τ α ι ε := { lang := lang, ty := op.ty, args := op.args, res := .error e }
      { out := .err e, ev := some ev, world := cw.2,
        memo := { map := aset m.map op.ty cache, log := ev :: m.log, calls := m.calls } }
    | .ok i =>
      let ev : Event L τ α ι ε := { lang := lang, ty := op.ty, args := op.args, res := .ok i }
      let rw := op.cb i cw.2
      { out := .ok rw.1, ev := some ev, world := rw.2,
        memo := { map := aset m.map op.ty (aset cache op.args i), log := ev :: m.log,
                  calls := (op.ty, op.args, i) :: m.calls } }

/-- a whole sequential history on one memoizer: outcomes oldest first, final memoizer, final world -/
def runOps (X : Ext σ L τ α ι ε) (lang : L) :
    List (Op σ τ α ι ρ) → LMemo L τ α ι ε → σ → List (Outcome ε ρ) × LMemo L τ α ι ε × σ
  | [], m, w => ([], m, w)
  | op :: rest, m, w =>
    let r := withTryGet X lang m w op
    let t := runOps X lang rest r.memo r.world
    (r.out :: t.1, t.2)

end Lang

/-! ## `IntlMemoizer::get_for_lang` with `Rc`/`Weak` made explicit -/

/-- one `Rc<IntlLangMemoizer>` allocation -/
structure Obj (L τ α ι ε : Type) where
  lang : L
  strong : Nat
  memo : LMemo L τ α ι ε

/-- `IntlMemoizer` + the heap of `Rc` allocations + the client's handles -/
structure MState (σ L τ α ι ε : Type) where
  /-- `IntlMemoizer.map : HashMap<LanguageIdentifier, Weak<IntlLangMemoizer>>` (weak = allocation id) -/
  table : List (L × Nat)
  /-- live allocations (strong count > 0) -/
  heap : List (Nat × Obj L τ α ι ε)
  /-- next fresh allocation id -/
  next : Nat
  /-- every `Rc` the client ever received, in order; `none` once dropped -/
  handles : List (Option Nat)
  world : σ

inductive MOp (σ L τ α ι ρ : Type) where
  /-- `memoizer.get_for_lang(l)` – the returned `Rc` becomes handle number `handles.length` -/
  | getForLang (l : L)
  /-- `Rc::new(IntlLangMemoizer::new(l))` / `MemoizerKind::new(l)` – not registered anywhere -/
  | newLang (l : L)
  /-- `drop(handle h)` -/
  | drop (h : Nat)
  /-- `handle_h.with_try_get(..)` -/
  | lookup (h : Nat) (op : Op σ τ α ι ρ)
  /-- `handle_h.with_try_get(..)` whose callback, while the lookup is active, calls
  `memoizer.get_for_lang(lang of handle h)`, compares the returned `Rc` with handle `h` (`Rc::ptr_eq`) and drops
  it before returning -/
  | lookupReenter (h : Nat) (op : Op σ τ α ι ρ)

inductive MObs (L τ α ι ε ρ : Type) where
  /-- new handle `h` refers to allocation `oid` -/
  | handle (h oid : Nat)
  | dropped
  /-- the handle does not exist or was dropped already: the client cannot do this; nothing happens -/
  | dead
  | res (out : Outcome ε ρ) (ev : Option (Event L τ α ι ε))
  /-- a live handle whose allocation is gone: use-after-free; proved unreachable -/
  | dangling
  /-- result of `lookupReenter`: the ordinary lookup result and what the callback's inner `get_for_lang` found:
  `none` – the callback never ran (construction failed, `?`), so there was no inner call;
  `some b` – the inner call ran, and `b` = "the allocation it returned is the allocation of handle `h`" -/
  | resReenter (out : Outcome ε ρ) (ev : Option (Event L τ α ι ε)) (same : Option Bool)

/-- the allocation a `handle` observation reports -/
def MObs.allocId {L τ α ι ε ρ : Type} : MObs L τ α ι ε ρ → Option Nat
  | .handle _ oid => some oid
  | _ => none

section Intl
variable {σ L τ α ι ε ρ : Type} [DecidableEq L] [DecidableEq τ] [DecidableEq α]

def MState.init (w : σ) : MState σ L τ α ι ε :=
  { table := [], heap := [], next := 0, handles := [], world := w }

/-- `Rc::new(IntlLangMemoizer::new(lang))`, optionally `map.insert(lang, Rc::downgrade(&e))` -/
def allocFresh (s : MState σ L τ α ι ε) (l : L) (register : Bool) : MState σ L τ α ι ε × MObs L τ α ι ε ρ :=
  ({ s with
      table := if register then aset s.table l s.next else s.table
      heap := aset s.heap s.next { lang := l, strong := 1, memo := LMemo.empty }
      next := s.next + 1
      handles := s.handles ++ [some s.next] },
   .handle s.handles.length s.next)

/-- `IntlMemoizer::get_for_lang(l)` (lib.rs:333-350) -/
def getStep (s : MState σ L τ α ι ε) (l : L) : MState σ L τ α ι ε × MObs L τ α ι ε ρ :=
  match aget s.table l with
  | none => allocFresh s l true                       -- `Entry::Vacant`
  | some oid =>                                       -- `Entry::Occupied`
    match aget s.heap oid with                        -- `entry.get().upgrade()`
    | some o =>
      ({ s with heap := aset s.heap oid { o with strong := o.strong + 1 }
                handles := s.handles ++ [some oid] },
       .handle s.handles.length oid)
    | none => allocFresh s l true                     -- `entry.insert(Rc::downgrade(&e))`

/-- `drop(handle h)`: `Rc::drop` -/
def dropStep (s : MState σ L τ α ι ε) (h : Nat) : MState σ L τ α ι ε × MObs L τ α ι ε ρ :=
  match s.handles[h]? with
  | some (some oid) =>
    match aget s.heap oid with
    | some o =>
      if o.strong ≤ 1 then
        ({ s with heap := aerase s.heap oid, handles := s.handles.set h none }, .dropped)
      else
        ({ s with heap := aset s.heap oid { o with strong := o.strong - 1 }
                  handles := s.handles.set h none }, .dropped)
    | none => ({ s with handles := s.handles.set h none }, .dangling)
  | _ => (s, .dead)

/-- `handle_h.with_try_get(..)` -/
def lookupStep (X : Ext σ L τ α ι ε) (s : MState σ L τ α ι ε) (h : Nat) (op : Op σ τ α ι ρ) :
    MState σ L τ α ι ε × MObs L τ α ι ε ρ :=
  match s.handles[h]? with
  | some (some oid) =>
    match aget s.heap oid with
    | some o =>
      let r := withTryGet X o.lang o.memo s.world op
      ({ s with heap := aset s.heap oid { o with memo := r.memo }, world := r.world }, .res r.out r.ev)
    | none => (s, .dangling)
  | _ => (s, .dead)

/-- what the re-entrant callback does besides computing its result, in the state `s` in which it runs (the
instance is inserted already, the handle of allocation `oid` – whose language is `l` – is alive):
`let again = outer.get_for_lang(l); let same = Rc::ptr_eq(&again, &handle); drop(again)`.
The `Rc` is a temporary of the callback, not one of the client's handles: it is handle number `s.handles.length`
only while the callback runs, afterwards the handle list is `s.handles` again.  `heap` (strong counts), `table`
and `next` are whatever `get_for_lang` + `drop` leave behind. -/
def reenterStep (ρ : Type) (s : MState σ L τ α ι ε) (l : L) (oid : Nat) : MState σ L τ α ι ε × Bool :=
  let g := getStep (ρ := ρ) s l
  let d := dropStep (ρ := ρ) g.1 s.handles.length
  ({ d.1 with handles := s.handles }, g.2.allocId == some oid)

def mstep (X : Ext σ L τ α ι ε) (s : MState σ L τ α ι ε) :
    MOp σ L τ α ι ρ → MState σ L τ α ι ε × MObs L τ α ι ε ρ
  | .getForLang l => getStep s l
  | .newLang l => allocFresh s l false
  | .drop h => dropStep s h
  | .lookup h op => lookupStep X s h op
  | .lookupReenter h op =>
    match s.handles[h]? with
    | some (some oid) =>
      match aget s.heap oid with
      | some o =>
        let r := withTryGet X o.lang o.memo s.world op
        -- the state in which the callback runs: lookup / construct / insert are done, handle `h` is alive
        let s1 : MState σ L τ α ι ε :=
          { s with heap := aset s.heap oid { o with memo := r.memo }, world := r.world }
        match r.out with
        | .err _ => (s1, .resReenter r.out r.ev none)          -- `construct(..)?` failed: no callback
        | .ok _ =>
          let e := reenterStep ρ s1 o.lang oid
          (e.1, .resReenter r.out r.ev (some e.2))
      | none => (s, .dangling)
    | _ => (s, .dead)

/-- a whole history: observations oldest first and the final state -/
def mrun (X : Ext σ L τ α ι ε) :
    List (MOp σ L τ α ι ρ) → MState σ L τ α ι ε → List (MObs L τ α ι ε ρ) × MState σ L τ α ι ε
  | [], s => ([], s)
  | op :: rest, s =>
    let r := mstep X s op
    let t := mrun X rest r.1
    (r.2 :: t.1, t.2)

end Intl

/-! ## `concurrent::IntlLangMemoizer`: small-step semantics with one explicit lock -/

/-- where a thread is inside `with_try_get` -/
inductive Pc (σ τ α ι ε ρ : Type) where
  /-- outside `with_try_get` (before `lock()` of its next lookup, or finished) -/
  | idle
  /-- `lock()` returned; the body has not run yet -/
  | locked (op : Op σ τ α ι ρ)
  /-- body done (lookup, construct, insert, callback); the guard is not dropped yet -/
  | done (r : Outcome ε ρ)

structure Thread (σ τ α ι ε ρ : Type) where
  /-- lookups still to start -/
  prog : List (Op σ τ α ι ρ)
  pc : Pc σ τ α ι ε ρ
  /-- results of completed lookups, newest first -/
  results : List (Outcome ε ρ)

structure CState (σ L τ α ι ε ρ : Type) where
  lang : L
  /-- `Mutex` state: the holder -/
  lock : Option Nat
  memo : LMemo L τ α ι ε
  world : σ
  /-- thread id ↦ thread; ids beyond the spawned ones are finished empty threads -/
  threads : Nat → Thread σ τ α ι ε ρ
  /-- ghost: (thread, lookup) in the order in which the lock was acquired, newest first -/
  acq : List (Nat × Op σ τ α ι ρ)

section Conc
variable {σ L τ α ι ε ρ : Type} [DecidableEq τ] [DecidableEq α]

def upd {β : Type} (f : Nat → β) (t : Nat) (v : β) : Nat → β :=
  fun t' => if t' = t then v else f t'

def Thread.start (p : List (Op σ τ α ι ρ)) : Thread σ τ α ι ε ρ :=
  { prog := p, pc := .idle, results := [] }

/-- a cold memoizer and one thread per program, all before their first `lock()` -/
def CState.init (lang : L) (w : σ) (progs : List (List (Op σ τ α ι ρ))) : CState σ L τ α ι ε ρ :=
  { lang := lang, lock := none, memo := LMemo.empty, world := w, acq := []
    threads := fun t => match progs[t]? with
      | some p => Thread.start p
      | none => Thread.start [] }

/-- one step of thread `t`; a no-op when `t` is not enabled (finished, or blocked in `lock()`) -/
def cstep (X : Ext σ L τ α ι ε) (s : CState σ L τ α ι ε ρ) (t : Nat) : CState σ L τ α ι ε ρ :=
  let th := s.threads t
  match th.pc with
  | .idle =>
    match th.prog with
    | [] => s
    | op :: rest =>
      match s.lock with
      | some _ => s                                  -- blocked in `self.map.lock()`
      | none =>
        { s with lock := some t, acq := (t, op) :: s.acq
                 threads := upd s.threads t { th with prog := rest, pc := .locked op } }
  | .locked op =>
    let r := withTryGet X s.lang s.memo s.world op
    { s with memo := r.memo, world := r.world
             threads := upd s.threads t { th with pc := .done r.out } }
  | .done r =>
    { s with lock := none
             threads := upd s.threads t { th with pc := .idle, results := r :: th.results } }

/-- run a schedule -/
def crun (X : Ext σ L τ α ι ε) (sched : List Nat) (s : CState σ L τ α ι ε ρ) : CState σ L τ α ι ε ρ :=
  sched.foldl (cstep X) s

/-- can thread `t` take an effective step -/
def enabled (s : CState σ L τ α ι ε ρ) (t : Nat) : Prop :=
  match (s.threads t).pc with
  | .idle => (s.threads t).prog ≠ [] ∧ s.lock = none
  | _ => True

/-- has thread `t` anything left to do -/
def unfinished (s : CState σ L τ α ι ε ρ) (t : Nat) : Prop :=
  match (s.threads t).pc with
  | .idle => (s.threads t).prog ≠ []
  | _ => True

def finishedB (s : CState σ L τ α ι ε ρ) (t : Nat) : Bool :=
  match (s.threads t).pc with
  | .idle => (s.threads t).prog.isEmpty
  | _ => false

/-- progress measure of one thread: 3 steps per lookup -/
def Thread.measure (th : Thread σ τ α ι ε ρ) : Nat :=
  3 * th.prog.length + (match th.pc with | .idle => 0 | .locked _ => 2 | .done _ => 1)

/-- the schedule that lets thread 0, 1, …, n-1 run in turn, `rounds` times -/
def roundRobin (n rounds : Nat) : List Nat :=
  (List.replicate rounds (List.range n)).flatten

end Conc

end FluentModel.Memo
