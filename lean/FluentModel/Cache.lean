/-!
# Model of `fluent-fallback/src/cache.rs` (`AsyncCache`/`AsyncCacheStream`, `Cache`/`CacheIter`)
# and of the way `bundles.rs` steps through it

A labelled transition system.

*Transcribed from the code*

* `pollNext`      = `AsyncCacheStream::poll_next` (three-way `curr.cmp(&cache_len)`),
* `pollNextItem`  = `AsyncCache::poll_next_item` (poll the wrapped stream with the caller's waker;
                    `Ready` ⇒ `mem::take(pending_wakes)` and wake every entry in order;
                    `Pending` ⇒ push a clone of the caller's waker),
* `syncNext`      = `CacheIter::next`,
* `pollTask`/`syncTask` = one poll of a `Bundles::format_*` future / one `format_*_sync` call: the
                    `while let Some(bundle) = stream.next().await` loop of the three macros in
                    `bundles.rs`, which stops at the first bundle that answers (depth `want`).

*Parameters (contract, not transcribed)*

* the wrapped stream (`Source`): a *fused* stream given by a script – a list of items, each with the
  number `need` of external `fire` events that must happen before it is available, and `endNeed` for
  the final `None`.  Polled while `need > 0` it returns `Pending` and remembers ONLY the waker of
  that last poll; a `fire` event decrements `need` and wakes (and forgets) the remembered waker.
  Polled with `need = 0` it yields the item (or `None`, then `None` for ever).
* wakers: consumer `c` is polled with the waker of task `grp c` (`grp = id`: every request lives in a
  task of its own; two requests joined in one task – `join!`, `FuturesUnordered` – share that task's
  waker).  Waker `w` sets `woken t` for EVERY consumer `t` with `grp t = w` and is logged in `wakeLog`
  (what the harness' flag wakers record).  The executor clears `woken c` when it polls consumer `c`
  (`fresh = true`).  `grp` never changes during a run.
* `items : List α` is the `UnsafeCell<ChunkyVec>` (append-only; reference stability is trusted).
* no cancellation: a request that is waiting (`Pending`) is never dropped (`start` on an active
  consumer and `finish` on a waiting one are no-ops).
* `prefetch` (both flavours) is the identity on this state (it only forwards to the source's own hook).
* not modelled: the `unsafe` pin projections / `PinCell` and `RefCell` borrows (a source or
  waker that re-enters the cache would panic on the borrow; wakers here only set flags), and what the
  three `bundles.rs` macros do with a bundle besides deciding whether to go on (that is C16).
  A request of depth `want` goes on until it has been handed `max want 1` bundles or `None`.
-/
namespace FluentModel.Cache

abbrev Task := Nat

inductive PollRes (α : Type) where
  | pending
  | ready (v : Option α)
deriving Repr, DecidableEq

/-- scripted fused stream wrapped by the cache -/
structure Source (α : Type) where
  rest : List (Nat × α)      -- items not yet yielded, with the number of `fire` events still needed
  endNeed : Nat              -- `fire` events still needed before the end can be reported
  waker : Option Task := none  -- waker (id of its task) of the last poll that returned `Pending`
  polls : Nat := 0           -- `poll_next`/`next` calls so far
  pulls : Nat := 0           -- items yielded so far

variable {α : Type}

/-- number of `fire` events still needed before the next poll is `Ready` -/
def Source.need (src : Source α) : Nat :=
  match src.rest with
  | (n, _) :: _ => n
  | [] => src.endNeed

/-- `Stream::poll_next` of the scripted stream, polled with task `w`'s waker -/
def Source.poll (src : Source α) (w : Task) : Source α × PollRes α :=
  if src.need = 0 then
    match src.rest with
    | (_, it) :: r => ({ src with rest := r, polls := src.polls + 1, pulls := src.pulls + 1 }, .ready (some it))
    | [] => ({ src with polls := src.polls + 1 }, .ready none)
  else ({ src with waker := some w, polls := src.polls + 1 }, .pending)

/-- an external event for the stream: one step closer to ready; the remembered waker is woken -/
def Source.fire (src : Source α) : Source α × Option Task :=
  if src.need = 0 then (src, none) else
  match src.rest with
  | (n, it) :: r => ({ src with rest := (n - 1, it) :: r, waker := none }, src.waker)
  | [] => ({ src with endNeed := src.endNeed - 1, waker := none }, src.waker)

/-- `Iterator::next` of the scripted iterator (sync variant: there is no `Pending`) -/
def Source.next (src : Source α) : Source α × Option α :=
  match src.rest with
  | (_, it) :: r => ({ src with rest := r, polls := src.polls + 1, pulls := src.pulls + 1 }, some it)
  | [] => ({ src with polls := src.polls + 1 }, none)

/-- one consumer = one task with (at most) one request in flight -/
structure Consumer (α : Type) where
  active : Bool := false      -- a request (future + its stream) is in flight
  want : Nat := 0             -- the request is answered by the `want`-th bundle
  curr : Nat := 0             -- `AsyncCacheStream.curr` / `CacheIter.curr`
  waiting : Bool := false     -- the last `poll_next` of the request's stream returned `Pending`
  woken : Bool := false       -- the task's waker has been called since the task was last polled
  got : List α := []          -- items the request's stream has delivered, in order

structure St (α : Type) where
  src : Source α
  items : List α := []              -- AsyncCache.items / Cache.items
  pending : List Task := []         -- AsyncCache.pending_wakes
  cons : Task → Consumer α := fun _ => {}
  wakeLog : List Task := []         -- every `Waker::wake` call so far (waker ids), most recent first
  grp : Task → Task := id           -- consumer `c` is polled with the waker of task `grp c` (constant)

def St.modCons (s : St α) (c : Task) (f : Consumer α → Consumer α) : St α :=
  { s with cons := fun t => if t = c then f (s.cons c) else s.cons t }

/-- `Waker::wake` of waker `w` (the waker of task `w`): every consumer polled with it becomes runnable -/
def St.wake (s : St α) (w : Task) : St α :=
  { s with
    cons := fun t => if s.grp t = w then { s.cons t with woken := true } else s.cons t
    wakeLog := w :: s.wakeLog }

/-- `for waker in wakers { waker.wake() }` -/
def St.wakeAll (s : St α) (ts : List Task) : St α := ts.foldl St.wake s

/-- `AsyncCache::poll_next_item` called by consumer `c`, i.e. with the waker of task `grp c` -/
def pollNextItem (s : St α) (c : Task) : St α × PollRes α :=
  match s.src.poll (s.grp c) with
  | (src', .ready v) => (St.wakeAll { s with src := src', pending := [] } s.pending, .ready v)
  | (src', .pending) => ({ s with src := src', pending := s.pending ++ [s.grp c] }, .pending)

/-- `AsyncCacheStream::poll_next` of consumer `c`'s stream, polled with the waker of task `grp c` -/
def pollNext (s : St α) (c : Task) : St α × PollRes α :=
  let curr := (s.cons c).curr
  if curr < s.items.length then
    -- Ordering::Less: cached value
    let r := s.items[curr]?
    (s.modCons c fun k => { k with curr := curr + 1, waiting := false, got := k.got ++ r.toList }, .ready r)
  else if curr = s.items.length then
    -- Ordering::Equal: get the next item from the stream
    match pollNextItem s c with
    | (s', .pending) => (s'.modCons c fun k => { k with waiting := true }, .pending)
    | (s', .ready (some it)) =>
      (St.modCons { s' with items := s'.items ++ [it] } c fun k =>
        { k with curr := curr + 1, waiting := false, got := k.got ++ [it] }, .ready (some it))
    | (s', .ready none) =>
      (s'.modCons c fun k => { k with curr := curr + 1, waiting := false }, .ready none)
  else
    -- Ordering::Greater: ran off the end of the cache
    (s.modCons c fun k => { k with waiting := false }, .ready none)

/-- `CacheIter::next` of consumer `c`'s iterator -/
def syncNext (s : St α) (c : Task) : St α × Option α :=
  let curr := (s.cons c).curr
  if curr < s.items.length then
    let r := s.items[curr]?
    (s.modCons c fun k => { k with curr := curr + 1, waiting := false, got := k.got ++ r.toList }, r)
  else if curr = s.items.length then
    match s.src.next with
    | (src', some it) =>
      (St.modCons { s with src := src', items := s.items ++ [it] } c fun k =>
        { k with curr := curr + 1, waiting := false, got := k.got ++ [it] }, some it)
    | (src', none) =>
      (St.modCons { s with src := src' } c fun k => { k with curr := curr + 1, waiting := false }, none)
  else
    (s.modCons c fun k => { k with waiting := false }, none)

/-! ## Fine-grained labels (one `poll_next` of one stream per step) -/

inductive Label where
  | start (c : Task) (want : Nat)   -- task `c` issues a request answered at depth `want` (new stream, `curr = 0`)
  | poll (c : Task) (fresh : Bool)  -- one `poll_next` of `c`'s stream; `fresh`: the executor has just
                                    -- taken task `c` off its run queue (clears `woken c`)
  | finish (c : Task)               -- `c`'s request is complete, its stream is dropped
  | fire                            -- the wrapped stream gets one external event
deriving Repr, DecidableEq

def startReq (s : St α) (c : Task) (want : Nat) : St α :=
  if (s.cons c).active then s else
  s.modCons c fun k => { k with active := true, want := want, curr := 0, waiting := false, got := [] }

def finishReq (s : St α) (c : Task) : St α :=
  if (s.cons c).waiting then s else s.modCons c fun k => { k with active := false }

def clearWoken (s : St α) (c : Task) : St α := s.modCons c fun k => { k with woken := false }

def fireSrc (s : St α) : St α :=
  match s.src.fire with
  | (src', some t) => St.wake { s with src := src' } t
  | (src', none) => { s with src := src' }

def step (s : St α) : Label → St α
  | .start c want => startReq s c want
  | .poll c fresh =>
    if (s.cons c).active then (pollNext (if fresh then clearWoken s c else s) c).1 else s
  | .finish c => finishReq s c
  | .fire => fireSrc s

def run (s : St α) (ls : List Label) : St α := ls.foldl step s

def init (script : List (Nat × α)) (endNeed : Nat) (grp : Task → Task := id) : St α :=
  { src := { rest := script, endNeed := endNeed }, grp := grp }

/-! ## Task-level operations (what the harness can drive through `Bundles`) -/

/-- outcome of polling a request's future once -/
inductive TaskRes (α : Type) where
  | idle                      -- no request in flight
  | pending
  | done (answer : Option α)  -- the answering bundle, or `none` when the bundles ran out
  | outOfFuel                 -- unreachable (`FluentProofs.Cache.pollLoop_fuel`)
deriving Repr, DecidableEq

/-- the `while let Some(bundle) = stream.next().await` loop of `format_*_from_stream`: keep polling
the stream until it is `Pending`, runs out, or delivers the `want`-th bundle. -/
def pollLoop : Nat → St α → Task → St α × TaskRes α
  | 0, s, _ => (s, .outOfFuel)
  | fuel + 1, s, c =>
    match pollNext s c with
    | (s', .pending) => (s', .pending)
    | (s', .ready none) => (finishReq s' c, .done none)
    | (s', .ready (some it)) =>
      if (s'.cons c).want ≤ (s'.cons c).curr then (finishReq s' c, .done (some it))
      else pollLoop fuel s' c

/-- one `Future::poll` of task `c`'s `Bundles::format_*` future by an executor (which has just taken
the task off its run queue: `woken c` is cleared first) -/
def pollTask (s : St α) (c : Task) : St α × TaskRes α :=
  if (s.cons c).active then pollLoop ((s.cons c).want + 1) (clearWoken s c) c else (s, .idle)

/-- the same loop over `CacheIter::next` (`format_*_from_iter`) -/
def syncLoop : Nat → St α → Task → St α × TaskRes α
  | 0, s, _ => (s, .outOfFuel)
  | fuel + 1, s, c =>
    match syncNext s c with
    | (s', none) => (finishReq s' c, .done none)
    | (s', some it) =>
      if (s'.cons c).want ≤ (s'.cons c).curr then (finishReq s' c, .done (some it))
      else syncLoop fuel s' c

/-- one `Bundles::format_*_sync` call of consumer `c` -/
def syncTask (s : St α) (c : Task) : St α × TaskRes α :=
  if (s.cons c).active then syncLoop ((s.cons c).want + 1) (clearWoken s c) c else (s, .idle)

/-- task-level operations -/
inductive Op where
  | start (c : Task) (want : Nat)
  | poll (c : Task)
  | fire
deriving Repr, DecidableEq

def opStep (s : St α) : Op → St α
  | .start c want => startReq s c want
  | .poll c => (pollTask s c).1
  | .fire => fireSrc s

def opRun (s : St α) (ops : List Op) : St α := ops.foldl opStep s

/-- `Cache::prefetch` / `AsyncCache::prefetch` (`cache.rs`): both only forward to the SOURCE's own
`prefetch_sync` / `prefetch_async` hook (a no-op by default); the cached items, the source position, the consumers
and the parked wakers are not touched, and no bundle is generated -/
def prefetch (s : St α) : St α := s

def syncOpStep (s : St α) : Op → St α
  | .start c want => startReq s c want
  | .poll c => (syncTask s c).1
  | .fire => s

end FluentModel.Cache
