import FluentModel.Registry
/-!
# Model of `fluent-resmgr/src/resource_manager.rs` (`ResourceManager`)

Transcribed:

* `get_resource` (`resource_manager.rs:51-69`): `path = path_scheme.replace("{locale}", locale)
  .replace("{res_id}", resource_id)`; cache hit → the cached resource, no I/O; miss → `read_file(path)?`
  (`fs::read_to_string`), `FluentResource::try_new` keeping the resource whether or not it has syntax
  errors, `resources.insert(path, Box::new(resource))`; a read error is returned and nothing is cached.
* `get_bundle` (`:76-103`): `FluentBundle::new(locales.clone())`, `locale = &locales[0]` (index panic
  on an empty list — an explicit `panic` outcome here), for every resource id in order: `get_resource`,
  `Ok` → `bundle.add_resource` (the registry model of C10) whose `Overriding` errors are appended one by
  one, `Err` → the I/O error is appended; `Ok(bundle)` iff no error was collected, else `Err(errors)`.
* `get_bundles` (`:109-144`): `iter::from_fn` closure with `idx`; creating the iterator does nothing;
  every `next()` takes `locales.get(idx)`, bumps `idx`, and runs the same loop for that one locale with
  `FluentBundle::new(vec![locale])`.

Contracts (parameters, not transcriptions):

* `str::replace` (std) is modelled by `strReplace`: left to right, non-overlapping, the replacement text
  is not rescanned.  The placeholders are the two literals of the source.
* the file system is a parameter `World = Nat → Path → ReadResult`: the result `fs::read_to_string(path)`
  would give at the moment of the `t`-th read performed by this manager.  Nothing is assumed about it,
  so files may change, vanish or appear between any two reads.
* `FluentResource::try_new` is a parameter `parse : Bytes → Resource` (total: a resource is produced
  for every valid UTF-8 text, errors are dropped by `get_resource`).
* `elsa::FrozenMap` is a finite map with `get` and `insert = entry(k).or_insert(v)`.
* `LanguageIdentifier::to_string` is the identity on the (canonical) locale strings of the model.

Ghost state: `clock` (number of `read_file` calls so far) and `log` (every read with its result) exist
only to state `load_once`; nothing reads them back.
-/
namespace FluentModel.ResMgr
open FluentModel FluentModel.Registry

abbrev Path := Bytes

/-! ## `str::replace` -/

/-- `skip` = bytes of the current match that are still to be consumed -/
def replaceGo (pat to : Bytes) : Nat → Bytes → Bytes
  | _, [] => []
  | skip + 1, _ :: cs => replaceGo pat to skip cs
  | 0, c :: cs =>
    if pat.isPrefixOf (c :: cs) then to ++ replaceGo pat to (pat.length - 1) cs
    else c :: replaceGo pat to 0 cs

/-- `s.replace(pat, to)` for a non-empty pattern -/
def strReplace (s pat to : Bytes) : Bytes := replaceGo pat to 0 s

/-- `"{locale}"` -/
def localePat : Bytes := [123, 108, 111, 99, 97, 108, 101, 125]
/-- `"{res_id}"` -/
def resIdPat : Bytes := [123, 114, 101, 115, 95, 105, 100, 125]

/-- `path_scheme.replace("{locale}", locale).replace("{res_id}", resource_id)` -/
def pathOf (scheme locale resId : Bytes) : Path :=
  strReplace (strReplace scheme localePat locale) resIdPat resId

/-! ## file system and cache -/

/-- `io::Error` as far as callers can tell kinds apart -/
inductive IoErr where
  | notFound | isDir | invalidData | other (code : Nat)
deriving DecidableEq, Repr

/-- `io::Result<String>` of `fs::read_to_string` -/
inductive ReadResult where
  | ok (content : Bytes)
  | err (e : IoErr)
deriving DecidableEq, Repr

/-- what reading `path` yields at the moment of the manager's `t`-th read -/
abbrev World := Nat → Path → ReadResult

structure LogEntry where
  tick : Nat
  path : Path
  result : ReadResult
deriving DecidableEq, Repr

abbrev Cache := List (Path × Resource)

def cacheGet : Cache → Path → Option Resource
  | [], _ => none
  | (k, v) :: rest, p => if k = p then some v else cacheGet rest p

/-- `FrozenMap::insert` = `entry(k).or_insert(v)` -/
def cacheInsert (c : Cache) (p : Path) (r : Resource) : Cache :=
  match cacheGet c p with
  | some _ => c
  | none => c ++ [(p, r)]

structure Mgr where
  scheme : Bytes
  cache : Cache
  clock : Nat            -- ghost
  log : List LogEntry    -- ghost

/-- `ResourceManager::new(path_scheme)` -/
def Mgr.new (scheme : Bytes) : Mgr := ⟨scheme, [], 0, []⟩

/-- `get_resource(resource_id, locale)` -/
def getResource (w : World) (parse : Bytes → Resource) (m : Mgr) (resId locale : Bytes) :
    Mgr × Except IoErr Resource :=
  let path := pathOf m.scheme locale resId
  match cacheGet m.cache path with
  | some r => (m, .ok r)
  | none =>
    match w m.clock path with
    | .err e =>
      ({ m with clock := m.clock + 1, log := m.log ++ [⟨m.clock, path, .err e⟩] }, .error e)
    | .ok content =>
      let r := parse content
      ({ m with cache := cacheInsert m.cache path r, clock := m.clock + 1,
                log := m.log ++ [⟨m.clock, path, .ok content⟩] }, .ok r)

/-! ## bundles -/

/-- `ResourceManagerError` -/
inductive MgrError where
  | io (e : IoErr)
  | fluent (e : Overriding)
deriving DecidableEq, Repr

/-- `FluentBundle<&FluentResource>`: its locales and its registry -/
structure FBundle where
  locales : List Bytes
  reg : Bundle

/-- the `for resource_id in &resource_ids { … }` loop of `get_bundle` / `get_bundles` -/
def loadLoop (w : World) (parse : Bytes → Resource) (locale : Bytes) :
    List Bytes → Mgr → Bundle → Mgr × Bundle × List MgrError
  | [], m, b => (m, b, [])
  | rid :: rest, m, b =>
    match getResource w parse m rid locale with
    | (m', .ok res) =>
      let r := loadLoop w parse locale rest m' (addResource b res).1
      (r.1, r.2.1, (addResource b res).2.map MgrError.fluent ++ r.2.2)
    | (m', .error e) =>
      let r := loadLoop w parse locale rest m' b
      (r.1, r.2.1, MgrError.io e :: r.2.2)

abbrev BundleResult := Except (List MgrError) FBundle

/-- `if errors.is_empty() { Ok(bundle) } else { Err(errors) }` -/
def finish (locales : List Bytes) (b : Bundle) (errs : List MgrError) : BundleResult :=
  if errs.isEmpty then .ok ⟨locales, b⟩ else .error errs

inductive Outcome (α : Type) where
  | done (a : α)
  | panic

/-- `get_bundle(locales, resource_ids)` -/
def getBundle (w : World) (parse : Bytes → Resource) (m : Mgr) (locales ids : List Bytes) :
    Mgr × Outcome BundleResult :=
  match locales with
  | [] => (m, .panic)                      -- `&locales[0]`
  | locale :: _ =>
    let r := loadLoop w parse locale ids m Bundle.empty
    (r.1, .done (finish locales r.2.1 r.2.2))

/-- state of the `iter::from_fn` closure returned by `get_bundles` -/
structure BundlesIter where
  locales : List Bytes
  ids : List Bytes
  idx : Nat

/-- `get_bundles(locales, resource_ids)`: no I/O, nothing is evaluated -/
def getBundles (locales ids : List Bytes) : BundlesIter := ⟨locales, ids, 0⟩

/-- `Iterator::next` of that closure -/
def BundlesIter.next (w : World) (parse : Bytes → Resource) (m : Mgr) (it : BundlesIter) :
    Mgr × BundlesIter × Option BundleResult :=
  match it.locales[it.idx]? with
  | none => (m, it, none)
  | some locale =>
    let r := loadLoop w parse locale it.ids m Bundle.empty
    (r.1, { it with idx := it.idx + 1 }, some (finish [locale] r.2.1 r.2.2))

/-! ## request histories -/

inductive Req where
  | bundle (locales ids : List Bytes)       -- `get_bundle`
  | openIter (locales ids : List Bytes)     -- `get_bundles` (the iterator is kept)
  | next (h : Nat)                          -- `next()` on the `h`-th iterator opened

inductive Resp where
  | bundle (r : Outcome BundleResult)
  | opened
  | item (r : Option BundleResult)
  | noSuchIter

structure Sys where
  mgr : Mgr
  iters : List BundlesIter

def stepReq (w : World) (parse : Bytes → Resource) (s : Sys) : Req → Sys × Resp
  | .bundle locales ids =>
    let r := getBundle w parse s.mgr locales ids
    (⟨r.1, s.iters⟩, .bundle r.2)
  | .openIter locales ids => (⟨s.mgr, s.iters ++ [getBundles locales ids]⟩, .opened)
  | .next h =>
    match s.iters[h]? with
    | none => (s, .noSuchIter)
    | some it =>
      let r := it.next w parse s.mgr
      (⟨r.1, s.iters.set h r.2.1⟩, .item r.2.2)

def Sys.new (scheme : Bytes) : Sys := ⟨Mgr.new scheme, []⟩

/-- the system after a history of requests against the world `w` -/
def runReqs (w : World) (parse : Bytes → Resource) (scheme : Bytes) (reqs : List Req) : Sys :=
  reqs.foldl (fun s r => (stepReq w parse s r).1) (Sys.new scheme)

end FluentModel.ResMgr
