import FluentModel.Ast
import FluentModel.Args
import FluentModel.Num
import FluentModel.Generated
/-!
# Model of the resolver (`fluent-bundle/src/resolver/{pattern,expression,inline_expression,scope,errors}.rs`,
`types/mod.rs` `matches`/`write`/`into_string`, `bundle.rs` `format_pattern`/`write_pattern`)

A function-for-function transcription.  `Scope` is threaded explicitly; the writer `w` is the
byte string produced so far.  Everything the bundle is configured with — the entry lookups (the
registry, C10), registered functions, text transform, value formatter, the plural-category
function of the bundle's first locale (C12), string-literal unescaping (C13), stringification of
custom values (memoizer flavour, C14) — is a field of `Env`: total functions, recorded as contracts.

Panic sites: the `u8` placeable counter (`+= 1`), `key.matches` (`unwrap` on the plural rules) and
`write_error`'s exhaustive match (total after the fix).  Recursion through message/term references
takes fuel; `Props/C06` proves it is never exhausted for the fuel the driver passes.
-/
namespace FluentModel.Resolver
open FluentModel.Syntax FluentModel.Num

/-- `FluentValue` -/
inductive Value where
  | str (b : Bytes)
  | num (n : FluentNumber)
  | custom (tag : Bytes)
  | none
  | error
  deriving Repr, DecidableEq

abbrev ArgList := List (Bytes × Value)     -- `FluentArgs`: sorted by key (C11)

def ArgList.get (a : ArgList) (k : Bytes) : Option Value := Args.getL bytesLt a k
def ArgList.ofPairs (ps : List (Bytes × Value)) : ArgList := Args.fromPairs bytesLt ps

inductive Category where
  | zero | one | two | few | many | other
  deriving Repr, DecidableEq

/-- `ReferenceKind` -/
inductive RefKind where
  | function (id : Bytes)
  | message (id : Bytes) (attr : Option Bytes)
  | term (id : Bytes) (attr : Option Bytes)
  | variable (id : Bytes)
  deriving Repr, DecidableEq

/-- `ResolverError` -/
inductive RErr where
  | reference (k : RefKind)
  | noValue (id : Bytes)
  | missingDefault
  | cyclic
  | tooManyPlaceables
  deriving Repr, DecidableEq

/-- what a registered function is: a total pure map from resolved positional and named arguments -/
abbrev Fn := List Value → ArgList → Value

/-- the bundle as the resolver sees it -/
structure Env where
  msg : Bytes → Option (Message Bytes)          -- `get_entry_message`
  term : Bytes → Option (Term Bytes)            -- `get_entry_term`
  fn : Bytes → Option Fn                        -- `get_entry_function`
  useIsolating : Bool
  transform : Option (Bytes → Bytes)
  formatter : Option (Value → Option Bytes)
  /-- plural category of a number under the bundle's first locale; `none` = the Rust code panics -/
  category : FluentNumber → Option Category
  /-- `FluentValue::try_number` (C12): a number when `f64::from_str` accepts the text, else the string -/
  tryNumber : Bytes → Value
  unescape : Bytes → Bytes                      -- `unescape_unicode` (C13)
  customStr : Bytes → Bytes                     -- `intls.stringify_value`
  args : Option ArgList                         -- the caller's arguments

/-- `Scope` (the mutable part) -/
structure Scope where
  localArgs : Option ArgList := none
  placeables : Nat := 0
  travelled : List (Pattern Bytes) := []
  errors : List RErr := []
  dirty : Bool := false

def Scope.addError (sc : Scope) (e : RErr) : Scope := { sc with errors := sc.errors ++ [e] }

inductive RR (α : Type) where
  | ok (a : α)
  | panic (site : String)
  | fuel

/-! ## structural equality of patterns (`travelled.contains(&pattern)` compares with `PartialEq`) -/

def optBytesEq : Option Bytes → Option Bytes → Bool
  | some a, some b => a == b
  | .none, .none => true
  | _, _ => false

def vkeyEq : VKey Bytes → VKey Bytes → Bool
  | .ident a, .ident b => a == b
  | .num a, .num b => a == b
  | _, _ => false

mutual
def inlineEq : Inline Bytes → Inline Bytes → Bool
  | .str a, .str b => a == b
  | .num a, .num b => a == b
  | .fn i p n, .fn i' p' n' => i == i' && inlinesEq p p' && namedEq n n'
  | .msg i a, .msg i' a' => i == i' && optBytesEq a a'
  | .term i a .none, .term i' a' .none => i == i' && optBytesEq a a'
  | .term i a (some (p, n)), .term i' a' (some (p', n')) => i == i' && optBytesEq a a' && inlinesEq p p' && namedEq n n'
  | .var a, .var b => a == b
  | .placeable e, .placeable e' => exprEq e e'
  | _, _ => false
def inlinesEq : List (Inline Bytes) → List (Inline Bytes) → Bool
  | [], [] => true
  | x :: xs, y :: ys => inlineEq x y && inlinesEq xs ys
  | _, _ => false
def namedEq : List (Bytes × Inline Bytes) → List (Bytes × Inline Bytes) → Bool
  | [], [] => true
  | (n, x) :: xs, (m, y) :: ys => n == m && inlineEq x y && namedEq xs ys
  | _, _ => false
def exprEq : Expr Bytes → Expr Bytes → Bool
  | .inline a, .inline b => inlineEq a b
  | .select s vs, .select s' vs' => inlineEq s s' && variantsEq vs vs'
  | _, _ => false
def variantsEq : List (Variant Bytes) → List (Variant Bytes) → Bool
  | [], [] => true
  | v :: vs, v' :: vs' => variantEq v v' && variantsEq vs vs'
  | _, _ => false
def variantEq : Variant Bytes → Variant Bytes → Bool
  | .mk k val d, .mk k' val' d' => vkeyEq k k' && patEq val val' && d == d'
def patEq : List (PatElem Bytes) → List (PatElem Bytes) → Bool
  | [], [] => true
  | e :: es, e' :: es' => elemEq e e' && patEq es es'
  | _, _ => false
def elemEq : PatElem Bytes → PatElem Bytes → Bool
  | .text a, .text b => a == b
  | .placeable e, .placeable e' => exprEq e e'
  | _, _ => false
end

def travelledContains (t : List (Pattern Bytes)) (p : Pattern Bytes) : Bool := t.any (patEq · p)

/-! ## values -/

/-- `FluentValue::write` / `as_string` / `into_string`: the formatter first, then the value's own form -/
def valueString (env : Env) (v : Value) : Bytes :=
  match env.formatter.bind (fun f => f v) with
  | some s => s
  | .none =>
    match v with
    | .str s => s
    | .num n => asString n
    | .custom t => env.customStr t
    | .error => []
    | .none => []

/-- `FluentValue::try_number(value)` on the exact-decimal domain of `Num`; `none` = outside the domain
(the driver then answers `unsupported` before running the resolver) -/
def tryNumberValue (b : Bytes) : Option Value :=
  match tryNumber b with
  | .number n => some (.num n)
  | .notNumber => some (.str b)
  | .unsupported => .none

def categoryOfKeyword (b : Bytes) : Option Category :=
  if b == strBytes "zero" then some .zero
  else if b == strBytes "one" then some .one
  else if b == strBytes "two" then some .two
  else if b == strBytes "few" then some .few
  else if b == strBytes "many" then some .many
  else if b == strBytes "other" then some .other
  else .none

/-- `key.matches(&selector, scope)`; `none` = `unwrap` on a failed plural-rules lookup panics -/
def valueMatches (env : Env) (key selector : Value) : Option Bool :=
  match key, selector with
  | .str a, .str b => some (a == b)
  | .num a, .num b => some (a.eq b)
  | .str a, .num b =>
    (match categoryOfKeyword a with
     | .none => some false
     | some cat => (env.category b).map (· == cat))
  | _, _ => some false

/-! ## `write_error` and error construction -/

mutual
/-- `InlineExpression::write_error` (total) -/
def inlineWriteError : Inline Bytes → Bytes
  | .msg id (some a) => id ++ [46] ++ a
  | .msg id .none => id
  | .term id (some a) _ => [45] ++ id ++ [46] ++ a
  | .term id .none _ => [45] ++ id
  | .fn id _ _ => id ++ [40, 41]
  | .var id => [36] ++ id
  | .str v => [34] ++ v ++ [34]
  | .num v => v
  | .placeable e => exprWriteError e
/-- `Expression::write_error` -/
def exprWriteError : Expr Bytes → Bytes
  | .inline e => inlineWriteError e
  | .select sel _ => inlineWriteError sel
end

/-- `ReferenceKind::from(&InlineExpression)`; `none` = `unreachable!()` -/
def refKindOf : Inline Bytes → Option RefKind
  | .fn id _ _ => some (.function id)
  | .msg id a => some (.message id a)
  | .term id a _ => some (.term id a)
  | .var id => some (.variable id)
  | _ => .none

def braced (b : Bytes) : Bytes := [123] ++ b ++ [125]

def fsi : Bytes := [0xE2, 0x81, 0xA8]   -- U+2068
def pdi : Bytes := [0xE2, 0x81, 0xA9]   -- U+2069

/-- `needs_isolation`: not a message/term reference or string literal -/
def isolatable : Expr Bytes → Bool
  | .inline (.msg _ _) => false
  | .inline (.term _ _ _) => false
  | .inline (.str _) => false
  | _ => true

def findAttr (attrs : List (Attribute Bytes)) (name : Bytes) : Option (Pattern Bytes) :=
  (attrs.find? (fun a => a.id == name)).map (·.value)

def defaultVariant : List (Variant Bytes) → Option (Pattern Bytes)
  | [] => .none
  | .mk _ v d :: rest => if d then some v else defaultVariant rest

/-- `scope.write_ref_error(w, exp)` -/
def writeRefError (w : Bytes) (sc : Scope) (e : Inline Bytes) : RR (Bytes × Scope) :=
  match refKindOf e with
  | .none => .panic "ReferenceKind::from unreachable"
  | some k => .ok (w ++ braced (inlineWriteError e), sc.addError (.reference k))

/-- the `for variant in variants { if key.matches(&selector) … }` loop: first matching variant -/
def selectVariant (env : Env) : List (Variant Bytes) → Value → RR (Option (Pattern Bytes))
  | [], _ => .ok .none
  | .mk key value _ :: rest, selector =>
    let kv : Value := match key with
      | .ident n => .str n
      | .num v => env.tryNumber v
    match valueMatches env kv selector with
    | .none => .panic "plural rules unwrap"
    | some true => .ok (some value)
    | some false => selectVariant env rest selector

/-! ## the mutually recursive core -/

mutual

/-- `Pattern::write`: the loop over `elements` (`len` = number of elements of the whole pattern,
`whole` = the pattern itself, for `maybe_track`) -/
def writeElems (env : Env) : Nat → Pattern Bytes → Nat → List (PatElem Bytes) → Bytes → Scope → RR (Bytes × Scope)
  | 0, _, _, _, _, _ => .fuel
  | _ + 1, _, _, [], w, sc => .ok (w, sc)
  | n + 1, whole, len, el :: rest, w, sc =>
    if sc.dirty then .ok (w, sc)
    else
      match el with
      | .text v =>
        let t := match env.transform with | some f => f v | .none => v
        writeElems env n whole len rest (w ++ t) sc
      | .placeable e =>
        if sc.placeables + 1 > 255 then .panic "placeables u8 overflow"
        else
          let sc1 := { sc with placeables := sc.placeables + 1 }
          if sc1.placeables > Generated.maxPlaceables then
            .ok (w, ({ sc1 with dirty := true }).addError .tooManyPlaceables)
          else
            let iso := env.useIsolating && len > 1 && isolatable e
            let w1 := if iso then w ++ fsi else w
            -- `scope.maybe_track(w, self, expression)`
            let sc2 := if sc1.travelled.isEmpty then { sc1 with travelled := [whole] } else sc1
            match writeExpr env n e w1 sc2 with
            | .ok (w2, sc3) =>
              let w3 := if sc3.dirty then w2 ++ braced (exprWriteError e) else w2
              let w4 := if iso then w3 ++ pdi else w3
              writeElems env n whole len rest w4 sc3
            | .panic m => .panic m
            | .fuel => .fuel

/-- `Pattern::write` -/
def writePattern (env : Env) : Nat → Pattern Bytes → Bytes → Scope → RR (Bytes × Scope)
  | 0, _, _, _ => .fuel
  | n + 1, p, w, sc => writeElems env n p p.length p w sc

/-- `scope.track(w, pattern, exp)` -/
def track (env : Env) : Nat → Pattern Bytes → Inline Bytes → Bytes → Scope → RR (Bytes × Scope)
  | 0, _, _, _, _ => .fuel
  | n + 1, p, e, w, sc =>
    if travelledContains sc.travelled p then
      .ok (w ++ braced (inlineWriteError e), sc.addError .cyclic)
    else
      match writePattern env n p w { sc with travelled := sc.travelled ++ [p] } with
      | .ok (w1, sc1) => .ok (w1, { sc1 with travelled := sc1.travelled.dropLast })
      | .panic m => .panic m
      | .fuel => .fuel

/-- `Expression::write` -/
def writeExpr (env : Env) : Nat → Expr Bytes → Bytes → Scope → RR (Bytes × Scope)
  | 0, _, _, _ => .fuel
  | n + 1, .inline e, w, sc => writeInline env n e w sc
  | n + 1, .select sel variants, w, sc =>
    match resolveInline env n sel sc with
    | .ok (selector, sc1) =>
      (match selector with
       | .str _ | .num _ =>
         (match selectVariant env variants selector with
          | .ok (some v) => writePattern env n v w sc1
          | .ok .none => writeDefault env n variants w sc1
          | .panic m => .panic m
          | .fuel => .fuel)
       | _ => writeDefault env n variants w sc1)
    | .panic m => .panic m
    | .fuel => .fuel

/-- the default-variant tail of `Expression::write` -/
def writeDefault (env : Env) : Nat → List (Variant Bytes) → Bytes → Scope → RR (Bytes × Scope)
  | 0, _, _, _ => .fuel
  | n + 1, variants, w, sc =>
    match defaultVariant variants with
    | some v => writePattern env n v w sc
    | .none => .ok (w, sc.addError .missingDefault)

/-- `InlineExpression::write` -/
def writeInline (env : Env) : Nat → Inline Bytes → Bytes → Scope → RR (Bytes × Scope)
  | 0, _, _, _ => .fuel
  | _ + 1, .str v, w, sc => .ok (w ++ env.unescape v, sc)
  | _ + 1, .num v, w, sc => .ok (w ++ valueString env (env.tryNumber v), sc)
  | n + 1, .msg id attr, w, sc =>
    (match env.msg id with
     | some m =>
       (match attr with
        | some a =>
          (match findAttr m.attributes a with
           | some p => track env n p (.msg id attr) w sc
           | .none => writeRefError w sc (.msg id attr))
        | .none =>
          (match m.value with
           | some p => track env n p (.msg id attr) w sc
           | .none => .ok (w ++ braced (inlineWriteError (.msg id attr)), sc.addError (.noValue id))))
     | .none => writeRefError w sc (.msg id attr))
  | n + 1, .term id attr args, w, sc =>
    (match getArguments env n args sc with
     | .ok ((_, named), sc1) =>
       let outer := sc1.localArgs
       let sc2 := { sc1 with localArgs := some named }
       let target : Option (Pattern Bytes) :=
         match env.term id with
         | some t => (match attr with
           | some a => findAttr t.attributes a
           | .none => some t.value)
         | .none => .none
       let r := match target with
         | some p => track env n p (.term id attr args) w sc2
         | .none => writeRefError w sc2 (.term id attr args)
       (match r with
        | .ok (w1, sc3) => .ok (w1, { sc3 with localArgs := outer })
        | .panic m => .panic m
        | .fuel => .fuel)
     | .panic m => .panic m
     | .fuel => .fuel)
  | n + 1, .fn id pos named, w, sc =>
    (match getArguments env n (some (pos, named)) sc with
     | .ok ((rp, rn), sc1) =>
       (match env.fn id with
        | some f =>
          (match f rp rn with
           | .error => .ok (w ++ inlineWriteError (.fn id pos named), sc1)
           | result => .ok (w ++ valueString env result, sc1))
        | .none => writeRefError w sc1 (.fn id pos named))
     | .panic m => .panic m
     | .fuel => .fuel)
  | _ + 1, .var id, w, sc =>
    let args := match sc.localArgs with | some l => some l | .none => env.args
    (match args.bind (·.get id) with
     | some v => .ok (w ++ valueString env v, sc)
     | .none =>
       let sc1 := if sc.localArgs.isNone then sc.addError (.reference (.variable id)) else sc
       .ok (w ++ braced (inlineWriteError (.var id)), sc1))
  | n + 1, .placeable e, w, sc => writeExpr env n e w sc

/-- `InlineExpression::resolve` -/
def resolveInline (env : Env) : Nat → Inline Bytes → Scope → RR (Value × Scope)
  | 0, _, _ => .fuel
  | _ + 1, .str v, sc => .ok (.str (env.unescape v), sc)
  | _ + 1, .num v, sc => .ok (env.tryNumber v, sc)
  | _ + 1, .var id, sc =>
    (match sc.localArgs with
     | some l =>
       (match l.get id with
        | some v => .ok (v, sc)
        | .none => .ok (.error, sc))
     | .none =>
       (match env.args.bind (·.get id) with
        | some v => .ok (v, sc)
        | .none => .ok (.error, sc.addError (.reference (.variable id)))))
  | n + 1, .fn id pos named, sc =>
    (match getArguments env n (some (pos, named)) sc with
     | .ok ((rp, rn), sc1) =>
       (match env.fn id with
        | some f => .ok (f rp rn, sc1)
        | .none => .ok (.error, sc1.addError (.reference (.function id))))
     | .panic m => .panic m
     | .fuel => .fuel)
  | n + 1, e, sc =>
    -- `_ => { let mut result = String::new(); self.write(&mut result, scope); result.into() }`
    (match writeInline env n e [] sc with
     | .ok (w, sc1) => .ok (.str w, sc1)
     | .panic m => .panic m
     | .fuel => .fuel)

/-- `scope.get_arguments(arguments)` -/
def getArguments (env : Env) : Nat → Option (List (Inline Bytes) × List (Bytes × Inline Bytes)) → Scope →
    RR ((List Value × ArgList) × Scope)
  | 0, _, _ => .fuel
  | _ + 1, .none, sc => .ok (([], []), sc)
  | n + 1, some (pos, named), sc =>
    match resolveList env n pos sc with
    | .ok (vs, sc1) =>
      (match resolveNamed env n named sc1 with
       | .ok (ns, sc2) => .ok ((vs, ArgList.ofPairs ns), sc2)
       | .panic m => .panic m
       | .fuel => .fuel)
    | .panic m => .panic m
    | .fuel => .fuel

def resolveList (env : Env) : Nat → List (Inline Bytes) → Scope → RR (List Value × Scope)
  | 0, _, _ => .fuel
  | _ + 1, [], sc => .ok ([], sc)
  | n + 1, e :: es, sc =>
    match resolveInline env n e sc with
    | .ok (v, sc1) =>
      (match resolveList env n es sc1 with
       | .ok (vs, sc2) => .ok (v :: vs, sc2)
       | .panic m => .panic m
       | .fuel => .fuel)
    | .panic m => .panic m
    | .fuel => .fuel

def resolveNamed (env : Env) : Nat → List (Bytes × Inline Bytes) → Scope → RR (List (Bytes × Value) × Scope)
  | 0, _, _ => .fuel
  | _ + 1, [], sc => .ok ([], sc)
  | n + 1, (k, e) :: es, sc =>
    match resolveInline env n e sc with
    | .ok (v, sc1) =>
      (match resolveNamed env n es sc1 with
       | .ok (vs, sc2) => .ok ((k, v) :: vs, sc2)
       | .panic m => .panic m
       | .fuel => .fuel)
    | .panic m => .panic m
    | .fuel => .fuel

end

/-- `Pattern::resolve` (top level of `format_pattern`): the single-text fast path, else `write` -/
def resolvePattern (env : Env) (fuel : Nat) (p : Pattern Bytes) (sc : Scope) : RR (Bytes × Scope) :=
  match p with
  | [.text v] => .ok ((match env.transform with | some f => f v | .none => v), sc)
  | _ => writePattern env fuel p [] sc

/-- `FluentBundle::format_pattern` -/
def formatPattern (env : Env) (fuel : Nat) (p : Pattern Bytes) : RR (Bytes × List RErr) :=
  match resolvePattern env fuel p {} with
  | .ok (w, sc) => .ok (w, sc.errors)
  | .panic m => .panic m
  | .fuel => .fuel

/-- `FluentBundle::write_pattern` -/
def writePatternTop (env : Env) (fuel : Nat) (p : Pattern Bytes) : RR (Bytes × List RErr) :=
  match writePattern env fuel p [] {} with
  | .ok (w, sc) => .ok (w, sc.errors)
  | .panic m => .panic m
  | .fuel => .fuel

end FluentModel.Resolver
