import FluentModel.Ast
/-!
# Model of the FTL parser (`fluent-syntax/src/parser/{core,helper,pattern,expression,comment,runtime}.rs`)

A function-for-function transcription working on the UTF-8 bytes of the source
(`Src = Array UInt8`) with an explicit cursor.  Every string the Rust parser produces is a slice
of its input; the model produces the byte range (`Span`).  Conventions (DESIGN §4):

* A Rust method `fn f(&mut self, ..) -> Result<T>` becomes `f s .. p : R T`: `ok v p'` (value and
  new cursor), `err e p'` (the `ParserError` and the cursor at the time of the early return — the
  callers `get_attributes` and `parse` use it), `panic` (a Rust panic site was reached) or `fuel`.
* `self.source.slice(a..b)` is Rust's `&str[a..b]` / `String[a..b]`: it panics unless
  `a ≤ b ≤ len` and both ends are char boundaries (`slice`).
* `usize` subtraction is checked (`usub`): underflow is a panic in debug builds.
* single loops recurse structurally on `s.size - p` (which can never run out before the loop's own
  exit condition `s[p]? = none` fires); the mutually recursive expression/pattern functions and the
  entry loops take explicit fuel and report `R.fuel`; `Props/C01` proves it is never reported for
  the fuel the driver passes.
-/
namespace FluentModel.Syntax

abbrev Src := Array UInt8

/-- `ErrorKind` -/
inductive EK where
  | expectedToken (b : UInt8)
  | expectedCharRange (r : Nat)          -- 0 = "a-zA-Z", 1 = "0-9", 2 = "\n | \r\n"
  | expectedMessageField (id : Span)
  | expectedTermField (id : Span)
  | forbiddenCallee
  | missingDefaultVariant
  | missingValue
  | multipleDefaultVariants
  | messageReferenceAsSelector
  | termReferenceAsSelector
  | messageAttributeAsSelector
  | termAttributeAsPlaceable
  | unterminatedStringLiteral
  | positionalArgumentFollowsNamed
  | duplicatedNamedArgument (name : Span)
  | unknownEscapeSequence (b : Option UInt8)   -- Rust prints `u8::to_string` of the byte, `' '` at EOF
  | invalidUnicodeEscapeSequence (seq : Span)
  | unbalancedClosingBrace
  | expectedInlineExpression
  | expectedSimpleExpressionAsSelector
  | expectedLiteral
  deriving Repr, DecidableEq

/-- `ParserError` -/
structure PErr where
  posStart : Nat
  posEnd : Nat
  slice : Option (Nat × Nat)
  kind : EK
  deriving Repr, DecidableEq

/-- `error!(kind, start)` -/
def mkErr (k : EK) (start : Nat) : PErr := ⟨start, start + 1, none, k⟩
/-- `error!(kind, start, end)` -/
def mkErr2 (k : EK) (start stop : Nat) : PErr := ⟨start, stop, none, k⟩

inductive R (α : Type) where
  | ok (a : α) (p : Nat)
  | err (e : PErr) (p : Nat)
  | panic (site : String)
  | fuel
  deriving Repr

/-! ## bytes, boundaries, slices -/

/-- Rust `str::is_char_boundary` -/
def isBoundary (s : Src) (i : Nat) : Bool :=
  i == 0 || i == s.size ||
    (match s[i]? with
     | some b => (b &&& 0xC0) != 0x80
     | none => false)

/-- `self.source.slice(a..b)`: `Some` when Rust's slicing succeeds, `None` when it panics -/
def slice (s : Src) (a b : Nat) : Option Span :=
  if a ≤ b ∧ b ≤ s.size ∧ isBoundary s a ∧ isBoundary s b then some ⟨a, b⟩ else none

/-- checked `usize` subtraction -/
def usub (a b : Nat) : Option Nat := if b ≤ a then some (a - b) else none

def spanBytes (s : Src) (sp : Span) : Bytes := (s.extract sp.start sp.stop).toList

def isAlpha (b : UInt8) : Bool := (65 ≤ b && b ≤ 90) || (97 ≤ b && b ≤ 122)
def isDigit (b : UInt8) : Bool := 48 ≤ b && b ≤ 57
def isUpper (b : UInt8) : Bool := 65 ≤ b && b ≤ 90
def isHexDigit (b : UInt8) : Bool := isDigit b || (65 ≤ b && b ≤ 70) || (97 ≤ b && b ≤ 102)
def isIdentByte (b : UInt8) : Bool := isAlpha b || isDigit b || b == 45 || b == 95

/-! ## helper.rs -/

def isCurrentByte (s : Src) (p : Nat) (b : UInt8) : Bool := s[p]? == some b

/-- `skip_blank_inline` (returns the new cursor; the count is `new - old`) -/
def skipBlankInlineGo (s : Src) : Nat → Nat → Nat
  | 0, p => p
  | n + 1, p => if s[p]? == some 32 then skipBlankInlineGo s n (p + 1) else p
def skipBlankInline (s : Src) (p : Nat) : Nat := skipBlankInlineGo s (s.size - p) p

/-- `skip_eol`: `none` = false (cursor unchanged) -/
def skipEol (s : Src) (p : Nat) : Option Nat :=
  match s[p]? with
  | some 10 => some (p + 1)
  | some 13 => if s[p + 1]? == some 10 then some (p + 2) else none
  | _ => none

/-- `is_eol` -/
def isEol (s : Src) (p : Nat) : Bool :=
  match s[p]? with
  | some 10 => true
  | some 13 => s[p + 1]? == some 10
  | none => true
  | _ => false

/-- `skip_blank_block`: (new cursor, number of blank lines) -/
def skipBlankBlockGo (s : Src) : Nat → Nat → Nat → Nat × Nat
  | 0, p, c => (p, c)
  | n + 1, p, c =>
    match skipEol s (skipBlankInline s p) with
    | some p' => skipBlankBlockGo s n p' (c + 1)
    -- spaces that run to the end of input are a blank line, too
    | none => if skipBlankInline s p < s.size then (p, c) else (skipBlankInline s p, c)
def skipBlankBlock (s : Src) (p : Nat) : Nat × Nat := skipBlankBlockGo s (s.size - p + 1) p 0

/-- `skip_blank` -/
def skipBlankGo (s : Src) : Nat → Nat → Nat
  | 0, p => p
  | n + 1, p =>
    match s[p]? with
    | some 32 => skipBlankGo s n (p + 1)
    | some 10 => skipBlankGo s n (p + 1)
    | some 13 => if s[p + 1]? == some 10 then skipBlankGo s n (p + 2) else p
    | _ => p
def skipBlank (s : Src) (p : Nat) : Nat := skipBlankGo s (s.size - p) p

/-- `skip_to_next_entry_start` -/
def skipToNextEntryStartGo (s : Src) : Nat → Nat → Nat
  | 0, p => p
  | n + 1, p =>
    match s[p]? with
    | none => p
    | some b =>
      let newLine := p == 0 || s[p - 1]? == some 10
      if newLine && (isAlpha b || b == 45 || b == 35) then p
      else skipToNextEntryStartGo s n (p + 1)
/-- `bytes[a..b].iter().rposition(|b| *b == b'\n')` as an absolute position -/
def rposNewlineGo (s : Src) (a : Nat) : Nat → Nat → Option Nat
  | 0, _ => none
  | n + 1, b => if b > a then (if s[b - 1]? == some 10 then some (b - 1) else rposNewlineGo s a n (b - 1)) else none
def rposNewline (s : Src) (a b : Nat) : Option Nat := rposNewlineGo s a (b - a) b

/-- `skip_to_next_entry_start(entry_start)`: rewind to the start of the line the error was found
on (never into the broken entry's first line), then scan.  `none` = the Rust slice
`bytes[entry_start..error_pos]` would panic. -/
def skipToNextEntryStart (s : Src) (entryStart p : Nat) : Option Nat :=
  let errorPos := min p s.size
  if entryStart ≤ errorPos then
    let p' := match rposNewline s entryStart errorPos with
      | some nl => nl + 1
      | none => p
    some (skipToNextEntryStartGo s (s.size - p') p')
  else none

/-- "the position of the error must be inside of the Junk" -/
def clampErr (e : PErr) (q : Nat) : PErr :=
  if q < e.posStart then { e with posStart := q, posEnd := q + 1 } else e

/-- `expect_byte` -/
def expectByte (s : Src) (p : Nat) (b : UInt8) : R Unit :=
  if isCurrentByte s p b then .ok () (p + 1) else .err (mkErr (.expectedToken b) p) p

/-- `take_byte_if`: new cursor and whether the byte was taken -/
def takeByteIf (s : Src) (p : Nat) (b : UInt8) : Nat × Bool :=
  if isCurrentByte s p b then (p + 1, true) else (p, false)

def isIdentifierStart (s : Src) (p : Nat) : Bool :=
  match s[p]? with
  | some b => isAlpha b
  | none => false

def isNumberStart (s : Src) (p : Nat) : Bool :=
  match s[p]? with
  | some b => isDigit b || b == 45
  | none => false

/-- scan while `pred` holds -/
def scanWhileGo (s : Src) (pred : UInt8 → Bool) : Nat → Nat → Nat
  | 0, p => p
  | n + 1, p =>
    match s[p]? with
    | some b => if pred b then scanWhileGo s pred n (p + 1) else p
    | none => p
def scanWhile (s : Src) (pred : UInt8 → Bool) (p : Nat) : Nat := scanWhileGo s pred (s.size - p) p

/-- `skip_digits` -/
def skipDigits (s : Src) (p : Nat) : R Unit :=
  let p' := scanWhile s isDigit p
  if p' == p then .err (mkErr (.expectedCharRange 1) p) p else .ok () p'

/-- `get_number_literal` -/
def getNumberLiteral (s : Src) (p : Nat) : R Span :=
  let start := p
  let (p1, _) := takeByteIf s p 45
  match skipDigits s p1 with
  | .ok _ p2 =>
    let (p3, dot) := takeByteIf s p2 46
    if dot then
      match skipDigits s p3 with
      | .ok _ p4 => (match slice s start p4 with | some sp => .ok sp p4 | none => .panic "get_number_literal slice")
      | .err e q => .err e q
      | .panic m => .panic m
      | .fuel => .fuel
    else (match slice s start p3 with | some sp => .ok sp p3 | none => .panic "get_number_literal slice")
  | .err e q => .err e q
  | .panic m => .panic m
  | .fuel => .fuel

/-- `get_identifier_unchecked` (`p` is already one past the first byte) -/
def getIdentifierUnchecked (s : Src) (p : Nat) : R Span :=
  let p' := scanWhile s isIdentByte p
  match usub p 1 with
  | none => .panic "get_identifier_unchecked: ptr - 1 underflow"
  | some a =>
    match slice s a p' with
    | some sp => .ok sp p'
    | none => .panic "get_identifier_unchecked slice"

/-- `get_identifier` -/
def getIdentifier (s : Src) (p : Nat) : R Span :=
  if !isIdentifierStart s p then .err (mkErr (.expectedCharRange 0) p) p
  else getIdentifierUnchecked s (p + 1)

/-- `get_attribute_accessor` -/
def getAttributeAccessor (s : Src) (p : Nat) : R (Option Span) :=
  let (p1, dot) := takeByteIf s p 46
  if dot then
    match getIdentifier s p1 with
    | .ok id q => .ok (some id) q
    | .err e q => .err e q
    | .panic m => .panic m
    | .fuel => .fuel
  else .ok none p1

/-- smallest char boundary `≥ i` (bounded by the source length) -/
def nextBoundaryGo (s : Src) : Nat → Nat → Nat
  | 0, i => i
  | n + 1, i => if isBoundary s i then i else nextBoundaryGo s n (i + 1)
def nextBoundary (s : Src) (i : Nat) : Nat := nextBoundaryGo s (s.size - i) i

/-- `skip_unicode_escape_sequence(length)`: the `for` loop -/
def skipHexGo (s : Src) : Nat → Nat → Nat
  | 0, p => p
  | n + 1, p =>
    match s[p]? with
    | some b => if isHexDigit b then skipHexGo s n (p + 1) else p
    | none => p

def skipUnicodeEscapeSequence (s : Src) (p : Nat) (length : Nat) : R Unit :=
  let start := p
  let p' := skipHexGo s length p
  if p' - start != length then
    let stop := if p' ≥ s.size then p' else nextBoundary s (p' + 1)
    match slice s start stop with
    | some seq => .err (mkErr (.invalidUnicodeEscapeSequence seq) p') p'
    | none => .panic "skip_unicode_escape_sequence slice"
  else .ok () p'

/-- body of a string literal: the `while let Some(b) = get_current_byte!()` loop of
`get_inline_expression`; returns the cursor at the closing quote / EOF -/
def scanStringGo (s : Src) : Nat → Nat → R Unit
  | 0, p => .ok () p
  | n + 1, p =>
    match s[p]? with
    | none => .ok () p
    | some 92 =>       -- backslash
      (match s[p + 1]? with
       | some 92 => scanStringGo s n (p + 2)
       | some 34 => scanStringGo s n (p + 2)
       | some 117 =>   -- u
         (match skipUnicodeEscapeSequence s (p + 2) 4 with
          | .ok _ q => scanStringGo s n q
          | .err e q => .err e q
          | .panic m => .panic m
          | .fuel => .fuel)
       | some 85 =>    -- U
         (match skipUnicodeEscapeSequence s (p + 2) 6 with
          | .ok _ q => scanStringGo s n q
          | .err e q => .err e q
          | .panic m => .panic m
          | .fuel => .fuel)
       | b => .err (mkErr (.unknownEscapeSequence b) p) p)
    | some 34 => .ok () p
    | some 10 => .err (mkErr .unterminatedStringLiteral p) p
    | some _ => scanStringGo s n (p + 1)
def scanString (s : Src) (p : Nat) : R Unit := scanStringGo s (s.size - p) p

/-- `is_callee` -/
def isCallee (s : Src) (sp : Span) : Bool :=
  (spanBytes s sp).all fun c => isUpper c || isDigit c || c == 95 || c == 45

def isBytePatternContinuation (b : UInt8) : Bool := !(b == 46 || b == 125 || b == 91 || b == 42)

/-! ## pattern.rs -/

inductive Termination where
  | lineFeed | crlf | placeableStart | eof
  deriving Repr, DecidableEq

inductive TextPos where
  | initialLineStart | lineStart | continuation
  deriving Repr, DecidableEq

inductive Placeholder where
  | placeable (e : Expr Span)
  | text (start stop indent : Nat) (role : TextPos)

/-- `memchr3(b'\n', b'{', b'}', rest)` as an absolute position -/
def memchr3Go (s : Src) : Nat → Nat → Option Nat
  | 0, _ => none
  | n + 1, p =>
    match s[p]? with
    | none => none
    | some b => if b == 10 || b == 123 || b == 125 then some p else memchr3Go s n (p + 1)
def memchr3 (s : Src) (p : Nat) : Option Nat := memchr3Go s (s.size - p) p

/-- `text.iter().any(|&c| c != b' ')` on `s[a..b]` -/
def nonBlankGo (s : Src) : Nat → Nat → Nat → Bool
  | 0, _, _ => false
  | n + 1, a, b =>
    if a < b then
      match s[a]? with
      | some c => if c != 32 then true else nonBlankGo s n (a + 1) b
      | none => false
    else false
def nonBlank (s : Src) (a b : Nat) : Bool := nonBlankGo s (b - a) a b

/-- `get_text_slice`: `(start, end, nonBlank, termination)` and the new cursor -/
def getTextSlice (s : Src) (p : Nat) : R (Nat × Nat × Bool × Termination) :=
  if p > s.size then .ok (p, p, false, .eof) p     -- `get(ptr..)` is `None`
  else
    match memchr3 s p with
    | none => .ok (p, s.size, nonBlank s p s.size, .eof) s.size
    | some e =>
      match s[e]? with
      | some 125 => .err (mkErr .unbalancedClosingBrace e) e
      | some 10 =>
        if e > p ∧ s[e - 1]? == some 13 then
          -- text = s[p .. e-1), cursor left AT the '\n'
          .ok (p, e - 1, nonBlank s p (e - 1), .crlf) e
        else .ok (p, e + 1, nonBlank s p e, .lineFeed) (e + 1)
      | some 123 => .ok (p, e, nonBlank s p e, .placeableStart) e
      | _ => .panic "get_text_slice unreachable"

/-- `Slice::trim` on a span: `trim_end_matches(' ' | '\r' | '\n')` -/
def trimEndGo (s : Src) (start : Nat) : Nat → Nat → Nat
  | 0, e => e
  | n + 1, e =>
    if e > start then
      match s[e - 1]? with
      | some b => if b == 32 || b == 13 || b == 10 then trimEndGo s start n (e - 1) else e
      | none => e
    else e
def trimEnd (s : Src) (sp : Span) : Span := ⟨sp.start, trimEndGo s sp.start (sp.stop - sp.start) sp.stop⟩

/-- the final `.map(...)` of `get_pattern` over the first `last_non_blank + 1` placeholders -/
def finishElements (s : Src) (commonIndent : Option Nat) (lastNonBlank : Nat) :
    Nat → List Placeholder → Option (List (PatElem Span))
  | _, [] => some []
  | i, ph :: rest =>
    if i > lastNonBlank then some [] else
    match ph with
    | .placeable e => (finishElements s commonIndent lastNonBlank (i + 1) rest).map (PatElem.placeable e :: ·)
    | .text start stop indent role =>
      let start' :=
        if role == .lineStart then
          match commonIndent with
          | none => start + indent
          | some c => start + min indent c
        else start
      if start' == stop then
        -- the indent of a placeable-led line was entirely common indent: no element
        finishElements s commonIndent lastNonBlank (i + 1) rest
      else
      match slice s start' stop with
      | none => none
      | some sp =>
        let sp' := if lastNonBlank == i then trimEnd s sp else sp
        (finishElements s commonIndent lastNonBlank (i + 1) rest).map (PatElem.text sp' :: ·)

structure PatState where
  elements : List Placeholder      -- in order
  lastNonBlank : Option Nat
  commonIndent : Option Nat
  role : TextPos
  /-- `kept_common_indent`: the common indent when `last_non_blank` was last set -/
  keptCommonIndent : Option Nat := none

/-! ## expression.rs, core.rs — the mutually recursive part (explicit fuel) -/

mutual

/-- the `while self.ptr < self.length` loop of `get_pattern` -/
def getPatternLoop (s : Src) : Nat → PatState → Nat → R PatState
  | 0, _, _ => .fuel
  | n + 1, st, p =>
    if p < s.size then
      if isCurrentByte s p 123 then
        let st1 := if st.role == .lineStart then { st with commonIndent := some 0 } else st
        match getPlaceable s n (p + 1) with
        | .ok e q =>
          getPatternLoop s n { st1 with lastNonBlank := some st1.elements.length,
                                        keptCommonIndent := st1.commonIndent,
                                        elements := st1.elements ++ [.placeable e],
                                        role := .continuation } q
        | .err e q => .err e q
        | .panic m => .panic m
        | .fuel => .fuel
      else
        let sliceStart := p
        -- `LineStart`: measure the indent and decide whether the pattern continues
        let pre : Option (Nat × Nat) :=      -- some (indent, cursor) = go on; none = break
          if st.role == .lineStart then
            let p1 := skipBlankInline s p
            let indent := p1 - p
            match s[p1]? with
            | some b =>
              if indent == 0 then
                if !isEol s p1 then none else some (indent, p1)
              else if !isBytePatternContinuation b then none
              else some (indent, p1)
            | none => none
          else some (0, p)
        match pre with
        | none =>
          -- `break` (cursor: `slice_start` when the line is not a continuation, else where
          -- skip_blank_inline left it)
          let p1 := skipBlankInline s p
          let indent := p1 - p
          let pEnd :=
            match s[p1]? with
            | some b => if indent == 0 then p1 else if !isBytePatternContinuation b then sliceStart else p1
            | none => p1
          .ok st pEnd
        | some (indent, p1) =>
          match getTextSlice s p1 with
          | .ok (start, stop, nonBlank, term) q =>
            -- a line that starts with a placeable takes part in the dedentation as well
            let placeableLed := st.role == .lineStart && term == .placeableStart && start == stop
            let st2 : Option PatState :=
              if start != stop || placeableLed then
                let ci :=
                  if st.role == .lineStart && (nonBlank || placeableLed) then
                    match st.commonIndent with
                    | some c => if indent < c then some indent else some c
                    | none => some indent
                  else st.commonIndent
                if st.role != .lineStart || nonBlank || term == .lineFeed || placeableLed then
                  -- a whitespace-only line contributes only its line break (`end - 1`)
                  let el : Option Placeholder :=
                    if st.role == .lineStart && !nonBlank && !placeableLed then
                      (usub stop 1).map fun a => Placeholder.text a stop 0 st.role
                    else some (.text sliceStart stop indent st.role)
                  -- text made only of characters that `trim` removes does not end the pattern
                  -- (`&source[start..end].trim_end_matches(..).is_empty()`, a slicing site)
                  let survives : Option Bool :=
                    if nonBlank then (slice s start stop).map fun sp => (trimEnd s sp).stop != sp.start
                    else some false
                  match el, survives with
                  | some e, some sv =>
                    some { st with commonIndent := ci,
                                   lastNonBlank := if sv then some st.elements.length else st.lastNonBlank,
                                   keptCommonIndent := if sv then ci else st.keptCommonIndent,
                                   elements := st.elements ++ [e] }
                  | _, _ => none
                else some { st with commonIndent := ci }
              else some st
            let role' := match term with
              | .lineFeed => TextPos.lineStart
              | .crlf => TextPos.lineStart
              | .placeableStart => TextPos.continuation
              | .eof => TextPos.continuation
            (match st2 with
             | some st2 => getPatternLoop s n { st2 with role := role' } q
             | none => .panic "get_pattern: end - 1 underflow or text slice")
          | .err e q => .err e q
          | .panic m => .panic m
          | .fuel => .fuel
    else .ok st p

/-- `get_pattern` -/
def getPattern (s : Src) : Nat → Nat → R (Option (Pattern Span))
  | 0, _ => .fuel
  | n + 1, p =>
    let p1 := skipBlankInline s p
    let (role, p2) :=
      match skipEol s p1 with
      | some q => (TextPos.lineStart, (skipBlankBlock s q).1)
      | none => (TextPos.initialLineStart, p1)
    match getPatternLoop s n ⟨[], none, none, role, none⟩ p2 with
    | .ok st q =>
      (match st.lastNonBlank with
       | some lnb =>
         (match finishElements s st.keptCommonIndent lnb 0 st.elements with
          | some els => .ok (some els) q
          | none => .panic "get_pattern slice")
       | none => .ok none q)
    | .err e q => .err e q
    | .panic m => .panic m
    | .fuel => .fuel

/-- `get_placeable` (cursor is just after `{`) -/
def getPlaceable (s : Src) : Nat → Nat → R (Expr Span)
  | 0, _ => .fuel
  | n + 1, p =>
    let p1 := skipBlank s p
    match getExpression s n p1 with
    | .ok exp q =>
      let q1 := skipBlankInline s q
      (match expectByte s q1 125 with
       | .ok _ q2 =>
         let invalid := match exp with
           | .inline (.term _ (some _) _) => true
           | _ => false
         if invalid then .err (mkErr .termAttributeAsPlaceable q2) q2 else .ok exp q2
       | .err e q2 => .err e q2
       | .panic m => .panic m
       | .fuel => .fuel)
    | .err e q => .err e q
    | .panic m => .panic m
    | .fuel => .fuel

/-- `get_expression` -/
def getExpression (s : Src) : Nat → Nat → R (Expr Span)
  | 0, _ => .fuel
  | n + 1, p =>
    match getInline s n false p with
    | .ok exp q =>
      let q1 := skipBlank s q
      if !(isCurrentByte s q1 45) || !(s[q1 + 1]? == some 62) then
        match exp with
        | .term _ (some _) _ => .err (mkErr .termAttributeAsPlaceable q1) q1
        | _ => .ok (.inline exp) q1
      else
        let bad : Option EK := match exp with
          | .msg _ none => some .messageReferenceAsSelector
          | .msg _ (some _) => some .messageAttributeAsSelector
          | .term _ none _ => some .termReferenceAsSelector
          | .term _ (some _) _ => none
          | .str _ => none
          | .num _ => none
          | .var _ => none
          | .fn _ _ _ => none
          | .placeable _ => some .expectedSimpleExpressionAsSelector
        match bad with
        | some k => .err (mkErr k q1) q1
        | none =>
          let q2 := skipBlankInline s (q1 + 2)
          (match skipEol s q2 with
           | none => .err (mkErr (.expectedCharRange 2) q2) q2
           | some q3 =>
             let q4 := skipBlank s q3
             (match getVariants s n false [] q4 with
              | .ok vs q5 => .ok (.select exp vs) q5
              | .err e q5 => .err e q5
              | .panic m => .panic m
              | .fuel => .fuel))
    | .err e q => .err e q
    | .panic m => .panic m
    | .fuel => .fuel

/-- `get_inline_expression(only_literal)` -/
def getInline (s : Src) : Nat → Bool → Nat → R (Inline Span)
  | 0, _, _ => .fuel
  | n + 1, onlyLiteral, p =>
    let fallback : R (Inline Span) :=
      if onlyLiteral then .err (mkErr .expectedLiteral p) p else .err (mkErr .expectedInlineExpression p) p
    match s[p]? with
    | none => fallback
    | some b =>
      if b == 34 then
        let start := p + 1
        match scanString s start with
        | .ok _ q =>
          (match expectByte s q 34 with
           | .ok _ q1 =>
             (match usub q1 1 with
              | none => .panic "string literal: ptr - 1 underflow"
              | some e =>
                match slice s start e with
                | some sp => .ok (.str sp) q1
                | none => .panic "string literal slice")
           | .err e q1 => .err e q1
           | .panic m => .panic m
           | .fuel => .fuel)
        | .err e q => .err e q
        | .panic m => .panic m
        | .fuel => .fuel
      else if isDigit b then
        match getNumberLiteral s p with
        | .ok sp q => .ok (.num sp) q
        | .err e q => .err e q
        | .panic m => .panic m
        | .fuel => .fuel
      else if b == 45 then
        if !onlyLiteral && isIdentifierStart s (p + 1) then
          match getIdentifierUnchecked s (p + 2) with
          | .ok id q =>
            (match getAttributeAccessor s q with
             | .ok attr q1 =>
               (match getCallArguments s n q1 with
                | .ok args q2 => .ok (.term id attr args) q2
                | .err e q2 => .err e q2
                | .panic m => .panic m
                | .fuel => .fuel)
             | .err e q1 => .err e q1
             | .panic m => .panic m
             | .fuel => .fuel)
          | .err e q => .err e q
          | .panic m => .panic m
          | .fuel => .fuel
        else
          match getNumberLiteral s p with
          | .ok sp q => .ok (.num sp) q
          | .err e q => .err e q
          | .panic m => .panic m
          | .fuel => .fuel
      else if b == 36 && !onlyLiteral then
        match getIdentifier s (p + 1) with
        | .ok id q => .ok (.var id) q
        | .err e q => .err e q
        | .panic m => .panic m
        | .fuel => .fuel
      else if isAlpha b then
        match getIdentifierUnchecked s (p + 1) with
        | .ok id q =>
          (match getCallArguments s n q with
           | .ok (some (pos, named)) q1 =>
             if !isCallee s id then .err (mkErr .forbiddenCallee q1) q1
             else .ok (.fn id pos named) q1
           | .ok none q1 =>
             (match getAttributeAccessor s q1 with
              | .ok attr q2 => .ok (.msg id attr) q2
              | .err e q2 => .err e q2
              | .panic m => .panic m
              | .fuel => .fuel)
           | .err e q1 => .err e q1
           | .panic m => .panic m
           | .fuel => .fuel)
        | .err e q => .err e q
        | .panic m => .panic m
        | .fuel => .fuel
      else if b == 123 && !onlyLiteral then
        match getPlaceable s n (p + 1) with
        | .ok e q => .ok (.placeable e) q
        | .err e q => .err e q
        | .panic m => .panic m
        | .fuel => .fuel
      else fallback

/-- `get_call_arguments` -/
def getCallArguments (s : Src) : Nat → Nat → R (Option (List (Inline Span) × List (Span × Inline Span)))
  | 0, _ => .fuel
  | n + 1, p =>
    let p1 := skipBlank s p
    let (p2, open_) := takeByteIf s p1 40
    if !open_ then .ok none p2
    else
      let p3 := skipBlank s p2
      match getCallArgsLoop s n [] [] p3 with
      | .ok (pos, named) q =>
        (match expectByte s q 41 with
         | .ok _ q1 => .ok (some (pos, named)) q1
         | .err e q1 => .err e q1
         | .panic m => .panic m
         | .fuel => .fuel)
      | .err e q => .err e q
      | .panic m => .panic m
      | .fuel => .fuel

/-- the `while` loop of `get_call_arguments` (`argument_names` = names of `named`) -/
def getCallArgsLoop (s : Src) : Nat → List (Inline Span) → List (Span × Inline Span) → Nat →
    R (List (Inline Span) × List (Span × Inline Span))
  | 0, _, _, _ => .fuel
  | n + 1, pos, named, p =>
    if p < s.size then
      if isCurrentByte s p 41 then .ok (pos, named) p
      else
        match getInline s n false p with
        | .ok expr q =>
          let next (pos : List (Inline Span)) (named : List (Span × Inline Span)) (q : Nat) :=
            let q1 := skipBlank s q
            let (q2, _) := takeByteIf s q1 44
            let q3 := skipBlank s q2
            getCallArgsLoop s n pos named q3
          (match expr with
           | .msg id none =>
             let q1 := skipBlank s q
             if isCurrentByte s q1 58 then
               if named.any (fun na => spanBytes s na.1 == spanBytes s id) then
                 .err (mkErr (.duplicatedNamedArgument id) q1) q1
               else
                 let q2 := skipBlank s (q1 + 1)
                 (match getInline s n true q2 with
                  | .ok val q3 => next pos (named ++ [(id, val)]) q3
                  | .err e q3 => .err e q3
                  | .panic m => .panic m
                  | .fuel => .fuel)
             else
               if !named.isEmpty then .err (mkErr .positionalArgumentFollowsNamed q1) q1
               else next (pos ++ [expr]) named q1
           | _ =>
             if !named.isEmpty then .err (mkErr .positionalArgumentFollowsNamed q) q
             else next (pos ++ [expr]) named q)
        | .err e q => .err e q
        | .panic m => .panic m
        | .fuel => .fuel
    else .ok (pos, named) p

/-- `get_variants` (the `loop`) -/
def getVariants (s : Src) : Nat → Bool → List (Variant Span) → Nat → R (List (Variant Span))
  | 0, _, _, _ => .fuel
  | n + 1, hasDefault, acc, p =>
    let (p1, dflt) := takeByteIf s p 42
    if dflt && hasDefault then .err (mkErr .multipleDefaultVariants p1) p1
    else
      let hasDefault' := hasDefault || dflt
      let (p2, open_) := takeByteIf s p1 91
      if !open_ then
        -- a `*` must introduce a variant; on its own it is not a default
        if dflt then .err (mkErr (.expectedToken 91) p2) p2
        else if hasDefault' then .ok acc p2 else .err (mkErr .missingDefaultVariant p2) p2
      else
        -- get_variant_key
        let p3 := skipBlank s p2
        let keyR : R (VKey Span) :=
          if isNumberStart s p3 then
            match getNumberLiteral s p3 with
            | .ok sp q => .ok (.num sp) q
            | .err e q => .err e q
            | .panic m => .panic m
            | .fuel => .fuel
          else
            match getIdentifier s p3 with
            | .ok sp q => .ok (.ident sp) q
            | .err e q => .err e q
            | .panic m => .panic m
            | .fuel => .fuel
        match keyR with
        | .ok key q =>
          let q1 := skipBlank s q
          (match expectByte s q1 93 with
           | .ok _ q2 =>
             (match getPattern s n q2 with
              | .ok (some value) q3 =>
                getVariants s n hasDefault' (acc ++ [.mk key value dflt]) (skipBlank s q3)
              | .ok none q3 => .err (mkErr .missingValue q3) q3
              | .err e q3 => .err e q3
              | .panic m => .panic m
              | .fuel => .fuel)
           | .err e q2 => .err e q2
           | .panic m => .panic m
           | .fuel => .fuel)
        | .err e q => .err e q
        | .panic m => .panic m
        | .fuel => .fuel

end

/-! ## core.rs: attributes, messages, terms -/

/-- `get_attribute` (cursor just after `.`) -/
def getAttribute (s : Src) (fuel : Nat) (p : Nat) : R (Attribute Span) :=
  match getIdentifier s p with
  | .ok id q =>
    let q1 := skipBlankInline s q
    (match expectByte s q1 61 with
     | .ok _ q2 =>
       (match getPattern s fuel q2 with
        | .ok (some pat) q3 => .ok ⟨id, pat⟩ q3
        | .ok none q3 => .err (mkErr .missingValue q3) q3
        | .err e q3 => .err e q3
        | .panic m => .panic m
        | .fuel => .fuel)
     | .err e q2 => .err e q2
     | .panic m => .panic m
     | .fuel => .fuel)
  | .err e q => .err e q
  | .panic m => .panic m
  | .fuel => .fuel

/-- `get_attributes` (never fails: on an error the cursor is reset to the line start) -/
def getAttributesGo (s : Src) (fuel : Nat) : Nat → List (Attribute Span) → Nat → R (List (Attribute Span))
  | 0, _, _ => .fuel
  | n + 1, acc, p =>
    let lineStart := p
    let p1 := skipBlankInline s p
    let (p2, dot) := takeByteIf s p1 46
    if !dot then .ok acc lineStart
    else
      match getAttribute s fuel p2 with
      | .ok a q => getAttributesGo s fuel n (acc ++ [a]) q
      | .err _ _ => .ok acc lineStart
      | .panic m => .panic m
      | .fuel => .fuel
def getAttributes (s : Src) (fuel : Nat) (p : Nat) : R (List (Attribute Span)) :=
  getAttributesGo s fuel (s.size - p + 1) [] p

/-- `get_message` -/
def getMessage (s : Src) (fuel : Nat) (entryStart p : Nat) : R (Message Span) :=
  match getIdentifier s p with
  | .ok id q =>
    let q1 := skipBlankInline s q
    (match expectByte s q1 61 with
     | .ok _ q2 =>
       (match getPattern s fuel q2 with
        | .ok pattern q3 =>
          let q4 := (skipBlankBlock s q3).1
          (match getAttributes s fuel q4 with
           | .ok attrs q5 =>
             if pattern.isNone && attrs.isEmpty then
               .err (mkErr2 (.expectedMessageField id) entryStart q5) q5
             else .ok ⟨id, pattern, attrs, none⟩ q5
           | .err e q5 => .err e q5
           | .panic m => .panic m
           | .fuel => .fuel)
        | .err e q3 => .err e q3
        | .panic m => .panic m
        | .fuel => .fuel)
     | .err e q2 => .err e q2
     | .panic m => .panic m
     | .fuel => .fuel)
  | .err e q => .err e q
  | .panic m => .panic m
  | .fuel => .fuel

/-- `get_term` -/
def getTerm (s : Src) (fuel : Nat) (entryStart p : Nat) : R (Term Span) :=
  match expectByte s p 45 with
  | .ok _ p0 =>
    (match getIdentifier s p0 with
     | .ok id q =>
       let q1 := skipBlankInline s q
       (match expectByte s q1 61 with
        | .ok _ q2 =>
          let q2' := skipBlankInline s q2
          (match getPattern s fuel q2' with
           | .ok value q3 =>
             let q4 := (skipBlankBlock s q3).1
             (match getAttributes s fuel q4 with
              | .ok attrs q5 =>
                (match value with
                 | some v => .ok ⟨id, v, attrs, none⟩ q5
                 | none => .err (mkErr2 (.expectedTermField id) entryStart q5) q5)
              | .err e q5 => .err e q5
              | .panic m => .panic m
              | .fuel => .fuel)
           | .err e q3 => .err e q3
           | .panic m => .panic m
           | .fuel => .fuel)
        | .err e q2 => .err e q2
        | .panic m => .panic m
        | .fuel => .fuel)
     | .err e q => .err e q
     | .panic m => .panic m
     | .fuel => .fuel)
  | .err e q => .err e q
  | .panic m => .panic m
  | .fuel => .fuel

/-! ## comment.rs -/

/-- `get_comment_level`: (level 0–3, new cursor) -/
def getCommentLevel (s : Src) (p : Nat) : Nat × Nat :=
  if isCurrentByte s p 35 then
    if isCurrentByte s (p + 1) 35 then
      if isCurrentByte s (p + 2) 35 then (3, p + 3) else (2, p + 2)
    else (1, p + 1)
  else (0, p)

/-- `get_comment_line` -/
def commentLineEndGo (s : Src) : Nat → Nat → Nat
  | 0, p => p
  | n + 1, p => if isEol s p then p else commentLineEndGo s n (p + 1)
def getCommentLine (s : Src) (p : Nat) : R Span :=
  let e := commentLineEndGo s (s.size - p) p
  match slice s p e with
  | some sp => .ok sp e
  | none => .panic "get_comment_line slice"

/-- `get_comment`: the `while` loop; `level` 0 = `Level::None` -/
def getCommentGo (s : Src) : Nat → Nat → List Span → Nat → R (List Span × Nat)
  | 0, _, _, _ => .fuel
  | n + 1, level, content, p =>
    if p < s.size then
      let (lineLevel, p1) := getCommentLevel s p
      if lineLevel == 0 then
        match usub p1 1 with
        | some q => .ok (content, level) q
        | none => .panic "get_comment: ptr -= 1 underflow"
      else if level != 0 && lineLevel != level then
        match usub p1 lineLevel with
        | some q => .ok (content, level) q
        | none => .panic "get_comment: ptr -= level underflow"
      else
        let level' := lineLevel
        if isEol s p1 then
          match getCommentLine s p1 with
          | .ok line q => getCommentGo s n level' (content ++ [line]) ((skipEol s q).getD q)
          | .err e q => .err e q
          | .panic m => .panic m
          | .fuel => .fuel
        else
          match expectByte s p1 32 with
          | .err e q =>
            if content.isEmpty then .err e q
            else
              (match usub p1 lineLevel with
               | some q' => .ok (content, level') q'
               | none => .panic "get_comment: ptr -= level underflow")
          | .ok _ p2 =>
            (match getCommentLine s p2 with
             | .ok line q => getCommentGo s n level' (content ++ [line]) ((skipEol s q).getD q)
             | .err e q => .err e q
             | .panic m => .panic m
             | .fuel => .fuel)
          | .panic m => .panic m
          | .fuel => .fuel
    else .ok (content, level) p
def getComment (s : Src) (p : Nat) : R (List Span × Nat) := getCommentGo s (s.size - p + 1) 0 [] p

/-- `skip_comment` (runtime parser); the cursor may end at `len + 1` -/
def skipCommentGo (s : Src) : Nat → Nat → Nat
  | 0, p => p
  | n + 1, p =>
    let e := commentLineEndGo s (s.size - p) p
    let p1 := e + 1
    if isCurrentByte s p1 35 then skipCommentGo s n (p1 + 1) else p1
def skipComment (s : Src) (p : Nat) : Nat := skipCommentGo s (s.size - p + 1) p

/-! ## entries and the two entry loops -/

/-- `get_entry` -/
def getEntry (s : Src) (fuel : Nat) (entryStart : Nat) : R (Entry Span) :=
  match s[entryStart]? with
  | some 35 =>
    (match getComment s entryStart with
     | .ok (content, level) q =>
       if level == 1 then .ok (.comment content) q
       else if level == 2 then .ok (.groupComment content) q
       else if level == 3 then .ok (.resourceComment content) q
       else .panic "get_entry unreachable (Level::None)"
     | .err e q => .err e q
     | .panic m => .panic m
     | .fuel => .fuel)
  | some 45 =>
    (match getTerm s fuel entryStart entryStart with
     | .ok t q => .ok (.term t) q
     | .err e q => .err e q
     | .panic m => .panic m
     | .fuel => .fuel)
  | _ =>
    (match getMessage s fuel entryStart entryStart with
     | .ok m q => .ok (.message m) q
     | .err e q => .err e q
     | .panic m => .panic m
     | .fuel => .fuel)

inductive Outcome (α : Type) where
  | done (a : α)
  | panic (site : String)
  | outOfFuel
  deriving Repr

/-- the `while self.ptr < self.length` loop of `Parser::parse`.
`body`/`errors` are accumulated in order; `lastComment`, `lastBlankCount` as in the Rust code. -/
def parseLoop (s : Src) (fuel : Nat) : Nat → List (Entry Span) → List PErr → Option (List Span) → Nat → Nat →
    Outcome (List (Entry Span) × List PErr)
  | 0, _, _, _, _, _ => .outOfFuel
  | n + 1, body, errors, lastComment, lastBlankCount, p =>
    if p < s.size then
      let entryStart := p
      let r := getEntry s fuel entryStart
      -- attach or flush the pending comment
      let (r', body1) : R (Entry Span) × List (Entry Span) :=
        match lastComment with
        | some c =>
          (match r with
           | .ok (.message m) q =>
             if lastBlankCount < 2 then (.ok (.message { m with comment := some c }) q, body)
             else (r, body ++ [.comment c])
           | .ok (.term t) q =>
             if lastBlankCount < 2 then (.ok (.term { t with comment := some c }) q, body)
             else (r, body ++ [.comment c])
           | _ => (r, body ++ [.comment c]))
        | none => (r, body)
      match r' with
      | .ok (.comment c) q =>
        let (q', cnt) := skipBlankBlock s q
        parseLoop s fuel n body1 errors (some c) cnt q'
      | .ok e q =>
        let (q', cnt) := skipBlankBlock s q
        parseLoop s fuel n (body1 ++ [e]) errors none cnt q'
      | .err e q =>
        (match skipToNextEntryStart s entryStart q with
         | none => .panic "skip_to_next_entry_start slice"
         | some q1 =>
           (match slice s entryStart q1 with
            | some content =>
              let (q', cnt) := skipBlankBlock s q1
              parseLoop s fuel n (body1 ++ [.junk content])
                (errors ++ [{ clampErr e q1 with slice := some (entryStart, q1) }]) none cnt q'
            | none => .panic "junk slice"))
      | .panic m => .panic m
      | .fuel => .outOfFuel
    else
      match lastComment with
      | some c => .done (body ++ [.comment c], errors)
      | none => .done (body, errors)

/-- fuel for the mutually recursive functions: each byte of input can account for only a bounded
number of nested calls -/
def exprFuel (s : Src) : Nat := 8 * s.size + 16

/-- `parser::parse` -/
def parse (s : Src) : Outcome (Resource Span × List PErr) :=
  let p0 := (skipBlankBlock s 0).1
  parseLoop s (exprFuel s) (s.size + 1) [] [] none 0 p0

/-- `get_entry_runtime`: `none` = a skipped comment -/
def getEntryRuntime (s : Src) (fuel : Nat) (entryStart : Nat) : R (Option (Entry Span)) :=
  match s[entryStart]? with
  | some 35 => .ok none (skipComment s entryStart)
  | some 45 =>
    (match getTerm s fuel entryStart entryStart with
     | .ok t q => .ok (some (.term t)) q
     | .err e q => .err e q
     | .panic m => .panic m
     | .fuel => .fuel)
  | _ =>
    (match getMessage s fuel entryStart entryStart with
     | .ok m q => .ok (some (.message m)) q
     | .err e q => .err e q
     | .panic m => .panic m
     | .fuel => .fuel)

/-- the loop of `Parser::parse_runtime` -/
def parseRuntimeLoop (s : Src) (fuel : Nat) : Nat → List (Entry Span) → List PErr → Nat →
    Outcome (List (Entry Span) × List PErr)
  | 0, _, _, _ => .outOfFuel
  | n + 1, body, errors, p =>
    if p < s.size then
      let entryStart := p
      match getEntryRuntime s fuel entryStart with
      | .ok (some e) q => parseRuntimeLoop s fuel n (body ++ [e]) errors (skipBlankBlock s q).1
      | .ok none q => parseRuntimeLoop s fuel n body errors (skipBlankBlock s q).1
      | .err e q =>
        (match skipToNextEntryStart s entryStart q with
         | none => .panic "skip_to_next_entry_start slice"
         | some q1 =>
           (match slice s entryStart q1 with
            | some content =>
              parseRuntimeLoop s fuel n (body ++ [.junk content])
                (errors ++ [{ clampErr e q1 with slice := some (entryStart, q1) }]) (skipBlankBlock s q1).1
            | none => .panic "junk slice"))
      | .panic m => .panic m
      | .fuel => .outOfFuel
    else .done (body, errors)

/-- `parser::parse_runtime` -/
def parseRuntime (s : Src) : Outcome (Resource Span × List PErr) :=
  let p0 := (skipBlankBlock s 0).1
  parseRuntimeLoop s (exprFuel s) (s.size + 1) [] [] p0

/-- owned-string view of a span-tree -/
def resolve (s : Src) (r : Resource Span) : Resource Bytes := r.map (Entry.mapS (spanBytes s))

end FluentModel.Syntax
