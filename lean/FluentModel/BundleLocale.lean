/-!
# The locale a bundle's formatters are bound to

`FluentBundle::new(locales)` and `FluentBundle::new_concurrent(locales)` (`fluent-bundle/src/bundle.rs`,
`concurrent.rs`) store the whole chain in `bundle.locales` but create the formatter memoizer — and with it the plural
rules every select consults — for `locales.first().cloned().unwrap_or_default()` only.  The rest of the chain is
never consulted while formatting.
-/
namespace FluentModel

/-- the locale of the bundle's `IntlLangMemoizer`: the head of the chain, `und` (`LanguageIdentifier::default()`)
for an empty chain -/
def memoizerLocale (chain : List String) : String := chain.headD "und"

/-- `loc=a+b+c` of a case line; `loc=-` is the empty chain -/
def parseLocaleChain (s : String) : List String :=
  if s == "-" then [] else s.splitOn "+"

end FluentModel
