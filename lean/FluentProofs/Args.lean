import FluentModel.Args
/-! Lemmas for C11 (FluentArgs is a map). -/
namespace FluentModel.Args

variable {κ V : Type}

/-- Strict total order, as a plain structure (no Mathlib). -/
structure StrictTotal (lt : κ → κ → Bool) : Prop where
  irrefl : ∀ a, lt a a = false
  trans : ∀ a b c, lt a b = true → lt b c = true → lt a c = true
  tri : ∀ a b, lt a b = false → lt b a = false → a = b

/-- keys strictly increasing -/
def Sorted (lt : κ → κ → Bool) : List (κ × V) → Prop
  | [] => True
  | [_] => True
  | (k₁, _) :: (k₂, v₂) :: rest => lt k₁ k₂ = true ∧ Sorted lt ((k₂, v₂) :: rest)

/-- every key of `l` is above `k` -/
def AllAbove (lt : κ → κ → Bool) (k : κ) (l : List (κ × V)) : Prop :=
  ∀ p ∈ l, lt k p.1 = true

theorem sorted_tail {lt : κ → κ → Bool} {p : κ × V} {l : List (κ × V)}
    (h : Sorted lt (p :: l)) : Sorted lt l := by
  cases l with
  | nil => trivial
  | cons q r => obtain ⟨k, v⟩ := p; obtain ⟨k', v'⟩ := q; exact h.2

theorem sorted_cons_iff {lt : κ → κ → Bool} (ho : StrictTotal lt) (k : κ) (v : V)
    (l : List (κ × V)) : Sorted lt ((k, v) :: l) ↔ (AllAbove lt k l ∧ Sorted lt l) := by
  induction l generalizing k v with
  | nil => simp [Sorted, AllAbove]
  | cons q r ih =>
    obtain ⟨k', v'⟩ := q
    constructor
    · intro h
      refine ⟨?_, h.2⟩
      intro p hp
      rcases List.mem_cons.1 hp with rfl | hp
      · exact h.1
      · exact ho.trans _ _ _ h.1 (((ih k' v').1 h.2).1 p hp)
    · intro h
      exact ⟨h.1 (k', v') (List.mem_cons_self), h.2⟩

theorem allAbove_setL {lt : κ → κ → Bool} (l : List (κ × V)) (k₀ k : κ) (v : V)
    (h : AllAbove lt k₀ l) (hk : lt k₀ k = true) : AllAbove lt k₀ (setL lt l k v) := by
  induction l with
  | nil =>
    intro p hp
    simp [setL] at hp; subst hp; exact hk
  | cons q r ih =>
    obtain ⟨k', v'⟩ := q
    have hq : lt k₀ k' = true := h (k', v') List.mem_cons_self
    have hr : AllAbove lt k₀ r := fun p hp => h p (List.mem_cons_of_mem _ hp)
    intro p hp
    unfold setL at hp
    split at hp
    · rcases List.mem_cons.1 hp with rfl | hp
      · exact hq
      · exact ih hr p hp
    · split at hp
      · rcases List.mem_cons.1 hp with rfl | hp
        · exact hk
        · exact h p hp
      · rcases List.mem_cons.1 hp with rfl | hp
        · exact hk
        · exact hr p hp

/-- **Invariant**: `set` keeps the vector strictly sorted. -/
theorem sorted_setL {lt : κ → κ → Bool} (ho : StrictTotal lt) (l : List (κ × V)) (k : κ) (v : V)
    (h : Sorted lt l) : Sorted lt (setL lt l k v) := by
  induction l with
  | nil => simp [setL, Sorted]
  | cons q r ih =>
    obtain ⟨k', v'⟩ := q
    have h' := (sorted_cons_iff ho k' v' r).1 h
    unfold setL
    split
    · rename_i hlt
      exact (sorted_cons_iff ho _ _ _).2 ⟨allAbove_setL r k' k v h'.1 hlt, ih h'.2⟩
    · split
      · rename_i hlt
        exact ⟨hlt, h⟩
      · rename_i h1 h2
        have : k' = k := ho.tri _ _ (by simpa using h1) (by simpa using h2)
        subst this
        exact (sorted_cons_iff ho _ _ _).2 h'

theorem getL_none_of_allAbove {lt : κ → κ → Bool} (ho : StrictTotal lt) (l : List (κ × V)) (k₀ k : κ)
    (h : AllAbove lt k₀ l) (hk : lt k₀ k = false) : getL lt l k = none := by
  cases l with
  | nil => rfl
  | cons q r =>
    obtain ⟨k', v'⟩ := q
    have hq : lt k₀ k' = true := h (k', v') List.mem_cons_self
    unfold getL
    have h1 : lt k' k = false := by
      cases hc : lt k' k with
      | false => rfl
      | true => rw [ho.trans _ _ _ hq hc] at hk; exact absurd hk (by simp)
    simp only [h1]
    -- k ≤ k₀ < k'
    have h2 : lt k k' = true := by
      cases hc : lt k k' with
      | true => rfl
      | false =>
        have : k' = k := ho.tri _ _ h1 hc
        subst this; rw [hq] at hk; exact absurd hk (by simp)
    simp [h2]

/-- **Map law** for one `set`. -/
theorem getL_setL {lt : κ → κ → Bool} [DecidableEq κ] (ho : StrictTotal lt) (l : List (κ × V))
    (k : κ) (v : V) (k' : κ) (h : Sorted lt l) :
    getL lt (setL lt l k v) k' = if k' = k then some v else getL lt l k' := by
  induction l with
  | nil =>
    by_cases hk : k' = k
    · subst hk; simp [setL, getL, ho.irrefl]
    · simp only [setL, getL, hk, if_false]
      cases h1 : lt k k' <;> cases h2 : lt k' k <;> simp
      exact hk (ho.tri _ _ h2 h1)
  | cons q r ih =>
    obtain ⟨k₁, v₁⟩ := q
    have h' := (sorted_cons_iff ho k₁ v₁ r).1 h
    unfold setL
    split
    · rename_i hlt      -- k₁ < k
      rw [getL]
      by_cases hk : k' = k
      · subst hk; simp only [hlt, if_true]; rw [ih h'.2]; simp
      · simp only [hk, if_false]
        rw [ih h'.2]; simp only [hk, if_false]
        conv => rhs; rw [getL]
    · split
      · rename_i hnlt hlt   -- k < k₁
        by_cases hk : k' = k
        · subst hk; simp [getL, ho.irrefl]
        · simp only [hk, if_false]
          rw [getL]
          cases h1 : lt k k' with
          | true => simp
          | false =>
            simp only [Bool.false_eq_true, if_false]
            cases h2 : lt k' k with
            | false => exact absurd (ho.tri _ _ h2 h1) hk
            | true =>
              simp only [if_true]
              -- k' < k < k₁ : lookup in the old list finds nothing
              have h3 : lt k' k₁ = true := ho.trans _ _ _ h2 hlt
              have h4 : lt k₁ k' = false := by
                cases hc : lt k₁ k' with
                | false => rfl
                | true =>
                  have := ho.trans _ _ _ h3 hc
                  rw [ho.irrefl] at this; exact absurd this (by simp)
              simp [getL, h3, h4]
      · rename_i h1 h2
        have : k₁ = k := ho.tri _ _ (by simpa using h1) (by simpa using h2)
        subst this
        by_cases hk : k' = k₁
        · subst hk; simp [getL, ho.irrefl]
        · simp only [hk, if_false]
          rw [getL, getL]
          cases h3 : lt k₁ k' with
          | true => simp
          | false =>
            cases h4 : lt k' k₁ with
            | true => simp
            | false => exact absurd (ho.tri _ _ h4 h3) hk

theorem sorted_fromPairs {lt : κ → κ → Bool} (ho : StrictTotal lt) (a : List (κ × V))
    (ps : List (κ × V)) (h : Sorted lt a) :
    Sorted lt (ps.foldl (fun a kv => setL lt a kv.1 kv.2) a) := by
  induction ps generalizing a with
  | nil => exact h
  | cons p ps ih => exact ih _ (sorted_setL ho a p.1 p.2 h)

/-- `get` after any sequence of `set`s = value most recently set / nothing. -/
theorem getL_foldl {lt : κ → κ → Bool} [DecidableEq κ] (ho : StrictTotal lt) (a : List (κ × V))
    (ps : List (κ × V)) (k : κ) (h : Sorted lt a) :
    getL lt (ps.foldl (fun a kv => setL lt a kv.1 kv.2) a) k =
      match ps.reverse.find? (fun p => p.1 = k) with
      | some p => some p.2
      | none => getL lt a k := by
  induction ps generalizing a with
  | nil => simp
  | cons p ps ih =>
    simp only [List.foldl_cons, List.reverse_cons]
    rw [ih _ (sorted_setL ho a p.1 p.2 h), List.find?_append]
    cases hf : ps.reverse.find? (fun p => p.1 = k) with
    | some q => simp
    | none =>
      simp only [Option.none_or, List.find?_cons, List.find?_nil]
      rw [getL_setL ho a p.1 p.2 k h]
      by_cases hk : k = p.1
      · subst hk; simp
      · have : ¬ p.1 = k := fun e => hk e.symm
        simp [hk, this]

theorem mem_keys_setL {lt : κ → κ → Bool} (ho : StrictTotal lt) (l : List (κ × V)) (k : κ) (v : V) (k' : κ) :
    k' ∈ keys (setL lt l k v) ↔ (k' = k ∨ k' ∈ keys l) := by
  induction l with
  | nil => simp [setL, keys]
  | cons q r ih =>
    obtain ⟨k₁, v₁⟩ := q
    unfold setL
    split
    · simp only [keys, List.map_cons, List.mem_cons] at ih ⊢
      rw [ih]; constructor <;> (intro h; rcases h with h | h | h <;> simp [h])
    · split
      · simp [keys]
      · rename_i h1 h2
        have : k₁ = k := ho.tri _ _ (by simpa using h1) (by simpa using h2)
        subst this
        simp [keys]

theorem mem_keys_foldl {lt : κ → κ → Bool} (ho : StrictTotal lt) (a : List (κ × V))
    (ps : List (κ × V)) (k : κ) :
    k ∈ keys (ps.foldl (fun a kv => setL lt a kv.1 kv.2) a) ↔ (k ∈ keys ps ∨ k ∈ keys a) := by
  induction ps generalizing a with
  | nil => simp [keys]
  | cons p ps ih =>
    simp only [List.foldl_cons]
    rw [ih, mem_keys_setL ho]
    simp only [keys, List.map_cons, List.mem_cons]
    constructor
    · intro h; rcases h with h | h | h
      · exact Or.inl (Or.inr h)
      · exact Or.inl (Or.inl h)
      · exact Or.inr h
    · intro h; rcases h with (h | h) | h
      · exact Or.inr (Or.inl h)
      · exact Or.inl h
      · exact Or.inr (Or.inr h)

theorem sorted_keys_pairwise {lt : κ → κ → Bool} (ho : StrictTotal lt) (l : List (κ × V))
    (h : Sorted lt l) : (keys l).Pairwise (fun a b => lt a b = true) := by
  induction l with
  | nil => simp [keys]
  | cons q r ih =>
    obtain ⟨k₁, v₁⟩ := q
    have h' := (sorted_cons_iff ho k₁ v₁ r).1 h
    simp only [keys, List.map_cons, List.pairwise_cons]
    refine ⟨?_, ih h'.2⟩
    intro b hb
    obtain ⟨p, hp, rfl⟩ := List.mem_map.1 hb
    exact h'.1 p hp

theorem sorted_keys_nodup {lt : κ → κ → Bool} (ho : StrictTotal lt) (l : List (κ × V))
    (h : Sorted lt l) : (keys l).Nodup := by
  have := sorted_keys_pairwise ho l h
  refine List.Pairwise.imp ?_ this
  intro a b hab e
  subst e
  rw [ho.irrefl] at hab; exact absurd hab (by simp)

/-- Canonical form: two sorted vectors with the same lookups are the same vector. -/
theorem sorted_ext {lt : κ → κ → Bool} (ho : StrictTotal lt) (a b : List (κ × V))
    (ha : Sorted lt a) (hb : Sorted lt b) (h : ∀ k, getL lt a k = getL lt b k) : a = b := by
  induction a generalizing b with
  | nil =>
    cases b with
    | nil => rfl
    | cons q r =>
      obtain ⟨k, v⟩ := q
      have := h k
      simp [getL, ho.irrefl] at this
  | cons p as ih =>
    obtain ⟨k₁, v₁⟩ := p
    cases b with
    | nil =>
      have := h k₁
      simp [getL, ho.irrefl] at this
    | cons q bs =>
      obtain ⟨k₂, v₂⟩ := q
      have ha' := (sorted_cons_iff ho k₁ v₁ as).1 ha
      have hb' := (sorted_cons_iff ho k₂ v₂ bs).1 hb
      have e1 := h k₁
      have e2 := h k₂
      simp only [getL, ho.irrefl] at e1 e2
      have hk : k₁ = k₂ := by
        cases h12 : lt k₁ k₂ with
        | true =>
          have h21 : lt k₂ k₁ = false := by
            cases hc : lt k₂ k₁ with
            | false => rfl
            | true => have := ho.trans _ _ _ h12 hc; rw [ho.irrefl] at this; exact absurd this (by simp)
          simp [h12, h21] at e1
        | false =>
          cases h21 : lt k₂ k₁ with
          | false => exact (ho.tri _ _ h21 h12).symm
          | true => simp [h12, h21] at e2
      subst hk
      simp [ho.irrefl] at e1
      subst e1
      congr 1
      apply ih bs ha'.2 hb'.2
      intro k
      have := h k
      simp only [getL] at this
      cases h1 : lt k₁ k with
      | true => simpa [h1] using this
      | false =>
        rw [getL_none_of_allAbove ho as k₁ k ha'.1 h1, getL_none_of_allAbove ho bs k₁ k hb'.1 h1]

end FluentModel.Args
