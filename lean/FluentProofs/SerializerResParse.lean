import FluentProofs.SerializerResource
/-!
# Serializer lemmas, part 15: parsing a serialised resource back (C04 / T3)
-/
namespace FluentProofs.Ser
open FluentModel FluentModel.Syntax FluentModel.Syntax.Ser FluentProofs.Parser

/-! ## comments -/

/-- the line a comment line is read back as: whitespace-only lines come back empty -/
def canonLine (l : Bytes) : Bytes := if isBlankLine l then [] else l

theorem commentLineEndGo_at (s : Src) (l : Bytes) (hl : ∀ b ∈ l, b ≠ 10) (p n : Nat) (h : At s p l)
    (c : UInt8) (hc : s[p + l.length]? = some c) (hend : isEol s (p + l.length) = true)
    (hcr : endsCr l = true → c ≠ 10) (hn : l.length ≤ n) : commentLineEndGo s n p = p + l.length := by
  induction l generalizing p n with
  | nil =>
    cases n with
    | zero => rfl
    | succ n => simp [commentLineEndGo, show isEol s p = true by simpa using hend]
  | cons x xs ih =>
    obtain ⟨m, rfl⟩ : ∃ m, n = m + 1 := ⟨n - 1, by simp at hn; omega⟩
    rw [at_cons] at h
    have x1 := hl x (by simp)
    have hnext : x = 13 → s[p + 1]? ≠ some 10 := by
      intro hx
      cases xs with
      | nil =>
        have : s[p + 1]? = some c := by simpa using hc
        rw [this]
        have := hcr (by simp [endsCr, hx])
        simpa using this
      | cons y ys =>
        have hy := h.2
        rw [at_cons] at hy
        rw [hy.1]
        have := hl y (by simp)
        simpa using this
    have heol : isEol s p = false := by
      unfold isEol; rw [h.1]
      split
      · rename_i hh; cases hh; exact absurd rfl x1
      · rename_i hh; cases hh; simpa using hnext rfl
      · rename_i hh; cases hh
      · rfl
    rw [commentLineEndGo, heol]
    simp only [Bool.false_eq_true, if_false]
    rw [ih (fun b hb => hl b (by simp [hb])) (p + 1) m h.2 (by
      rw [show p + 1 + xs.length = p + (x :: xs).length by simp; omega]; exact hc) (by
      rw [show p + 1 + xs.length = p + (x :: xs).length by simp; omega]; exact hend) (by
      intro hx
      apply hcr
      cases xs with
      | nil => simp [endsCr] at hx
      | cons y ys => simpa [endsCr] using hx) (by simpa using hn)]
    simp; omega

theorem commentLineOK_mem {l : Bytes} (hl : commentLineOK l = true) : ∀ b ∈ l, b ≠ 10 := by
  intro b hb
  simp only [commentLineOK, List.all_eq_true] at hl
  simpa using hl b hb

theorem getCommentLine_at {s : Src} (hs : AsciiThenBoundary s) (l : Bytes) (hl : commentLineOK l = true) (p : Nat)
    (hb : Bnd s p) (h : At s p l) (c : UInt8) (hc : s[p + l.length]? = some c) (hc128 : c < 128)
    (hend : isEol s (p + l.length) = true) (hcr : endsCr l = true → c ≠ 10) :
    getCommentLine s p = .ok ⟨p, p + l.length⟩ (p + l.length) := by
  unfold getCommentLine
  have hlt := get_lt hc
  rw [commentLineEndGo_at s l (commentLineOK_mem hl) p _ h c hc hend hcr (by omega)]
  simp only []
  rw [slice_ok (by omega) hb (bnd_of_ascii hc hc128)]

/-- the line end behind a comment line `l` in the serialised text: `\n`, or `\r\n` when `l` ends with `\r` -/
theorem commentLine_end (s : Src) (l : Bytes) (q : Nat) (rest : Bytes) (h : At s q (crDbl l ++ 10 :: rest)) :
    ∃ c, s[q]? = some c ∧ c < 128 ∧ isEol s q = true ∧ (endsCr l = true → c ≠ 10) ∧
      skipEol s q = some (q + (crDbl l).length + 1) ∧ At s (q + (crDbl l).length + 1) rest := by
  unfold crDbl at h ⊢
  cases hcr : endsCr l
  · simp only [hcr, Bool.false_eq_true, if_false, List.nil_append, at_cons] at h
    simp only [Bool.false_eq_true, if_false, List.length_nil, Nat.add_zero]
    exact ⟨10, h.1, by decide, by simp [isEol, h.1], fun h0 => absurd h0 (by decide), by simp [skipEol, h.1], h.2⟩
  · simp only [hcr, if_true, List.cons_append, List.nil_append, at_cons] at h
    simp only [if_true, List.length_cons, List.length_nil]
    refine ⟨13, h.1, by decide, by simp [isEol, h.1, h.2.1], fun _ => by decide, by simp [skipEol, h.1, h.2.1], ?_⟩
    have := h.2.2
    rwa [show q + 1 + 1 = q + (0 + 1) + 1 by omega] at this

def hashes (k : Nat) : Bytes := List.replicate k 35

theorem getCommentLevel_at (s : Src) (p k : Nat) (hk : 1 ≤ k ∧ k ≤ 3) (h : At s p (hashes k)) (b : UInt8)
    (hb : s[p + k]? = some b) (hb35 : b ≠ 35) : getCommentLevel s p = (k, p + k) := by
  obtain ⟨h1, h3⟩ := hk
  have hne : s[p + k]? ≠ some 35 := by rw [hb]; simpa using hb35
  unfold getCommentLevel
  rcases (by omega : k = 1 ∨ k = 2 ∨ k = 3) with rfl | rfl | rfl
  · simp only [hashes, List.replicate, at_cons] at h
    simp [isCurrentByte, h.1, hne]
  · simp only [hashes, List.replicate, at_cons] at h
    have : s[p + 2]? ≠ some 35 := hne
    simp [isCurrentByte, h.1, h.2.1, this]
  · simp only [hashes, List.replicate, at_cons] at h
    have h2 : s[p + 2]? = some 35 := by have := h.2.2.1; rwa [show p + 1 + 1 = p + 2 by omega] at this
    simp [isCurrentByte, h.1, h.2.1, h2]

theorem getCommentLevel_zero (s : Src) (p : Nat) (h : s[p]? ≠ some 35) : getCommentLevel s p = (0, p) := by
  simp [getCommentLevel, isCurrentByte, h]

/-- `get_comment` reads a comment block of level `k` back (lines canonicalised), and stops AT the line
feed of its last line -/
theorem getCommentGo_text {s : Src} (hs : AsciiThenBoundary s) (k : Nat) (hk : 1 ≤ k ∧ k ≤ 3) (c : List Bytes)
    (hc : ∀ l ∈ c, commentLineOK l = true) :
    ∀ (n level : Nat) (content : List Span) (p : Nat), (level = 0 ∨ level = k) → (c = [] → level = k ∧ 1 ≤ p) →
      At s p (commentText (hashes k) c) →
      (∃ b, s[p + (commentText (hashes k) c).length]? = some b ∧ b ≠ 35) → c.length + 1 ≤ n →
      ∃ lines, getCommentGo s n level content p =
          .ok (content ++ lines, k) (p + (commentText (hashes k) c).length - 1) ∧
        lines.map (spanBytes s) = c.map canonLine := by
  induction c with
  | nil =>
    intro n level content p _ hnil _ hend hn
    obtain ⟨m, rfl⟩ : ∃ m, n = m + 1 := ⟨n - 1, by omega⟩
    obtain ⟨rfl, hp1⟩ := hnil rfl
    obtain ⟨b, hb, hb35⟩ := hend
    simp only [commentText, List.length_nil, Nat.add_zero] at hb ⊢
    refine ⟨[], ?_, rfl⟩
    rw [getCommentGo]
    simp only [get_lt hb, if_true, getCommentLevel_zero s p (by rw [hb]; simpa using hb35)]
    simp [usub, hp1]
  | cons l ls ih =>
    intro n level content p hlev _ hat hend hn
    obtain ⟨m, rfl⟩ : ∃ m, n = m + 1 := ⟨n - 1, by omega⟩
    have hl := hc l (List.mem_cons_self)
    simp only [commentText, List.append_assoc] at hat hend ⊢
    rw [at_append] at hat
    obtain ⟨hpre, hrest⟩ := hat
    have hklen : (hashes k).length = k := by simp [hashes]
    rw [hklen] at hrest
    have hlt : p < s.size := by
      have := at_head hpre (b := 35) (by
        obtain ⟨h1, _⟩ := hk
        cases k with
        | zero => omega
        | succ k => simp [hashes, List.replicate])
      exact get_lt this
    have hlevne : ((level != 0) && (k != level)) = false := by
      rcases hlev with rfl | rfl <;> simp
    have hk0 : (k == 0) = false := by simp; omega
    cases hbl : isBlankLine l
    · -- `# text`
      simp only [hbl, Bool.false_eq_true, if_false, List.cons_append, at_cons, List.append_assoc] at hrest hend
      rw [at_append] at hrest
      obtain ⟨h32, hlat, hrest2⟩ := hrest
      obtain ⟨c0, hc0, hc128, hceol, hccr, hsk, hrest3⟩ := commentLine_end s l (p + k + 1 + l.length) _ hrest2
      have hlvl := getCommentLevel_at s p k hk hpre 32 h32 (by decide)
      have heol : isEol s (p + k) = false := by simp [isEol, h32]
      have hline := getCommentLine_at hs l hl (p + k + 1) (bnd_succ hs h32 (by decide)) hlat c0 hc0 hc128 hceol hccr
      obtain ⟨lines, hgo, hmap⟩ := ih (fun x hx => hc x (List.mem_cons_of_mem _ hx)) m k
        (content ++ [⟨p + k + 1, p + k + 1 + l.length⟩]) (p + k + 1 + l.length + (crDbl l).length + 1) (Or.inr rfl)
        (fun _ => ⟨rfl, by omega⟩) hrest3
        (by
          obtain ⟨b, hb, hb35⟩ := hend
          refine ⟨b, ?_, hb35⟩
          simp only [List.length_append, List.length_cons, hklen] at hb
          rw [show p + k + 1 + l.length + (crDbl l).length + 1 + (commentText (hashes k) ls).length =
            p + (k + (l.length + ((crDbl l).length + ((commentText (hashes k) ls).length + 1)) + 1)) by omega]
          exact hb)
        (by simp at hn; omega)
      refine ⟨⟨p + k + 1, p + k + 1 + l.length⟩ :: lines, ?_, ?_⟩
      · rw [getCommentGo]
        simp only [hlt, if_true, hlvl, hk0, Bool.false_eq_true, if_false, hlevne, heol, expectByte, isCurrentByte, h32,
          beq_self_eq_true, hline, hsk, Option.getD_some, hgo]
        simp only [List.append_assoc, List.singleton_append, List.length_append, List.length_cons, hklen]
        congr 1
        omega
      · simp [hmap, canonLine, hbl, at_spanBytes hlat]
    · -- `#` alone
      simp only [hbl, if_true, List.nil_append, at_cons] at hrest hend
      have hlvl := getCommentLevel_at s p k hk hpre 10 hrest.1 (by decide)
      have heol : isEol s (p + k) = true := by simp [isEol, hrest.1]
      have hbk : Bnd s (p + k) := bnd_of_ascii hrest.1 (by decide)
      have hline := getCommentLine_at hs [] (by decide) (p + k) hbk (by simp) 10 (by simpa using hrest.1) (by decide)
        (by simpa using heol) (fun h0 => by cases h0)
      simp only [List.length_nil, Nat.add_zero] at hline
      have hsk : skipEol s (p + k) = some (p + k + 1) := by simp [skipEol, hrest.1]
      obtain ⟨lines, hgo, hmap⟩ := ih (fun x hx => hc x (List.mem_cons_of_mem _ hx)) m k
        (content ++ [⟨p + k, p + k⟩]) (p + k + 1) (Or.inr rfl) (fun _ => ⟨rfl, by omega⟩) hrest.2
        (by
          obtain ⟨b, hb, hb35⟩ := hend
          refine ⟨b, ?_, hb35⟩
          simp only [List.length_append, List.length_cons, hklen] at hb
          rw [show p + k + 1 + (commentText (hashes k) ls).length = p + (k + ((commentText (hashes k) ls).length + 1)) by
            omega]
          exact hb)
        (by simp at hn; omega)
      refine ⟨⟨p + k, p + k⟩ :: lines, ?_, ?_⟩
      · rw [getCommentGo]
        simp only [hlt, if_true, hlvl, hk0, Bool.false_eq_true, if_false, hlevne, heol, hline, hsk, Option.getD_some, hgo]
        simp only [List.append_assoc, List.singleton_append, List.length_append, List.length_cons, List.length_nil, hklen]
        congr 1
        omega
      · simp [hmap, canonLine, hbl, spanBytes]

/-! ## blank lines, entry starts -/

/-- end of input, or a byte in column 0 that starts an entry: a letter, `-` or `#` -/
def EntryStart (s : Src) (q : Nat) : Prop :=
  s.size ≤ q ∨ ∃ b, s[q]? = some b ∧ (isAlpha b = true ∨ b = 45 ∨ b = 35)

theorem entryStart_byte : ∀ b : UInt8, (isAlpha b = true ∨ b = 45 ∨ b = 35) →
    b ≠ 123 ∧ b ≠ 32 ∧ b ≠ 10 ∧ b ≠ 13 ∧ b ≠ 46 := by
  apply forall_uint8; decide +kernel

theorem EntryStart.stopper {s : Src} {q : Nat} (h : EntryStart s q) : Stopper s q := by
  rcases h with h | ⟨b, hb, hab⟩
  · exact Or.inl h
  · obtain ⟨h1, h2, h3, h4, _⟩ := entryStart_byte b hab
    exact Or.inr (Or.inl ⟨b, hb, h2, h3, fun h => absurd h h4, h1⟩)

theorem EntryStart.noSpace {s : Src} {q : Nat} (h : EntryStart s q) :
    s[q]? ≠ some 32 ∧ s[q]? ≠ some 10 ∧ s[q]? ≠ some 13 ∧ s[q]? ≠ some 46 := by
  rcases h with h | ⟨b, hb, hab⟩
  · have : s[q]? = none := by simp; omega
    simp [this]
  · obtain ⟨h1, h2, h3, h4, h5⟩ := entryStart_byte b hab
    rw [hb]; simp [h2, h3, h4, h5]

theorem skipBlankBlockGo_newlines (s : Src) (k : Nat) : ∀ (n q c : Nat), (∀ j, j < k → s[q + j]? = some 10) →
    EntryStart s (q + k) → k + 1 ≤ n → skipBlankBlockGo s n q c = (q + k, c + k) := by
  induction k with
  | zero =>
    intro n q c _ hstop hn
    obtain ⟨m, rfl⟩ : ∃ m, n = m + 1 := ⟨n - 1, by omega⟩
    obtain ⟨h1, h2, h3, _⟩ := hstop.noSpace
    simp only [Nat.add_zero] at h1 h2 h3 ⊢
    rw [skipBlankBlockGo, skipBlankInline_stay s q h1]
    have : skipEol s q = none := by unfold skipEol; split <;> simp_all
    rw [this]; simp
  | succ k ih =>
    intro n q c h10 hstop hn
    obtain ⟨m, rfl⟩ : ∃ m, n = m + 1 := ⟨n - 1, by omega⟩
    have h0 : s[q]? = some 10 := by have := h10 0 (by omega); simpa using this
    rw [skipBlankBlockGo, skipBlankInline_stay s q (by rw [h0]; decide)]
    have : skipEol s q = some (q + 1) := by simp [skipEol, h0]
    rw [this]
    simp only []
    rw [ih m (q + 1) (c + 1) (fun j hj => by
      have := h10 (j + 1) (by omega); rwa [show q + (j + 1) = q + 1 + j by omega] at this)
      (by rwa [show q + 1 + k = q + (k + 1) by omega]) (by omega)]
    congr 1 <;> omega

theorem skipBlankBlock_newlines (s : Src) (k q : Nat) (h10 : ∀ j, j < k → s[q + j]? = some 10)
    (hstop : EntryStart s (q + k)) : skipBlankBlock s q = (q + k, k) := by
  unfold skipBlankBlock
  have hk : q + k ≤ s.size ∨ k = 0 := by
    cases k with
    | zero => right; rfl
    | succ k => left; have := get_lt (h10 k (by omega)); omega
  have := skipBlankBlockGo_newlines s k (s.size - q + 1) q 0 h10 hstop (by
    rcases hk with h | h
    · omega
    · omega)
  simpa using this

/-- a line that is not blank: `skip_blank_block` stops in front of it -/
def BlockStop (s : Src) (E : Nat) : Prop := ∀ n c, skipBlankBlockGo s (n + 1) E c = (E, c)

theorem EntryStart.blockStop {s : Src} {E : Nat} (h : EntryStart s E) : BlockStop s E := by
  intro n c
  have := skipBlankBlockGo_newlines s 0 (n + 1) E c (fun j hj => by omega) h (by omega)
  simpa using this

theorem BlockStop.sbb {s : Src} {E : Nat} (h : BlockStop s E) : skipBlankBlock s E = (E, 0) := by
  unfold skipBlankBlock; exact h _ 0

theorem skipBlankBlockGo_newlines' (s : Src) (k : Nat) : ∀ (n q c : Nat), (∀ j, j < k → s[q + j]? = some 10) →
    BlockStop s (q + k) → k + 1 ≤ n → skipBlankBlockGo s n q c = (q + k, c + k) := by
  induction k with
  | zero =>
    intro n q c _ hstop hn
    obtain ⟨m, rfl⟩ : ∃ m, n = m + 1 := ⟨n - 1, by omega⟩
    simpa using hstop m c
  | succ k ih =>
    intro n q c h10 hstop hn
    obtain ⟨m, rfl⟩ : ∃ m, n = m + 1 := ⟨n - 1, by omega⟩
    have h0 : s[q]? = some 10 := by have := h10 0 (by omega); simpa using this
    rw [skipBlankBlockGo, skipBlankInline_stay s q (by rw [h0]; decide)]
    have : skipEol s q = some (q + 1) := by simp [skipEol, h0]
    rw [this]
    simp only []
    rw [ih m (q + 1) (c + 1) (fun j hj => by
      have := h10 (j + 1) (by omega); rwa [show q + (j + 1) = q + 1 + j by omega] at this)
      (by rwa [show q + 1 + k = q + (k + 1) by omega]) (by omega)]
    congr 1 <;> omega

theorem skipBlankBlock_newlines' (s : Src) (k q : Nat) (h10 : ∀ j, j < k → s[q + j]? = some 10)
    (hstop : BlockStop s (q + k)) : skipBlankBlock s q = (q + k, k) := by
  unfold skipBlankBlock
  have hk : q + k ≤ s.size ∨ k = 0 := by
    cases k with
    | zero => right; rfl
    | succ k => left; have := get_lt (h10 k (by omega)); omega
  have := skipBlankBlockGo_newlines' s k (s.size - q + 1) q 0 h10 hstop (by
    rcases hk with h | h
    · omega
    · omega)
  simpa using this

/-- `get_pattern` finds no value when the next line is an attribute -/
theorem getPattern_none (s : Src) (n q : Nat) (h10 : s[q]? = some 10) (hsp : ∀ j, j < 4 → s[q + 1 + j]? = some 32)
    (hdot : s[q + 5]? = some 46) : getPattern s (n + 2) q = .ok none (q + 1) := by
  have hsbi : skipBlankInline s q = q := skipBlankInline_stay s q (by rw [h10]; decide)
  have heol : skipEol s q = some (q + 1) := by simp [skipEol, h10]
  have hsbb : skipBlankBlock s (q + 1) = (q + 1, 0) :=
    skipBlankBlock_line s (q + 1) 4 46 hsp (by simpa using hdot) (by decide) (by decide) (fun h => absurd h (by decide))
  have hstop : Stopper s (q + 1) :=
    Or.inr (Or.inr ⟨4, 46, by omega, hsp, by simpa using hdot, Or.inl rfl⟩)
  rw [getPattern]
  simp only [hsbi, heol, hsbb]
  rw [patternLoop_stop s n ⟨[], none, none, .lineStart, none⟩ (q + 1) rfl hstop]

/-! ## attributes -/

def attrLine (a : Attribute Bytes) : Bytes := spacesL 4 ++ 46 :: (a.id ++ [32, 61] ++ patText 1 a.value ++ [10])

def attrLines : List (Attribute Bytes) → Bytes
  | [] => []
  | a :: as => attrLine a ++ attrLines as

theorem attrsText_shift (as : List (Attribute Bytes)) : attrsText as ++ [10] = 10 :: attrLines as := by
  induction as with
  | nil => rfl
  | cons a as ih =>
    simp only [attrsText, attrText, attrLines, attrLine, List.cons_append, List.append_assoc]
    rw [ih]
    simp

/-- a position at which a message or term ends: `get_pattern` stops there (`Stopper`), it is not a blank line, and
`get_attributes` finds no (further) attribute.  The end of input and a letter, `-` or `#` in column 0 are of this kind
(`EntryStart.entryStop`); so is the first line of a Junk entry that follows a message or term. -/
structure EntryStop (s : Src) (E : Nat) : Prop where
  stopper : Stopper s E
  block : BlockStop s E
  attrs : ∀ fuel, 8 * s.size + 16 ≤ fuel → ∀ n acc, getAttributesGo s fuel (n + 1) acc E = .ok acc E

theorem EntryStart.entryStop {s : Src} {E : Nat} (h : EntryStart s E) : EntryStop s E := by
  refine ⟨h.stopper, h.blockStop, ?_⟩
  · intro fuel _ n acc
    obtain ⟨h1, _, _, h4⟩ := h.noSpace
    rw [getAttributesGo, skipBlankInline_stay s E h1, takeByteIf_no s E 46 h4]
    simp

/-- after an entry: empty lines, then the end of input, the start of the next entry, or a Junk line (`EntryStop`) -/
def EntryFollow (s : Src) (P E : Nat) : Prop :=
  P ≤ E ∧ (∀ j, P ≤ j → j < E → s[j]? = some 10) ∧ EntryStop s E

theorem EntryFollow.pat {s : Src} {P E : Nat} (h : EntryFollow s P E) : PatFollow s P E :=
  ⟨h.1, h.2.1, h.2.2.stopper⟩

theorem getAttributesGo_text {s : Src} (hs : AsciiThenBoundary s) (fuel : Nat) (hfuel : 8 * s.size + 16 ≤ fuel)
    (as : List (Attribute Bytes)) (hv : ∀ a ∈ as, rtAttr a = true) :
    ∀ (n : Nat) (acc : List (Attribute Span)) (p E : Nat), At s p (attrLines as) →
      EntryFollow s (p + (attrLines as).length) E → (as = [] → p = E) → E ≤ s.size → as.length + 1 ≤ n →
      ∃ as', getAttributesGo s fuel n acc p = .ok (acc ++ as') E ∧ as'.map (Attribute.mapS (spanBytes s)) = as := by
  induction as with
  | nil =>
    intro n acc p E _ hf hpe _ hn
    obtain ⟨m, rfl⟩ : ∃ m, n = m + 1 := ⟨n - 1, by omega⟩
    have := hpe rfl
    subst this
    refine ⟨[], ?_, rfl⟩
    rw [hf.2.2.attrs fuel hfuel m acc]
    simp
  | cons a as ih =>
    intro n acc p E hat hf _ hE hn
    obtain ⟨m, rfl⟩ : ∃ m, n = m + 1 := ⟨n - 1, by omega⟩
    have ha := hv a (List.mem_cons_self)
    simp only [rtAttr, Bool.and_eq_true] at ha
    simp only [attrLines, attrLine, List.append_assoc, List.cons_append, List.nil_append] at hat hf
    rw [at_append] at hat
    obtain ⟨hsp0, hat1⟩ := hat
    have hsp := at_spaces s p 4 hsp0
    simp only [spacesL, List.length_replicate, at_cons] at hat1
    obtain ⟨hdot, hat2⟩ := hat1
    rw [at_append] at hat2
    obtain ⟨hid, hat3⟩ := hat2
    simp only [at_cons] at hat3
    obtain ⟨h32, h61, hat4⟩ := hat3
    -- identifier and `=`
    have hidp := getIdentifier_at hs (p + 4 + 1) a.id ha.1 hid (fun c hc => by rw [h32] at hc; cases hc; decide)
    have hsbi : skipBlankInline s (p + 4 + 1 + a.id.length) = p + 4 + 1 + a.id.length + 1 := by
      rw [skipBlankInline_space s _ h32]; exact skipBlankInline_stay s _ (by rw [h61]; decide)
    have hsbi0 : skipBlankInline s p = p + 4 :=
      skipBlankInline_run s 4 p hsp (by rw [hdot]; decide)
    -- the value
    rw [at_append] at hat4
    obtain ⟨hpat0, hnlrest⟩ := hat4
    rw [at_cons] at hnlrest
    have hpatAt : At s (p + 4 + 1 + a.id.length + 1 + 1) (patText 1 a.value ++ [10]) := by
      rw [at_append]; exact ⟨hpat0, by simp only [at_cons]; exact ⟨hnlrest.1, trivial⟩⟩
    have hrestAt : At s (p + 4 + 1 + a.id.length + 1 + 1 + (patText 1 a.value).length + 1) (attrLines as) := hnlrest.2
    have hlenA : p + (spacesL 4 ++ 46 :: (a.id ++ 32 :: 61 :: (patText 1 a.value ++ 10 :: attrLines as))).length =
        p + 4 + 1 + a.id.length + 1 + 1 + (patText 1 a.value).length + 1 + (attrLines as).length := by
      simp [spacesL]; omega
    rw [hlenA] at hf
    -- where the value's pattern stops
    obtain ⟨q', hq'def, hpf⟩ : ∃ q' : Nat, (as = [] → q' = E) ∧
        (as ≠ [] → q' = p + 4 + 1 + a.id.length + 1 + 1 + (patText 1 a.value).length + 1) ∧
        PatFollow s (p + 4 + 1 + a.id.length + 1 + 1 + (patText 1 a.value).length + 1) q' := by
      cases as with
      | nil =>
        simp only [attrLines, List.length_nil, Nat.add_zero] at hf
        exact ⟨E, fun _ => rfl, fun h => absurd rfl h, hf.pat⟩
      | cons a2 as2 =>
        refine ⟨_, fun h => by simp at h, fun _ => rfl, Nat.le_refl _, fun j h1 h2 => by omega, ?_⟩
        simp only [attrLines, attrLine, List.append_assoc] at hrestAt
        rw [at_append] at hrestAt
        have hd := hrestAt.2
        simp only [List.cons_append, at_cons, spacesL, List.length_replicate] at hd
        exact Or.inr (Or.inr ⟨4, 46, by omega, at_spaces s _ 4 hrestAt.1, hd.1, Or.inl rfl⟩)
    have hq'le : q' ≤ s.size := by
      cases as with
      | nil => rw [hq'def rfl]; exact hE
      | cons a2 as2 =>
        rw [hpf.1 (by simp)]
        rcases at_le hrestAt with h0 | h'
        · simp [attrLines, attrLine] at h0
        · omega
    obtain ⟨els, hpat, hmap⟩ := (rtPattern_patRT a.value ha.2 1).parse s _ q' fuel hs hpatAt hpf.2 (by omega)
    obtain ⟨as', hgo, hmas⟩ := ih (fun x hx => hv x (List.mem_cons_of_mem _ hx)) m
      (acc ++ [⟨⟨p + 4 + 1, p + 4 + 1 + a.id.length⟩, els⟩]) q' E
      (by
        cases as with
        | nil => simp [attrLines]
        | cons a2 as2 => rw [hpf.1 (by simp)]; exact hrestAt)
      (by
        cases as with
        | nil =>
          rw [hq'def rfl]
          simp only [attrLines, List.length_nil, Nat.add_zero]
          exact ⟨Nat.le_refl _, fun j h1 h2 => by omega, hf.2.2⟩
        | cons a2 as2 => rw [hpf.1 (by simp)]; exact hf)
      hq'def hE (by simp at hn; omega)
    refine ⟨⟨⟨p + 4 + 1, p + 4 + 1 + a.id.length⟩, els⟩ :: as', ?_, ?_⟩
    · rw [getAttributesGo]
      simp only [hsbi0, takeByteIf_yes s (p + 4) 46 hdot, Bool.not_true, Bool.false_eq_true, if_false, getAttribute, hidp,
        hsbi, expectByte, isCurrentByte, h61, beq_self_eq_true, if_true, hpat, hgo]
      simp
    · simp [Attribute.mapS, at_spanBytes hid, hmap, hmas]

/-! ## messages and terms (without the attached comment) -/

theorem attrLines_length (as : List (Attribute Bytes)) : as.length ≤ (attrLines as).length := by
  induction as with
  | nil => simp [attrLines]
  | cons a as ih => simp only [attrLines, attrLine, List.length_append, List.length_cons]; omega

/-- `id =`, value, attributes: the part of `get_message` / `get_term` after the identifier -/
theorem getValueAttrs_text {s : Src} (hs : AsciiThenBoundary s) (fuel : Nat) (hfuel : 8 * s.size + 16 ≤ fuel)
    (value : Option (List (PatElem Bytes))) (attrs : List (Attribute Bytes))
    (hval : (match value with
      | some v => rtPattern v
      | none => !attrs.isEmpty) = true)
    (hattrs : ∀ a ∈ attrs, rtAttr a = true) (q2 E : Nat)
    (hat : At s q2 (optPatText value ++ 10 :: attrLines attrs))
    (hf : EntryFollow s (q2 + (optPatText value ++ 10 :: attrLines attrs).length) E) (hE : E ≤ s.size) :
    ∃ pattern' attrs', getPattern s fuel q2 = .ok pattern' (if attrs.isEmpty then E else q2 + (optPatText value).length + 1) ∧
      skipBlankBlock s (if attrs.isEmpty then E else q2 + (optPatText value).length + 1) =
        (if attrs.isEmpty then E else q2 + (optPatText value).length + 1, 0) ∧
      getAttributes s fuel (if attrs.isEmpty then E else q2 + (optPatText value).length + 1) = .ok attrs' E ∧
      pattern'.map (mapPat (spanBytes s)) = value ∧ attrs'.map (Attribute.mapS (spanBytes s)) = attrs := by
  rw [at_append] at hat
  obtain ⟨hpatAt0, hnl⟩ := hat
  rw [at_cons] at hnl
  have hlen : q2 + (optPatText value ++ 10 :: attrLines attrs).length =
      q2 + (optPatText value).length + 1 + (attrLines attrs).length := by simp; omega
  rw [hlen] at hf
  -- the attribute lines
  have hattrParse : ∃ attrs', getAttributes s fuel (if attrs.isEmpty then E else q2 + (optPatText value).length + 1) =
      .ok attrs' E ∧ attrs'.map (Attribute.mapS (spanBytes s)) = attrs := by
    cases attrs with
    | nil =>
      simp only [List.isEmpty_nil, if_true]
      obtain ⟨as', h1, h2⟩ := getAttributesGo_text hs fuel hfuel [] (by simp) (s.size - E + 1) [] E E (by simp [attrLines])
        ⟨by simp [attrLines], fun j h1 h2 => by simp [attrLines] at h1; omega,
          by simpa [attrLines] using hf.2.2⟩ (fun _ => rfl) hE (by simp)
      exact ⟨as', by simpa [getAttributes] using h1, h2⟩
    | cons a as =>
      simp only [List.isEmpty_cons, Bool.false_eq_true, if_false]
      have hle := attrLines_length (a :: as)
      have hsz : q2 + (optPatText value).length + 1 + (attrLines (a :: as)).length ≤ s.size := by
        rcases at_le hnl.2 with h0 | h'
        · simp [attrLines, attrLine] at h0
        · exact h'
      obtain ⟨as', h1, h2⟩ := getAttributesGo_text hs fuel hfuel (a :: as) hattrs
        (s.size - (q2 + (optPatText value).length + 1) + 1) [] _ E hnl.2 hf (fun h => by cases h) hE (by omega)
      exact ⟨as', by simpa [getAttributes] using h1, h2⟩
  obtain ⟨attrs', hga, hma⟩ := hattrParse
  -- where `get_pattern` stops
  have hq3stay : skipBlankBlock s (if attrs.isEmpty then E else q2 + (optPatText value).length + 1) =
      (if attrs.isEmpty then E else q2 + (optPatText value).length + 1, 0) := by
    cases attrs with
    | nil =>
      simp only [List.isEmpty_nil, if_true]
      exact hf.2.2.block.sbb
    | cons a as =>
      simp only [List.isEmpty_cons, Bool.false_eq_true, if_false]
      have h := hnl.2
      simp only [attrLines, attrLine, List.append_assoc] at h
      rw [at_append] at h
      have hd := h.2
      simp only [List.cons_append, at_cons, spacesL, List.length_replicate] at hd
      exact skipBlankBlock_line s _ 4 46 (at_spaces s _ 4 h.1) hd.1 (by decide) (by decide) (fun h => absurd h (by decide))
  cases value with
  | some v =>
    simp only at hval
    simp only [optPatText] at hpatAt0 hnl hf hga hq3stay ⊢
    have hpatAt : At s q2 (patText 0 v ++ [10]) := by
      rw [at_append]; exact ⟨hpatAt0, by simp only [at_cons]; exact ⟨hnl.1, trivial⟩⟩
    have hpf : PatFollow s (q2 + (patText 0 v).length + 1) (if attrs.isEmpty then E else q2 + (patText 0 v).length + 1) := by
      cases attrs with
      | nil =>
        simp only [List.isEmpty_nil, if_true]
        simp only [attrLines, List.length_nil, Nat.add_zero] at hf
        exact hf.pat
      | cons a as =>
        simp only [List.isEmpty_cons, Bool.false_eq_true, if_false]
        refine ⟨Nat.le_refl _, fun j h1 h2 => by omega, ?_⟩
        have h := hnl.2
        simp only [attrLines, attrLine, List.append_assoc] at h
        rw [at_append] at h
        have hd := h.2
        simp only [List.cons_append, at_cons, spacesL, List.length_replicate] at hd
        exact Or.inr (Or.inr ⟨4, 46, by omega, at_spaces s _ 4 h.1, hd.1, Or.inl rfl⟩)
    have hq'le : (if attrs.isEmpty then E else q2 + (patText 0 v).length + 1) ≤ s.size := by
      split
      · exact hE
      · have := get_lt hnl.1; omega
    obtain ⟨els, hpat, hmap⟩ := (rtPattern_patRT v hval 0).parse s q2 _ fuel hs hpatAt hpf (by omega)
    exact ⟨some els, attrs', hpat, hq3stay, hga, by simp [hmap], hma⟩
  | none =>
    simp only [Bool.not_eq_true', List.isEmpty_eq_false_iff] at hval
    have hane : attrs.isEmpty = false := by cases attrs <;> simp_all
    simp only [optPatText, List.length_nil, Nat.add_zero, hane, Bool.false_eq_true, if_false] at hnl hf hga hq3stay ⊢
    have h := hnl.2
    obtain ⟨a, as, rfl⟩ : ∃ a as, attrs = a :: as := by
      cases attrs with
      | nil => exact absurd rfl hval
      | cons a as => exact ⟨a, as, rfl⟩
    simp only [attrLines, attrLine, List.append_assoc] at h
    rw [at_append] at h
    have hd := h.2
    simp only [List.cons_append, at_cons, spacesL, List.length_replicate] at hd
    obtain ⟨k, hk⟩ : ∃ k, fuel = k + 2 := ⟨fuel - 2, by omega⟩
    have hpn := getPattern_none s k q2 hnl.1 (at_spaces s _ 4 h.1) (by
      rw [show q2 + 5 = q2 + 1 + 4 by omega]; exact hd.1)
    rw [← hk] at hpn
    exact ⟨none, attrs', hpn, hq3stay, hga, rfl, hma⟩

theorem skipBlankInlineGo_stop (s : Src) : ∀ (n p : Nat), s.size - p ≤ n → s[skipBlankInlineGo s n p]? ≠ some 32 := by
  intro n
  induction n with
  | zero =>
    intro p hp
    have : s[p]? = none := by simp; omega
    simp [skipBlankInlineGo, this]
  | succ n ih =>
    intro p hp
    rw [skipBlankInlineGo]
    split
    · exact ih (p + 1) (by omega)
    · rename_i h; simpa using h

theorem skipBlankInline_idem (s : Src) (p : Nat) : skipBlankInline s (skipBlankInline s p) = skipBlankInline s p :=
  skipBlankInline_stay s _ (skipBlankInlineGo_stop s _ p (Nat.le_refl _))

/-- `get_pattern` skips inline blanks first, so it does not matter whether the caller did -/
theorem getPattern_skipInline (s : Src) (n p : Nat) : getPattern s n (skipBlankInline s p) = getPattern s n p := by
  cases n with
  | zero => simp [getPattern]
  | succ n => rw [getPattern, getPattern, skipBlankInline_idem]

def msgBody (id : Bytes) (value : Option (List (PatElem Bytes))) (attrs : List (Attribute Bytes)) : Bytes :=
  id ++ [32, 61] ++ (optPatText value ++ 10 :: attrLines attrs)

theorem getMessage_text {s : Src} (hs : AsciiThenBoundary s) (fuel : Nat) (hfuel : 8 * s.size + 16 ≤ fuel)
    (id : Bytes) (value : Option (List (PatElem Bytes))) (attrs : List (Attribute Bytes)) (hid : validIdent id = true)
    (hval : (match value with
      | some v => rtPattern v
      | none => !attrs.isEmpty) = true)
    (hattrs : ∀ a ∈ attrs, rtAttr a = true) (p E es0 : Nat) (hat : At s p (msgBody id value attrs))
    (hf : EntryFollow s (p + (msgBody id value attrs).length) E) (hE : E ≤ s.size) :
    ∃ m', getMessage s fuel es0 p = .ok m' E ∧ m'.comment = none ∧ spanBytes s m'.id = id ∧
      m'.value.map (mapPat (spanBytes s)) = value ∧ m'.attributes.map (Attribute.mapS (spanBytes s)) = attrs := by
  simp only [msgBody] at hat hf
  rw [at_append, at_append] at hat
  obtain ⟨⟨hidAt, heq⟩, hrest⟩ := hat
  simp only [at_cons] at heq
  simp only [List.length_append, List.length_cons, List.length_nil] at hrest hf
  have hidp := getIdentifier_at hs p id hid hidAt (fun c hc => by rw [heq.1] at hc; cases hc; decide)
  have hsbi : skipBlankInline s (p + id.length) = p + id.length + 1 := by
    rw [skipBlankInline_space s _ heq.1]; exact skipBlankInline_stay s _ (by rw [heq.2.1]; decide)
  have e1 : p + (id.length + (0 + 1 + 1)) = p + id.length + 1 + 1 := by omega
  rw [e1] at hrest
  obtain ⟨pattern', attrs', hpat, hsbb, hga, hmv, hma⟩ := getValueAttrs_text hs fuel hfuel value attrs hval hattrs
    (p + id.length + 1 + 1) E hrest
    (by
      rw [show p + id.length + 1 + 1 + (optPatText value ++ 10 :: attrLines attrs).length =
        p + (id.length + (0 + 1 + 1) + ((optPatText value).length + ((attrLines attrs).length + 1))) by simp; omega]
      exact hf) hE
  have hnotboth : (pattern'.isNone && attrs'.isEmpty) = false := by
    cases value with
    | some v => cases pattern' <;> simp_all
    | none =>
      simp only [Bool.not_eq_true', List.isEmpty_eq_false_iff] at hval
      cases attrs' with
      | nil => simp at hma; exact absurd hma.symm (fun h => hval h.symm)
      | cons _ _ => simp
  refine ⟨⟨⟨p, p + id.length⟩, pattern', attrs', none⟩, ?_, rfl, at_spanBytes hidAt, hmv, hma⟩
  simp only [getMessage, hidp, hsbi, expectByte, isCurrentByte, heq.2.1, beq_self_eq_true, if_true, hpat, hsbb, hga,
    hnotboth, Bool.false_eq_true, if_false]

theorem getTerm_text {s : Src} (hs : AsciiThenBoundary s) (fuel : Nat) (hfuel : 8 * s.size + 16 ≤ fuel)
    (id : Bytes) (value : List (PatElem Bytes)) (attrs : List (Attribute Bytes)) (hid : validIdent id = true)
    (hval : rtPattern value = true) (hattrs : ∀ a ∈ attrs, rtAttr a = true) (p E es0 : Nat)
    (hat : At s p (45 :: msgBody id (some value) attrs))
    (hf : EntryFollow s (p + (45 :: msgBody id (some value) attrs).length) E) (hE : E ≤ s.size) :
    ∃ t', getTerm s fuel es0 p = .ok t' E ∧ t'.comment = none ∧ spanBytes s t'.id = id ∧
      mapPat (spanBytes s) t'.value = value ∧ t'.attributes.map (Attribute.mapS (spanBytes s)) = attrs := by
  simp only [msgBody] at hat hf
  rw [at_cons, at_append, at_append] at hat
  obtain ⟨h45, ⟨hidAt, heq⟩, hrest⟩ := hat
  simp only [at_cons] at heq
  simp only [List.length_append, List.length_cons, List.length_nil] at hrest hf
  have hidp := getIdentifier_at hs (p + 1) id hid hidAt (fun c hc => by rw [heq.1] at hc; cases hc; decide)
  have hsbi : skipBlankInline s (p + 1 + id.length) = p + 1 + id.length + 1 := by
    rw [skipBlankInline_space s _ heq.1]; exact skipBlankInline_stay s _ (by rw [heq.2.1]; decide)
  have e1 : p + 1 + (id.length + (0 + 1 + 1)) = p + 1 + id.length + 1 + 1 := by omega
  rw [e1] at hrest
  obtain ⟨pattern', attrs', hpat, hsbb, hga, hmv, hma⟩ := getValueAttrs_text hs fuel hfuel (some value) attrs hval hattrs
    (p + 1 + id.length + 1 + 1) E hrest
    (by
      rw [show p + 1 + id.length + 1 + 1 + (optPatText (some value) ++ 10 :: attrLines attrs).length =
        p + (id.length + (0 + 1 + 1) + ((optPatText (some value)).length + ((attrLines attrs).length + 1)) + 1) by
          simp; omega]
      exact hf) hE
  -- `get_term` skips blanks itself before calling `get_pattern`; the pattern text starts with ` ` or `\\n`
  have hskip := getPattern_skipInline s fuel (p + 1 + id.length + 1 + 1)
  obtain ⟨v', hv'⟩ : ∃ v', pattern' = some v' := by
    cases pattern' with
    | none => simp at hmv
    | some v' => exact ⟨v', rfl⟩
  subst hv'
  refine ⟨⟨⟨p + 1, p + 1 + id.length⟩, v', attrs', none⟩, ?_, rfl, at_spanBytes hidAt, by simpa using hmv, hma⟩
  simp only [getTerm, expectByte, isCurrentByte, h45, beq_self_eq_true, if_true, hidp, hsbi, heq.2.1, hskip, hpat, hsbb,
    hga]

/-! ## single steps of the entry loop -/

def flushC : Option (List Span) → List (Entry Span)
  | none => []
  | some c => [.comment c]

def isCommentE : Entry Span → Bool
  | .comment _ => true
  | _ => false

/-- an entry that is not a level-1 comment, with no comment to attach (none pending, or too far away) -/
theorem parseLoop_step_flush (s : Src) (fuel n : Nat) (body : List (Entry Span)) (lc : Option (List Span)) (cnt p : Nat)
    (e : Entry Span) (E : Nat) (hp : p < s.size) (he : getEntry s fuel p = .ok e E) (hnc : isCommentE e = false)
    (hlc : lc = none ∨ 2 ≤ cnt) :
    parseLoop s fuel (n + 1) body [] lc cnt p =
      parseLoop s fuel n (body ++ flushC lc ++ [e]) [] none (skipBlankBlock s E).2 (skipBlankBlock s E).1 := by
  simp only [parseLoop, hp, if_true, he]
  cases lc with
  | none => cases e <;> simp_all [flushC, isCommentE]
  | some c =>
    have hcnt : ¬ cnt < 2 := by
      rcases hlc with h | h
      · cases h
      · omega
    cases e <;> first | (simp [isCommentE] at hnc; done) | simp [flushC, hcnt]

/-- a level-1 comment: it becomes the pending comment -/
theorem parseLoop_step_comment (s : Src) (fuel n : Nat) (body : List (Entry Span)) (lc : Option (List Span)) (cnt p : Nat)
    (c : List Span) (E : Nat) (hp : p < s.size) (he : getEntry s fuel p = .ok (.comment c) E) :
    parseLoop s fuel (n + 1) body [] lc cnt p =
      parseLoop s fuel n (body ++ flushC lc) [] (some c) (skipBlankBlock s E).2 (skipBlankBlock s E).1 := by
  simp only [parseLoop, hp, if_true, he]
  cases lc <;> simp [flushC]

/-- a message directly after a comment: the comment is attached -/
theorem parseLoop_step_attach_msg (s : Src) (fuel n : Nat) (body : List (Entry Span)) (c : List Span) (cnt p : Nat)
    (m : Message Span) (E : Nat) (hp : p < s.size) (he : getEntry s fuel p = .ok (.message m) E) (hcnt : cnt < 2) :
    parseLoop s fuel (n + 1) body [] (some c) cnt p =
      parseLoop s fuel n (body ++ [.message { m with comment := some c }]) [] none (skipBlankBlock s E).2
        (skipBlankBlock s E).1 := by
  rw [parseLoop]
  simp only [hp, if_true, he, hcnt]

theorem parseLoop_step_attach_term (s : Src) (fuel n : Nat) (body : List (Entry Span)) (c : List Span) (cnt p : Nat)
    (t : Term Span) (E : Nat) (hp : p < s.size) (he : getEntry s fuel p = .ok (.term t) E) (hcnt : cnt < 2) :
    parseLoop s fuel (n + 1) body [] (some c) cnt p =
      parseLoop s fuel n (body ++ [.term { t with comment := some c }]) [] none (skipBlankBlock s E).2
        (skipBlankBlock s E).1 := by
  rw [parseLoop]
  simp only [hp, if_true, he, hcnt]

theorem parseLoop_end (s : Src) (fuel n : Nat) (body : List (Entry Span)) (lc : Option (List Span)) (cnt p : Nat)
    (hp : s.size ≤ p) : parseLoop s fuel (n + 1) body [] lc cnt p = .done (body ++ flushC lc, []) := by
  simp only [parseLoop, show ¬ p < s.size by omega, if_false]
  cases lc <;> simp [flushC]

/-! ## `get_entry` on the texts of the entries -/

def canonComment (c : List Bytes) : List Bytes := c.map canonLine

/-- the entry as it is read back: whitespace-only comment lines come back empty -/
def canonEntry : Entry Bytes → Entry Bytes
  | .message m => .message { m with comment := m.comment.map canonComment }
  | .term t => .term { t with comment := t.comment.map canonComment }
  | .comment c => .comment (canonComment c)
  | .groupComment c => .groupComment (canonComment c)
  | .resourceComment c => .resourceComment (canonComment c)
  | .junk c => .junk c

def commentCtor (k : Nat) (c : List Span) : Entry Span :=
  if k = 1 then .comment c else if k = 2 then .groupComment c else .resourceComment c

theorem commentText_length (pre : Bytes) (c : List Bytes) : c.length ≤ (commentText pre c).length := by
  induction c with
  | nil => simp [commentText]
  | cons l ls ih => simp only [commentText, List.length_append, List.length_cons]; omega

theorem commentText_head (k : Nat) (hk : 1 ≤ k) (c : List Bytes) (hne : c ≠ []) :
    (commentText (hashes k) c).head? = some 35 := by
  cases c with
  | nil => exact absurd rfl hne
  | cons l ls =>
    cases k with
    | zero => omega
    | succ k => simp [commentText, hashes, List.replicate]

theorem getEntry_comment {s : Src} (hs : AsciiThenBoundary s) (fuel k : Nat) (hk : 1 ≤ k ∧ k ≤ 3) (c : List Bytes)
    (hc : rtComment c = true) (p : Nat) (hat : At s p (commentText (hashes k) c))
    (hend : ∃ b, s[p + (commentText (hashes k) c).length]? = some b ∧ b ≠ 35) :
    ∃ c', getEntry s fuel p = .ok (commentCtor k c') (p + (commentText (hashes k) c).length - 1) ∧
      c'.map (spanBytes s) = canonComment c := by
  simp only [rtComment, Bool.and_eq_true, Bool.not_eq_true', List.isEmpty_eq_false_iff, List.all_eq_true] at hc
  have h35 : s[p]? = some 35 := at_head hat (commentText_head k hk.1 c hc.1)
  have hlenle : p + (commentText (hashes k) c).length ≤ s.size := by
    obtain ⟨b, hb, _⟩ := hend; have := get_lt hb; omega
  obtain ⟨lines, hgo, hmap⟩ := getCommentGo_text hs k hk c hc.2 (s.size - p + 1) 0 [] p (Or.inl rfl)
    (fun h => absurd h hc.1) hat hend (by have := commentText_length (hashes k) c; omega)
  refine ⟨lines, ?_, hmap⟩
  simp only [getEntry, h35, getComment, hgo, List.nil_append, commentCtor]
  obtain ⟨h1, h3⟩ := hk
  rcases (by omega : k = 1 ∨ k = 2 ∨ k = 3) with rfl | rfl | rfl <;> simp

theorem alpha_ne_hash_minus : ∀ b : UInt8, isAlpha b = true → b ≠ 35 ∧ b ≠ 45 := by
  apply forall_uint8; decide +kernel

theorem getEntry_msg {s : Src} (hs : AsciiThenBoundary s) (fuel : Nat) (hfuel : 8 * s.size + 16 ≤ fuel)
    (id : Bytes) (value : Option (List (PatElem Bytes))) (attrs : List (Attribute Bytes)) (hid : validIdent id = true)
    (hval : (match value with
      | some v => rtPattern v
      | none => !attrs.isEmpty) = true)
    (hattrs : ∀ a ∈ attrs, rtAttr a = true) (p E : Nat) (hat : At s p (msgBody id value attrs))
    (hf : EntryFollow s (p + (msgBody id value attrs).length) E) (hE : E ≤ s.size) :
    ∃ m', getEntry s fuel p = .ok (.message m') E ∧ m'.comment = none ∧ spanBytes s m'.id = id ∧
      m'.value.map (mapPat (spanBytes s)) = value ∧ m'.attributes.map (Attribute.mapS (spanBytes s)) = attrs := by
  obtain ⟨m', hm, h1, h2, h3, h4⟩ := getMessage_text hs fuel hfuel id value attrs hid hval hattrs p E p hat hf hE
  obtain ⟨b, rest, hidb, hb, _⟩ := validIdent_head hid
  have hb0 : s[p]? = some b := by
    simp only [msgBody, hidb, List.cons_append, at_cons] at hat; exact hat.1
  obtain ⟨n35, n45⟩ := alpha_ne_hash_minus b hb
  refine ⟨m', ?_, h1, h2, h3, h4⟩
  unfold getEntry
  rw [hb0]
  split
  · rename_i heq; simp at heq; exact absurd heq n35
  · rename_i heq; simp at heq; exact absurd heq n45
  · simp only [hm]

theorem getEntry_term {s : Src} (hs : AsciiThenBoundary s) (fuel : Nat) (hfuel : 8 * s.size + 16 ≤ fuel)
    (id : Bytes) (value : List (PatElem Bytes)) (attrs : List (Attribute Bytes)) (hid : validIdent id = true)
    (hval : rtPattern value = true) (hattrs : ∀ a ∈ attrs, rtAttr a = true) (p E : Nat)
    (hat : At s p (45 :: msgBody id (some value) attrs))
    (hf : EntryFollow s (p + (45 :: msgBody id (some value) attrs).length) E) (hE : E ≤ s.size) :
    ∃ t', getEntry s fuel p = .ok (.term t') E ∧ t'.comment = none ∧ spanBytes s t'.id = id ∧
      mapPat (spanBytes s) t'.value = value ∧ t'.attributes.map (Attribute.mapS (spanBytes s)) = attrs := by
  obtain ⟨t', ht, h1, h2, h3, h4⟩ := getTerm_text hs fuel hfuel id value attrs hid hval hattrs p E p hat hf hE
  have hb0 : s[p]? = some 45 := by rw [at_cons] at hat; exact hat.1
  refine ⟨t', ?_, h1, h2, h3, h4⟩
  unfold getEntry
  rw [hb0]
  simp only [ht]

/-! ## the texts of the entries, decomposed -/

def lead (b : Bool) : Entry Bytes → Nat
  | .comment _ => if b then 1 else 0
  | .groupComment _ => if b then 1 else 0
  | .resourceComment _ => if b then 1 else 0
  | _ => 0

def leadRes (b : Bool) : List (Entry Bytes) → Nat
  | [] => 0
  | e :: _ => lead b e

theorem entryText_message (b : Bool) (m : Message Bytes) :
    entryText b (.message m) = optCommentText m.comment ++ msgBody m.id m.value m.attributes := by
  simp only [entryText, msgBody, List.append_assoc]
  rw [attrsText_shift]

theorem entryText_term (b : Bool) (t : Term Bytes) :
    entryText b (.term t) = optCommentText t.comment ++ 45 :: msgBody t.id (some t.value) t.attributes := by
  simp only [entryText, msgBody, optPatText, List.append_assoc, List.cons_append]
  rw [attrsText_shift]

/-- after its leading blank line (if any) an entry's text starts with a letter, `-` or `#` -/
theorem entryText_start (b : Bool) (e : Entry Bytes) (he : rtEntry e = true) :
    ∃ c rest, entryText b e = List.replicate (lead b e) 10 ++ c :: rest ∧ (isAlpha c = true ∨ c = 45 ∨ c = 35) := by
  have hcom : ∀ (pre : Bytes) (c : List Bytes), pre.head? = some 35 → rtComment c = true →
      ∃ rest, commentText pre c = 35 :: rest := by
    intro pre c hpre hc
    simp only [rtComment, Bool.and_eq_true, Bool.not_eq_true', List.isEmpty_eq_false_iff] at hc
    cases c with
    | nil => exact absurd rfl hc.1
    | cons l ls =>
      cases pre with
      | nil => simp at hpre
      | cons x xs => simp at hpre; subst hpre; exact ⟨xs ++ ((if isBlankLine l then [] else 32 :: (l ++ crDbl l)) ++ 10 :: commentText (35 :: xs) ls), by simp [commentText]⟩
  have hopt : ∀ (oc : Option (List Bytes)) (tl : Bytes) (c0 : UInt8) (tl' : Bytes), rtOptComment oc = true →
      tl = c0 :: tl' → (isAlpha c0 = true ∨ c0 = 45) →
      ∃ c rest, optCommentText oc ++ tl = c :: rest ∧ (isAlpha c = true ∨ c = 45 ∨ c = 35) := by
    intro oc tl c0 tl' hoc htl hc0
    cases oc with
    | none => exact ⟨c0, tl', by simp [optCommentText, htl], by rcases hc0 with h | h <;> simp [h]⟩
    | some c =>
      obtain ⟨rest, hr⟩ := hcom [35] c rfl hoc
      exact ⟨35, rest ++ tl, by simp [optCommentText, hr], Or.inr (Or.inr rfl)⟩
  cases e with
  | message m =>
    simp only [rtEntry, Bool.and_eq_true] at he
    obtain ⟨x, rest, hidb, hx, _⟩ := validIdent_head he.1.1.1
    rw [entryText_message]
    obtain ⟨c, r, h1, h2⟩ := hopt m.comment (msgBody m.id m.value m.attributes) x
      (rest ++ 32 :: 61 :: (optPatText m.value ++ 10 :: attrLines m.attributes)) he.2
      (by simp [msgBody, hidb]) (Or.inl hx)
    exact ⟨c, r, by simpa [lead] using h1, h2⟩
  | term t =>
    simp only [rtEntry, Bool.and_eq_true] at he
    rw [entryText_term]
    obtain ⟨c, r, h1, h2⟩ := hopt t.comment (45 :: msgBody t.id (some t.value) t.attributes) 45 _ he.2 rfl (Or.inr rfl)
    exact ⟨c, r, by simpa [lead] using h1, h2⟩
  | comment c =>
    obtain ⟨rest, hr⟩ := hcom [35] c rfl he
    refine ⟨35, rest ++ [10], ?_, Or.inr (Or.inr rfl)⟩
    cases b <;> simp [entryText, lead, hr]
  | groupComment c =>
    obtain ⟨rest, hr⟩ := hcom [35, 35] c rfl he
    refine ⟨35, rest ++ [10], ?_, Or.inr (Or.inr rfl)⟩
    cases b <;> simp [entryText, lead, hr]
  | resourceComment c =>
    obtain ⟨rest, hr⟩ := hcom [35, 35, 35] c rfl he
    refine ⟨35, rest ++ [10], ?_, Or.inr (Or.inr rfl)⟩
    cases b <;> simp [entryText, lead, hr]
  | junk c => simp [rtEntry] at he

/-- what follows an entry in `resText` -/
theorem entryFollow_res {s : Src} (P : Nat) (es : List (Entry Bytes)) (hes : ∀ e ∈ es, rtEntry e = true)
    (hat : At s P (resText true es)) (hsz : P + (resText true es).length = s.size) :
    EntryFollow s P (P + leadRes true es) ∧ EntryStart s (P + leadRes true es) ∧ P + leadRes true es ≤ s.size := by
  cases es with
  | nil =>
    simp only [resText, List.length_nil, Nat.add_zero] at hsz
    simp only [leadRes, Nat.add_zero]
    have hst : EntryStart s P := Or.inl (by omega)
    exact ⟨⟨Nat.le_refl _, fun j h1 h2 => by omega, hst.entryStop⟩, hst, by omega⟩
  | cons e es =>
    obtain ⟨c, rest, htxt, hc⟩ := entryText_start true e (hes e (List.mem_cons_self))
    simp only [resText, htxt, List.append_assoc, List.length_append, List.length_replicate, List.length_cons] at hat hsz
    rw [at_append] at hat
    simp only [List.length_replicate, List.cons_append, at_cons] at hat
    simp only [leadRes]
    have hst : EntryStart s (P + lead true e) := Or.inr ⟨c, hat.2.1, hc⟩
    refine ⟨⟨by omega, fun j h1 h2 => ?_, hst.entryStop⟩, hst, by omega⟩
    have := at_get hat.1 (j - P) (by simp; omega)
    rw [show P + (j - P) = j by omega] at this
    simpa using this

theorem commentText_last (pre : Bytes) (c : List Bytes) (hne : c ≠ []) : (commentText pre c).getLast? = some 10 := by
  induction c with
  | nil => exact absurd rfl hne
  | cons l ls ih =>
    cases ls with
    | nil => simp [commentText, List.getLast?_append]
    | cons l2 ls2 =>
      have := ih (by simp)
      rw [commentText, List.getLast?_append]
      have h2 : (10 :: commentText pre (l2 :: ls2)).getLast? = some 10 := by
        cases hct : commentText pre (l2 :: ls2) with
        | nil => rfl
        | cons y ys => rw [List.getLast?_cons_cons, ← hct]; exact this
      rw [h2]; rfl

theorem commentText_len2 (k : Nat) (hk : 1 ≤ k) (c : List Bytes) (hne : c ≠ []) : 2 ≤ (commentText (hashes k) c).length := by
  cases c with
  | nil => exact absurd rfl hne
  | cons l ls => simp [commentText, hashes]; omega

theorem at_last10 {s : Src} {p : Nat} {bs : Bytes} (h : At s p bs) (hl : bs.getLast? = some 10) :
    s[p + bs.length - 1]? = some 10 := by
  have hx := dropLast_snoc_self bs 10 hl
  have hlen : bs.length = bs.dropLast.length + 1 := by have := congrArg List.length hx; simpa using this
  rw [hx, at_append] at h
  simp only [at_cons] at h
  rw [hlen, show p + (bs.dropLast.length + 1) - 1 = p + bs.dropLast.length by omega]
  exact h.2.1

/-- a message or term body at `pb`, possibly with a comment `lc0` to attach -/
theorem parseLoop_body_msg {s : Src} (hs : AsciiThenBoundary s) (fuel : Nat) (hfuel : 8 * s.size + 16 ≤ fuel)
    (m : Message Bytes) (hid : validIdent m.id = true)
    (hval : (match m.value with
      | some v => rtPattern v
      | none => !m.attributes.isEmpty) = true)
    (hattrs : ∀ a ∈ m.attributes, rtAttr a = true) (pb E n : Nat) (body : List (Entry Span))
    (hat : At s pb (msgBody m.id m.value m.attributes))
    (hf : EntryFollow s (pb + (msgBody m.id m.value m.attributes).length) E) (hE : E ≤ s.size) :
    ∃ m' : Message Span, m'.comment = none ∧ spanBytes s m'.id = m.id ∧
      m'.value.map (mapPat (spanBytes s)) = m.value ∧ m'.attributes.map (Attribute.mapS (spanBytes s)) = m.attributes ∧
      (∀ lc cnt, (lc = none ∨ 2 ≤ cnt) →
        parseLoop s fuel (n + 1) body [] lc cnt pb = parseLoop s fuel n (body ++ flushC lc ++ [.message m']) [] none 0 E) ∧
      (∀ c, parseLoop s fuel (n + 1) body [] (some c) 1 pb =
        parseLoop s fuel n (body ++ [.message { m' with comment := some c }]) [] none 0 E) := by
  obtain ⟨m', hge, h1, h2, h3, h4⟩ := getEntry_msg hs fuel hfuel m.id m.value m.attributes hid hval hattrs pb E hat hf hE
  have hsbb : skipBlankBlock s E = (E, 0) := by
    exact hf.2.2.block.sbb
  have hplt : pb < s.size := by
    obtain ⟨b, rest, hidb, _, _⟩ := validIdent_head hid
    have : s[pb]? = some b := by simp only [msgBody, hidb, List.cons_append, at_cons] at hat; exact hat.1
    exact get_lt this
  refine ⟨m', h1, h2, h3, h4, ?_, ?_⟩
  · intro lc cnt hlc
    rw [parseLoop_step_flush s fuel n body lc cnt pb _ E hplt hge rfl hlc, hsbb]
  · intro c
    rw [parseLoop_step_attach_msg s fuel n body c 1 pb m' E hplt hge (by omega), hsbb]

theorem parseLoop_body_term {s : Src} (hs : AsciiThenBoundary s) (fuel : Nat) (hfuel : 8 * s.size + 16 ≤ fuel)
    (t : Term Bytes) (hid : validIdent t.id = true) (hval : rtPattern t.value = true)
    (hattrs : ∀ a ∈ t.attributes, rtAttr a = true) (pb E n : Nat) (body : List (Entry Span))
    (hat : At s pb (45 :: msgBody t.id (some t.value) t.attributes))
    (hf : EntryFollow s (pb + (45 :: msgBody t.id (some t.value) t.attributes).length) E) (hE : E ≤ s.size) :
    ∃ t' : Term Span, t'.comment = none ∧ spanBytes s t'.id = t.id ∧
      mapPat (spanBytes s) t'.value = t.value ∧ t'.attributes.map (Attribute.mapS (spanBytes s)) = t.attributes ∧
      (∀ lc cnt, (lc = none ∨ 2 ≤ cnt) →
        parseLoop s fuel (n + 1) body [] lc cnt pb = parseLoop s fuel n (body ++ flushC lc ++ [.term t']) [] none 0 E) ∧
      (∀ c, parseLoop s fuel (n + 1) body [] (some c) 1 pb =
        parseLoop s fuel n (body ++ [.term { t' with comment := some c }]) [] none 0 E) := by
  obtain ⟨t', hge, h1, h2, h3, h4⟩ := getEntry_term hs fuel hfuel t.id t.value t.attributes hid hval hattrs pb E hat hf hE
  have hsbb : skipBlankBlock s E = (E, 0) := by
    exact hf.2.2.block.sbb
  have hplt : pb < s.size := by
    have : s[pb]? = some 45 := by rw [at_cons] at hat; exact hat.1
    exact get_lt this
  refine ⟨t', h1, h2, h3, h4, ?_, ?_⟩
  · intro lc cnt hlc
    rw [parseLoop_step_flush s fuel n body lc cnt pb _ E hplt hge rfl hlc, hsbb]
  · intro c
    rw [parseLoop_step_attach_term s fuel n body c 1 pb t' E hplt hge (by omega), hsbb]

theorem hashes1 : hashes 1 = [35] := rfl
theorem hashes2 : hashes 2 = [35, 35] := rfl
theorem hashes3 : hashes 3 = [35, 35, 35] := rfl

/-- a free comment block (levels 1–3) in the entry loop -/
theorem parseLoop_free {s : Src} (hs : AsciiThenBoundary s) (fuel k : Nat) (hk : 1 ≤ k ∧ k ≤ 3) (c : List Bytes)
    (hc : rtComment c = true) (p E n lead' : Nat) (body : List (Entry Span)) (lc : Option (List Span)) (cnt : Nat)
    (hlc : lc = none ∨ 2 ≤ cnt)
    (hat : At s p (commentText (hashes k) c ++ [10]))
    (hnl : ∀ j, j < lead' → s[p + (commentText (hashes k) c).length + 1 + j]? = some 10)
    (hE : E = p + (commentText (hashes k) c).length + 1 + lead') (hstart : BlockStop s E) :
    ∃ c', c'.map (spanBytes s) = canonComment c ∧
      parseLoop s fuel (n + 1) body [] lc cnt p =
        (if k = 1 then parseLoop s fuel n (body ++ flushC lc) [] (some c') (2 + lead') E
         else parseLoop s fuel n (body ++ flushC lc ++ [commentCtor k c']) [] none (2 + lead') E) := by
  have hcne : c ≠ [] := by
    simp only [rtComment, Bool.and_eq_true, Bool.not_eq_true', List.isEmpty_eq_false_iff] at hc; exact hc.1
  rw [at_append] at hat
  simp only [at_cons] at hat
  obtain ⟨c', hge, hmc⟩ := getEntry_comment hs fuel k hk c hc p hat.1 ⟨10, hat.2.1, by decide⟩
  have hlen2 := commentText_len2 k hk.1 c hcne
  have hlast := at_last10 hat.1 (commentText_last _ c hcne)
  have hplt : p < s.size := get_lt (at_head hat.1 (commentText_head k hk.1 c hcne))
  have hsbb : skipBlankBlock s (p + (commentText (hashes k) c).length - 1) = (E, 2 + lead') := by
    have := skipBlankBlock_newlines' s (2 + lead') (p + (commentText (hashes k) c).length - 1) (fun j hj => by
      by_cases h0 : j = 0
      · subst h0; simpa using hlast
      · by_cases h1 : j = 1
        · subst h1
          rw [show p + (commentText (hashes k) c).length - 1 + 1 = p + (commentText (hashes k) c).length by omega]
          exact hat.2.1
        · have := hnl (j - 2) (by omega)
          rw [show p + (commentText (hashes k) c).length + 1 + (j - 2) =
            p + (commentText (hashes k) c).length - 1 + j by omega] at this
          exact this)
      (by rw [show p + (commentText (hashes k) c).length - 1 + (2 + lead') = E by omega]; exact hstart)
    rw [this]; congr 1; omega
  refine ⟨c', hmc, ?_⟩
  by_cases hk1 : k = 1
  · subst hk1
    simp only [commentCtor, if_true] at hge ⊢
    rw [parseLoop_step_comment s fuel n body lc cnt p c' _ hplt hge, hsbb]
  · simp only [hk1, if_false]
    have hnc : isCommentE (commentCtor k c') = false := by
      simp only [commentCtor, hk1, if_false]; split <;> rfl
    rw [parseLoop_step_flush s fuel n body lc cnt p _ _ hplt hge hnc hlc, hsbb]

/-- an attached comment: it becomes the pending comment with blank count 1 -/
theorem parseLoop_attached {s : Src} (hs : AsciiThenBoundary s) (fuel : Nat) (c : List Bytes) (hc : rtComment c = true)
    (p n : Nat) (body : List (Entry Span)) (lc : Option (List Span)) (cnt : Nat)
    (hat : At s p (commentText [35] c)) (b0 : UInt8) (hb0 : s[p + (commentText [35] c).length]? = some b0)
    (hb0s : isAlpha b0 = true ∨ b0 = 45) :
    ∃ c', c'.map (spanBytes s) = canonComment c ∧
      parseLoop s fuel (n + 1) body [] lc cnt p =
        parseLoop s fuel n (body ++ flushC lc) [] (some c') 1 (p + (commentText [35] c).length) := by
  have hcne : c ≠ [] := by
    simp only [rtComment, Bool.and_eq_true, Bool.not_eq_true', List.isEmpty_eq_false_iff] at hc; exact hc.1
  have hb35 : b0 ≠ 35 := by
    rcases hb0s with h | h
    · exact (alpha_ne_hash_minus b0 h).1
    · subst h; decide
  rw [← hashes1] at hat hb0 ⊢
  obtain ⟨c', hge, hmc⟩ := getEntry_comment hs fuel 1 ⟨by omega, by omega⟩ c hc p hat ⟨b0, hb0, hb35⟩
  have hlen2 := commentText_len2 1 (by omega) c hcne
  have hlast := at_last10 hat (commentText_last _ c hcne)
  have hplt : p < s.size := get_lt (at_head hat (commentText_head 1 (by omega) c hcne))
  have hsbb : skipBlankBlock s (p + (commentText (hashes 1) c).length - 1) = (p + (commentText (hashes 1) c).length, 1) := by
    have := skipBlankBlock_newlines s 1 (p + (commentText (hashes 1) c).length - 1) (fun j hj => by
      have : j = 0 := by omega
      subst this; simpa using hlast)
      (by
        rw [show p + (commentText (hashes 1) c).length - 1 + 1 = p + (commentText (hashes 1) c).length by omega]
        exact Or.inr ⟨b0, hb0, by rcases hb0s with h | h <;> simp [h]⟩)
    rw [this]; congr 1; omega
  refine ⟨c', hmc, ?_⟩
  simp only [commentCtor, if_true] at hge
  rw [parseLoop_step_comment s fuel n body lc cnt p c' _ hplt hge, hsbb]

theorem entryText_ne (b : Bool) (e : Entry Bytes) (he : rtEntry e = true) : 1 ≤ (entryText b e).length := by
  obtain ⟨c, rest, h, _⟩ := entryText_start b e he
  rw [h]; simp; omega

/-- a message or a term -/
def isMT : Entry Bytes → Bool
  | .message _ => true
  | .term _ => true
  | _ => false

/-- **one entry of the class in the entry loop**: the entry `e` (not Junk) whose text stands at `P`, followed by `lead'`
empty lines (`hnl`) and then, at `E`, a line that is not blank (`BlockStop`) and — for a message or term — at which
the entry ends (`EntryStop`: the end of input, the next entry, or a Junk line).  `K` says what the loop does from `E` on (the induction hypothesis of `parseLoop_text`, or of
its extension to resources with Junk). -/
theorem parseLoop_entry {s : Src} (hs : AsciiThenBoundary s) (fuel : Nat) (hfuel : 8 * s.size + 16 ≤ fuel)
    (e : Entry Bytes) (he : rtEntry e = true) (b : Bool) (P n lead' : Nat) (body : List (Entry Span))
    (lc : Option (List Span)) (cnt : Nat) (R : List (Entry Bytes)) (Q : List PErr → Prop)
    (hatE : At s P (entryText b e)) (hle : P + (entryText b e).length ≤ s.size)
    (hnl : ∀ j, P + (entryText b e).length ≤ j → j < P + (entryText b e).length + lead' → s[j]? = some 10)
    (hstop : isMT e = true → EntryStop s (P + (entryText b e).length + lead'))
    (hstart : BlockStop s (P + (entryText b e).length + lead'))
    (hEle : P + (entryText b e).length + lead' ≤ s.size) (hlc : lc = none ∨ 2 ≤ cnt) (hn : s.size - P + 1 ≤ n)
    (K : ∀ (n' : Nat) (body' : List (Entry Span)) (lc' : Option (List Span)) (cnt' : Nat), (lc' = none ∨ 2 ≤ cnt') →
      s.size - (P + (entryText b e).length) + 1 ≤ n' →
      ∃ t' errs', parseLoop s fuel n' body' [] lc' cnt' (P + (entryText b e).length + lead') =
          .done (body' ++ flushC lc' ++ t', errs') ∧ Q errs' ∧ t'.map (Entry.mapS (spanBytes s)) = R) :
    ∃ t' errs', parseLoop s fuel n body [] lc cnt (P + lead b e) = .done (body ++ flushC lc ++ t', errs') ∧
      Q errs' ∧ t'.map (Entry.mapS (spanBytes s)) = canonEntry e :: R := by
    have hlenE := entryText_ne b e he
    cases e with
    | message m =>
      have hfol : EntryFollow s (P + (entryText b (.message m)).length) (P + (entryText b (.message m)).length + lead') :=
        ⟨by omega, hnl, hstop rfl⟩
      obtain ⟨id, value, attrs, comment⟩ := m
      simp only [rtEntry, Bool.and_eq_true, List.all_eq_true] at he
      obtain ⟨⟨⟨hid, hval⟩, hattrs⟩, hcom⟩ := he
      simp only [entryText_message] at hatE hfol hlenE hEle K hle hstart
      simp only [lead, Nat.add_zero]
      cases comment with
      | none =>
        obtain ⟨m1, rfl⟩ : ∃ m1, n = m1 + 1 := ⟨n - 1, by omega⟩
        simp only [optCommentText, List.nil_append] at hatE hfol hlenE hEle K hle hstart
        obtain ⟨m', hc', hi', hv', ha', hflush, _⟩ := parseLoop_body_msg hs fuel hfuel ⟨id, value, attrs, none⟩ hid hval hattrs
          P _ m1 body hatE hfol hEle
        rw [hflush lc cnt hlc]
        obtain ⟨t', errs', hloop, hQ, hmt⟩ := K m1 (body ++ flushC lc ++ [.message m']) none 0 (Or.inl rfl) (by omega)
        refine ⟨.message m' :: t', errs', ?_, hQ, ?_⟩
        · rw [hloop]; simp [flushC]
        · simp [Entry.mapS, canonEntry, hc', hi', hv', ha', hmt]
      | some c =>
        have hct2 : 2 ≤ (commentText [35] c).length := by
          have := commentText_len2 1 (by omega) c (by
            simp only [rtOptComment, rtComment, Bool.and_eq_true, Bool.not_eq_true', List.isEmpty_eq_false_iff] at hcom
            exact hcom.1)
          rwa [hashes1] at this
        obtain ⟨m1, rfl⟩ : ∃ m1, n = m1 + 2 := ⟨n - 2, by
          simp only [optCommentText, List.length_append] at hle
          omega⟩
        simp only [optCommentText, List.length_append] at hatE hfol hlenE hEle K hle hstart
        rw [at_append] at hatE
        obtain ⟨hatC, hatB⟩ := hatE
        obtain ⟨x, rest, hidb, hx, _⟩ := validIdent_head hid
        have hb0 : s[P + (commentText [35] c).length]? = some x := by
          simp only [msgBody, hidb, List.cons_append, at_cons] at hatB; exact hatB.1
        obtain ⟨c', hmc, hstep1⟩ := parseLoop_attached hs fuel c hcom P (m1 + 1) body lc cnt hatC x hb0 (Or.inl hx)
        rw [hstep1]
        obtain ⟨m', hc', hi', hv', ha', _, hattach⟩ := parseLoop_body_msg hs fuel hfuel ⟨id, value, attrs, none⟩ hid hval
          hattrs (P + (commentText [35] c).length) _ m1 (body ++ flushC lc) hatB
          (by rw [Nat.add_assoc]; exact hfol) hEle
        rw [hattach c']
        obtain ⟨t', errs', hloop, hQ, hmt⟩ := K m1 (body ++ flushC lc ++ [.message { m' with comment := some c' }]) none 0 (Or.inl rfl) (by omega)
        refine ⟨.message { m' with comment := some c' } :: t', errs', ?_, hQ, ?_⟩
        · rw [hloop]; simp [flushC]
        · simp [Entry.mapS, canonEntry, hi', hv', ha', hmt, hmc, canonComment]
    | term t =>
      have hfol : EntryFollow s (P + (entryText b (.term t)).length) (P + (entryText b (.term t)).length + lead') :=
        ⟨by omega, hnl, hstop rfl⟩
      obtain ⟨id, value, attrs, comment⟩ := t
      simp only [rtEntry, Bool.and_eq_true, List.all_eq_true] at he
      obtain ⟨⟨⟨hid, hval⟩, hattrs⟩, hcom⟩ := he
      simp only [entryText_term] at hatE hfol hlenE hEle K hle hstart
      simp only [lead, Nat.add_zero]
      cases comment with
      | none =>
        obtain ⟨m1, rfl⟩ : ∃ m1, n = m1 + 1 := ⟨n - 1, by omega⟩
        simp only [optCommentText, List.nil_append] at hatE hfol hlenE hEle K hle hstart
        obtain ⟨t', hc', hi', hv', ha', hflush, _⟩ := parseLoop_body_term hs fuel hfuel ⟨id, value, attrs, none⟩ hid hval hattrs
          P _ m1 body hatE hfol hEle
        rw [hflush lc cnt hlc]
        obtain ⟨ts, errs', hloop, hQ, hmt⟩ := K m1 (body ++ flushC lc ++ [.term t']) none 0 (Or.inl rfl) (by omega)
        refine ⟨.term t' :: ts, errs', ?_, hQ, ?_⟩
        · rw [hloop]; simp [flushC]
        · simp [Entry.mapS, canonEntry, hc', hi', hv', ha', hmt]
      | some c =>
        have hct2 : 2 ≤ (commentText [35] c).length := by
          have := commentText_len2 1 (by omega) c (by
            simp only [rtOptComment, rtComment, Bool.and_eq_true, Bool.not_eq_true', List.isEmpty_eq_false_iff] at hcom
            exact hcom.1)
          rwa [hashes1] at this
        obtain ⟨m1, rfl⟩ : ∃ m1, n = m1 + 2 := ⟨n - 2, by
          simp only [optCommentText, List.length_append] at hle
          omega⟩
        simp only [optCommentText, List.length_append] at hatE hfol hlenE hEle K hle hstart
        rw [at_append] at hatE
        obtain ⟨hatC, hatB⟩ := hatE
        have hb0 : s[P + (commentText [35] c).length]? = some 45 := by
          rw [at_cons] at hatB; exact hatB.1
        obtain ⟨c', hmc, hstep1⟩ := parseLoop_attached hs fuel c hcom P (m1 + 1) body lc cnt hatC 45 hb0 (Or.inr rfl)
        rw [hstep1]
        obtain ⟨t', hc', hi', hv', ha', _, hattach⟩ := parseLoop_body_term hs fuel hfuel ⟨id, value, attrs, none⟩ hid hval
          hattrs (P + (commentText [35] c).length) _ m1 (body ++ flushC lc) hatB
          (by rw [Nat.add_assoc]; exact hfol) hEle
        rw [hattach c']
        obtain ⟨ts, errs', hloop, hQ, hmt⟩ := K m1 (body ++ flushC lc ++ [.term { t' with comment := some c' }]) none 0 (Or.inl rfl) (by omega)
        refine ⟨.term { t' with comment := some c' } :: ts, errs', ?_, hQ, ?_⟩
        · rw [hloop]; simp [flushC]
        · simp [Entry.mapS, canonEntry, hi', hv', ha', hmt, hmc, canonComment]
    | comment c =>
      have hc : rtComment c = true := he
      obtain ⟨m1, rfl⟩ : ∃ m1, n = m1 + 1 := ⟨n - 1, by omega⟩
      have htxt : entryText b (.comment c) = List.replicate (lead b (.comment c)) 10 ++ (commentText (hashes 1) c ++ [10]) := by
        cases b <;> simp [entryText, lead, hashes1]
      rw [htxt] at hatE hnl hEle K hle hstart
      simp only [List.length_append, List.length_replicate, List.length_cons, List.length_nil, Nat.zero_add] at hatE hnl hEle K hle hstart
      rw [at_append] at hatE
      simp only [List.length_replicate] at hatE
      obtain ⟨c', hmc, hstep⟩ := parseLoop_free hs fuel 1 ⟨by omega, by omega⟩ c hc (P + lead b (.comment c))
        (P + (lead b (.comment c) + ((commentText (hashes 1) c).length + 1)) + lead') m1 (lead') body lc cnt
        hlc hatE.2
        (fun j hj => by
          have := hnl (P + (lead b (.comment c) + ((commentText (hashes 1) c).length + 1)) + j) (by omega) (by omega)
          rw [show P + lead b (.comment c) + (commentText (hashes 1) c).length + 1 + j =
            P + (lead b (.comment c) + ((commentText (hashes 1) c).length + 1)) + j by omega]
          exact this)
        (by omega) hstart
      rw [hstep]
      simp only [if_true]
      obtain ⟨ts, errs', hloop, hQ, hmt⟩ := K m1 (body ++ flushC lc) (some c') (2 + lead') (Or.inr (by omega)) (by omega)
      refine ⟨.comment c' :: ts, errs', ?_, hQ, ?_⟩
      · rw [hloop]; simp [flushC]
      · simp [Entry.mapS, canonEntry, hmt, hmc, canonComment]
    | groupComment c =>
      have hc : rtComment c = true := he
      obtain ⟨m1, rfl⟩ : ∃ m1, n = m1 + 1 := ⟨n - 1, by omega⟩
      have htxt : entryText b (.groupComment c) = List.replicate (lead b (.groupComment c)) 10 ++ (commentText (hashes 2) c ++ [10]) := by
        cases b <;> simp [entryText, lead, hashes2]
      rw [htxt] at hatE hnl hEle K hle hstart
      simp only [List.length_append, List.length_replicate, List.length_cons, List.length_nil, Nat.zero_add] at hatE hnl hEle K hle hstart
      rw [at_append] at hatE
      simp only [List.length_replicate] at hatE
      obtain ⟨c', hmc, hstep⟩ := parseLoop_free hs fuel 2 ⟨by omega, by omega⟩ c hc (P + lead b (.groupComment c))
        (P + (lead b (.groupComment c) + ((commentText (hashes 2) c).length + 1)) + lead') m1 (lead') body lc cnt
        hlc hatE.2
        (fun j hj => by
          have := hnl (P + (lead b (.groupComment c) + ((commentText (hashes 2) c).length + 1)) + j) (by omega) (by omega)
          rw [show P + lead b (.groupComment c) + (commentText (hashes 2) c).length + 1 + j =
            P + (lead b (.groupComment c) + ((commentText (hashes 2) c).length + 1)) + j by omega]
          exact this)
        (by omega) hstart
      rw [hstep]
      simp only [show ¬ (2 : Nat) = 1 by omega, if_false]
      obtain ⟨ts, errs', hloop, hQ, hmt⟩ := K m1 (body ++ flushC lc ++ [commentCtor 2 c']) none (2 + lead') (Or.inl rfl) (by omega)
      refine ⟨commentCtor 2 c' :: ts, errs', ?_, hQ, ?_⟩
      · rw [hloop]; simp [flushC]
      · simp [commentCtor, Entry.mapS, canonEntry, hmt, hmc, canonComment]
    | resourceComment c =>
      have hc : rtComment c = true := he
      obtain ⟨m1, rfl⟩ : ∃ m1, n = m1 + 1 := ⟨n - 1, by omega⟩
      have htxt : entryText b (.resourceComment c) = List.replicate (lead b (.resourceComment c)) 10 ++ (commentText (hashes 3) c ++ [10]) := by
        cases b <;> simp [entryText, lead, hashes3]
      rw [htxt] at hatE hnl hEle K hle hstart
      simp only [List.length_append, List.length_replicate, List.length_cons, List.length_nil, Nat.zero_add] at hatE hnl hEle K hle hstart
      rw [at_append] at hatE
      simp only [List.length_replicate] at hatE
      obtain ⟨c', hmc, hstep⟩ := parseLoop_free hs fuel 3 ⟨by omega, by omega⟩ c hc (P + lead b (.resourceComment c))
        (P + (lead b (.resourceComment c) + ((commentText (hashes 3) c).length + 1)) + lead') m1 (lead') body lc cnt
        hlc hatE.2
        (fun j hj => by
          have := hnl (P + (lead b (.resourceComment c) + ((commentText (hashes 3) c).length + 1)) + j) (by omega) (by omega)
          rw [show P + lead b (.resourceComment c) + (commentText (hashes 3) c).length + 1 + j =
            P + (lead b (.resourceComment c) + ((commentText (hashes 3) c).length + 1)) + j by omega]
          exact this)
        (by omega) hstart
      rw [hstep]
      simp only [show ¬ (3 : Nat) = 1 by omega, if_false]
      obtain ⟨ts, errs', hloop, hQ, hmt⟩ := K m1 (body ++ flushC lc ++ [commentCtor 3 c']) none (2 + lead') (Or.inl rfl) (by omega)
      refine ⟨commentCtor 3 c' :: ts, errs', ?_, hQ, ?_⟩
      · rw [hloop]; simp [flushC]
      · simp [commentCtor, Entry.mapS, canonEntry, hmt, hmc, canonComment]
    | junk c => simp [rtEntry] at he

/-- **the entry loop on the text of a resource of the class** -/
theorem parseLoop_text {s : Src} (hs : AsciiThenBoundary s) (fuel : Nat) (hfuel : 8 * s.size + 16 ≤ fuel)
    (es : List (Entry Bytes)) (hes : ∀ e ∈ es, rtEntry e = true) :
    ∀ (b : Bool) (P n : Nat) (body : List (Entry Span)) (lc : Option (List Span)) (cnt : Nat),
      At s P (resText b es) → P + (resText b es).length = s.size → (lc = none ∨ 2 ≤ cnt) → s.size - P + 1 ≤ n →
      ∃ t', parseLoop s fuel n body [] lc cnt (P + leadRes b es) = .done (body ++ flushC lc ++ t', []) ∧
        t'.map (Entry.mapS (spanBytes s)) = es.map canonEntry := by
  induction es with
  | nil =>
    intro b P n body lc cnt _ hsz _ hn
    obtain ⟨m, rfl⟩ : ∃ m, n = m + 1 := ⟨n - 1, by omega⟩
    simp only [resText, List.length_nil, Nat.add_zero] at hsz
    refine ⟨[], ?_, rfl⟩
    simp only [leadRes, Nat.add_zero, List.append_nil]
    exact parseLoop_end s fuel m body lc cnt P (by omega)
  | cons e es ih =>
    intro b P n body lc cnt hat hsz hlc hn
    have he := hes e (List.mem_cons_self)
    have hes' : ∀ x ∈ es, rtEntry x = true := fun x hx => hes x (List.mem_cons_of_mem _ hx)
    simp only [resText, List.length_append] at hat hsz
    rw [at_append] at hat
    obtain ⟨hatE, hatR⟩ := hat
    obtain ⟨hfol, hstart, hEle⟩ := entryFollow_res (P + (entryText b e).length) es hes' hatR (by omega)
    obtain ⟨t', errs', h1, h2, h3⟩ := parseLoop_entry hs fuel hfuel e he b P n (leadRes true es) body lc cnt
      (es.map canonEntry) (· = []) hatE (by omega) hfol.2.1 (fun _ => hfol.2.2) hstart.blockStop hEle hlc hn
      (fun n' body' lc' cnt' hlc' hn' => by
        obtain ⟨t', h1, h2⟩ := ih hes' true (P + (entryText b e).length) n' body' lc' cnt' hatR (by omega) hlc' hn'
        exact ⟨t', [], h1, rfl, h2⟩)
    subst h2
    exact ⟨t', by simpa [leadRes] using h1, by simpa using h3⟩

end FluentProofs.Ser
