import FluentProofs.Serializer
/-!
# Serializer lemmas, part 2: congruence (C04 / T1c)

When may two adjacent text elements be joined without changing the serializer's output?
`write_literal` looks at the last byte of the buffer: after `\n` it indents, after `\r` it doubles
the `\r` if the literal starts with `\n`.  So `[text a, text b]` and `[text (a ++ b)]` serialise
identically exactly when none of the two happens between `a` and `b` (`JoinOK`), and the pattern-level
tests `is_multiline` / `has_leading_text_dot` agree as soon as `a ≠ []`.

* `writeLiteral_join`, `writeLiteral_join_iff` — the writer-level fact and its converse;
* `Norm.*` — the normaliser of the C04 statement, parametrised by the joining condition:
  `norm` (join all adjacent texts — the comparison used by the property) and `normSafe` (join only
  `JoinOK` pairs); both blank comment lines ↦ empty, Junk dropped when `¬withJunk`;
* `serialize_normSafe` — **the congruence**: `serialize o (normSafe o r) = serialize o r` for every
  resource;
* `LineSplit` trees (text elements split at line breaks, the shape the parser produces):
  `normSafe` is a function of `norm` on them, hence trees with equal `norm` serialise identically
  (`serialize_congr_lineSplit`) — this is what makes `fixpoint` a corollary of `roundtrip`.
-/
namespace FluentProofs.Ser
open FluentModel FluentModel.Syntax FluentModel.Syntax.Ser

/-! ## joining two literals -/

/-- nothing is inserted between `a` and `b` when they are written one after the other -/
def JoinOK (a b : Bytes) : Prop :=
  a ≠ [] ∧ a.getLast? ≠ some 10 ∧ ¬(a.getLast? = some 13 ∧ b.head? = some 10)

instance (a b : Bytes) : Decidable (JoinOK a b) := by unfold JoinOK; infer_instance

theorem pushAll_pushAll (w : Writer) (a b : Bytes) : (w.pushAll a).pushAll b = w.pushAll (a ++ b) := by
  simp [Writer.pushAll]

theorem endsWith_pushAll (w : Writer) (a : Bytes) (x : UInt8) (ha : a ≠ []) :
    endsWith (w.pushAll a) x = (a.getLast? == some x) := by
  cases h : a.getLast? with
  | none => simp at h; exact absurd h ha
  | some y => simp [endsWith, Writer.pushAll, Array.back?_append, h]

/-- the writer `write_literal` pushes the item onto (depends on the item only through its first byte) -/
def litBase (w : Writer) (hd : Option UInt8) : Writer :=
  let w1 := if endsWith w 10 then w.writeIndent else w
  if endsWith w1 13 && hd == some 10 then { w1 with buffer := w1.buffer.push 13 } else w1

theorem writeLiteral_eq (w : Writer) (item : Bytes) : w.writeLiteral item = (litBase w item.head?).pushAll item := rfl

/-- **Joining two literals.**  If `a` is non-empty, does not end with `\n`, and not (`a` ends with `\r`
and `b` starts with `\n`), writing `a` then `b` is writing `a ++ b`. -/
theorem writeLiteral_join (w : Writer) (a b : Bytes) (h : JoinOK a b) :
    (w.writeLiteral a).writeLiteral b = w.writeLiteral (a ++ b) := by
  obtain ⟨ha, h10, h13⟩ := h
  have hh : (a ++ b).head? = a.head? := by cases a <;> simp_all
  rw [writeLiteral_eq w a, writeLiteral_eq w (a ++ b), hh, writeLiteral_eq, ← pushAll_pushAll]
  congr 1
  generalize litBase w a.head? = w0
  have e10 : endsWith (w0.pushAll a) 10 = false := by
    rw [endsWith_pushAll _ _ _ ha]; simpa using h10
  have e13 : (endsWith (w0.pushAll a) 13 && b.head? == some 10) = false := by
    rw [endsWith_pushAll _ _ _ ha]
    cases h1 : a.getLast? == some 13 <;> cases h2 : b.head? == some 10 <;> simp_all
  simp [litBase, e10, e13]

/-- writing the empty literal first changes nothing for what follows -/
theorem writeLiteral_nil_join (w : Writer) (b : Bytes) : (w.writeLiteral []).writeLiteral b = w.writeLiteral b := by
  cases h : endsWith w 10
  · have : w.writeLiteral [] = w := by
      simp [Writer.writeLiteral, h, Writer.pushAll]
    rw [this]
  · apply (show ∀ x y : Writer, x.buffer = y.buffer → x.indentLevel = y.indentLevel → x = y by
      intro x y h1 h2; cases x; cases y; simp_all)
    · have h1 := writeLiteral_after_newline w [] h
      rw [writeLiteral_after_newline w b h]
      by_cases hk : w.indentLevel = 0
      · have e : (w.writeLiteral []).buffer = w.buffer := by simp [h1, hk, spaces]
        have h' : endsWith (w.writeLiteral []) 10 = true := by simp [endsWith, e]; simpa [endsWith] using h
        rw [writeLiteral_after_newline _ b h', e]
        simp [hk, spaces]
      · have h' : endsWith (w.writeLiteral []) 10 = false := by
          (simp [endsWith, h1, Array.back?_append]; omega)
        have h'' : endsWith (w.writeLiteral []) 13 = false := by
          (simp [endsWith, h1, Array.back?_append]; omega)
        rw [writeLiteral_mid_line _ b h', h'', h1]
        simp
    · simp

theorem Writer.ext' {x y : Writer} (h1 : x.buffer = y.buffer) (h2 : x.indentLevel = y.indentLevel) : x = y := by
  cases x; cases y; simp_all

@[simp] theorem litBase_indentLevel (w : Writer) (hd : Option UInt8) : (litBase w hd).indentLevel = w.indentLevel := by
  unfold litBase; simp only []; split <;> split <;> rfl

theorem litBase_buffer (w : Writer) (hd : Option UInt8) :
    (litBase w hd).buffer = w.buffer ++
      (if endsWith w 10 then spaces (4 * w.indentLevel)
       else if endsWith w 13 && hd == some 10 then #[13] else #[]) := by
  unfold litBase
  cases h : endsWith w 10
  · simp only [Bool.false_eq_true, if_false]
    split <;> simp
  · simp only [if_true]
    have h2 : endsWith w.writeIndent 13 = false := by
      rw [endsWith_iff] at h
      simp [endsWith, writeIndent_buffer, Array.back?_append, h]
      split <;> simp
    simp [h2, writeIndent_buffer]

/-- **The converse**: for non-empty `a`, writing `a` then `b` equals writing `a ++ b` *iff* no
indentation is inserted (`a` does not end with `\n`, or the indent level is 0) and no `\r` is
doubled. -/
theorem writeLiteral_join_iff (w : Writer) (a b : Bytes) (ha : a ≠ []) :
    (w.writeLiteral a).writeLiteral b = w.writeLiteral (a ++ b) ↔
      (a.getLast? = some 10 → w.indentLevel = 0) ∧ ¬(a.getLast? = some 13 ∧ b.head? = some 10) := by
  have hh : (a ++ b).head? = a.head? := by cases a <;> simp_all
  rw [writeLiteral_eq w a, writeLiteral_eq w (a ++ b), hh, writeLiteral_eq, ← pushAll_pushAll]
  have hl : ((litBase w a.head?).pushAll a).indentLevel = w.indentLevel := by simp
  have e10 := endsWith_pushAll (litBase w a.head?) a 10 ha
  have e13 := endsWith_pushAll (litBase w a.head?) a 13 ha
  generalize (litBase w a.head?).pushAll a = X at hl e10 e13 ⊢
  rw [show ((litBase X b.head?).pushAll b = X.pushAll b) ↔ (litBase X b.head?).buffer = X.buffer from
    ⟨fun h => by simpa [Writer.pushAll, Array.append_left_inj] using congrArg Writer.buffer h,
     fun h => by rw [Writer.ext' h (by simp)]⟩]
  rw [litBase_buffer, hl, e10, e13]
  constructor
  · intro h
    have hs := congrArg Array.size h
    cases h1 : a.getLast? == some 10 <;> cases h2 : a.getLast? == some 13 <;> cases h3 : b.head? == some 10 <;>
      simp_all [spaces] <;> omega
  · rintro ⟨h1, h2⟩
    cases h1' : a.getLast? == some 10 <;> cases h2' : a.getLast? == some 13 <;> cases h3 : b.head? == some 10 <;>
      simp_all [spaces]

/-! ## the normaliser of the C04 statement, parametrised by the joining condition -/

section norm
variable (ok : Bytes → Bytes → Bool)

/-- put `e` in front of an already normalised pattern, joining it with a leading text if allowed -/
def joinHead : PatElem Bytes → List (PatElem Bytes) → List (PatElem Bytes)
  | .text a, .text b :: rest => if ok a b then .text (a ++ b) :: rest else .text a :: .text b :: rest
  | e, rest => e :: rest

mutual
def nInline : Inline Bytes → Inline Bytes
  | .str v => .str v
  | .num v => .num v
  | .var v => .var v
  | .msg a b => .msg a b
  | .fn id pos named => .fn id (nInl pos) (nNamed named)
  | .term id attr none => .term id attr none
  | .term id attr (some (pos, named)) => .term id attr (some (nInl pos, nNamed named))
  | .placeable e => .placeable (nExpr e)
def nInl : List (Inline Bytes) → List (Inline Bytes)
  | [] => []
  | x :: xs => nInline x :: nInl xs
def nNamed : List (Bytes × Inline Bytes) → List (Bytes × Inline Bytes)
  | [] => []
  | (n, x) :: xs => (n, nInline x) :: nNamed xs
def nExpr : Expr Bytes → Expr Bytes
  | .inline e => .inline (nInline e)
  | .select sel vs => .select (nInline sel) (nVariants vs)
def nVariants : List (Variant Bytes) → List (Variant Bytes)
  | [] => []
  | v :: vs => nVariant v :: nVariants vs
def nVariant : Variant Bytes → Variant Bytes
  | .mk k val d => .mk k (nPat val) d
/-- join adjacent text elements (right to left), recursing into placeables -/
def nPat : List (PatElem Bytes) → List (PatElem Bytes)
  | [] => []
  | e :: es => joinHead ok (nElem e) (nPat es)
def nElem : PatElem Bytes → PatElem Bytes
  | .text v => .text v
  | .placeable e => .placeable (nExpr e)
end

/-- whitespace-only comment lines are equal to empty ones -/
def nComment (c : List Bytes) : List Bytes := c.map fun l => if isBlankLine l then [] else l

def nAttr (a : Attribute Bytes) : Attribute Bytes := ⟨a.id, nPat ok a.value⟩

def nEntry : Entry Bytes → Entry Bytes
  | .message m => .message ⟨m.id, m.value.map (nPat ok), m.attributes.map (nAttr ok), m.comment.map nComment⟩
  | .term t => .term ⟨t.id, nPat ok t.value, t.attributes.map (nAttr ok), t.comment.map nComment⟩
  | .comment c => .comment (nComment c)
  | .groupComment c => .groupComment (nComment c)
  | .resourceComment c => .resourceComment (nComment c)
  | .junk c => .junk c

def isJunk : Entry Bytes → Bool
  | .junk _ => true
  | _ => false

/-- normalise a resource: Junk is dropped when serialising without junk -/
def nRes (withJunk : Bool) (r : Resource Bytes) : Resource Bytes :=
  (r.filter fun e => withJunk || !isJunk e).map (nEntry ok)

end norm

/-- **`norm`** — the comparison of the C04 statement: all adjacent text elements joined (recursively,
inside select variants and call arguments too), whitespace-only comment lines ↦ empty, Junk dropped
when `¬withJunk`. -/
def norm (withJunk : Bool) (r : Resource Bytes) : Resource Bytes := nRes (fun _ _ => true) withJunk r

/-- **`normSafe`** — the same, but two adjacent texts are joined only when `JoinOK`. -/
def normSafe (withJunk : Bool) (r : Resource Bytes) : Resource Bytes :=
  nRes (fun a b => decide (JoinOK a b)) withJunk r

/-! ## the congruence -/

section congr
set_option linter.unusedSectionVars false
variable (ok : Bytes → Bytes → Bool) (hok : ∀ a b, ok a b = true → JoinOK a b)
include hok

omit hok in
theorem isMultiline_joinHead (e : PatElem Bytes) (rest : List (PatElem Bytes)) :
    isMultiline (joinHead ok e rest) = isMultiline (e :: rest) := by
  unfold joinHead
  split
  · split
    · simp [isMultiline, Bool.or_assoc]
    · rfl
  · rfl

theorem hasLeadingTextDot_joinHead (e : PatElem Bytes) (rest : List (PatElem Bytes)) :
    hasLeadingTextDot (joinHead ok e rest) = hasLeadingTextDot (e :: rest) := by
  unfold joinHead
  split
  · split
    · rename_i a b rest h
      have := (hok a b h).1
      cases a with
      | nil => exact absurd rfl this
      | cons x xs => simp [hasLeadingTextDot]
    · rfl
  · rfl

theorem serElements_joinHead (w : Writer) (e : PatElem Bytes) (rest : List (PatElem Bytes)) :
    serElements w (joinHead ok e rest) = serElements w (e :: rest) := by
  unfold joinHead
  split
  · split
    · rename_i a b rest h
      simp [serElements, serElement, writeLiteral_join w a b (hok a b h)]
    · rfl
  · rfl

omit hok in
mutual
theorem isSelectInline_nInline (i : Inline Bytes) : isSelectInline (nInline ok i) = isSelectInline i := by
  cases i with
  | placeable e => simp only [nInline, isSelectInline]; exact isSelectExpr_nExpr e
  | term a b c => cases c with
    | none => simp [nInline, isSelectInline]
    | some pn => obtain ⟨p, n⟩ := pn; simp [nInline, isSelectInline]
  | _ => simp [nInline, isSelectInline]
theorem isSelectExpr_nExpr (e : Expr Bytes) : isSelectExpr (nExpr ok e) = isSelectExpr e := by
  cases e with
  | inline i => simp only [nExpr, isSelectExpr]; exact isSelectInline_nInline i
  | select s vs => simp [nExpr, isSelectExpr]
end

omit hok in
theorem isMultiline_nPat (p : List (PatElem Bytes)) : isMultiline (nPat ok p) = isMultiline p := by
  induction p with
  | nil => simp [nPat]
  | cons e es ih =>
    rw [nPat, isMultiline_joinHead]
    cases e with
    | text v => simp [nElem, isMultiline, ih]
    | placeable e => simp [nElem, isMultiline, ih, isSelectExpr_nExpr]

theorem hasLeadingTextDot_nPat (p : List (PatElem Bytes)) : hasLeadingTextDot (nPat ok p) = hasLeadingTextDot p := by
  cases p with
  | nil => simp [nPat]
  | cons e es =>
    rw [nPat, hasLeadingTextDot_joinHead ok hok]
    cases e with
    | text v => cases v <;> simp [nElem, hasLeadingTextDot]
    | placeable e => simp [nElem, hasLeadingTextDot]

theorem patternPre_nPat (w : Writer) (p : List (PatElem Bytes)) : patternPre w (nPat ok p) = patternPre w p := by
  simp [patternPre, startsOnNewLine, isMultiline_nPat, hasLeadingTextDot_nPat ok hok]

omit hok in
theorem patternPost_nPat (w : Writer) (p : List (PatElem Bytes)) : patternPost (nPat ok p) w = patternPost p w := by
  simp [patternPost, isMultiline_nPat]

mutual

theorem serInline_nInline (e : Inline Bytes) (w : Writer) : serInline w (nInline ok e) = serInline w e := by
  cases e with
  | str v => simp [nInline]
  | num v => simp [nInline]
  | var id => simp [nInline]
  | msg id attr => simp [nInline]
  | fn id pos named =>
    simp only [nInline, serInline]
    rw [serPositional_nInl pos]
    cases serPositional ((w.writeLiteral id).writeLiteral (lit "(")) false pos with
    | none => rfl
    | some r => simp only []; rw [serNamed_nNamed named]
  | term id attr args =>
    cases args with
    | none => simp [nInline]
    | some pn =>
      obtain ⟨pos, named⟩ := pn
      simp only [nInline, serInline]
      rw [serPositional_nInl pos]
      split
      · rfl
      · rw [serNamed_nNamed named]
  | placeable e =>
    simp only [nInline, serInline]
    rw [serExpr_nExpr e]

theorem serPositional_nInl (xs : List (Inline Bytes)) (w : Writer) (written : Bool) :
    serPositional w written (nInl ok xs) = serPositional w written xs := by
  cases xs with
  | nil => simp [nInl]
  | cons x xs =>
    simp only [nInl, serPositional]
    rw [serInline_nInline x]
    split
    · rfl
    · exact serPositional_nInl xs _ _

theorem serNamed_nNamed (xs : List (Bytes × Inline Bytes)) (w : Writer) (written : Bool) :
    serNamed w written (nNamed ok xs) = serNamed w written xs := by
  cases xs with
  | nil => simp [nNamed]
  | cons x xs =>
    obtain ⟨n, v⟩ := x
    simp only [nNamed, serNamed]
    rw [serInline_nInline v]
    split
    · rfl
    · exact serNamed_nNamed xs _ _

theorem serExpr_nExpr (e : Expr Bytes) (w : Writer) : serExpr w (nExpr ok e) = serExpr w e := by
  cases e with
  | inline i => simp only [nExpr, serExpr]; exact serInline_nInline i w
  | select sel vs =>
    simp only [nExpr, serExpr]
    rw [serInline_nInline sel]
    split
    · rfl
    · rw [serVariants_nVariants vs]

theorem serVariants_nVariants (vs : List (Variant Bytes)) (w : Writer) :
    serVariants w (nVariants ok vs) = serVariants w vs := by
  cases vs with
  | nil => simp [nVariants]
  | cons v vs =>
    simp only [nVariants, serVariants]
    rw [serVariant_nVariant v]
    split
    · rfl
    · exact serVariants_nVariants vs _

theorem serVariant_nVariant (v : Variant Bytes) (w : Writer) : serVariant w (nVariant ok v) = serVariant w v := by
  cases v with
  | mk key value dflt =>
    simp only [nVariant, serVariant]
    rw [patternPre_nPat ok hok, serElements_nPat value]
    split
    · rfl
    · exact patternPost_nPat ok _ _

theorem serElements_nPat (es : List (PatElem Bytes)) (w : Writer) : serElements w (nPat ok es) = serElements w es := by
  cases es with
  | nil => simp [nPat]
  | cons e es =>
    rw [nPat, serElements_joinHead ok hok]
    simp only [serElements]
    rw [serElement_nElem e]
    split
    · rfl
    · exact serElements_nPat es _

theorem serElement_nElem (e : PatElem Bytes) (w : Writer) : serElement w (nElem ok e) = serElement w e := by
  cases e with
  | text v => simp [nElem]
  | placeable e =>
    cases e with
    | select sel vs =>
      have := serExpr_nExpr (.select sel vs) (w.writeLiteral (lit "{ "))
      simp only [nExpr] at this
      simp only [nElem, nExpr, serElement, this]
    | inline i =>
      cases i with
      | placeable e =>
        simp only [nElem, nExpr, nInline, serElement]
        rw [serExpr_nExpr e]
      | str v => simp [nElem, nExpr, nInline]
      | num v => simp [nElem, nExpr, nInline]
      | var v => simp [nElem, nExpr, nInline]
      | msg a b => simp [nElem, nExpr, nInline]
      | term a b c =>
        have := serInline_nInline (.term a b c) (w.writeLiteral (lit "{ "))
        cases c with
        | none => simp [nElem, nExpr, nInline]
        | some pn =>
          obtain ⟨p, n⟩ := pn
          simp only [nInline] at this
          simp only [nElem, nExpr, nInline, serElement, this]
      | fn a b c =>
        have := serInline_nInline (.fn a b c) (w.writeLiteral (lit "{ "))
        simp only [nInline] at this
        simp only [nElem, nExpr, nInline, serElement, this]

end

theorem serPattern_nPat (p : List (PatElem Bytes)) (w : Writer) : serPattern w (nPat ok p) = serPattern w p := by
  simp only [serPattern]
  rw [patternPre_nPat ok hok, serElements_nPat ok hok]
  split
  · rfl
  · exact patternPost_nPat ok _ _

omit hok in
theorem isBlankLine_nil : isBlankLine [] = true := rfl

omit hok in
/-- blank and empty comment lines are written the same way -/
theorem serComment_nComment (pre : Bytes) (c : List Bytes) (w : Writer) :
    serComment w pre (nComment c) = serComment w pre c := by
  induction c generalizing w with
  | nil => rfl
  | cons l ls ih =>
    simp only [nComment, List.map_cons, serComment]
    have ih' := ih
    simp only [nComment] at ih'
    rw [ih']
    cases h : isBlankLine l <;> simp [isBlankLine_nil, h]

theorem serAttributesGo_nAttr (as : List (Attribute Bytes)) (w : Writer) :
    serAttributesGo w (as.map (nAttr ok)) = serAttributesGo w as := by
  induction as generalizing w with
  | nil => rfl
  | cons a as ih =>
    simp only [List.map_cons, serAttributesGo, nAttr]
    rw [serPattern_nPat ok hok]
    split
    · rfl
    · exact ih _

theorem serAttributes_nAttr (as : List (Attribute Bytes)) (w : Writer) :
    serAttributes w (as.map (nAttr ok)) = serAttributes w as := by
  simp only [serAttributes, serAttributesGo_nAttr ok hok]
  cases as <;> simp

theorem serMessage_nEntry (m : Message Bytes) (w : Writer) :
    serMessage w ⟨m.id, m.value.map (nPat ok), m.attributes.map (nAttr ok), m.comment.map nComment⟩ = serMessage w m := by
  obtain ⟨id, value, attrs, comment⟩ := m
  cases comment <;> cases value <;>
    simp only [serMessage, Option.map_some, Option.map_none, serComment_nComment, serAttributes_nAttr ok hok,
      serPattern_nPat ok hok]

theorem serTerm_nEntry (t : Term Bytes) (w : Writer) :
    serTerm w ⟨t.id, nPat ok t.value, t.attributes.map (nAttr ok), t.comment.map nComment⟩ = serTerm w t := by
  obtain ⟨id, value, attrs, comment⟩ := t
  cases comment <;>
    simp only [serTerm, Option.map_some, Option.map_none, serComment_nComment, serAttributes_nAttr ok hok,
      serPattern_nPat ok hok]

theorem serResourceGo_nRes (withJunk : Bool) (r : Resource Bytes) (w : Writer) (b : Bool) :
    serResourceGo withJunk w b (nRes ok withJunk r) = serResourceGo withJunk w b r := by
  induction r generalizing w b with
  | nil => rfl
  | cons e es ih =>
    have ih' := ih
    simp only [nRes] at ih'
    cases e with
    | message m =>
      simp only [nRes, List.filter_cons, isJunk, Bool.not_false, Bool.or_true, if_true, List.map_cons, nEntry,
        serResourceGo, serMessage_nEntry ok hok]
      split
      · rfl
      · exact ih' _ _
    | term t =>
      simp only [nRes, List.filter_cons, isJunk, Bool.not_false, Bool.or_true, if_true, List.map_cons, nEntry,
        serResourceGo, serTerm_nEntry ok hok]
      split
      · rfl
      · exact ih' _ _
    | comment c =>
      simp only [nRes, List.filter_cons, isJunk, Bool.not_false, Bool.or_true, if_true, List.map_cons, nEntry,
        serResourceGo, serFreeComment, serComment_nComment]
      exact ih' _ _
    | groupComment c =>
      simp only [nRes, List.filter_cons, isJunk, Bool.not_false, Bool.or_true, if_true, List.map_cons, nEntry,
        serResourceGo, serFreeComment, serComment_nComment]
      exact ih' _ _
    | resourceComment c =>
      simp only [nRes, List.filter_cons, isJunk, Bool.not_false, Bool.or_true, if_true, List.map_cons, nEntry,
        serResourceGo, serFreeComment, serComment_nComment]
      exact ih' _ _
    | junk c =>
      cases withJunk with
      | false =>
        simp only [nRes, List.filter_cons, isJunk, Bool.not_true, Bool.or_false, Bool.false_eq_true, if_false,
          serResourceGo, Bool.not_false, if_true]
        exact ih' _ _
      | true =>
        simp only [nRes, List.filter_cons, isJunk, Bool.true_or, if_true, List.map_cons, nEntry,
          serResourceGo, Bool.not_true, Bool.false_eq_true, if_false]
        exact ih' _ _

end congr

/-- **T1c, the congruence that is true.**  For every resource and both options, joining every pair
of adjacent text elements `a, b` with `JoinOK a b` (recursively, in every pattern of the tree),
replacing whitespace-only comment lines by empty ones, and dropping Junk when `¬withJunk` does not
change the serializer's output. -/
theorem serialize_normSafe (withJunk : Bool) (r : Resource Bytes) :
    serialize withJunk (normSafe withJunk r) = serialize withJunk r := by
  simp only [serialize, normSafe]
  rw [serResourceGo_nRes _ (fun a b h => of_decide_eq_true h)]

/-! ## line-split trees: `normSafe` is a function of `norm` -/

/-- a text element as the parser produces them: non-empty, `\n` only as the last byte, no `\r\n`
inside (the parser never keeps the `\r` of a CRLF line end) -/
def lineText : Bytes → Bool
  | [] => false
  | [_] => true
  | x :: y :: rest => x != 10 && !(x == 13 && y == 10) && lineText (y :: rest)

/-- the canonical splitting of a text run: after every `\n` and between `\r` and `\n` -/
def splitCanon : Bytes → List Bytes
  | [] => []
  | [x] => [[x]]
  | x :: y :: rest =>
    if x == 10 || (x == 13 && y == 10) then [x] :: splitCanon (y :: rest)
    else match splitCanon (y :: rest) with
      | [] => [[x]]
      | c :: cs => (x :: c) :: cs

theorem splitCanon_head {N c : Bytes} {cs : List Bytes} (h : splitCanon N = c :: cs) : c ≠ [] ∧ c.head? = N.head? := by
  match N, h with
  | [x], h => simp [splitCanon] at h; simp [← h.1]
  | x :: y :: rest, h =>
    rw [splitCanon] at h
    split at h
    · simp at h; simp [← h.1]
    · split at h <;> (simp at h; simp [← h.1])

theorem splitCanon_ne_nil {N : Bytes} (h : N ≠ []) : splitCanon N ≠ [] := by
  match N, h with
  | [x], _ => simp [splitCanon]
  | x :: y :: rest, _ =>
    rw [splitCanon]
    split
    · simp
    · split <;> simp

/-- a line text is its own canonical splitting -/
theorem splitCanon_lineText (a : Bytes) (h : lineText a = true) : splitCanon a = [a] := by
  induction a with
  | nil => simp [lineText] at h
  | cons x a ih =>
    cases a with
    | nil => simp [splitCanon]
    | cons y rest =>
      simp [lineText] at h
      rw [splitCanon, ih h.2]
      have : (x == 10 || (x == 13 && y == 10)) = false := by
        simp only [Bool.or_eq_false_iff, Bool.and_eq_false_iff, beq_eq_false_iff_ne]
        exact h.1
      simp [this]

theorem joinOK_cons (x y : UInt8) (a c : Bytes) : JoinOK (x :: y :: a) c ↔ JoinOK (y :: a) c := by
  simp [JoinOK, List.getLast?_cons_cons]

/-- prefixing a line text `a` to a text run `N`: `a` merges with the first canonical piece of `N`
exactly when `JoinOK` -/
theorem splitCanon_append (a N c : Bytes) (cs : List Bytes) (ha : lineText a = true) (hN : splitCanon N = c :: cs) :
    splitCanon (a ++ N) = if JoinOK a c then (a ++ c) :: cs else a :: c :: cs := by
  obtain ⟨hc, hhd⟩ := splitCanon_head hN
  induction a with
  | nil => simp [lineText] at ha
  | cons x a ih =>
    cases a with
    | nil =>
      cases N with
      | nil => simp [splitCanon] at hN
      | cons y N' =>
        simp at hhd
        simp only [List.cons_append, List.nil_append]
        rw [splitCanon, hN]
        simp only [JoinOK, hhd]
        by_cases h1 : x = 10
        · simp [h1]
        · by_cases h2 : x = 13 ∧ y = 10
          · simp [h2.1, h2.2]
          · have : (x == 10 || (x == 13 && y == 10)) = false := by
              simp only [Bool.or_eq_false_iff, Bool.and_eq_false_iff, beq_eq_false_iff_ne]
              exact ⟨h1, Classical.not_and_iff_not_or_not.mp h2⟩
            simp [this, h1]
            intro h3 h4; exact h2 ⟨h3, h4⟩
    | cons y rest =>
      simp [lineText] at ha
      have ih' := ih ha.2
      simp only [List.cons_append] at ih' ⊢
      rw [splitCanon, ih']
      have : (x == 10 || (x == 13 && y == 10)) = false := by
        simp only [Bool.or_eq_false_iff, Bool.and_eq_false_iff, beq_eq_false_iff_ne]
        exact ha.1
      simp only [this, Bool.false_eq_true, if_false, joinOK_cons]
      by_cases hj : JoinOK (y :: rest) c <;> simp [hj]

/-- the two joining conditions -/
abbrev okAll : Bytes → Bytes → Bool := fun _ _ => true
abbrev okSafe : Bytes → Bytes → Bool := fun a b => decide (JoinOK a b)

mutual
/-- re-split every text run canonically (recursively) -/
def rsInline : Inline Bytes → Inline Bytes
  | .str v => .str v
  | .num v => .num v
  | .var v => .var v
  | .msg a b => .msg a b
  | .fn id pos named => .fn id (rsInl pos) (rsNamed named)
  | .term id attr none => .term id attr none
  | .term id attr (some (pos, named)) => .term id attr (some (rsInl pos, rsNamed named))
  | .placeable e => .placeable (rsExpr e)
def rsInl : List (Inline Bytes) → List (Inline Bytes)
  | [] => []
  | x :: xs => rsInline x :: rsInl xs
def rsNamed : List (Bytes × Inline Bytes) → List (Bytes × Inline Bytes)
  | [] => []
  | (n, x) :: xs => (n, rsInline x) :: rsNamed xs
def rsExpr : Expr Bytes → Expr Bytes
  | .inline e => .inline (rsInline e)
  | .select sel vs => .select (rsInline sel) (rsVariants vs)
def rsVariants : List (Variant Bytes) → List (Variant Bytes)
  | [] => []
  | v :: vs => rsVariant v :: rsVariants vs
def rsVariant : Variant Bytes → Variant Bytes
  | .mk k val d => .mk k (rsPat val) d
def rsPat : List (PatElem Bytes) → List (PatElem Bytes)
  | [] => []
  | e :: es => rsElem e ++ rsPat es
def rsElem : PatElem Bytes → List (PatElem Bytes)
  | .text v => (splitCanon v).map PatElem.text
  | .placeable e => [.placeable (rsExpr e)]
end

mutual
/-- every text element of the tree is a `lineText` -/
def lsInline : Inline Bytes → Prop
  | .fn _ pos named => lsInl pos ∧ lsNamed named
  | .term _ _ (some (pos, named)) => lsInl pos ∧ lsNamed named
  | .placeable e => lsExpr e
  | _ => True
def lsInl : List (Inline Bytes) → Prop
  | [] => True
  | x :: xs => lsInline x ∧ lsInl xs
def lsNamed : List (Bytes × Inline Bytes) → Prop
  | [] => True
  | (_, x) :: xs => lsInline x ∧ lsNamed xs
def lsExpr : Expr Bytes → Prop
  | .inline e => lsInline e
  | .select sel vs => lsInline sel ∧ lsVariants vs
def lsVariants : List (Variant Bytes) → Prop
  | [] => True
  | v :: vs => lsVariant v ∧ lsVariants vs
def lsVariant : Variant Bytes → Prop
  | .mk _ val _ => lsPat val
def lsPat : List (PatElem Bytes) → Prop
  | [] => True
  | e :: es => lsElem e ∧ lsPat es
def lsElem : PatElem Bytes → Prop
  | .text v => lineText v = true
  | .placeable e => lsExpr e
end

/-- the head of a fully joined line-split pattern is not an empty text -/
theorem nPat_all_head (p : List (PatElem Bytes)) (h : lsPat p) :
    ∀ N R, nPat okAll p = .text N :: R → N ≠ [] := by
  intro N R hp
  cases p with
  | nil => simp [nPat] at hp
  | cons e es =>
    rw [nPat] at hp
    cases e with
    | placeable e => simp [nElem, joinHead] at hp
    | text a =>
      have ha : a ≠ [] := by
        intro h0; rw [lsPat, lsElem, h0] at h; simp [lineText] at h
      simp only [nElem] at hp
      unfold joinHead at hp
      split at hp
      · rename_i a' b rest h1 h2
        simp at h1 hp
        rw [← hp.1, ← h1]; simp [ha]
      · simp at hp; rw [← hp.1]
        rename_i h1 _; exact ha

theorem rsPat_text_cons (v : Bytes) (es : List (PatElem Bytes)) :
    rsPat (.text v :: es) = (splitCanon v).map PatElem.text ++ rsPat es := by
  rw [rsPat, rsElem]

theorem rsPat_placeable_cons (e : Expr Bytes) (es : List (PatElem Bytes)) :
    rsPat (.placeable e :: es) = .placeable (rsExpr e) :: rsPat es := by
  rw [rsPat, rsElem]; rfl

/-- the step of the pattern induction: a line text in front of an already normalised tail -/
theorem joinHead_text_rs (a : Bytes) (ha : lineText a = true) (R : List (PatElem Bytes))
    (hR : ∀ N R', R = .text N :: R' → N ≠ []) :
    joinHead okSafe (.text a) (rsPat R) = rsPat (joinHead okAll (.text a) R) := by
  cases R with
  | nil => simp [joinHead, rsPat, rsElem, splitCanon_lineText a ha]
  | cons r R' =>
    cases r with
    | placeable e =>
      simp [joinHead, rsPat_placeable_cons, rsPat_text_cons, splitCanon_lineText a ha]
    | text N =>
      have hN := hR N R' rfl
      cases hs : splitCanon N with
      | nil => exact absurd hs (splitCanon_ne_nil hN)
      | cons c cs =>
        have := splitCanon_append a N c cs ha hs
        simp only [joinHead, if_true, rsPat_text_cons, hs, this, List.map_cons, List.cons_append]
        by_cases hj : JoinOK a c <;> simp [hj]

mutual

theorem nInline_safe_eq (e : Inline Bytes) (h : lsInline e) : nInline okSafe e = rsInline (nInline okAll e) := by
  cases e with
  | str v => simp [nInline, rsInline]
  | num v => simp [nInline, rsInline]
  | var id => simp [nInline, rsInline]
  | msg id attr => simp [nInline, rsInline]
  | fn id pos named =>
    rw [lsInline] at h
    simp only [nInline, rsInline]
    rw [nInl_safe_eq pos h.1, nNamed_safe_eq named h.2]
  | term id attr args =>
    cases args with
    | none => simp [nInline, rsInline]
    | some pn =>
      obtain ⟨pos, named⟩ := pn
      rw [lsInline] at h
      simp only [nInline, rsInline]
      rw [nInl_safe_eq pos h.1, nNamed_safe_eq named h.2]
  | placeable e =>
    rw [lsInline] at h
    simp only [nInline, rsInline]
    rw [nExpr_safe_eq e h]

theorem nInl_safe_eq (xs : List (Inline Bytes)) (h : lsInl xs) : nInl okSafe xs = rsInl (nInl okAll xs) := by
  cases xs with
  | nil => simp [nInl, rsInl]
  | cons x xs =>
    rw [lsInl] at h
    simp only [nInl, rsInl]
    rw [nInline_safe_eq x h.1, nInl_safe_eq xs h.2]

theorem nNamed_safe_eq (xs : List (Bytes × Inline Bytes)) (h : lsNamed xs) :
    nNamed okSafe xs = rsNamed (nNamed okAll xs) := by
  cases xs with
  | nil => simp [nNamed, rsNamed]
  | cons x xs =>
    obtain ⟨n, v⟩ := x
    rw [lsNamed] at h
    simp only [nNamed, rsNamed]
    rw [nInline_safe_eq v h.1, nNamed_safe_eq xs h.2]

theorem nExpr_safe_eq (e : Expr Bytes) (h : lsExpr e) : nExpr okSafe e = rsExpr (nExpr okAll e) := by
  cases e with
  | inline i =>
    rw [lsExpr] at h
    simp only [nExpr, rsExpr]
    rw [nInline_safe_eq i h]
  | select sel vs =>
    rw [lsExpr] at h
    simp only [nExpr, rsExpr]
    rw [nInline_safe_eq sel h.1, nVariants_safe_eq vs h.2]

theorem nVariants_safe_eq (vs : List (Variant Bytes)) (h : lsVariants vs) :
    nVariants okSafe vs = rsVariants (nVariants okAll vs) := by
  cases vs with
  | nil => simp [nVariants, rsVariants]
  | cons v vs =>
    rw [lsVariants] at h
    simp only [nVariants, rsVariants]
    rw [nVariant_safe_eq v h.1, nVariants_safe_eq vs h.2]

theorem nVariant_safe_eq (v : Variant Bytes) (h : lsVariant v) : nVariant okSafe v = rsVariant (nVariant okAll v) := by
  cases v with
  | mk key value dflt =>
    rw [lsVariant] at h
    simp only [nVariant, rsVariant]
    rw [nPat_safe_eq value h]

theorem nPat_safe_eq (es : List (PatElem Bytes)) (h : lsPat es) : nPat okSafe es = rsPat (nPat okAll es) := by
  cases es with
  | nil => simp [nPat, rsPat]
  | cons e es =>
    rw [lsPat] at h
    rw [nPat, nPat, nPat_safe_eq es h.2]
    cases e with
    | text a =>
      rw [lsElem] at h
      simp only [nElem]
      exact joinHead_text_rs a h.1 _ (nPat_all_head es h.2)
    | placeable e =>
      rw [lsElem] at h
      simp only [nElem, joinHead, rsPat_placeable_cons]
      rw [nExpr_safe_eq e h.1]

end

def rsAttr (a : Attribute Bytes) : Attribute Bytes := ⟨a.id, rsPat a.value⟩

def rsEntry : Entry Bytes → Entry Bytes
  | .message m => .message ⟨m.id, m.value.map rsPat, m.attributes.map rsAttr, m.comment⟩
  | .term t => .term ⟨t.id, rsPat t.value, t.attributes.map rsAttr, t.comment⟩
  | e => e

def lsEntry : Entry Bytes → Prop
  | .message m => (∀ v, m.value = some v → lsPat v) ∧ ∀ a ∈ m.attributes, lsPat a.value
  | .term t => lsPat t.value ∧ ∀ a ∈ t.attributes, lsPat a.value
  | _ => True

/-- **line-split resource**: every text element of every pattern is non-empty, contains `
` only as
its last byte and contains no `
` — the shape in which the parser delivers text (it cuts text at
every line end and never keeps the `
` of a CRLF). -/
def LineSplit (r : Resource Bytes) : Prop := ∀ e ∈ r, lsEntry e

theorem nAttrs_safe_eq (as : List (Attribute Bytes)) (h : ∀ a ∈ as, lsPat a.value) :
    as.map (nAttr okSafe) = (as.map (nAttr okAll)).map rsAttr := by
  induction as with
  | nil => rfl
  | cons a as ih =>
    simp only [List.map_cons, nAttr, rsAttr]
    rw [nPat_safe_eq a.value (h a (by simp)), ih (fun a ha => h a (by simp [ha]))]

theorem nEntry_safe_eq (e : Entry Bytes) (h : lsEntry e) : nEntry okSafe e = rsEntry (nEntry okAll e) := by
  cases e with
  | message m =>
    obtain ⟨id, value, attrs, comment⟩ := m
    simp only [lsEntry] at h
    simp only [nEntry, rsEntry, nAttrs_safe_eq attrs h.2]
    cases value with
    | none => rfl
    | some v => simp [nPat_safe_eq v (h.1 v rfl)]
  | term t =>
    obtain ⟨id, value, attrs, comment⟩ := t
    simp only [lsEntry] at h
    simp only [nEntry, rsEntry, nAttrs_safe_eq attrs h.2, nPat_safe_eq value h.1]
  | _ => rfl

/-- on line-split resources `normSafe` is a function of `norm` -/
theorem normSafe_eq_rs_norm (withJunk : Bool) (r : Resource Bytes) (h : LineSplit r) :
    normSafe withJunk r = (norm withJunk r).map rsEntry := by
  simp only [normSafe, norm, nRes, List.map_map]
  apply List.map_congr_left
  intro e he
  exact nEntry_safe_eq e (h e (List.mem_filter.mp he).1)

/-- **T1c, corollary for parser-shaped trees.**  Two line-split resources that are equal under the
property's comparison `norm` serialise to the same bytes.  (This turns `fixpoint` into a corollary
of `roundtrip` once the parser is known to produce line-split trees.) -/
theorem serialize_congr_lineSplit (withJunk : Bool) (r₁ r₂ : Resource Bytes) (h₁ : LineSplit r₁) (h₂ : LineSplit r₂)
    (h : norm withJunk r₁ = norm withJunk r₂) : serialize withJunk r₁ = serialize withJunk r₂ := by
  rw [← serialize_normSafe withJunk r₁, ← serialize_normSafe withJunk r₂,
    normSafe_eq_rs_norm withJunk r₁ h₁, normSafe_eq_rs_norm withJunk r₂ h₂, h]

end FluentProofs.Ser
