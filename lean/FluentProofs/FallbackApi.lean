import FluentProofs.FallbackBatch
/-!
# C16 lemmas, part 3: the six request APIs of `Bundles` and histories of requests on one instance
-/
namespace FluentProofs.Fallback
open FluentModel.Fallback

variable {I L A N T RE BE : Type}

/-- what a request answers over the locale list `lbs` in the given mode:
(response, errors pushed, bundles consumed by the request's cursor) -/
def specResponse (sync : Bool) (lbs : List (L × BundleResult I L A N T RE BE)) :
    Request I A → Response I L N T RE BE × List (LocErr I L RE BE) × Nat
  | .value k => (.value (valueSpec (T := T) k lbs).1, (valueSpec (T := T) k lbs).2.1, (valueSpec (T := T) k lbs).2.2)
  | .valueSync k =>
    match sync with
    | true => (.valueSync (.ok (valueSpec (T := T) k lbs).1), (valueSpec (T := T) k lbs).2.1,
               (valueSpec (T := T) k lbs).2.2)
    | false => (.valueSync (.error .syncRequestInAsyncMode), [], 0)
  | .values ks =>
    let s := batchSpec (valueAns (T := T)) missEntry valueFin ks lbs
    (.values s.1, s.2.1, s.2.2)
  | .valuesSync ks =>
    let s := batchSpec (valueAns (T := T)) missEntry valueFin ks lbs
    match sync with
    | true => (.valuesSync (.ok s.1), s.2.1, s.2.2)
    | false => (.valuesSync (.error .syncRequestInAsyncMode), [], 0)
  | .messages ks =>
    let s := batchSpec (messageAns (N := N) (T := T)) messageMiss messageFin ks lbs
    (.messages s.1, s.2.1, s.2.2)
  | .messagesSync ks =>
    let s := batchSpec (messageAns (N := N) (T := T)) messageMiss messageFin ks lbs
    match sync with
    | true => (.messagesSync (.ok s.1), s.2.1, s.2.2)
    | false => (.messagesSync (.error .syncRequestInAsyncMode), [], 0)
  | .clear => (.cleared, [], 0)

/-- the caller's `errors` vector after an operation -/
def errsAfter (errors : List (LocErr I L RE BE)) (req : Request I A) (pushed : List (LocErr I L RE BE)) :
    List (LocErr I L RE BE) :=
  match req with
  | .clear => []
  | _ => errors ++ pushed

theorem advance_zero (b : Bundles I L A N T RE BE) : b.advance 0 = b := by
  cases b <;> simp [Bundles.advance, CacheSt.advance]

theorem advance_source (b : Bundles I L A N T RE BE) (u : Nat) : (b.advance u).cache.source = b.cache.source := by
  cases b <;> rfl

theorem advance_isSync (b : Bundles I L A N T RE BE) (u : Nat) : (b.advance u).isSync = b.isSync := by
  cases b <;> rfl

theorem advance_pulled (b : Bundles I L A N T RE BE) (u : Nat) :
    (b.advance u).cache.pulled = max b.cache.pulled u := by
  cases b <;> rfl

/-- one operation on an instance whose generator sequence is `lbs` -/
theorem handle_spec (b : Bundles I L A N T RE BE) (lbs : List (L × BundleResult I L A N T RE BE))
    (hsrc : b.cache.source = lbs.map (·.2)) (h : PerLocale lbs) (req : Request I A)
    (errors : List (LocErr I L RE BE)) :
    b.handle req errors =
      .done ((specResponse (N := N) (T := T) b.isSync lbs req).1,
             errsAfter errors req (specResponse (N := N) (T := T) b.isSync lbs req).2.1,
             b.advance (specResponse (N := N) (T := T) b.isSync lbs req).2.2) := by
  cases b with
  | iter c =>
    simp only [Bundles.cache] at hsrc
    cases req <;>
      simp [Bundles.handle, Bundles.formatValue, Bundles.formatValueSync, Bundles.formatValues,
        Bundles.formatValuesSync, Bundles.formatMessages, Bundles.formatMessagesSync, reply,
        formatValueFromIter, formatValuesFromIter, formatMessagesFromIter, hsrc,
        formatValueFromInner_spec _ lbs h, formatValuesFromInner_spec _ lbs h,
        formatMessagesFromInner_spec _ lbs h, Outcome.bind, Outcome.map, specResponse, errsAfter,
        Bundles.isSync, advance_zero]
  | stream c =>
    simp only [Bundles.cache] at hsrc
    cases req <;>
      simp [Bundles.handle, Bundles.formatValue, Bundles.formatValueSync, Bundles.formatValues,
        Bundles.formatValuesSync, Bundles.formatMessages, Bundles.formatMessagesSync, reply,
        formatValueFromStream, formatValuesFromStream, formatMessagesFromStream, hsrc,
        formatValueFromInner_spec _ lbs h, formatValuesFromInner_spec _ lbs h,
        formatMessagesFromInner_spec _ lbs h, Outcome.bind, Outcome.map, specResponse, errsAfter,
        Bundles.isSync, advance_zero]

/-- the trace a history must produce -/
def traceSpec (sync : Bool) (lbs : List (L × BundleResult I L A N T RE BE)) :
    Bundles I L A N T RE BE → List (LocErr I L RE BE) → List (Request I A) →
    List (Response I L N T RE BE × List (LocErr I L RE BE) × Bundles I L A N T RE BE)
  | _, _, [] => []
  | b, errors, req :: reqs =>
    let s := specResponse (N := N) (T := T) sync lbs req
    let errors' := errsAfter errors req s.2.1
    let b' := b.advance s.2.2
    (s.1, errors', b') :: traceSpec sync lbs b' errors' reqs

theorem run_spec (lbs : List (L × BundleResult I L A N T RE BE)) (h : PerLocale lbs)
    (reqs : List (Request I A)) (b : Bundles I L A N T RE BE) (hsrc : b.cache.source = lbs.map (·.2))
    (errors : List (LocErr I L RE BE)) :
    b.run errors reqs = .done (traceSpec (N := N) (T := T) b.isSync lbs b errors reqs) := by
  induction reqs generalizing b errors with
  | nil => rfl
  | cons req reqs ih =>
    simp only [Bundles.run, handle_spec b lbs hsrc h, Outcome.bind]
    rw [ih _ (by rw [advance_source, hsrc])]
    simp [traceSpec, advance_isSync]

theorem traceSpec_responses (sync : Bool) (lbs : List (L × BundleResult I L A N T RE BE))
    (b : Bundles I L A N T RE BE) (errors : List (LocErr I L RE BE)) (reqs : List (Request I A)) :
    (traceSpec (N := N) (T := T) sync lbs b errors reqs).map (·.1) =
      reqs.map fun r => (specResponse (N := N) (T := T) sync lbs r).1 := by
  induction reqs generalizing b errors with
  | nil => rfl
  | cons req reqs ih => simp [traceSpec, ih]

/-! ### the batch specification in words -/

/-- if `p` is the first locale that can answer `k`, the key's result is `p`'s answer -/
theorem resultOf_first {ρ : Type} (ans : Key I A → L × BundleResult I L A N T RE BE → Option (ρ × List RE))
    (k : Key I A) (pre post : List (L × BundleResult I L A N T RE BE)) (p : L × BundleResult I L A N T RE BE)
    (r : ρ × List RE) (hpre : ∀ q ∈ pre, ans k q = none) (hp : ans k p = some r) :
    resultOf ans k (pre ++ p :: post) = some r.1 := by
  have h1 : firstAns ans k pre = none := by
    simp only [firstAns, List.findSome?_eq_none_iff]
    intro q hq; simp [hpre q hq]
  simp [resultOf, firstAns_append, h1, firstAns_cons, hp]

/-- a key's result is `none` iff no locale can answer it -/
theorem resultOf_eq_none_iff {ρ : Type} (ans : Key I A → L × BundleResult I L A N T RE BE → Option (ρ × List RE))
    (k : Key I A) (lbs : List (L × BundleResult I L A N T RE BE)) :
    resultOf ans k lbs = none ↔ ∀ q ∈ lbs, ans k q = none := by
  simp [resultOf, firstAns]

theorem valueSpec_result (k : Key I A) (lbs : List (L × BundleResult I L A N T RE BE)) :
    resultOf (valueAns (T := T)) k lbs = (valueSpec (T := T) k lbs).1 := by
  rw [valueSpec_eq_batch_singleton]

/-- results of a batch are, key by key, the results of the one-key batches -/
theorem batchSpec_results {ρ : Type} (ans : Key I A → L × BundleResult I L A N T RE BE → Option (ρ × List RE))
    (miss fin) (keys : List (Key I A)) (lbs : List (L × BundleResult I L A N T RE BE)) (i : Nat) (k : Key I A)
    (hk : keys[i]? = some k) :
    (batchSpec ans miss fin keys lbs).1[i]? = some (resultOf ans k lbs) ∧
      (batchSpec ans miss fin [k] lbs).1 = [resultOf ans k lbs] := by
  simp [batchSpec, hk]

end FluentProofs.Fallback
