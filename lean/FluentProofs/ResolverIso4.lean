import FluentProofs.ResolverIso3
/-!
# C09: isolation on vs off, run side by side

Under `NoFlowEnv` (no selector / call argument is resolved by writing a pattern into a string) the two
runs of every writing function from the same scope end in the same scope (errors, counter, dirty flag)
and the isolating output is the plain output with balanced `fsi … pdi` pairs inserted (`Iso`).  No
hypothesis on the bytes of the pieces is needed for this; it is needed only to turn `Iso on off`
into `strip on = off` (`Iso.strip_eq`, which asks for `MarkFree off`).
-/
namespace FluentProofs.Bidi
open FluentModel FluentModel.Syntax FluentModel.Resolver

/-- outcome of the isolating run (from `w₁`) against the plain run (from `w₂`) -/
def Rel (w₁ w₂ : Bytes) : RR (Bytes × Scope) → RR (Bytes × Scope) → Prop
  | .ok (a, s), .ok (b, t) => s = t ∧ ∃ on off, a = w₁ ++ on ∧ b = w₂ ++ off ∧ Iso on off
  | .panic m, .panic m' => m = m'
  | .fuel, .fuel => True
  | _, _ => False

theorem Rel.cases {w₁ w₂ : Bytes} {r₁ r₂ : RR (Bytes × Scope)} (h : Rel w₁ w₂ r₁ r₂) :
    (∃ s on off, r₁ = .ok (w₁ ++ on, s) ∧ r₂ = .ok (w₂ ++ off, s) ∧ Iso on off) ∨
    (∃ m, r₁ = .panic m ∧ r₂ = .panic m) ∨ (r₁ = .fuel ∧ r₂ = .fuel) := by
  rcases r₁ with ⟨⟨a, s⟩⟩ | ⟨m⟩ | _ <;> rcases r₂ with ⟨⟨b, t⟩⟩ | ⟨m'⟩ | _ <;> try exact h.elim
  · obtain ⟨rfl, on, off, rfl, rfl, hi⟩ := h
    exact Or.inl ⟨s, on, off, rfl, rfl, hi⟩
  · have : m = m' := h
    subst this; exact Or.inr (Or.inl ⟨m, rfl, rfl⟩)
  · exact Or.inr (Or.inr ⟨rfl, rfl⟩)

theorem Rel.ok {w₁ w₂ on off : Bytes} (s : Scope) (h : Iso on off) : Rel w₁ w₂ (.ok (w₁ ++ on, s)) (.ok (w₂ ++ off, s)) :=
  ⟨rfl, on, off, rfl, rfl, h⟩

theorem Rel.same {w₁ w₂ : Bytes} (o : Bytes) (s : Scope) : Rel w₁ w₂ (.ok (w₁ ++ o, s)) (.ok (w₂ ++ o, s)) :=
  Rel.ok s (Iso.refl o)

theorem Rel.nil {w₁ w₂ : Bytes} (s : Scope) : Rel w₁ w₂ (.ok (w₁, s)) (.ok (w₂, s)) :=
  ⟨rfl, [], [], by simp, by simp, Iso.nil⟩

theorem Rel.panic {w₁ w₂ : Bytes} (m : String) : Rel w₁ w₂ (.panic m) (.panic m) := rfl

theorem Rel.prefix {w₁ w₂ on off : Bytes} {r₁ r₂ : RR (Bytes × Scope)} (hi : Iso on off)
    (h : Rel (w₁ ++ on) (w₂ ++ off) r₁ r₂) : Rel w₁ w₂ r₁ r₂ := by
  rcases h.cases with ⟨s, on', off', rfl, rfl, hi'⟩ | ⟨m, rfl, rfl⟩ | ⟨rfl, rfl⟩
  · rw [List.append_assoc, List.append_assoc]; exact Rel.ok s (hi.append hi')
  · rfl
  · trivial

theorem writeRefError_rel (w₁ w₂ : Bytes) (sc : Scope) (e : Inline Bytes) :
    Rel w₁ w₂ (writeRefError w₁ sc e) (writeRefError w₂ sc e) := by
  unfold writeRefError
  split
  · rfl
  · exact Rel.same _ _

structure Inv2 (env : Env) (n : Nat) : Prop where
  writeElems : ∀ whole len els w₁ w₂ sc, nfElems els = true →
    Rel w₁ w₂ (writeElems (withIso env true) n whole len els w₁ sc) (writeElems (withIso env false) n whole len els w₂ sc)
  writePattern : ∀ p w₁ w₂ sc, nfElems p = true →
    Rel w₁ w₂ (writePattern (withIso env true) n p w₁ sc) (writePattern (withIso env false) n p w₂ sc)
  track : ∀ p e w₁ w₂ sc, nfElems p = true →
    Rel w₁ w₂ (track (withIso env true) n p e w₁ sc) (track (withIso env false) n p e w₂ sc)
  writeExpr : ∀ e w₁ w₂ sc, nfExpr e = true →
    Rel w₁ w₂ (writeExpr (withIso env true) n e w₁ sc) (writeExpr (withIso env false) n e w₂ sc)
  writeDefault : ∀ vs w₁ w₂ sc, nfVariants vs = true →
    Rel w₁ w₂ (writeDefault (withIso env true) n vs w₁ sc) (writeDefault (withIso env false) n vs w₂ sc)
  writeInline : ∀ e w₁ w₂ sc, nfInline e = true →
    Rel w₁ w₂ (writeInline (withIso env true) n e w₁ sc) (writeInline (withIso env false) n e w₂ sc)

theorem inv2_zero (env : Env) : Inv2 env 0 := by
  constructor <;> intros <;> simp [writeElems, writePattern, track, writeExpr, writeDefault, writeInline, Rel]

section step
set_option linter.unusedSectionVars false
variable {env : Env} {n : Nat} (F : NoFlowEnv env) (IH : Inv2 env n)
include F IH

theorem writePattern_step2 (p : Pattern Bytes) (w₁ w₂ : Bytes) (sc : Scope) (hp : nfElems p = true) :
    Rel w₁ w₂ (writePattern (withIso env true) (n + 1) p w₁ sc) (writePattern (withIso env false) (n + 1) p w₂ sc) := by
  simp only [writePattern]; exact IH.writeElems _ _ _ _ _ _ hp

theorem writeDefault_step2 (vs : List (Variant Bytes)) (w₁ w₂ : Bytes) (sc : Scope) (hv : nfVariants vs = true) :
    Rel w₁ w₂ (writeDefault (withIso env true) (n + 1) vs w₁ sc) (writeDefault (withIso env false) (n + 1) vs w₂ sc) := by
  simp only [writeDefault]
  cases hd : defaultVariant vs with
  | some v => exact IH.writePattern _ _ _ _ (defaultVariant_nf vs v hv hd)
  | none => exact Rel.nil _

theorem track_step2 (p : Pattern Bytes) (e : Inline Bytes) (w₁ w₂ : Bytes) (sc : Scope) (hp : nfElems p = true) :
    Rel w₁ w₂ (track (withIso env true) (n + 1) p e w₁ sc) (track (withIso env false) (n + 1) p e w₂ sc) := by
  simp only [track]
  cases hc : travelledContains sc.travelled p with
  | true => simp only [if_true]; exact Rel.same _ _
  | false =>
    simp only [Bool.false_eq_true, if_false]
    rcases (IH.writePattern p w₁ w₂ { sc with travelled := sc.travelled ++ [p] } hp).cases with
      ⟨s, on, off, e1, e2, hi⟩ | ⟨m, e1, e2⟩ | ⟨e1, e2⟩
    · rw [e1, e2]; exact Rel.ok _ hi
    · rw [e1, e2]; rfl
    · rw [e1, e2]; trivial

theorem writeElems_step2 (whole : Pattern Bytes) (len : Nat) (els : List (PatElem Bytes)) (w₁ w₂ : Bytes) (sc : Scope)
    (he : nfElems els = true) :
    Rel w₁ w₂ (writeElems (withIso env true) (n + 1) whole len els w₁ sc)
      (writeElems (withIso env false) (n + 1) whole len els w₂ sc) := by
  cases els with
  | nil => simp only [writeElems]; exact Rel.nil _
  | cons el rest =>
    simp only [nfElems, Bool.and_eq_true] at he
    cases el with
    | text v =>
      rw [writeElems_text, writeElems_text]
      by_cases hd : sc.dirty = true
      · rw [if_pos hd, if_pos hd]; exact Rel.nil _
      · rw [if_neg hd, if_neg hd]
        simp only [withIso_transform]
        exact Rel.prefix (Iso.refl _) (IH.writeElems _ _ _ _ _ _ he.2)
    | placeable e =>
      rw [writeElems_placeable, writeElems_placeable]
      by_cases hd : sc.dirty = true
      · rw [if_pos hd, if_pos hd]; exact Rel.nil _
      rw [if_neg hd, if_neg hd]
      by_cases h255 : sc.placeables + 1 > 255
      · rw [if_pos h255, if_pos h255]; rfl
      rw [if_neg h255, if_neg h255]
      by_cases hmax : sc.placeables + 1 > Generated.maxPlaceables
      · rw [if_pos hmax, if_pos hmax]; exact Rel.nil _
      rw [if_neg hmax, if_neg hmax]
      have hoff1 : openMark (withIso env false) len e = [] := openMark_off rfl _ _
      have hoff2 : closeMark (withIso env false) len e = [] := closeMark_off rfl _ _
      rw [hoff1, hoff2]
      have hexp : nfExpr e = true := by simpa [nfElem] using he.1
      -- the marks of the isolating run
      have hmarks : (openMark (withIso env true) len e = [] ∧ closeMark (withIso env true) len e = []) ∨
          (openMark (withIso env true) len e = fsi ∧ closeMark (withIso env true) len e = pdi) := by
        unfold openMark closeMark
        cases (withIso env true).useIsolating && decide (len > 1) && isolatable e
        · exact Or.inl ⟨rfl, rfl⟩
        · exact Or.inr ⟨rfl, rfl⟩
      rcases hmarks with ⟨ho, hc⟩ | ⟨ho, hc⟩
      · rw [ho, hc]
        simp only [List.append_nil]
        rcases (IH.writeExpr e w₁ w₂ (trackScope whole sc) hexp).cases with
          ⟨s, on, off, e1, e2, hi⟩ | ⟨m, e1, e2⟩ | ⟨e1, e2⟩
        · rw [e1, e2]; simp only []
          rw [List.append_assoc, List.append_assoc]
          exact Rel.prefix (hi.append (Iso.refl _)) (IH.writeElems _ _ _ _ _ _ he.2)
        · rw [e1, e2]; rfl
        · rw [e1, e2]; trivial
      · rw [ho, hc]
        simp only [List.append_nil]
        rcases (IH.writeExpr e (w₁ ++ fsi) w₂ (trackScope whole sc) hexp).cases with
          ⟨s, on, off, e1, e2, hi⟩ | ⟨m, e1, e2⟩ | ⟨e1, e2⟩
        · rw [e1, e2]; simp only []
          have : w₁ ++ fsi ++ on ++ fallback e s ++ pdi = w₁ ++ (fsi ++ ((on ++ fallback e s) ++ pdi)) := by
            simp [List.append_assoc]
          have h2 : w₂ ++ off ++ fallback e s = w₂ ++ (off ++ fallback e s) := by simp [List.append_assoc]
          rw [this, h2]
          exact Rel.prefix (hi.append (Iso.refl _)).isolate (IH.writeElems _ _ _ _ _ _ he.2)
        · rw [e1, e2]; rfl
        · rw [e1, e2]; trivial

theorem writeExpr_step2 (e : Expr Bytes) (w₁ w₂ : Bytes) (sc : Scope) (he : nfExpr e = true) :
    Rel w₁ w₂ (writeExpr (withIso env true) (n + 1) e w₁ sc) (writeExpr (withIso env false) (n + 1) e w₂ sc) := by
  cases e with
  | inline e => simp only [writeExpr]; exact IH.writeInline e _ _ _ (by simpa [nfExpr] using he)
  | select sel vs =>
    simp only [nfExpr, Bool.and_eq_true] at he
    simp only [writeExpr]
    rw [(sinv_all env n).resolveInline sel sc he.1]
    rcases resolveInline (withIso env false) n sel sc with ⟨⟨v, sc1⟩⟩ | ⟨m⟩ | _
    · simp only [selectVariant_withIso]
      have hdef := IH.writeDefault vs w₁ w₂ sc1 he.2
      have hsel : Rel w₁ w₂
          (match selectVariant env vs v with
            | .ok (some p) => writePattern (withIso env true) n p w₁ sc1
            | .ok .none => writeDefault (withIso env true) n vs w₁ sc1
            | .panic m => .panic m
            | .fuel => .fuel)
          (match selectVariant env vs v with
            | .ok (some p) => writePattern (withIso env false) n p w₂ sc1
            | .ok .none => writeDefault (withIso env false) n vs w₂ sc1
            | .panic m => .panic m
            | .fuel => .fuel) := by
        rcases hs : selectVariant env vs v with ⟨_ | p⟩ | ⟨m⟩ | _
        · exact hdef
        · exact IH.writePattern p _ _ _ (selectVariant_nf env vs v p he.2 hs)
        · rfl
        · trivial
      cases v with
      | str s => exact hsel
      | num x => exact hsel
      | custom t => exact hdef
      | none => exact hdef
      | error => exact hdef
    · rfl
    · trivial

theorem writeInline_step2 (e : Inline Bytes) (w₁ w₂ : Bytes) (sc : Scope) (he : nfInline e = true) :
    Rel w₁ w₂ (writeInline (withIso env true) (n + 1) e w₁ sc) (writeInline (withIso env false) (n + 1) e w₂ sc) := by
  cases e with
  | str v => simp only [writeInline, withIso_unescape]; exact Rel.same _ _
  | num v => simp only [writeInline, withIso_tryNumber, valueString_withIso]; exact Rel.same _ _
  | msg id attr =>
    simp only [writeInline, withIso_msg]
    cases hm : env.msg id with
    | none => exact writeRefError_rel _ _ _ _
    | some m =>
      simp only []
      cases attr with
      | some a =>
        simp only []
        cases hf : findAttr m.attributes a with
        | none => exact writeRefError_rel _ _ _ _
        | some p =>
          obtain ⟨at', hmem, rfl⟩ := findAttr_mem hf
          exact IH.track _ _ _ _ _ (F.msgAttr id m at' hm hmem)
      | none =>
        simp only []
        cases hv : m.value with
        | none => exact Rel.same _ _
        | some p => exact IH.track _ _ _ _ _ (F.msgValue id m p hm hv)
  | term id attr args =>
    simp only [nfInline] at he
    simp only [writeInline, withIso_term]
    rw [(sinv_all env n).getArguments args sc he]
    rcases getArguments (withIso env false) n args sc with ⟨⟨⟨rp, named⟩, sc1⟩⟩ | ⟨m⟩ | _
    · simp only []
      have key : ∀ r₁ r₂ : RR (Bytes × Scope), Rel w₁ w₂ r₁ r₂ →
          Rel w₁ w₂
            (match r₁ with
              | .ok (w1, sc3) => .ok (w1, { sc3 with localArgs := sc1.localArgs })
              | .panic m => .panic m
              | .fuel => .fuel)
            (match r₂ with
              | .ok (w1, sc3) => .ok (w1, { sc3 with localArgs := sc1.localArgs })
              | .panic m => .panic m
              | .fuel => .fuel) := by
        intro r₁ r₂ h
        rcases h.cases with ⟨s, on, off, rfl, rfl, hi⟩ | ⟨m, rfl, rfl⟩ | ⟨rfl, rfl⟩
        · exact Rel.ok _ hi
        · rfl
        · trivial
      apply key
      cases ht : env.term id with
      | none => exact writeRefError_rel _ _ _ _
      | some t =>
        simp only []
        cases attr with
        | none => exact IH.track _ _ _ _ _ (F.termValue id t ht)
        | some a =>
          simp only []
          cases hf : findAttr t.attributes a with
          | none => exact writeRefError_rel _ _ _ _
          | some p =>
            obtain ⟨at', hmem, rfl⟩ := findAttr_mem hf
            exact IH.track _ _ _ _ _ (F.termAttr id t at' ht hmem)
    · rfl
    · trivial
  | fn id pos named =>
    simp only [nfInline] at he
    simp only [writeInline, withIso_fn, valueString_withIso]
    rw [(sinv_all env n).getArguments (some (pos, named)) sc (by simpa [simpleArgs] using he)]
    rcases getArguments (withIso env false) n (some (pos, named)) sc with ⟨⟨⟨rp, rn⟩, sc1⟩⟩ | ⟨m⟩ | _
    · simp only []
      cases hf : env.fn id with
      | none => exact writeRefError_rel _ _ _ _
      | some f =>
        simp only []
        split
        · exact Rel.same _ _
        · exact Rel.same _ _
    · rfl
    · trivial
  | var id =>
    simp only [writeInline, withIso_args, valueString_withIso]
    split
    · exact Rel.same _ _
    · exact Rel.same _ _
  | placeable e =>
    simp only [writeInline]
    exact IH.writeExpr e _ _ _ (by simpa [nfInline] using he)

end step

/-- the two-run induction -/
theorem inv2_all {env : Env} (F : NoFlowEnv env) : ∀ n, Inv2 env n
  | 0 => inv2_zero env
  | n + 1 =>
    have IH := inv2_all F n
    { writeElems := fun _ _ _ _ _ _ => writeElems_step2 F IH _ _ _ _ _ _
      writePattern := fun _ _ _ _ => writePattern_step2 F IH _ _ _ _
      track := fun _ _ _ _ _ => track_step2 F IH _ _ _ _ _
      writeExpr := fun _ _ _ _ => writeExpr_step2 F IH _ _ _ _
      writeDefault := fun _ _ _ _ => writeDefault_step2 F IH _ _ _ _
      writeInline := fun _ _ _ _ => writeInline_step2 F IH _ _ _ _ }

end FluentProofs.Bidi
