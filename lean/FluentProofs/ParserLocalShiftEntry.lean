import FluentProofs.ParserLocalShiftPat
/-!
# Locality of the parser, SHIFT family, part 4: attributes, messages, terms, entries and the two entry loops
-/
namespace FluentProofs.Parser
open FluentModel.Syntax

/-- a message moved by `d` -/
def shMsg (d : Nat) (m : Message Span) : Message Span :=
  ⟨shSpan d m.id, m.value.map (mapPat (shSpan d)), m.attributes.map (Attribute.mapS (shSpan d)),
    m.comment.map (List.map (shSpan d))⟩

/-- a term moved by `d` -/
def shTerm (d : Nat) (t : Term Span) : Term Span :=
  ⟨shSpan d t.id, mapPat (shSpan d) t.value, t.attributes.map (Attribute.mapS (shSpan d)),
    t.comment.map (List.map (shSpan d))⟩

theorem shEntry_message (d : Nat) (m : Message Span) : shEntry d (.message m) = .message (shMsg d m) := rfl
theorem shEntry_term (d : Nat) (t : Term Span) : shEntry d (.term t) = .term (shTerm d t) := rfl
theorem shEntry_comment (d : Nat) (c : List Span) : shEntry d (.comment c) = .comment (c.map (shSpan d)) := rfl
theorem shEntry_groupComment (d : Nat) (c : List Span) : shEntry d (.groupComment c) = .groupComment (c.map (shSpan d)) := rfl
theorem shEntry_resourceComment (d : Nat) (c : List Span) :
    shEntry d (.resourceComment c) = .resourceComment (c.map (shSpan d)) := rfl
theorem shEntry_junk (d : Nat) (c : Span) : shEntry d (.junk c) = .junk (shSpan d c) := rfl

section
variable {d : Nat} {s₁ s₂ : Src}

theorem getAttribute_shift (h : Shift d s₁ s₂) {F₁ F₂ : Nat} {p : Nat} {r : R (Attribute Span)}
    (hr : getAttribute s₁ F₁ p = r) (hne : r ≠ .fuel) (hF : F₁ ≤ F₂) :
    getAttribute s₂ F₂ (p + d) = shR (Attribute.mapS (shSpan d)) d r := by
  subst hr
  simp only [getAttribute] at hne ⊢
  shs h
  cases hid : getIdentifier s₁ p with
  | ok id q =>
    shs h
    cases hx : expectByte s₁ (skipBlankInline s₁ q) 61 with
    | ok u q2 =>
      shs h
      cases hp : getPattern s₁ F₁ q2 with
      | fuel => exact absurd (by simp [hid, hx, hp]) hne
      | panic msg => rw [getPattern_shift h hp (by nofun) hF]; rfl
      | err e q3 => rw [getPattern_shift h hp (by nofun) hF]; rfl
      | ok o q3 =>
        rw [getPattern_shift h hp (by nofun) hF]
        cases o with
        | none => simp only [shR_ok, shR_err, Option.map_none, shErr_mkErr, shEK]
        | some pat => simp only [shR_ok, Option.map_some, Attribute.mapS]
    | err e q2 => rfl
    | panic msg => rfl
    | fuel => rfl
  | err e q => rfl
  | panic msg => rfl
  | fuel => rfl

theorem getAttributesGo_shift (h : Shift d s₁ s₂) {F₁ F₂ : Nat} (hF : F₁ ≤ F₂) (n : Nat) (acc : List (Attribute Span))
    (p : Nat) (r : R (List (Attribute Span)))
    (hr : getAttributesGo s₁ F₁ n acc p = r) (hne : r ≠ .fuel) :
    getAttributesGo s₂ F₂ n (acc.map (Attribute.mapS (shSpan d))) (p + d) = shR (List.map (Attribute.mapS (shSpan d))) d r := by
  induction n generalizing acc p r with
  | zero => subst hr; simp [getAttributesGo] at hne
  | succ n ih =>
    subst hr
    simp only [getAttributesGo] at hne ⊢
    shs h
    rcases takeByteIf_cases s₁ (skipBlankInline s₁ p) 46 with ⟨ht, _⟩ | ⟨ht, _⟩
    · simp only [ht, Bool.not_true, Bool.false_eq_true, if_false] at hne ⊢
      cases ha : getAttribute s₁ F₁ (skipBlankInline s₁ p + 1) with
      | fuel => rw [ha] at hne; exact absurd rfl hne
      | panic msg => rw [getAttribute_shift h ha (by nofun) hF]; rfl
      | err e q => rw [getAttribute_shift h ha (by nofun) hF]; rfl
      | ok a q =>
        rw [getAttribute_shift h ha (by nofun) hF]
        rw [ha] at hne
        simp only [] at hne
        simp only [shR_ok]
        rw [← ih (acc ++ [a]) q _ rfl hne, List.map_append, List.map_cons, List.map_nil]
    · simp only [ht, Bool.not_false, if_true, shR_ok]

theorem getAttributes_shift (h : Shift d s₁ s₂) {F₁ F₂ : Nat} {p : Nat} {r : R (List (Attribute Span))}
    (hr : getAttributes s₁ F₁ p = r) (hne : r ≠ .fuel) (hF : F₁ ≤ F₂) :
    getAttributes s₂ F₂ (p + d) = shR (List.map (Attribute.mapS (shSpan d))) d r := by
  have := getAttributesGo_shift h hF (s₁.size - p + 1) [] p r hr hne
  simpa only [getAttributes, h.fuel1, List.map_nil] using this

theorem getMessage_shift (h : Shift d s₁ s₂) {F₁ F₂ : Nat} {es p : Nat} {r : R (Message Span)}
    (hr : getMessage s₁ F₁ es p = r) (hne : r ≠ .fuel) (hF : F₁ ≤ F₂) :
    getMessage s₂ F₂ (es + d) (p + d) = shR (shMsg d) d r := by
  subst hr
  simp only [getMessage] at hne ⊢
  shs h
  cases hid : getIdentifier s₁ p with
  | ok id q =>
    shs h
    cases hx : expectByte s₁ (skipBlankInline s₁ q) 61 with
    | ok u q2 =>
      shs h
      cases hp : getPattern s₁ F₁ q2 with
      | fuel => exact absurd (by simp [hid, hx, hp]) hne
      | panic msg => rw [getPattern_shift h hp (by nofun) hF]; rfl
      | err e q3 => rw [getPattern_shift h hp (by nofun) hF]; rfl
      | ok pat q3 =>
        rw [getPattern_shift h hp (by nofun) hF]
        shs h
        cases ha : getAttributes s₁ F₁ (skipBlankBlock s₁ q3).1 with
        | fuel => exact absurd (by simp [hid, hx, hp, ha]) hne
        | panic msg => rw [getAttributes_shift h ha (by nofun) hF]; rfl
        | err e q3 => rw [getAttributes_shift h ha (by nofun) hF]; rfl
        | ok attrs q5 =>
          rw [getAttributes_shift h ha (by nofun) hF]
          simp only [shR_ok, Option.isNone_map, List.isEmpty_map]
          split
          · simp only [shR_err, shErr_mkErr2, shEK]
          · simp only [shR_ok, shMsg, Option.map_none]
    | err e q2 => rfl
    | panic msg => rfl
    | fuel => rfl
  | err e q => rfl
  | panic msg => rfl
  | fuel => rfl

theorem getTerm_shift (h : Shift d s₁ s₂) {F₁ F₂ : Nat} {es p : Nat} {r : R (Term Span)}
    (hr : getTerm s₁ F₁ es p = r) (hne : r ≠ .fuel) (hF : F₁ ≤ F₂) :
    getTerm s₂ F₂ (es + d) (p + d) = shR (shTerm d) d r := by
  subst hr
  simp only [getTerm] at hne ⊢
  shs h
  cases h0 : expectByte s₁ p 45 with
  | ok u p0 =>
    shs h
    cases hid : getIdentifier s₁ p0 with
    | ok id q =>
      shs h
      cases hx : expectByte s₁ (skipBlankInline s₁ q) 61 with
      | ok u q2 =>
        shs h
        cases hp : getPattern s₁ F₁ (skipBlankInline s₁ q2) with
        | fuel => exact absurd (by simp [h0, hid, hx, hp]) hne
        | panic msg => rw [getPattern_shift h hp (by nofun) hF]; rfl
        | err e q3 => rw [getPattern_shift h hp (by nofun) hF]; rfl
        | ok pat q3 =>
          rw [getPattern_shift h hp (by nofun) hF]
          shs h
          cases ha : getAttributes s₁ F₁ (skipBlankBlock s₁ q3).1 with
          | fuel => exact absurd (by simp [h0, hid, hx, hp, ha]) hne
          | panic msg => rw [getAttributes_shift h ha (by nofun) hF]; rfl
          | err e q3 => rw [getAttributes_shift h ha (by nofun) hF]; rfl
          | ok attrs q5 =>
            rw [getAttributes_shift h ha (by nofun) hF]
            cases pat with
            | none => simp only [shR_ok, shR_err, Option.map_none, shErr_mkErr2, shEK]
            | some v => simp only [shR_ok, Option.map_some, shTerm, Option.map_none]
      | err e q2 => rfl
      | panic msg => rfl
      | fuel => rfl
    | err e q => rfl
    | panic msg => rfl
    | fuel => rfl
  | err e q => rfl
  | panic msg => rfl
  | fuel => rfl

theorem getEntry_shift (h : Shift d s₁ s₂) {F₁ F₂ : Nat} {p : Nat} {r : R (Entry Span)}
    (hr : getEntry s₁ F₁ p = r) (hne : r ≠ .fuel) (hF : F₁ ≤ F₂) :
    getEntry s₂ F₂ (p + d) = shR (shEntry d) d r := by
  subst hr
  have hT : s₁[p]? = some 45 → getTerm s₁ F₁ p p ≠ .fuel := by
    intro h45 hf; apply hne; simp only [getEntry, h45, hf]
  have hM : s₁[p]? ≠ some 35 → s₁[p]? ≠ some 45 → getMessage s₁ F₁ p p ≠ .fuel := by
    intro h1 h2 hf; apply hne; unfold getEntry; split
    · exact absurd ‹_› h1
    · exact absurd ‹_› h2
    · simp only [hf]
  simp only [getEntry]
  shs h
  split
  · rename_i h35
    rw [getComment_shift h p h35]
    cases getComment s₁ p with
    | ok v q =>
      obtain ⟨content, level⟩ := v
      simp only [shR_ok, shCm]
      repeat' split
      all_goals rfl
    | err e q => rfl
    | panic msg => rfl
    | fuel => rfl
  · rename_i h45
    cases ht : getTerm s₁ F₁ p p with
    | fuel => exact absurd ht (hT h45)
    | ok t q => rw [getTerm_shift h ht (by nofun) hF]; rfl
    | err e q => rw [getTerm_shift h ht (by nofun) hF]; rfl
    | panic msg => rw [getTerm_shift h ht (by nofun) hF]; rfl
  · rename_i h1 h2
    have hm := hM (fun hh => h1 hh) (fun hh => h2 hh)
    cases ht : getMessage s₁ F₁ p p with
    | fuel => exact absurd ht hm
    | ok t q => rw [getMessage_shift h ht (by nofun) hF]; rfl
    | err e q => rw [getMessage_shift h ht (by nofun) hF]; rfl
    | panic msg => rw [getMessage_shift h ht (by nofun) hF]; rfl

theorem getEntryRuntime_shift (h : Shift d s₁ s₂) {F₁ F₂ : Nat} {p : Nat} {r : R (Option (Entry Span))}
    (hr : getEntryRuntime s₁ F₁ p = r) (hne : r ≠ .fuel) (hF : F₁ ≤ F₂) :
    getEntryRuntime s₂ F₂ (p + d) = shR (Option.map (shEntry d)) d r := by
  subst hr
  have hT : s₁[p]? = some 45 → getTerm s₁ F₁ p p ≠ .fuel := by
    intro h45 hf; apply hne; simp only [getEntryRuntime, h45, hf]
  have hM : s₁[p]? ≠ some 35 → s₁[p]? ≠ some 45 → getMessage s₁ F₁ p p ≠ .fuel := by
    intro h1 h2 hf; apply hne; unfold getEntryRuntime; split
    · exact absurd ‹_› h1
    · exact absurd ‹_› h2
    · simp only [hf]
  simp only [getEntryRuntime]
  shs h
  split
  · simp only [skipComment_shift h, shR_ok, Option.map_none]
  · rename_i h45
    cases ht : getTerm s₁ F₁ p p with
    | fuel => exact absurd ht (hT h45)
    | ok t q => rw [getTerm_shift h ht (by nofun) hF]; rfl
    | err e q => rw [getTerm_shift h ht (by nofun) hF]; rfl
    | panic msg => rw [getTerm_shift h ht (by nofun) hF]; rfl
  · rename_i h1 h2
    have hm := hM (fun hh => h1 hh) (fun hh => h2 hh)
    cases ht : getMessage s₁ F₁ p p with
    | fuel => exact absurd ht hm
    | ok t q => rw [getMessage_shift h ht (by nofun) hF]; rfl
    | err e q => rw [getMessage_shift h ht (by nofun) hF]; rfl
    | panic msg => rw [getMessage_shift h ht (by nofun) hF]; rfl

/-! ## the two entry loops -/

theorem shErr_junk (d : Nat) (e : PErr) (a q1 : Nat) :
    ({ clampErr (shErr d e) (q1 + d) with slice := some (a + d, q1 + d) } : PErr) =
      shErr d { clampErr e q1 with slice := some (a, q1) } := by
  rw [clampErr_shift]; rfl

theorem parseRuntimeLoop_shift {d : Nat} {s₁ s₂ : Src} (h : Shift d s₁ s₂) {F₁ F₂ : Nat} (hF : F₁ ≤ F₂) :
    ∀ (N₁ N₂ : Nat), N₁ ≤ N₂ → ∀ (body : List (Entry Span)) (errs : List PErr) (p : Nat) (r : List (Entry Span) × List PErr),
      parseRuntimeLoop s₁ F₁ N₁ body errs p = .done r →
      parseRuntimeLoop s₂ F₂ N₂ (body.map (shEntry d)) (errs.map (shErr d)) (p + d)
        = .done (r.1.map (shEntry d), r.2.map (shErr d)) := by
  intro N₁
  induction N₁ with
  | zero => intro N₂ _ body errs p r hr; simp [parseRuntimeLoop] at hr
  | succ N ih =>
    intro N₂ hN body errs p r hr
    obtain ⟨N₂', rfl⟩ : ∃ k, N₂ = k + 1 := ⟨N₂ - 1, by omega⟩
    have hN' : N ≤ N₂' := by omega
    simp only [parseRuntimeLoop, h.lt] at hr ⊢
    by_cases hp : p < s₁.size
    · simp only [hp, if_true] at hr ⊢
      cases hE : getEntryRuntime s₁ F₁ p with
      | fuel => rw [hE] at hr; cases hr
      | panic msg => rw [hE] at hr; cases hr
      | ok o q =>
        rw [getEntryRuntime_shift h hE (by nofun) hF]
        rw [hE] at hr
        cases o with
        | none =>
          simp only [shR_ok, Option.map_none, skipBlankBlock_shift_fst h] at hr ⊢
          exact ih N₂' hN' _ _ _ _ hr
        | some e =>
          simp only [shR_ok, Option.map_some, skipBlankBlock_shift_fst h] at hr ⊢
          have := ih N₂' hN' _ _ _ _ hr
          simpa only [List.map_append, List.map_cons, List.map_nil] using this
      | err e q =>
        rw [getEntryRuntime_shift h hE (by nofun) hF]
        rw [hE] at hr
        simp only [shR_err, skipToNextEntryStart_shift h] at hr ⊢
        cases hs : skipToNextEntryStart s₁ p q with
        | none => rw [hs] at hr; cases hr
        | some q1 =>
          rw [hs] at hr
          simp only [Option.map_some, slice_shift h] at hr ⊢
          cases hsl : slice s₁ p q1 with
          | none => rw [hsl] at hr; cases hr
          | some content =>
            rw [hsl] at hr
            simp only [Option.map_some, skipBlankBlock_shift_fst h, shErr_junk] at hr ⊢
            have := ih N₂' hN' _ _ _ _ hr
            simpa only [List.map_append, List.map_cons, List.map_nil, shEntry_junk] using this
    · simp only [hp, if_false] at hr ⊢
      cases hr
      rfl

theorem parseLoop_shift {d : Nat} {s₁ s₂ : Src} (h : Shift d s₁ s₂) {F₁ F₂ : Nat} (hF : F₁ ≤ F₂) :
    ∀ (N₁ N₂ : Nat), N₁ ≤ N₂ → ∀ (body : List (Entry Span)) (errs : List PErr) (lc : Option (List Span)) (cnt p : Nat)
      (r : List (Entry Span) × List PErr),
      parseLoop s₁ F₁ N₁ body errs lc cnt p = .done r →
      parseLoop s₂ F₂ N₂ (body.map (shEntry d)) (errs.map (shErr d)) (lc.map (List.map (shSpan d))) cnt (p + d)
        = .done (r.1.map (shEntry d), r.2.map (shErr d)) := by
  intro N₁
  induction N₁ with
  | zero => intro N₂ _ body errs lc cnt p r hr; simp [parseLoop] at hr
  | succ N ih =>
    intro N₂ hN body errs lc cnt p r hr
    obtain ⟨N₂', rfl⟩ : ∃ k, N₂ = k + 1 := ⟨N₂ - 1, by omega⟩
    have hN' : N ≤ N₂' := by omega
    by_cases hp : p < s₁.size
    · simp only [parseLoop, h.lt, hp, if_true] at hr ⊢
      cases hE : getEntry s₁ F₁ p with
      | fuel => rw [hE] at hr; cases lc <;> cases hr
      | panic msg => rw [hE] at hr; cases lc <;> cases hr
      | ok ent q =>
        simp only [getEntry_shift h hE (by nofun) hF, shR_ok]
        simp only [hE] at hr
        -- the recursive call, in the shape the goal takes after the `match`es are reduced
        have fin : ∀ (b' : List (Entry Span)) (lc' : Option (List Span)),
            parseLoop s₁ F₁ N b' errs lc' (skipBlankBlock s₁ q).2 (skipBlankBlock s₁ q).1 = .done r →
            parseLoop s₂ F₂ N₂' (b'.map (shEntry d)) (errs.map (shErr d)) (lc'.map (List.map (shSpan d)))
              (skipBlankBlock s₂ (q + d)).2 (skipBlankBlock s₂ (q + d)).1 =
              .done (r.1.map (shEntry d), r.2.map (shErr d)) := by
          intro b' lc' hr'
          rw [skipBlankBlock_shift_fst h, skipBlankBlock_shift_snd h]
          exact ih N₂' hN' _ _ _ _ _ _ hr'
        cases lc with
        | none =>
          simp only [Option.map_none] at hr ⊢
          cases ent with
          | comment c => simp only [shEntry_comment]; exact fin _ (some c) hr
          | message m =>
            simp only [shEntry_message]
            have := fin _ none hr
            simpa only [List.map_append, List.map_cons, List.map_nil, Option.map_none, shEntry_message] using this
          | term t =>
            simp only [shEntry_term]
            have := fin _ none hr
            simpa only [List.map_append, List.map_cons, List.map_nil, Option.map_none, shEntry_term] using this
          | groupComment c =>
            simp only [shEntry_groupComment]
            have := fin _ none hr
            simpa only [List.map_append, List.map_cons, List.map_nil, Option.map_none, shEntry_groupComment] using this
          | resourceComment c =>
            simp only [shEntry_resourceComment]
            have := fin _ none hr
            simpa only [List.map_append, List.map_cons, List.map_nil, Option.map_none, shEntry_resourceComment] using this
          | junk c =>
            simp only [shEntry_junk]
            have := fin _ none hr
            simpa only [List.map_append, List.map_cons, List.map_nil, Option.map_none, shEntry_junk] using this
        | some c0 =>
          simp only [Option.map_some] at hr ⊢
          cases ent with
          | comment c =>
            simp only [shEntry_comment] at hr ⊢
            have := fin _ (some c) hr
            simpa only [List.map_append, List.map_cons, List.map_nil, Option.map_some, shEntry_comment] using this
          | message m =>
            simp only [shEntry_message] at hr ⊢
            by_cases hc : cnt < 2
            · simp only [hc, if_true] at hr ⊢
              have := fin _ none hr
              simpa only [List.map_append, List.map_cons, List.map_nil, Option.map_none, shEntry_message, shMsg,
                Option.map_some] using this
            · simp only [hc, if_false] at hr ⊢
              have := fin _ none hr
              simpa only [List.map_append, List.map_cons, List.map_nil, Option.map_none, shEntry_message,
                shEntry_comment] using this
          | term t =>
            simp only [shEntry_term] at hr ⊢
            by_cases hc : cnt < 2
            · simp only [hc, if_true] at hr ⊢
              have := fin _ none hr
              simpa only [List.map_append, List.map_cons, List.map_nil, Option.map_none, shEntry_term, shTerm,
                Option.map_some] using this
            · simp only [hc, if_false] at hr ⊢
              have := fin _ none hr
              simpa only [List.map_append, List.map_cons, List.map_nil, Option.map_none, shEntry_term,
                shEntry_comment] using this
          | groupComment c =>
            simp only [shEntry_groupComment] at hr ⊢
            have := fin _ none hr
            simpa only [List.map_append, List.map_cons, List.map_nil, Option.map_none, shEntry_groupComment,
              shEntry_comment] using this
          | resourceComment c =>
            simp only [shEntry_resourceComment] at hr ⊢
            have := fin _ none hr
            simpa only [List.map_append, List.map_cons, List.map_nil, Option.map_none, shEntry_resourceComment,
              shEntry_comment] using this
          | junk c =>
            simp only [shEntry_junk] at hr ⊢
            have := fin _ none hr
            simpa only [List.map_append, List.map_cons, List.map_nil, Option.map_none, shEntry_junk,
              shEntry_comment] using this
      | err e q =>
        simp only [getEntry_shift h hE (by nofun) hF, shR_err]
        simp only [hE] at hr
        cases lc with
        | none =>
          simp only [Option.map_none, skipToNextEntryStart_shift h] at hr ⊢
          cases hs : skipToNextEntryStart s₁ p q with
          | none => rw [hs] at hr; cases hr
          | some q1 =>
            rw [hs] at hr
            simp only [Option.map_some, slice_shift h] at hr ⊢
            cases hsl : slice s₁ p q1 with
            | none => rw [hsl] at hr; cases hr
            | some content =>
              rw [hsl] at hr
              simp only [Option.map_some, skipBlankBlock_shift_fst h, skipBlankBlock_shift_snd h, shErr_junk] at hr ⊢
              have := ih N₂' hN' _ _ _ _ _ _ hr
              simpa only [List.map_append, List.map_cons, List.map_nil, shEntry_junk, Option.map_none] using this
        | some c0 =>
          simp only [Option.map_some, skipToNextEntryStart_shift h] at hr ⊢
          cases hs : skipToNextEntryStart s₁ p q with
          | none => rw [hs] at hr; cases hr
          | some q1 =>
            rw [hs] at hr
            simp only [Option.map_some, slice_shift h] at hr ⊢
            cases hsl : slice s₁ p q1 with
            | none => rw [hsl] at hr; cases hr
            | some content =>
              rw [hsl] at hr
              simp only [Option.map_some, skipBlankBlock_shift_fst h, skipBlankBlock_shift_snd h, shErr_junk] at hr ⊢
              have := ih N₂' hN' _ _ _ _ _ _ hr
              simpa only [List.map_append, List.map_cons, List.map_nil, shEntry_junk, shEntry_comment,
                Option.map_none] using this
    · simp only [parseLoop, h.lt, hp, if_false] at hr ⊢
      cases lc with
      | none => cases hr; rfl
      | some c =>
        cases hr
        simp only [Option.map_some, List.map_append, List.map_cons, List.map_nil, shEntry_comment]

end
end FluentProofs.Parser
