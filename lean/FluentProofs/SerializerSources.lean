import FluentProofs.SerializerUtf8
import FluentProofs.SerializerEntries
import FluentProofs.Props.C01
/-!
# Serializer lemmas, part 10: from trees to sources (C04)

For a tree that `parse` produced from a `String`, every string of the tree is a slice of valid UTF-8
at char boundaries, so the serializer's output satisfies the `&str` invariant
(`serialize_atb_of_parse`) and the tree-level round-trip theorems apply without that hypothesis.
-/
namespace FluentProofs.Ser
open FluentModel FluentModel.Syntax FluentModel.Syntax.Ser FluentProofs.Parser

/-- every string of a tree parsed from a `String` is good -/
theorem parse_strings_good (str : String) (t : Resource Span) (errs : List PErr)
    (hp : parse str.toUTF8.data = .done (t, errs)) :
    ∀ e ∈ resolve str.toUTF8.data t, allEntry GoodB e := by
  intro e he
  simp only [resolve, List.mem_map] at he
  obtain ⟨e', he', rfl⟩ := he
  have hv := (FluentProofs.C01.parse_slices_valid str (t, errs) hp).1 e' he'
  refine allEntry_mapS (FluentProofs.C01.ValidSlice str.toUTF8.data) GoodB _ ?_ e' hv
  intro sp hsp
  exact goodB_span (asciiThenBoundary_of_string str) (nch_of_string str) (slice_eq_some hsp).2

/-- **the serializer's output on a parsed tree keeps the `&str` invariant** -/
theorem serialize_atb_of_parse (str : String) (t : Resource Span) (errs : List PErr)
    (hp : parse str.toUTF8.data = .done (t, errs)) (withJunk : Bool) (out : Bytes)
    (h : serialize withJunk (resolve str.toUTF8.data t) = some out) : AsciiThenBoundary out.toArray :=
  serialize_atb withJunk _ (parse_strings_good str t errs hp) out h

/-- **`roundtrip_singleline_partial`, lifted to sources.**  For every `String` whose parse tree consists
of simple entries (`validSimpleEntry`, decidable): both full C04 statements hold for it — no side
condition. -/
theorem roundtrip_singleline_source (str : String) (withJunk : Bool) (t : Resource Span) (errs : List PErr)
    (hp : parse str.toUTF8.data = .done (t, errs))
    (hv : ∀ e ∈ resolve str.toUTF8.data t, validSimpleEntry e = true) :
    ∃ out, serialize withJunk (resolve str.toUTF8.data t) = some out ∧
      ∃ t', parse out.toArray = .done (t', []) ∧ resolve out.toArray t' = resolve str.toUTF8.data t ∧
        serialize withJunk (resolve out.toArray t') = some out := by
  obtain ⟨out, h1, h2⟩ := roundtrip_singleline withJunk _ hv
  exact ⟨out, h1, h2 (serialize_atb_of_parse str t errs hp withJunk out h1)⟩

end FluentProofs.Ser
