import FluentProofs.ParserLocalSimLeaf
/-!
# Locality of the parser, SIMULATION family, part 2b: the leaf scanners that stop at a line feed

Under `Sim N s₁ s₂`: scanners started before `N` (`scan_while`, numbers, identifiers, string literals, text slices)
return the same result on both sources and stay before `N`; started AT `N` the first byte decides (`…_simR`).
-/
namespace FluentProofs.Parser
open FluentModel.Syntax

section
variable {N : Nat} {s₁ s₂ : Src}

/-! ## scanners that stop at a line feed, started before `N` -/

theorem sim_scanWhileGo (h : Sim N s₁ s₂) (pred : UInt8 → Bool) (hpred : pred 10 = false) (k₁ k₂ p : Nat) (hp : p < N)
    (h1 : N - p ≤ k₁) (h2 : N - p ≤ k₂) :
    scanWhileGo s₂ pred k₂ p = scanWhileGo s₁ pred k₁ p ∧ scanWhileGo s₁ pred k₁ p < N := by
  induction k₁ generalizing k₂ p with
  | zero => omega
  | succ k₁ ih =>
    cases k₂ with
    | zero => omega
    | succ k₂ =>
      simp only [scanWhileGo, h.get p (Nat.le_of_lt hp)]
      split
      · rename_i b hb
        split
        · rename_i hpb
          have hne : b ≠ 10 := by intro e; subst e; rw [hpred] at hpb; cases hpb
          have hlt := h.succ_lt hp hb hne
          exact ih k₂ (p + 1) hlt (by omega) (by omega)
        · exact ⟨rfl, hp⟩
      · exact ⟨rfl, hp⟩

theorem scanWhile_sim (h : Sim N s₁ s₂) (pred : UInt8 → Bool) (hpred : pred 10 = false) {p : Nat} (hp : p < N) :
    scanWhile s₂ pred p = scanWhile s₁ pred p :=
  (sim_scanWhileGo h pred hpred _ _ p hp (by have := h.lt₁ (Nat.le_refl N); omega)
    (by have := h.lt₂ (Nat.le_refl N); omega)).1

theorem Sim.scanWhile_lt (h : Sim N s₁ s₂) (pred : UInt8 → Bool) (hpred : pred 10 = false) {p : Nat} (hp : p < N) :
    scanWhile s₁ pred p < N :=
  (sim_scanWhileGo h pred hpred _ (s₂.size - p) p hp (by have := h.lt₁ (Nat.le_refl N); omega)
    (by have := h.lt₂ (Nat.le_refl N); omega)).2

theorem skipDigits_sim (h : Sim N s₁ s₂) {p : Nat} (hp : p < N) : skipDigits s₂ p = skipDigits s₁ p := by
  simp only [skipDigits, scanWhile_sim h isDigit (by decide) hp]

theorem Sim.skipDigits_ok_lt (h : Sim N s₁ s₂) {p : Nat} (hp : p < N) {u : Unit} {q : Nat} (hr : skipDigits s₁ p = .ok u q) :
    q < N := by
  unfold skipDigits at hr
  simp only [] at hr
  split at hr
  · cases hr
  · injection hr with _ h2
    rw [← h2]; exact h.scanWhile_lt isDigit (by decide) hp

theorem sim_skipDigits_err {s : Src} {p : Nat} {e : PErr} {q : Nat} (hr : skipDigits s p = .err e q) : q = p := by
  unfold skipDigits at hr
  simp only [] at hr
  split at hr
  · injection hr with _ h2; exact h2.symm
  · cases hr

/-- `take_byte_if` for a byte other than `\n` stays below `N` -/
theorem Sim.takeByteIf_lt (h : Sim N s₁ s₂) {p : Nat} (hp : p < N) {b : UInt8} (hb : b ≠ 10) : (takeByteIf s₁ p b).1 < N := by
  rcases takeByteIf_cases s₁ p b with ⟨e, hbyte⟩ | ⟨e, _⟩ <;> rw [e]
  · exact h.succ_lt hp hbyte hb
  · exact hp

theorem getNumberLiteral_sim (h : Sim N s₁ s₂) {p : Nat} (hp : p < N) :
    getNumberLiteral s₂ p = getNumberLiteral s₁ p ∧ CurLe N (getNumberLiteral s₁ p) := by
  unfold getNumberLiteral
  rw [takeByteIf_sim h (Nat.le_of_lt hp)]
  have hp1 : (takeByteIf s₁ p 45).1 < N := h.takeByteIf_lt hp (by decide)
  generalize takeByteIf s₁ p 45 = t at hp1 ⊢
  obtain ⟨p1, m⟩ := t
  simp only [] at hp1 ⊢
  rw [skipDigits_sim h hp1]
  cases hd : skipDigits s₁ p1 with
  | ok u p2 =>
    simp only []
    have hp2 := h.skipDigits_ok_lt hp1 hd
    rw [takeByteIf_sim h (Nat.le_of_lt hp2)]
    have hp3 : (takeByteIf s₁ p2 46).1 < N := h.takeByteIf_lt hp2 (by decide)
    generalize takeByteIf s₁ p2 46 = t at hp3 ⊢
    obtain ⟨p3, dot⟩ := t
    simp only [] at hp3 ⊢
    cases dot with
    | true =>
      simp only [if_true]
      rw [skipDigits_sim h hp3]
      cases hd2 : skipDigits s₁ p3 with
      | ok u p4 =>
        simp only []
        have hp4 := h.skipDigits_ok_lt hp3 hd2
        rw [slice_sim h p (Nat.le_of_lt hp4)]
        refine ⟨rfl, ?_⟩
        split <;> cur_close
      | err e q =>
        have := sim_skipDigits_err hd2
        exact ⟨rfl, by cur_close⟩
      | panic m => exact ⟨rfl, trivial⟩
      | fuel => exact ⟨rfl, trivial⟩
    | false =>
      simp only [Bool.false_eq_true, if_false]
      rw [slice_sim h p (Nat.le_of_lt hp3)]
      refine ⟨rfl, ?_⟩
      split <;> cur_close
  | err e q =>
    have := sim_skipDigits_err hd
    exact ⟨rfl, by cur_close⟩
  | panic m => exact ⟨rfl, trivial⟩
  | fuel => exact ⟨rfl, trivial⟩

theorem getIdentifierUnchecked_sim (h : Sim N s₁ s₂) {p : Nat} (hp : p < N) :
    getIdentifierUnchecked s₂ p = getIdentifierUnchecked s₁ p ∧
      ∀ sp q, getIdentifierUnchecked s₁ p = .ok sp q → q < N ∧ sp.stop = q := by
  unfold getIdentifierUnchecked
  have hlt := h.scanWhile_lt isIdentByte (by decide) hp
  simp only [scanWhile_sim h isIdentByte (by decide) hp]
  cases usub p 1 with
  | none => exact ⟨rfl, by intro sp q hq; cases hq⟩
  | some a =>
    simp only []
    rw [slice_sim h a (Nat.le_of_lt hlt)]
    refine ⟨rfl, ?_⟩
    intro sp q hq
    split at hq
    · rename_i sp' hsl
      obtain ⟨rfl, _⟩ := slice_eq_some hsl
      injection hq with h1 h2
      subst h1 h2
      exact ⟨hlt, rfl⟩
    · cases hq

/-- `get_identifier_unchecked` never reports an error -/
theorem sim_getIdentifierUnchecked_not_err {s : Src} {p : Nat} {e : PErr} {q : Nat} :
    getIdentifierUnchecked s p ≠ .err e q := by
  unfold getIdentifierUnchecked
  simp only []
  intro hq
  split at hq
  · cases hq
  · split at hq <;> cases hq

theorem getIdentifier_sim (h : Sim N s₁ s₂) {p : Nat} (hp : p < N) :
    getIdentifier s₂ p = getIdentifier s₁ p ∧ CurLe N (getIdentifier s₁ p) ∧
      ∀ sp q, getIdentifier s₁ p = .ok sp q → q < N ∧ sp.stop = q := by
  unfold getIdentifier
  rw [isIdentifierStart_sim h (Nat.le_of_lt hp)]
  split
  · exact ⟨rfl, by cur_close, by intro sp q hq; cases hq⟩
  · rename_i hc
    have hc : isIdentifierStart s₁ p = true := by simpa using hc
    obtain ⟨b, hb, ha⟩ := (isIdentifierStart_iff s₁ p).mp hc
    have hne : b ≠ 10 := by intro e; subst e; revert ha; decide
    have hu := getIdentifierUnchecked_sim h (h.succ_lt hp hb hne)
    refine ⟨hu.1, ?_, hu.2⟩
    cases hr : getIdentifierUnchecked s₁ (p + 1) with
    | ok sp q => have := (hu.2 sp q hr).1; cur_close
    | err e q => exact absurd hr sim_getIdentifierUnchecked_not_err
    | panic m => trivial
    | fuel => trivial

/-- `p ≤ N`: at `N` there is no `.` -/
theorem getAttributeAccessor_sim (h : Sim N s₁ s₂) {p : Nat} (hp : p ≤ N) :
    getAttributeAccessor s₂ p = getAttributeAccessor s₁ p ∧ CurLe N (getAttributeAccessor s₁ p) := by
  unfold getAttributeAccessor
  rw [takeByteIf_sim h hp]
  rcases takeByteIf_cases s₁ p 46 with ⟨e, hb⟩ | ⟨e, _⟩ <;> rw [e] <;> simp only []
  · have hpl := h.lt_of_byte hp hb (by decide)
    have hlt := h.succ_lt hpl hb (by decide)
    have := getIdentifier_sim h hlt
    rw [this.1]
    simp only [if_true]
    refine ⟨trivial, ?_⟩
    have hc := this.2.1
    cases hid : getIdentifier s₁ (p + 1) with
    | ok id q' => rw [hid] at hc; exact hc
    | err e q' => rw [hid] at hc; exact hc
    | panic m => trivial
    | fuel => trivial
  · simp only [Bool.false_eq_true, if_false]
    exact ⟨trivial, by cur_close⟩

theorem sim_wallByte_bnd : ∀ b : UInt8, wallByte b = true → ((b &&& 0xC0) != 0x80) = true := by
  apply forall_uint8; decide +kernel

/-- `N` is a char boundary -/
theorem Sim.bnd_N (h : Sim N s₁ s₂) : isBoundary s₁ N = true := by
  obtain ⟨b, hb, hw⟩ := h.wall₁
  simp [isBoundary, hb, sim_wallByte_bnd b hw]

theorem sim_nextBoundaryGo (h : Sim N s₁ s₂) (k₁ k₂ i : Nat) (hi : i ≤ N) (h1 : N - i + 1 ≤ k₁) (h2 : N - i + 1 ≤ k₂) :
    nextBoundaryGo s₂ k₂ i = nextBoundaryGo s₁ k₁ i ∧ nextBoundaryGo s₁ k₁ i ≤ N := by
  induction k₁ generalizing k₂ i with
  | zero => omega
  | succ k₁ ih =>
    cases k₂ with
    | zero => omega
    | succ k₂ =>
      simp only [nextBoundaryGo, isBoundary_sim h hi]
      split
      · exact ⟨rfl, hi⟩
      · rename_i hnb
        have hlt : i < N := by
          by_cases he : i = N
          · subst he; exact absurd h.bnd_N hnb
          · omega
        exact ih k₂ (i + 1) hlt (by omega) (by omega)

theorem nextBoundary_sim (h : Sim N s₁ s₂) {i : Nat} (hi : i ≤ N) :
    nextBoundary s₂ i = nextBoundary s₁ i ∧ nextBoundary s₁ i ≤ N :=
  sim_nextBoundaryGo h _ _ i hi (by have := h.lt₁ (Nat.le_refl N); omega) (by have := h.lt₂ (Nat.le_refl N); omega)

theorem sim_skipHexGo (h : Sim N s₁ s₂) (len p : Nat) (hp : p < N) :
    skipHexGo s₂ len p = skipHexGo s₁ len p ∧ skipHexGo s₁ len p < N := by
  induction len generalizing p with
  | zero => exact ⟨rfl, hp⟩
  | succ len ih =>
    simp only [skipHexGo, h.get p (Nat.le_of_lt hp)]
    split
    · rename_i b hb
      split
      · rename_i hx
        have hne : b ≠ 10 := by intro e; subst e; revert hx; decide
        exact ih (p + 1) (h.succ_lt hp hb hne)
      · exact ⟨rfl, hp⟩
    · exact ⟨rfl, hp⟩

theorem skipUnicodeEscapeSequence_sim (h : Sim N s₁ s₂) {p : Nat} (len : Nat) (hp : p < N) :
    skipUnicodeEscapeSequence s₂ p len = skipUnicodeEscapeSequence s₁ p len ∧
      CurLe (N - 1) (skipUnicodeEscapeSequence s₁ p len) := by
  have hx := sim_skipHexGo h len p hp
  have hlt := hx.2
  have hnb := nextBoundary_sim h (i := skipHexGo s₁ len p + 1) (by omega)
  unfold skipUnicodeEscapeSequence
  simp only [hx.1]
  split
  · have g1 : ¬ skipHexGo s₁ len p ≥ s₁.size := by have := h.lt₁ (Nat.le_of_lt hlt); omega
    have g2 : ¬ skipHexGo s₁ len p ≥ s₂.size := by have := h.lt₂ (Nat.le_of_lt hlt); omega
    rw [if_neg g1, if_neg g2, hnb.1, slice_sim h p hnb.2]
    refine ⟨rfl, ?_⟩
    split <;> cur_close
  · exact ⟨rfl, by cur_close⟩

theorem sim_scanStringGo (h : Sim N s₁ s₂) (k₁ k₂ p : Nat) (hp : p < N) (h1 : N - p ≤ k₁) (h2 : N - p ≤ k₂) :
    scanStringGo s₂ k₂ p = scanStringGo s₁ k₁ p ∧ CurLe (N - 1) (scanStringGo s₁ k₁ p) := by
  induction k₁ generalizing k₂ p with
  | zero => omega
  | succ k₁ ih =>
    cases k₂ with
    | zero => omega
    | succ k₂ =>
      simp only [scanStringGo, h.get p (Nat.le_of_lt hp)]
      split
      · exact ⟨rfl, by cur_close⟩
      · rename_i hb
        have hlt := h.succ_lt hp hb (by decide)
        rw [h.get _ (Nat.le_of_lt hlt)]
        split
        · rename_i hb1
          have hlt2 := h.succ_lt hlt hb1 (by decide)
          exact ih k₂ (p + 2) hlt2 (by omega) (by omega)
        · rename_i hb1
          have hlt2 := h.succ_lt hlt hb1 (by decide)
          exact ih k₂ (p + 2) hlt2 (by omega) (by omega)
        · rename_i hb1
          have hlt2 := h.succ_lt hlt hb1 (by decide)
          have hu := skipUnicodeEscapeSequence_sim h 4 hlt2
          rw [hu.1]
          cases hs : skipUnicodeEscapeSequence s₁ (p + 2) 4 with
          | ok u' q' =>
            have hm := skipUnicodeEscapeSequence_mono s₁ (p + 2) 4
            have hc := hu.2
            rw [hs] at hm hc
            simp only [mono_ok] at hm
            simp only [curLe_ok] at hc
            exact ih k₂ q' (by omega) (by omega) (by omega)
          | err e q' =>
            have hc := hu.2
            rw [hs] at hc
            exact ⟨rfl, hc⟩
          | panic m => exact ⟨rfl, trivial⟩
          | fuel => exact ⟨rfl, trivial⟩
        · rename_i hb1
          have hlt2 := h.succ_lt hlt hb1 (by decide)
          have hu := skipUnicodeEscapeSequence_sim h 6 hlt2
          rw [hu.1]
          cases hs : skipUnicodeEscapeSequence s₁ (p + 2) 6 with
          | ok u' q' =>
            have hm := skipUnicodeEscapeSequence_mono s₁ (p + 2) 6
            have hc := hu.2
            rw [hs] at hm hc
            simp only [mono_ok] at hm
            simp only [curLe_ok] at hc
            exact ih k₂ q' (by omega) (by omega) (by omega)
          | err e q' =>
            have hc := hu.2
            rw [hs] at hc
            exact ⟨rfl, hc⟩
          | panic m => exact ⟨rfl, trivial⟩
          | fuel => exact ⟨rfl, trivial⟩
        · exact ⟨rfl, by cur_close⟩
      · exact ⟨rfl, by cur_close⟩
      · exact ⟨rfl, by cur_close⟩
      · rename_i b _ _ hne hb
        have hlt := h.succ_lt hp hb hne
        exact ih k₂ (p + 1) hlt (by omega) (by omega)

theorem scanString_sim (h : Sim N s₁ s₂) {p : Nat} (hp : p < N) :
    scanString s₂ p = scanString s₁ p ∧ CurLe (N - 1) (scanString s₁ p) :=
  sim_scanStringGo h _ _ p hp (by have := h.lt₁ (Nat.le_refl N); omega) (by have := h.lt₂ (Nat.le_refl N); omega)

theorem sim_memchr3Go (h : Sim N s₁ s₂) (k₁ k₂ p : Nat) (hp : p < N) (h1 : N - p ≤ k₁) (h2 : N - p ≤ k₂) :
    memchr3Go s₂ k₂ p = memchr3Go s₁ k₁ p ∧ ∃ e, memchr3Go s₁ k₁ p = some e ∧ e < N := by
  induction k₁ generalizing k₂ p with
  | zero => omega
  | succ k₁ ih =>
    cases k₂ with
    | zero => omega
    | succ k₂ =>
      simp only [memchr3Go, h.get p (Nat.le_of_lt hp)]
      split
      · rename_i h0
        have : s₁.size ≤ p := by simpa using h0
        have := h.lt₁ (Nat.le_of_lt hp); omega
      · rename_i b hb
        split
        · exact ⟨rfl, p, rfl, hp⟩
        · rename_i hc
          have hne : b ≠ 10 := by intro e; subst e; simp at hc
          exact ih k₂ (p + 1) (h.succ_lt hp hb hne) (by omega) (by omega)

theorem memchr3_sim (h : Sim N s₁ s₂) {p : Nat} (hp : p < N) :
    memchr3 s₂ p = memchr3 s₁ p ∧ ∃ e, memchr3 s₁ p = some e ∧ e < N :=
  sim_memchr3Go h _ _ p hp (by have := h.lt₁ (Nat.le_refl N); omega) (by have := h.lt₂ (Nat.le_refl N); omega)

theorem getTextSlice_sim (h : Sim N s₁ s₂) {p : Nat} (hp : p < N) : getTextSlice s₂ p = getTextSlice s₁ p := by
  obtain ⟨e1, e, he, hlt⟩ := memchr3_sim h hp
  have hge : p ≤ e := memchr3Go_ge he
  unfold getTextSlice
  have hs1 : ¬ p > s₁.size := by have := h.lt₁ (Nat.le_of_lt hp); omega
  have hs2 : ¬ p > s₂.size := by have := h.lt₂ (Nat.le_of_lt hp); omega
  rw [if_neg hs1, if_neg hs2, e1, he]
  simp only []
  rw [h.get e (Nat.le_of_lt hlt)]
  split
  · rfl
  · by_cases hgt : e > p
    · rw [h.get (e - 1) (by omega), nonBlank_sim h p (b := e - 1) (by omega), nonBlank_sim h p (b := e) (by omega)]
    · simp only [hgt, false_and, if_false]
      rw [nonBlank_sim h p (b := e) (by omega)]
  · rw [nonBlank_sim h p (b := e) (by omega)]
  · rfl

theorem Sim.getTextSlice_ok (h : Sim N s₁ s₂) {p : Nat} (hp : p < N) {start stop : Nat} {nb : Bool} {term : Termination} {q : Nat}
    (hr : getTextSlice s₁ p = .ok (start, stop, nb, term) q) :
    start = p ∧ stop ≤ N ∧ q ≤ N ∧ (q = N → term = .lineFeed) := by
  obtain ⟨_, e, he, hlt⟩ := memchr3_sim h hp
  have hge : p ≤ e := memchr3Go_ge he
  unfold getTextSlice at hr
  have hs1 : ¬ p > s₁.size := by have := h.lt₁ (Nat.le_of_lt hp); omega
  rw [if_neg hs1, he] at hr
  simp only [] at hr
  split at hr
  · cases hr
  · split at hr
    · simp only [R.ok.injEq, Prod.mk.injEq] at hr
      obtain ⟨⟨rfl, rfl, _, rfl⟩, rfl⟩ := hr
      exact ⟨rfl, by omega, by omega, fun hq => by omega⟩
    · simp only [R.ok.injEq, Prod.mk.injEq] at hr
      obtain ⟨⟨rfl, rfl, _, rfl⟩, rfl⟩ := hr
      exact ⟨rfl, by omega, by omega, fun _ => rfl⟩
  · simp only [R.ok.injEq, Prod.mk.injEq] at hr
    obtain ⟨⟨rfl, rfl, _, rfl⟩, rfl⟩ := hr
    exact ⟨rfl, by omega, by omega, fun hq => by omega⟩
  · cases hr

theorem Sim.getTextSlice_err (h : Sim N s₁ s₂) {p : Nat} (hp : p < N) {e : PErr} {q : Nat}
    (hr : getTextSlice s₁ p = .err e q) : q < N := by
  obtain ⟨_, e', he, hlt⟩ := memchr3_sim h hp
  unfold getTextSlice at hr
  have hs1 : ¬ p > s₁.size := by have := h.lt₁ (Nat.le_of_lt hp); omega
  rw [if_neg hs1, he] at hr
  simp only [] at hr
  split at hr
  · injection hr with _ h2; omega
  · split at hr <;> cases hr
  · cases hr
  · cases hr

/-! ## at `N` itself: the first byte decides -/

theorem sim_getIdentifierUnchecked_past {s : Src} {M p : Nat} (hp : M < p) : Past M (getIdentifierUnchecked s p) := by
  unfold getIdentifierUnchecked
  have := scanWhile_le s isIdentByte p
  simp only []
  split
  · trivial
  · split <;> cur_close

/-- `get_identifier` at `p ≤ N`: the same error at `N`, or both runs are inside the entry head -/
theorem getIdentifier_simR (h : Sim N s₁ s₂) {p : Nat} (hp : p ≤ N) : SimR N (Hash s₁ N) (getIdentifier s₁ p) (getIdentifier s₂ p) := by
  by_cases hlt : p < N
  · have := getIdentifier_sim h hlt
    exact SimR.of_eq this.1 this.2.1
  · have hpN : p = N := by omega
    subst hpN
    have e := isIdentifierStart_sim h (Nat.le_refl p)
    by_cases hc : isIdentifierStart s₁ p = true
    · obtain ⟨b, hb, ha⟩ := (isIdentifierStart_iff s₁ p).mp hc
      have hH : ¬ Hash s₁ p := by
        intro hh
        unfold Hash at hh
        rw [hb] at hh
        injection hh with hh
        subst hh; revert ha; decide
      have e1 : getIdentifier s₁ p = getIdentifierUnchecked s₁ (p + 1) := by simp [getIdentifier, hc]
      have e2 : getIdentifier s₂ p = getIdentifierUnchecked s₂ (p + 1) := by simp [getIdentifier, e, hc]
      rw [e1, e2]
      exact SimR.of_past hH (sim_getIdentifierUnchecked_past (by omega)) (sim_getIdentifierUnchecked_past (by omega))
    · have hc : isIdentifierStart s₁ p = false := by simpa using hc
      have e1 : getIdentifier s₁ p = .err (mkErr (.expectedCharRange 0) p) p := by simp [getIdentifier, hc]
      have e2 : getIdentifier s₂ p = .err (mkErr (.expectedCharRange 0) p) p := by simp [getIdentifier, e, hc]
      rw [e1, e2]
      exact SimR.of_eq rfl (by cur_close)

theorem sim_scanWhile_stop {s : Src} {pred : UInt8 → Bool} {p : Nat} {b : UInt8} (hb : s[p]? = some b) (hpb : pred b = false) :
    scanWhile s pred p = p := by
  unfold scanWhile
  cases (s.size - p) with
  | zero => rfl
  | succ n => simp [scanWhileGo, hb, hpb]

/-- a number literal that starts with `-` reports a cursor behind the `-` -/
theorem sim_getNumberLiteral_past {s : Src} {p : Nat} (h45 : s[p]? = some 45) : Past p (getNumberLiteral s p) := by
  unfold getNumberLiteral
  rcases takeByteIf_cases s p 45 with ⟨e, _⟩ | ⟨_, hne⟩
  · rw [e]
    simp only []
    cases hd : skipDigits s (p + 1) with
    | ok u p2 =>
      have hm := skipDigits_mono s (p + 1)
      rw [hd] at hm
      simp only [mono_ok] at hm
      simp only []
      have h2 := takeByteIf_le s p2 46
      generalize takeByteIf s p2 46 = t at h2 ⊢
      obtain ⟨p3, dot⟩ := t
      simp only [] at h2 ⊢
      cases dot with
      | true =>
        simp only [if_true]
        cases hd2 : skipDigits s p3 with
        | ok u p4 =>
          have hm2 := skipDigits_mono s p3
          rw [hd2] at hm2
          simp only [mono_ok] at hm2
          simp only []
          split <;> cur_close
        | err e q => have := sim_skipDigits_err hd2; cur_close
        | panic m => trivial
        | fuel => trivial
      | false =>
        simp only [Bool.false_eq_true, if_false]
        split <;> cur_close
    | err e q => have := sim_skipDigits_err hd; cur_close
    | panic m => trivial
    | fuel => trivial
  · exact absurd h45 hne

/-- a number literal at a byte that is neither `-` nor a digit -/
theorem sim_getNumberLiteral_err {s : Src} {p : Nat} {b : UInt8} (hb : s[p]? = some b) (h45 : b ≠ 45) (hd : isDigit b = false) :
    getNumberLiteral s p = .err (mkErr (.expectedCharRange 1) p) p := by
  have hne : s[p]? ≠ some 45 := by rw [hb]; intro hh; injection hh with hh; exact h45 hh
  have et : takeByteIf s p 45 = (p, false) := by
    rcases takeByteIf_cases s p 45 with ⟨_, h1⟩ | ⟨e, _⟩
    · exact absurd h1 hne
    · exact e
  have ed : skipDigits s p = .err (mkErr (.expectedCharRange 1) p) p := by
    simp [skipDigits, sim_scanWhile_stop hb hd]
  unfold getNumberLiteral
  rw [et]
  simp only [ed]

theorem sim_wallByte_not_digit : ∀ b : UInt8, wallByte b = true → isDigit b = false := by
  apply forall_uint8; decide +kernel

theorem getNumberLiteral_simR (h : Sim N s₁ s₂) {p : Nat} (hp : p ≤ N) :
    SimR N (Hash s₁ N) (getNumberLiteral s₁ p) (getNumberLiteral s₂ p) := by
  by_cases hlt : p < N
  · have := getNumberLiteral_sim h hlt
    exact SimR.of_eq this.1 this.2
  · have hpN : p = N := by omega
    subst hpN
    obtain ⟨b, hb, hw⟩ := h.wall₁
    have hb2 : s₂[p]? = some b := by rw [h.get p (Nat.le_refl p)]; exact hb
    by_cases h45 : b = 45
    · subst h45
      have hH : ¬ Hash s₁ p := by
        intro hh
        unfold Hash at hh
        rw [hb] at hh
        cases hh
      exact SimR.of_past hH (sim_getNumberLiteral_past hb) (sim_getNumberLiteral_past hb2)
    · have hd := sim_wallByte_not_digit b hw
      rw [sim_getNumberLiteral_err hb h45 hd, sim_getNumberLiteral_err hb2 h45 hd]
      exact SimR.of_eq rfl (by cur_close)

theorem sim_variantKey_eq (s : Src) (p : Nat) :
    variantKey s p = if isNumberStart s p then mapR VKey.num (getNumberLiteral s p) else mapR VKey.ident (getIdentifier s p) := by
  unfold variantKey
  split
  · cases getNumberLiteral s p <;> rfl
  · cases getIdentifier s p <;> rfl

theorem variantKey_simR (h : Sim N s₁ s₂) {p : Nat} (hp : p ≤ N) : SimR N (Hash s₁ N) (variantKey s₁ p) (variantKey s₂ p) := by
  rw [sim_variantKey_eq, sim_variantKey_eq, isNumberStart_sim h hp]
  split
  · exact (getNumberLiteral_simR h hp).mapR
  · exact (getIdentifier_simR h hp).mapR

end

end FluentProofs.Parser
